#!/usr/bin/env python3
"""Regenerates /verif/MANIFEST.json from the enabled units and the per-property
metadata below.  A property is claimed iff at least one enabled unit serves it."""
import glob
import json
import os
import sys

HERE = os.path.dirname(os.path.abspath(__file__))
VERIF = os.path.dirname(HERE)
sys.path.insert(0, HERE)
import check  # noqa: E402

META = {
    'C01': ('bigWig round trip: section encoder == published layout (bw_enc), section decoder == exact filter/clip of the stored items in both byte orders (bw_dec), decode(encode(items)) == items lemma, batching keeps every accepted value once and in order under one chromosome id (bw_batch). Proved for all inputs by Verus on the real function text.',
            'NOT decided: the tokio task pipeline / channel order (R2 hand-off shim is assumed order-preserving), section offsets and chromosome table, zlib (inflate∘deflate = id assumed), options other than compress/items_per_slot/block_size. The property is therefore established per function, not for the composed writer.'),
    'C02': ('bigBed round trip: validation-then-batching keeps every accepted entry once, in order, unchanged, start-sorted batches (bb_batch); item count incremented exactly once per entry; block encoder == published layout and decoder == order-preserving filter (bb_enc/bb_dec when enabled).',
            'NOT decided: task pipeline/channels (R2 shim), autoSql storage, chromosome table, zlib; `rest` treated as bytes (UTF-8-ness dropped).'),
    'C03': ('bigWig range query per block: result == stored items with end > s && start < e, clipped, in stored order, nothing else, for section types 1-3 and both byte orders (bw_dec).',
            'NOT decided: which blocks are visited (C05 units), cache coherence / reopen / query history (reader state machines are outside the extracted functions), per-base `values()` array.'),
    'C04': ('bigBed range query: block span covers every entry of the block (bb_enc), decoder returns the order-preserving filter end >= s && start <= e (bb_dec), `overlaps` == closed-span intersection in (chrom, base) order and the no-miss lemmas (rt_nodes), node filter order-preserving.',
            'NOT decided: R-tree node spans cover their children (get_rtreeindex is iterator-adaptor code; bounded stand-in only when rt_build is enabled), pipeline, caches.'),
    'C05': ('R-tree: `compare_position`/`overlaps` against the lexicographic spec, `nodes_overlapping` == order-preserving filter of leaf/non-leaf items (rt_nodes); work-list search == pre-order DFS of the pointer graph with error propagation and termination (rt_search when enabled); on-disk layout: child pointers == real positions for every well-formed tree (rt_layout when enabled); item decoders (Kani, rt_items).',
            'NOT decided unboundedly: that get_rtreeindex builds a well-formed tree with covering spans (itertools chunks/closures are outside Verus; only a bounded Kani stand-in), so "search == linear scan" is proved relative to that assumption.'),
    'C06': ('whole-file summary: bigWig per-value update is exact on integers (items, bases) and shape-pinned on floats (bw_batch); bigBed sweep accounting (bb_sweep when enabled).',
            'NOT decided: float rounding (floats are uninterpreted: shape only), accumulation across chromosomes in the `advance` closures, header placement (hdr unit when enabled), IndexList behaves as a sequence (assumed).'),
    'C07': ('bigWig zoom: per-level tiling invariant with exact bases_covered == data bases in the record span, disjoint ordered records of length <= resolution, every data base in exactly one record, batches 1..=items_per_slot, nothing pending at chromosome end, termination (bw_zoom); zoom block bytes == published 32-byte record layout and block span covers its records (zoom_enc); zoom block decoder (zoom_dec when enabled).',
            'NOT decided: levels listed with strictly increasing resolution (write_zooms glue), f64->f32 narrowing error, the per-level independence of the outer loop (dropped by the R9 outline), value.end + size <= u32::MAX is an unchecked precondition.'),
    'C08': ('bigBed zoom: tiling layer over the flushed depth segments with exact covered-base counts (bb_zoom when enabled), shared zoom encoder/decoder units.',
            'NOT decided: as C07; sweep depth exactness only as far as bb_sweep/bb_zoom NOTES state.'),
    'C09': ('well-formed file: every writer unit has `bytes == format spec` postconditions written from the published layout, sharing no code with the readers: zoom blocks (zoom_enc), data blocks (bw_enc/bb_enc), header/zoom directory/summary/data count placement with a frame condition (hdr), R-tree layout (rt_layout) when enabled.',
            'NOT decided: chromosome B+ tree bytes, zlib stream validity (libdeflater assumed), mutual consistency of offsets across write_mid/write_zooms glue (data flow through unextracted generic code).'),
    'C10': ('readers decode any spec-conforming bytes: block decoders are proved against arithmetic decode specs with a symbolic byte order (bw_dec types 1-3, bb_dec, zoom_dec), header/zoom directory decode (info), R-tree item decoders for both byte orders (rt_items, Kani complete), node filter and search (rt_nodes, rt_search).',
            'NOT decided: multi-level chromosome trees (read_chrom_tree_block), cir_tree_non_leaf_items over-read (suspected defect D8, recorded), caching readers, libdeflater inflate.'),
    'C12': ('staging buffer: sequential protocol of the real TempFileBufferWriter/TempFileBuffer methods against a ghost `written` stream; every order of whole operations delivers d0 ++ written (tfb).',
            'ASSUMED, not proved: each method touches shared state through single linearizable swaps, so every interleaving is equivalent to an order of whole operations; condvar wake-ups / deadlock freedom not modelled.'),
    'C13': ('refusal as an IFF with no state change on Err for bigWig and bigBed process_val (bw_batch, bb_batch); every loop in every unit has a proved termination measure (zoom tiling, zoom-count loops, sweep, parser loops); absence of panics = overflow/index/assert obligations under stated preconditions.',
            'NOT decided: error propagation through spawned tasks and "never hangs" for the task pipeline (schedules), chromosome-order checks in the data sources, line parser.'),
    'C15': ('gap filling: FillValues::next enumerates exactly the specified gapless tiling (fill); merge_into pairwise split/sum (Kani, merge_into when enabled).',
            'NOT decided: ValueIter 50 000-base window accumulator, merge tool glue (clip/adjust/threshold, output names, base 0) - no function boundary within reach; stated in DESIGN §6 C15.'),
    'C17': ('per-region statistics: size, bases, weighted sum fold, min/max folds, mean0, mean, NaN when uncovered - exact on integers, shape-pinned on floats (stats), relative to the C03 query contract.',
            'NOT decided: thread-count independence (schedules), name column, values-over-bed fill loop; precondition start <= end of the region is not established by parse_bed (recorded in NOTES).'),
    'C18': ('FileView window invariant and seek/read semantics == isolated range for all offsets (fview); chunking cuts only at line starts, covers the file once, terminates (chunks).',
            'NOT decided: indexer bisection (do_index); recovery path of FileView after an I/O error (infinite recursion, documented); BufReader transparency.'),
    'C19': ('schema parser: every grammar-level loop terminates with measure len - pos, results bounded by input length, no reachable panic (asql_loops), relative to a stated tokenizer contract that was checked exhaustively on short strings outside the proof.',
            'NOT decided: tokenizer loops themselves (char_indices on &str is outside Verus), generator field count.'),
}
# properties whose enabled units are judged sufficient to claim (kept explicit: a property is
# not claimed just because a shared unit happens to serve it)
CLAIM = ['C01', 'C02', 'C03', 'C04', 'C05', 'C06', 'C07', 'C08', 'C09', 'C10', 'C12', 'C13', 'C15', 'C17', 'C18', 'C19']
NA = {
    'C11': 'quantifies over schedules of tokio tasks and OS threads; neither Verus (without rewriting the pipeline over its permission types = a model) nor Kani (no threads/async) can express it; the sequential facts it rests on are proved under C01/C12 but do not decide C11',
    'C14': 'quantifies over crash points / fault sequences across the whole pipeline; no per-call contract states "every prefix of the destination\'s operation history"; supporting facts (magic written last, no swallowed io::Error in the synchronous writer units) are proved under C09 but do not decide C14',
    'C16': 'process-level CLI behaviour over argument spellings, thread counts and schedules; compat_args is macro-generated OsString matching outside both verifiers\' practical reach',
    'C20': 'float-valued bin arithmetic inside a pyo3/numpy cdylib: Verus floats are uninterpreted (NaN-freedom/bin membership not expressible), the crate cannot be built under cargo kani',
}


def main():
    props = check.all_props()
    claimed = []
    for p in props:
        units = [os.path.basename(os.path.dirname(t)) for t in check.units_for(p)]
        try:
            import kani_lane
            units += [k['name'] for k in kani_lane.units_for(p, 'thorough')]
        except Exception:
            pass
        if units and p in META and p in CLAIM:
            claimed.append((p, units))
    m = {
        'version': 1,
        'setup_cmd': 'sh /verif/setup.sh',
        'hooks': {
            'guard': 'cfg(kani)',
            'enable': 'no hook is committed to /repo: contracts are woven into text cut from /repo on every run (Verus) or injected insert-only into a scratch copy (Kani; cfg(kani) is set by cargo-kani itself)',
            'baseline_off_cmd': 'cd /repo && cargo test --workspace --no-fail-fast --offline',
            'source_commits': [],
            'add_only': True,
        },
        'engines': [{'name': 'check', 'path': '/verif/check', 'serves_properties': [p for p, _ in claimed],
                     'kind_free_text': 'contract weaving (lib/weave.py, closed rewrite table lib/rewrite.py) + Verus/z3 unbounded proofs; Kani/CBMC function contracts on a scratch copy; replay drivers in /verif/replay run the real crate'}],
        'checks': [],
        'not_applicable': [],
        'notes': 'fix: commits in /repo and their replay inputs are listed in /verif/known_findings.json; DESIGN.md §7/§8.',
    }
    for p, units in claimed:
        text, note = META[p]
        m['checks'].append({
            'property_id': p,
            'quick_cmd': './check %s --tier quick' % p,
            'thorough_cmd': './check %s --tier thorough' % p,
            'evidence_file': '/verif/evidence/%s.json' % p,
            'replay_cmd_template': './check %s --replay {path}' % p,
            'engine': 'check',
            'level_claimed': {'category': 'proof', 'text': text + ' Units: ' + ', '.join(units) + '.', 'design_ref': 'DESIGN.md §6 ' + p},
            'level_note': note + ' Per-run trusted base (external_body / assume_specification / axioms, rewrite hits) is listed in the evidence file.',
            'technique': 'contract-based deductive verification (Verus on extracted real code' + ('; Kani function contracts' if any(u in ('merge_into', 'rt_items', 'cmp_k') for u in units) else '') + ')',
        })
    for p in props:
        if p not in [c for c, _ in claimed]:
            reason = NA.get(p) or ('contract units for this property are not yet green/enabled in this commit (see DESIGN.md §6 %s); not claimed rather than claimed on thinner grounds' % p)
            m['not_applicable'].append({'property_id': p, 'reason': reason})
    json.dump(m, open(os.path.join(VERIF, 'MANIFEST.json'), 'w'), indent=1)
    print('claimed:', [c for c, _ in claimed])


if __name__ == '__main__':
    main()
