// ---- corollaries of the reader contract (proof fns; no code of /repo involved) ----

/// bytes outside a described tree do not matter, part 1: appending data to the file keeps the description
pub proof fn lemma_tree_at_extend(c: Seq<u8>, c2: Seq<u8>, big: bool, ks: int, off: int, t: CTree)
    requires tree_at(c, big, ks, off, t), c.len() <= c2.len(), c2.subrange(0, c.len() as int) == c,
    ensures
        [[L: cor/appending_to_the_file_keeps_the_tree]]
        tree_at(c2, big, ks, off, t),
    decreases t,
{
    assert forall|j: int| 0 <= j < c.len() implies c2[j] == c[j] by { assert(c2.subrange(0, c.len() as int)[j] == c2[j]); }
    let n = node_count(t);
    lemma_stride_mono(0, n, ks);
    match t {
        CTree::Leaf(items) => {
            assert forall|i: int| 0 <= i < items.len() implies leaf_item_at(c2, big, ks, off + 4 + stride(i, ks), #[trigger] items[i]) by {
                lemma_stride(i, ks); lemma_stride_mono(i + 1, n, ks); lemma_stride_mono(0, i, ks);
                let o = off + 4 + stride(i, ks);
                assert(leaf_item_at(c, big, ks, o, items[i]));
                assert(c2.subrange(o, o + ks) =~= c.subrange(o, o + ks));
            }
        }
        CTree::Node(kids) => {
            assert forall|i: int| 0 <= i < kids.len() implies
                d64(big, c2, off + 4 + stride(i, ks) + ks) == (#[trigger] kids[i]).0 && tree_at(c2, big, ks, kids[i].0 as int, kids[i].1) by {
                lemma_stride(i, ks); lemma_stride_mono(i + 1, n, ks); lemma_stride_mono(0, i, ks);
                assert(tree_at(c, big, ks, kids[i].0 as int, kids[i].1));
                lemma_tree_at_extend(c, c2, big, ks, kids[i].0 as int, kids[i].1);
            }
        }
    }
}

// ---------- (a) the single-leaf tree written by bbiwrite::write_chrom_tree (unit chrom_tree) ----------
/// the leaf that `fmt_chrom_tree_from` lays out: item i = (name_i padded with NULs to keySize, id_i, length_i)
pub open spec fn written_items(c: Seq<Chrom>, key: int) -> Seq<Item> {
    Seq::new(c.len(), |i: int| (pad(c[i].0@, key), c[i].1, c[i].2))
}
pub open spec fn written_leaf(c: Seq<Chrom>) -> CTree { CTree::Leaf(written_items(c, max_key(c))) }
/// the list that was handed to the writer, as rows
pub open spec fn table_of(c: Seq<Chrom>) -> Seq<Row> { Seq::new(c.len(), |i: int| (c[i].0@, c[i].1, c[i].2)) }
/// SIDE CONDITION of the round trip: the name neither starts nor ends with a NUL byte
pub open spec fn no_nul_ends(s: Seq<u8>) -> bool { s.len() == 0 || (s[0] != 0u8 && s.last() != 0u8) }

proof fn lemma_trim_start_zeros(k: int)
    requires 0 <= k,
    ensures trim_nul_start(zeros(k)) == Seq::<u8>::empty(),
    decreases k,
{
    if k > 0 {
        assert(zeros(k).drop_first() =~= zeros(k - 1));
        lemma_trim_start_zeros(k - 1);
    } else {
        assert(zeros(0) =~= Seq::<u8>::empty());
    }
}
proof fn lemma_trim_end_zeros(name: Seq<u8>, k: int)
    requires 0 <= k,
    ensures trim_nul_end(name + zeros(k)) == trim_nul_end(name),
    decreases k,
{
    if k > 0 {
        assert((name + zeros(k)).drop_last() =~= name + zeros(k - 1));
        assert((name + zeros(k)).last() == 0u8);
        lemma_trim_end_zeros(name, k - 1);
    } else {
        assert(name + zeros(0) =~= name);
    }
}
/// NUL padding is removed again by the reader's trim, if the name itself has no NUL at either end
pub proof fn lemma_trim_pad(name: Seq<u8>, key: int)
    requires no_nul_ends(name), name.len() <= key,
    ensures
        [[L: cor/trim_undoes_padding]]
        trim_nul(pad(name, key)) == name,
{
    let k = key - name.len();
    if name.len() == 0 {
        assert(pad(name, key) =~= zeros(k));
        lemma_trim_start_zeros(k);
    } else {
        assert(pad(name, key)[0] == name[0]);
        assert(trim_nul_start(pad(name, key)) == pad(name, key));
        lemma_trim_end_zeros(name, k);
    }
}
proof fn lemma_max_key_le(c: Seq<Chrom>, b: int)
    requires 0 <= b, forall|i: int| 0 <= i < c.len() ==> (#[trigger] c[i]).0@.len() <= b,
    ensures 0 <= max_key(c) <= b,
    decreases c.len(),
{
    if c.len() > 0 {
        let d = c.drop_last();
        assert forall|i: int| 0 <= i < d.len() implies (#[trigger] d[i]).0@.len() <= b by { assert(d[i] == c[i]); }
        lemma_max_key_le(d, b);
        assert(c.last() == c[c.len() - 1]);
    }
}
proof fn lemma_items_keep_prefix(b: Seq<u8>, c: Seq<Chrom>, key: int)
    ensures items_from(b, c, key).len() >= b.len(), items_from(b, c, key).subrange(0, b.len() as int) == b,
    decreases c.len(),
{
    if c.len() > 0 {
        lemma_items_keep_prefix(b, c.drop_last(), key);
        let g = items_from(b, c.drop_last(), key);
        assert(items_from(b, c, key).subrange(0, b.len() as int) =~= g.subrange(0, b.len() as int));
    } else {
        assert(b.subrange(0, b.len() as int) =~= b);
    }
}
/// the 36 bytes of tree header + node header, decoded field by field (little-endian: NativeEndian on the assumed host)
proof fn lemma_written_headers(b0: Seq<u8>, n: int, key: int)
    requires 0 <= n <= 65535, 0 <= key <= u32::MAX,
    ensures ({
        let h = put_node_header(put_tree_header(b0, n, key), n);
        let o = b0.len() as int;
        &&& h.len() == o + 36
        &&& h.subrange(0, o) == b0
        &&& d32(false, h, o) == 0x78CA_8C91
        &&& d32(false, h, o + 8) == key
        &&& d32(false, h, o + 12) == 8
        &&& d64(false, h, o + 16) == n
        &&& h[o + 32] == 1u8
        &&& d16(false, h, o + 34) == n
    }),
{
    let h = put_node_header(put_tree_header(b0, n, key), n);
    let o = b0.len() as int;
    assert(h.subrange(0, o) =~= b0);
    assert(h.subrange(o, o + 4) =~= le32(0x78CA8C91u32));
    lemma_d32_embedded(false, h, o, 0x78CA8C91u32);
    assert(h.subrange(o + 8, o + 12) =~= le32(key as u32));
    lemma_d32_embedded(false, h, o + 8, key as u32);
    assert(h.subrange(o + 12, o + 16) =~= le32(8u32));
    lemma_d32_embedded(false, h, o + 12, 8u32);
    assert(h.subrange(o + 16, o + 24) =~= le64(n as u64));
    lemma_d64_embedded(false, h, o + 16, n as u64);
    assert(h.subrange(o + 34, o + 36) =~= le16(n as u16));
    lemma_d16_embedded(false, h, o + 34, n as u16);
}

/// item i of the written leaf, as the decoder finds it in g = fmt_chrom_tree_from(b0, c)
proof fn lemma_written_item(b0: Seq<u8>, c: Seq<Chrom>, i: int)
    requires
        c.len() <= 65535, 0 <= i < c.len(),
        forall|j: int| 0 <= j < c.len() ==> (#[trigger] c[j]).0@.len() <= max_key(c),
    ensures
        leaf_item_at(fmt_chrom_tree_from(b0, c), false, max_key(c), b0.len() + 36 + stride(i, max_key(c)), written_items(c, max_key(c))[i]),
{
    let n = c.len() as int;
    let key = max_key(c);
    let cto = b0.len() as int;
    lemma_max_key_bounds(c, i);
    let h = put_node_header(put_tree_header(b0, n, key), n);
    let g = fmt_chrom_tree_from(b0, c);
    assert(h.len() == cto + 36);
    lemma_item_at(h, c, key, i);
    lemma_items_len(h, c, key);
    lemma_stride(n, key);
    assert(g.len() == cto + 36 + stride(n, key)) by { assert(c.len() * (key + 8) == (key + 8) * n) by (nonlinear_arith) requires n == c.len(); }
    lemma_stride(i, key); lemma_stride(i + 1, key); lemma_stride_mono(i + 1, n, key); lemma_stride_mono(0, i, key);
    assert(item_off(i, key) == stride(i, key) && item_off(i + 1, key) == stride(i + 1, key)) by {
        assert(i * (key + 8) == (key + 8) * i) by (nonlinear_arith);
        assert((i + 1) * (key + 8) == (key + 8) * (i + 1)) by (nonlinear_arith);
    }
    let o = cto + 36 + stride(i, key);
    let ib = item_bytes(c[i], key);
    assert(g.subrange(o, o + key + 8) == ib);
    assert(pad(c[i].0@, key).len() == key);
    assert(ib.len() == key + 8);
    lemma_sub_sub(g, o, o + key + 8, 0, key);
    assert(ib.subrange(0, key) =~= pad(c[i].0@, key));
    lemma_sub_sub(g, o, o + key + 8, key, key + 4);
    assert(ib.subrange(key, key + 4) =~= le32(c[i].1));
    lemma_d32_embedded(false, g, o + key, c[i].1);
    lemma_sub_sub(g, o, o + key + 8, key + 4, key + 8);
    assert(ib.subrange(key + 4, key + 8) =~= le32(c[i].2));
    lemma_d32_embedded(false, g, o + key + 4, c[i].2);
}
proof fn lemma_sub_sub(g: Seq<u8>, a: int, b: int, x: int, y: int)
    requires 0 <= a <= b <= g.len(), 0 <= x <= y <= b - a,
    ensures g.subrange(a, b).subrange(x, y) == g.subrange(a + x, a + y),
{
    assert(g.subrange(a, b).subrange(x, y) =~= g.subrange(a + x, a + y));
}
/// the tree as written, without anything behind it
proof fn lemma_written_tree(b0: Seq<u8>, c: Seq<Chrom>)
    requires
        c.len() <= 65535,
        forall|i: int| 0 <= i < c.len() ==> (#[trigger] c[i]).0@.len() <= u32::MAX,
    ensures
        tree_hdr_ok(fmt_chrom_tree_from(b0, c), false, b0.len() as int),
        d32(false, fmt_chrom_tree_from(b0, c), b0.len() as int + 8) == max_key(c),
        d32(false, fmt_chrom_tree_from(b0, c), b0.len() as int + 12) == 8,
        d64(false, fmt_chrom_tree_from(b0, c), b0.len() as int + 16) == c.len(),
        fmt_chrom_tree_from(b0, c).subrange(0, b0.len() as int) == b0,
        fmt_chrom_tree_from(b0, c).len() >= b0.len() + 36,
        tree_at(fmt_chrom_tree_from(b0, c), false, max_key(c), b0.len() as int + 32, written_leaf(c)),
{
    let n = c.len() as int;
    let key = max_key(c);
    let cto = b0.len() as int;
    lemma_max_key_le(c, u32::MAX as int);
    assert forall|i: int| 0 <= i < c.len() implies (#[trigger] c[i]).0@.len() <= key by { lemma_max_key_bounds(c, i); }
    let h = put_node_header(put_tree_header(b0, n, key), n);
    let g = fmt_chrom_tree_from(b0, c);
    lemma_written_headers(b0, n, key);
    lemma_items_keep_prefix(h, c, key);
    lemma_items_len(h, c, key);
    assert(g.subrange(0, h.len() as int) == h);
    assert forall|j: int| 0 <= j < h.len() implies g[j] == h[j] by { assert(g.subrange(0, h.len() as int)[j] == g[j]); }
    assert(g.subrange(0, cto) =~= h.subrange(0, cto));
    let items = written_items(c, key);
    lemma_stride(n, key);
    assert(g.len() == cto + 36 + stride(n, key)) by { assert(c.len() * (key + 8) == (key + 8) * n) by (nonlinear_arith) requires n == c.len(); }
    lemma_stride_mono(0, n, key);
    assert forall|i: int| 0 <= i < items.len() implies leaf_item_at(g, false, key, cto + 32 + 4 + stride(i, key), #[trigger] items[i]) by {
        lemma_written_item(b0, c, i);
    }
}

/// (a) READ(WRITE(list)) == list.  `b0` = whatever precedes the tree in the file (the tree starts at
/// chromosome_tree_offset == |b0|), `rest` = whatever follows it.  What `write_chrom_tree` appends (proved in unit
/// chrom_tree to be `fmt_chrom_tree_from`) satisfies every precondition of the reader (`read_info` tail) with the
/// ghost tree `written_leaf(c)`, little-endian, keySize = longest name, valSize = 8; and the rows the reader
/// contract then promises are the written list itself, PROVIDED no name starts or ends with a NUL byte.
pub proof fn theorem_written_tree_reads_back(b0: Seq<u8>, c: Seq<Chrom>, rest: Seq<u8>)
    requires
        c.len() <= 65535,
        forall|i: int| 0 <= i < c.len() ==> (#[trigger] c[i]).0@.len() <= u32::MAX,
    ensures
        [[L: cor/written_tree_header_is_accepted]]
        tree_hdr_ok(fmt_chrom_tree_from(b0, c) + rest, false, b0.len() as int),
        [[L: cor/written_key_size_is_longest_name_val_size_8_item_count_n]]
        d32(false, fmt_chrom_tree_from(b0, c) + rest, b0.len() as int + 8) == max_key(c)
            && d32(false, fmt_chrom_tree_from(b0, c) + rest, b0.len() as int + 12) == 8
            && d64(false, fmt_chrom_tree_from(b0, c) + rest, b0.len() as int + 16) == c.len(),
        [[L: cor/bytes_before_the_tree_untouched]]
        (fmt_chrom_tree_from(b0, c) + rest).subrange(0, b0.len() as int) == b0,
        [[L: cor/written_tree_is_a_single_leaf_of_padded_items]]
        tree_at(fmt_chrom_tree_from(b0, c) + rest, false, max_key(c), b0.len() as int + 32, written_leaf(c)),
        [[L: cor/read_of_written_is_the_list]]
        (forall|i: int| 0 <= i < c.len() ==> no_nul_ends((#[trigger] c[i]).0@))
            ==> rows_of(leaf_items(written_leaf(c))) == table_of(c),
{
    let key = max_key(c);
    let cto = b0.len() as int;
    let g = fmt_chrom_tree_from(b0, c);
    let f = g + rest;
    lemma_written_tree(b0, c);
    assert(f.subrange(0, g.len() as int) =~= g);
    lemma_tree_at_extend(g, f, false, key, cto + 32, written_leaf(c));
    assert(f.subrange(0, cto) =~= g.subrange(0, cto));
    assert forall|j: int| 0 <= j < g.len() implies f[j] == g[j] by {}
    let items = written_items(c, key);
    if forall|i: int| 0 <= i < c.len() ==> no_nul_ends((#[trigger] c[i]).0@) {
        assert forall|i: int| 0 <= i < c.len() implies rows_of(items)[i] == table_of(c)[i] by {
            lemma_max_key_bounds(c, i);
            lemma_trim_pad(c[i].0@, key);
        }
        assert(rows_of(items) =~= table_of(c));
    }
}

// ---------- (b) two-level tree: a non-leaf root over k leaves ----------
pub open spec fn two_level(offs: Seq<u64>, leaves: Seq<Seq<Item>>) -> CTree {
    CTree::Node(Seq::new(offs.len(), |i: int| (offs[i], CTree::Leaf(leaves[i]))))
}
/// the first n leaves one after the other
pub open spec fn concat_pref(ls: Seq<Seq<Item>>, n: int) -> Seq<Item>
    decreases n
{
    if n <= 0 { Seq::empty() } else { concat_pref(ls, n - 1) + ls[n - 1] }
}
proof fn lemma_two_level_pref(offs: Seq<u64>, leaves: Seq<Seq<Item>>, n: int)
    requires offs.len() == leaves.len(), 0 <= n <= leaves.len(),
    ensures leaf_items_pref(two_level(offs, leaves)->Node_0, n) == concat_pref(leaves, n),
    decreases n,
{
    let kids = two_level(offs, leaves)->Node_0;
    if n > 0 {
        lemma_two_level_pref(offs, leaves, n - 1);
        assert(kids[n - 1].1 == CTree::Leaf(leaves[n - 1]));
        assert(leaf_items(kids[n - 1].1) == leaves[n - 1]);
    }
}
/// (b) a root with k leaf children yields the items of leaf 0, then leaf 1, ... : item j of leaf i sits at
/// position |leaf 0| + .. + |leaf i-1| + j, and there is nothing else
pub proof fn theorem_two_level_is_concatenation(offs: Seq<u64>, leaves: Seq<Seq<Item>>)
    requires offs.len() == leaves.len(),
    ensures
        [[L: cor/two_level_tree_is_concatenation_of_its_leaves_in_order]]
        leaf_items(two_level(offs, leaves)) == concat_pref(leaves, leaves.len() as int),
{
    lemma_two_level_pref(offs, leaves, leaves.len() as int);
}
pub proof fn lemma_concat_index(ls: Seq<Seq<Item>>, n: int, i: int, j: int)
    requires 0 <= i < n <= ls.len(), 0 <= j < ls[i].len(),
    ensures
        [[L: cor/item_j_of_leaf_i_sits_after_all_items_of_earlier_leaves]]
        concat_pref(ls, i).len() + j < concat_pref(ls, n).len()
            && concat_pref(ls, n)[concat_pref(ls, i).len() + j] == ls[i][j]
            && concat_pref(ls, n).len() == concat_pref(ls, n - 1).len() + ls[n - 1].len(),
    decreases n,
{
    if i < n - 1 {
        lemma_concat_index(ls, n - 1, i, j);
    }
}

// ---------- non-vacuity witness: a concrete BIG-endian two-level file, keySize 1 ----------
/// root (non-leaf, 1 item: key "a", child at 13) at offset 0; leaf (1 item: key "a", id 5, size 9) at offset 13
pub open spec fn example_two_level_file() -> Seq<u8> {
    seq![0u8, 0, 0, 1,   97, 0, 0, 0, 0, 0, 0, 0, 13,
         1, 0, 0, 1,     97, 0, 0, 0, 5, 0, 0, 0, 9]
}
pub proof fn lemma_example_two_level()
    ensures
        [[L: cor/example_big_endian_two_level_file_is_described]]
        tree_at(example_two_level_file(), true, 1, 0,
            CTree::Node(seq![(13u64, CTree::Leaf(seq![(seq![97u8], 5u32, 9u32)]))])),
        [[L: cor/example_rows]]
        rows_of(leaf_items(CTree::Node(seq![(13u64, CTree::Leaf(seq![(seq![97u8], 5u32, 9u32)]))])))
            == seq![(seq![97u8], 5u32, 9u32)],
{
    let f = example_two_level_file();
    let items: Seq<Item> = seq![(seq![97u8], 5u32, 9u32)];
    let leaf = CTree::Leaf(items);
    let kids: Seq<(u64, CTree)> = seq![(13u64, leaf)];
    let t = CTree::Node(kids);
    lemma_stride(0, 1);
    assert(stride(1, 1) == 9 && stride(0, 1) == 0);
    assert(f.len() == 26);
    assert(f.subrange(17, 18) =~= seq![97u8]);
    assert(leaf_item_at(f, true, 1, 17, items[0]));
    assert(tree_at(f, true, 1, 13, leaf));
    assert(d64(true, f, 5) == 13);
    assert(tree_at(f, true, 1, 0, t));
    // rows
    assert(leaf_items_pref(kids, 0) =~= Seq::<Item>::empty());
    assert(kids[0].1 == leaf && leaf_items(leaf) == items);
    assert(leaf_items_pref(kids, 1) == leaf_items_pref(kids, 0) + leaf_items(kids[0].1));
    assert(leaf_items_pref(kids, 1) =~= items);
    assert(trim_nul_start(seq![97u8]) == seq![97u8]);
    assert(trim_nul_end(seq![97u8]) == seq![97u8]);
    assert(rows_of(items) =~= seq![(seq![97u8], 5u32, 9u32)]);
}
