//@unit create
//@serves C06 C07 C08 C09 C13
//@backend verus
// The INITIAL state of every per-chromosome processor: the six `create` functions
// (`impl BBIDataProcessorCreate for ..`)
//   bigwigwrite.rs: BigWigFullProcess::create, BigWigNoZoomsProcess::create, BigWigZoomsProcess::create
//   bigbedwrite.rs: BigBedFullProcess::create, BigBedNoZoomsProcess::create, BigBedZoomsProcess::create
// C06/C07/C08 ("statistics are those of the data and nothing else"): every accumulator starts NEUTRAL —
//   bigWig summary {0, 0, f64::MAX, f64::MIN, 0.0, 0.0}, bigBed summary None / total_items 0 / empty sweep
//   lists, no pending item, one zoom accumulator per zoom channel IN ORDER with the channel's own size,
//   no open record, no pending record, the channel itself.
// C09/C13: chrom_id, length, options, ftx, runtime, chrom are the ones handed in (nothing swapped);
//   the NoZooms `zoom_counts` are exactly the resolutions 10·4^k (k = 0,1,..) that are <= length·4 (and
//   <= u64::MAX/4), each with current_end == 0 and counts == 0; in particular every resolution is > 0 and
//   <= u64::MAX/4 — the precondition that units bb_batch (`zoomcount/pre`) and procs (`bw_zoomcount/pre`)
//   ASSUME for the termination of the zoom-count loops: it is established here.
// Iterator chains are outside Verus: each chain is DESUGARED by a unit-local substitution into the
// loop it stands for, with the closure bodies / struct literals / constants spliced in VERBATIM
// (see NOTES.md "Structural substitutions"); the loops carry invariants from this template.  An edit
// inside a closure therefore reaches the verifier; an edit to the chain's shape no longer matches the
// regex, the chain stays, Verus rejects it: exit 2, never a silent pass.
use vstd::prelude::*;
use vstd::std_specs::ops::*;
use vstd::std_specs::convert::FromSpec;
verus! {
//@include ../_shared/floats.rs

//@extract struct bigtools/src/bbi.rs Summary
//@rule R8
//@end
//@extract struct bigtools/src/bbi.rs Value
//@rule R8
//@end
//@extract struct bigtools/src/bbi.rs ZoomRecord
//@rule R8
//@end
// R11: `rest: String` -> `rest: Vec<u8>` (as units bb_enc / bb_batch / procs; the text is never inspected here)
//@extract struct bigtools/src/bbi.rs BedEntry
//@rule R8
//@sub /#\[derive\(Clone\)\]\n/ => ""
//@sub /rest: String/ => rest: Vec<u8>
//@end
//@extract enum bigtools/src/bbi/bbiwrite.rs InputSortType
//@rule R8
//@end
//@extract struct bigtools/src/bbi/bbiwrite.rs BBIWriteOptions
//@rule R8
//@sub /#\[derive\(Clone\)\]\n/ => ""
//@end

//@include ../_shared/vlist.rs

// ---------------- shims (each one is a listed assumption) ----------------
/// tokio runtime handle: only passed on
#[verifier::external_body]
pub struct Handle { _p: u8 }
/// BBIDataProcessoringInputSectionChannel (futures mpsc sender), for data sections and for zoom sections:
/// opaque, only moved; spec equality is identity of the channel
#[verifier::external_body]
pub struct Chan { _p: u8 }
/// bbiwrite::InternalTempZoomInfo<W>: opaque, only handed through
#[verifier::external_body]
pub struct TempZoom { _p: u8 }

// the three argument tuples of `create`, cut from the repository (pub(crate) -> pub by R8)
//@extract struct bigtools/src/bbi/bbiwrite.rs InternalProcessData
//@rule R8
//@sub /BBIDataProcessoringInputSectionChannel/ => Chan min=2
//@end
//@extract struct bigtools/src/bbi/bbiwrite.rs NoZoomsInternalProcessData
//@rule R8
//@sub /BBIDataProcessoringInputSectionChannel/ => Chan min=1
//@end
//@extract struct bigtools/src/bbi/bbiwrite.rs ZoomsInternalProcessData
//@rule R8
//@sub /<W: Write \+ Seek \+ Send \+ 'static>/ => "" min=1
//@sub /InternalTempZoomInfo<W>/ => TempZoom min=1
//@sub /BBIDataProcessoringInputSectionChannel/ => Chan min=1
//@end

// ---------------- specification vocabulary (from the property texts) ----------------
/// the neutral bigWig accumulator: nothing counted, min = +MAX, max = MIN (most negative), sums 0
pub open spec fn neutral_summary() -> Summary {
    Summary { total_items: 0, bases_covered: 0, min_val: spec_f64_max(), max_val: spec_f64_min(), sum: 0.0f64, sum_squares: 0.0f64 }
}
/// k-th automatic zoom-count resolution: 10 · 4^k
pub open spec fn res_at(k: nat) -> int
    decreases k
{
    if k == 0 { 10 } else { 4 * res_at((k - 1) as nat) }
}
/// a resolution takes part for a chromosome of this length
pub open spec fn res_in(length: u32, v: int) -> bool { v <= u64::MAX / 4 && v <= length as int * 4 }

// =====================================================================================
pub mod bw {
use super::*;

//@extract struct bigtools/src/bbi/bigwigwrite.rs ZoomItem
//@rule R8
//@sub /BBIDataProcessoringInputSectionChannel/ => Chan min=1
//@sub /^struct/ => pub struct
//@sub /^    (\w+):/ => pub \1: min=0
//@end
//@extract struct bigtools/src/bbi/bigwigwrite.rs BigWigFullProcess
//@rule R8
//@sub /BBIDataProcessoringInputSectionChannel/ => Chan min=1
//@sub /^    (\w+):/ => pub \1: min=0
//@end
//@extract struct bigtools/src/bbi/bigwigwrite.rs ZoomCounts
//@rule R8
//@sub /^struct/ => pub struct
//@sub /^    (\w+):/ => pub \1: min=0
//@end
//@extract struct bigtools/src/bbi/bigwigwrite.rs BigWigNoZoomsProcess
//@rule R8
//@sub /BBIDataProcessoringInputSectionChannel/ => Chan min=1
//@sub /^struct/ => pub struct
//@sub /^    (\w+):/ => pub \1: min=0
//@end
//@extract struct bigtools/src/bbi/bigwigwrite.rs BigWigZoomsProcess
//@rule R8
//@sub /<W: Write \+ Seek \+ Send \+ 'static>/ => "" min=1
//@sub /InternalTempZoomInfo<W>/ => TempZoom min=1
//@sub /^struct/ => pub struct
//@sub /^    (\w+):/ => pub \1: min=0
//@end

/// a fresh zoom accumulator for channel c: c's size, no open record, no pending records, c's channel
pub open spec fn zi_fresh(z: ZoomItem, c: (u32, Chan)) -> bool {
    z.size == c.0 && z.channel == c.1 && z.live_info.is_none() && z.records@.len() == 0
}
/// one fresh accumulator per channel, in order
pub open spec fn zi_all_fresh(r: Seq<ZoomItem>, src: Seq<(u32, Chan)>) -> bool {
    r.len() == src.len() && forall|k: int| 0 <= k < r.len() ==> zi_fresh(#[trigger] r[k], src[k])
}
/// k-th zoom counter of a chromosome of this length
pub open spec fn zc_fresh(length: u32, z: ZoomCounts, k: int) -> bool {
    z.resolution as int == res_at(k as nat) && z.current_end == 0 && z.counts == 0 && res_in(length, res_at(k as nat))
}
/// exactly the resolutions 10·4^k that take part, in order, none missing at the end
pub open spec fn zc_all_fresh(length: u32, r: Seq<ZoomCounts>) -> bool {
    &&& forall|k: int| 0 <= k < r.len() ==> zc_fresh(length, #[trigger] r[k], k)
    &&& !res_in(length, res_at(r.len()))
}

impl BigWigFullProcess {
//@extract method bigtools/src/bbi/bigwigwrite.rs create "BBIDataProcessorCreate for BigWigFullProcess"
//@rule R16
//@rule R12c
//@sub /zooms_channels\s*\.into_iter\(\)\s*\.map\(\|\(size, channel\)\| (ZoomItem \{[^{}]*\})\)\s*\.collect\(\)/ => { let mut src__ = zooms_channels; let ghost src0__ = src__@; let mut out__ = Vec::new(); while src__.len() > 0 { let (size, channel) = src__.remove(0); out__.push(\1); } out__ } min=0
//@ret r
//@sig
    ensures
        [[L: bw_full/summary_starts_neutral]]
        r.summary == neutral_summary(),
        [[L: bw_full/no_item_pending]]
        r.items@.len() == 0,
        [[L: bw_full/one_fresh_zoom_accumulator_per_channel_in_order]]
        zi_all_fresh(r.zoom_items@, internal_data.0@),
        [[L: bw_full/chrom_id_is_the_one_handed_in]]
        r.chrom_id == internal_data.2,
        [[L: bw_full/length_is_the_one_handed_in]]
        r.length == internal_data.6,
        [[L: bw_full/options_section_channel_runtime_name_handed_in]]
        r.options == internal_data.3, r.ftx == internal_data.1, r.runtime == internal_data.4, r.chrom == internal_data.5,
//@loop 1
            invariant
                [[L: bw_full/loop/channels_consumed_front_to_back]]
                out__@.len() <= src0__.len(),
                src__@ == src0__.subrange(out__@.len() as int, src0__.len() as int),
                [[L: bw_full/loop/accumulators_so_far_fresh_and_in_order]]
                forall|k: int| 0 <= k < out__@.len() ==> zi_fresh(#[trigger] out__@[k], src0__[k]),
            decreases
                [[L: bw_full/loop/termination]]
                src__@.len(),
//@end
}

impl BigWigNoZoomsProcess {
//@extract method bigtools/src/bbi/bigwigwrite.rs create "BBIDataProcessorCreate for BigWigNoZoomsProcess"
//@rule R16
//@rule R12c
//@sub /Self::I\b/ => NoZoomsInternalProcessData min=1
//@sub /std::iter::successors\((Some\([^()]*\)), \|z\| (.*?)\)\s*\.take_while\(\|z\| (.*?)\)\s*\.map\(\|z\| (ZoomCounts \{[^{}]*\})\)\s*\.collect\(\)/ => { let mut out__: Vec<ZoomCounts> = Vec::new(); let mut next__: Option<u64> = \1; loop { let item__: u64 = match next__ { Some(v__) => v__, None => { break; } }; next__ = { let z = &item__; \2 }; if !({ let z = &item__; \3 }) { break; } out__.push({ let z = item__; \4 }); } out__ } min=0
//@ret r
//@sig
    ensures
        [[L: bw_nozooms/summary_starts_neutral]]
        r.summary == neutral_summary(),
        [[L: bw_nozooms/no_item_pending]]
        r.items@.len() == 0,
        [[L: bw_nozooms/zoom_counts_are_exactly_the_resolutions_10_times_4_pow_k_up_to_4_length_all_zero]]
        zc_all_fresh(r.length, r.zoom_counts@),
        [[L: bw_nozooms/every_resolution_positive_closes_zoomcount_pre]]
        forall|k: int| 0 <= k < r.zoom_counts@.len() ==> 0 < (#[trigger] r.zoom_counts@[k]).resolution <= u64::MAX / 4,
        [[L: bw_nozooms/chrom_id_is_the_one_handed_in]]
        r.chrom_id == internal_data.1,
        [[L: bw_nozooms/length_is_the_one_handed_in]]
        r.length == internal_data.5,
        [[L: bw_nozooms/options_section_channel_runtime_name_handed_in]]
        r.options == internal_data.2, r.ftx == internal_data.0, r.runtime == internal_data.3, r.chrom == internal_data.4,
//@loop 1
            invariant_except_break
                [[L: bw_nozooms/loop/next_candidate_is_10_times_4_pow_n]]
                next__ is Some, next__->Some_0 as int == res_at(out__@.len()), next__->Some_0 >= 10,
                [[L: bw_nozooms/loop/successor_cannot_overflow]]
                next__->Some_0 <= 10 || next__->Some_0 <= 16 * (length as int),
            invariant
                [[L: bw_nozooms/loop/counters_so_far_fresh_and_in_order]]
                forall|k: int| 0 <= k < out__@.len() ==> zc_fresh(length, #[trigger] out__@[k], k) && out__@[k].resolution >= 10,
            ensures
                [[L: bw_nozooms/loop/stops_only_at_the_first_resolution_out_of_range]]
                !res_in(length, res_at(out__@.len())),
            decreases
                [[L: bw_nozooms/loop/termination]]
                (if next__->Some_0 <= length as int * 4 { length as int * 4 + 1 - next__->Some_0 } else { 0 }),
//@end
}

impl BigWigZoomsProcess {
//@extract method bigtools/src/bbi/bigwigwrite.rs create "BBIDataProcessorCreate for BigWigZoomsProcess"
//@rule R16
//@sub /Self::I\b/ => ZoomsInternalProcessData min=1
//@sub /zooms_channels\s*\.into_iter\(\)\s*\.map\(\|\(size, channel\)\| (ZoomItem \{[^{}]*\})\)\s*\.collect\(\)/ => { let mut src__ = zooms_channels; let ghost src0__ = src__@; let mut out__ = Vec::new(); while src__.len() > 0 { let (size, channel) = src__.remove(0); out__.push(\1); } out__ } min=0
//@ret r
//@sig
    ensures
        [[L: bw_zooms/one_fresh_zoom_accumulator_per_channel_in_order]]
        zi_all_fresh(r.zoom_items@, internal_data.1@),
        [[L: bw_zooms/chrom_id_is_the_one_handed_in]]
        r.chrom_id == internal_data.2,
        [[L: bw_zooms/temp_files_options_runtime_handed_in]]
        r.temp_zoom_items == internal_data.0, r.options == internal_data.3, r.runtime == internal_data.4,
//@loop 1
            invariant
                [[L: bw_zooms/loop/channels_consumed_front_to_back]]
                out__@.len() <= src0__.len(),
                src__@ == src0__.subrange(out__@.len() as int, src0__.len() as int),
                [[L: bw_zooms/loop/accumulators_so_far_fresh_and_in_order]]
                forall|k: int| 0 <= k < out__@.len() ==> zi_fresh(#[trigger] out__@[k], src0__[k]),
            decreases
                [[L: bw_zooms/loop/termination]]
                src__@.len(),
//@end
}
} // mod bw

// =====================================================================================
pub mod bb {
use super::*;

//@extract struct bigtools/src/bbi/bigbedwrite.rs ZoomItem
//@rule R8
//@sub /IndexList<Value>/ => VList min=1
//@sub /BBIDataProcessoringInputSectionChannel/ => Chan min=1
//@sub /^struct/ => pub struct
//@sub /^    (\w+):/ => pub \1: min=0
//@end
//@extract struct bigtools/src/bbi/bigbedwrite.rs EntriesSection
//@rule R8
//@sub /IndexList<Value>/ => VList min=1
//@sub /^struct/ => pub struct
//@sub /^    (\w+):/ => pub \1: min=0
//@end
//@extract struct bigtools/src/bbi/bigbedwrite.rs BigBedFullProcess
//@rule R8
//@sub /BBIDataProcessoringInputSectionChannel/ => Chan min=1
//@sub /^    (\w+):/ => pub \1: min=0
//@end
//@extract struct bigtools/src/bbi/bigbedwrite.rs ZoomCounts
//@rule R8
//@sub /^struct/ => pub struct
//@sub /^    (\w+):/ => pub \1: min=0
//@end
//@extract struct bigtools/src/bbi/bigbedwrite.rs BigBedNoZoomsProcess
//@rule R8
//@sub /IndexList<Value>/ => VList min=1
//@sub /BBIDataProcessoringInputSectionChannel/ => Chan min=1
//@sub /^struct/ => pub struct
//@sub /^    (\w+):/ => pub \1: min=0
//@end
//@extract struct bigtools/src/bbi/bigbedwrite.rs BigBedZoomsProcess
//@rule R8
//@sub /<W: Write \+ Seek \+ Send \+ 'static>/ => "" min=1
//@sub /InternalTempZoomInfo<W>/ => TempZoom min=1
//@sub /^struct/ => pub struct
//@sub /^    (\w+):/ => pub \1: min=0
//@end

/// a fresh zoom accumulator for channel c: c's size, no open record, empty sweep list, no pending records, c's channel
pub open spec fn zi_fresh(z: ZoomItem, c: (u32, Chan)) -> bool {
    z.size == c.0 && z.channel == c.1 && z.live_info.is_none() && z.overlap@.len() == 0 && z.records@.len() == 0
}
pub open spec fn zi_all_fresh(r: Seq<ZoomItem>, src: Seq<(u32, Chan)>) -> bool {
    r.len() == src.len() && forall|k: int| 0 <= k < r.len() ==> zi_fresh(#[trigger] r[k], src[k])
}
pub open spec fn zc_fresh(length: u32, z: ZoomCounts, k: int) -> bool {
    z.resolution as int == res_at(k as nat) && z.current_end == 0 && z.counts == 0 && res_in(length, res_at(k as nat))
}
pub open spec fn zc_all_fresh(length: u32, r: Seq<ZoomCounts>) -> bool {
    &&& forall|k: int| 0 <= k < r.len() ==> zc_fresh(length, #[trigger] r[k], k)
    &&& !res_in(length, res_at(r.len()))
}

impl BigBedFullProcess {
//@extract method bigtools/src/bbi/bigbedwrite.rs create "BBIDataProcessorCreate for BigBedFullProcess"
//@rule R16
//@sub /IndexList::new\(\)/ => VList::new() min=0
//@sub /zooms_channels\s*\.into_iter\(\)\s*\.map\(\|\(size, channel\)\| (ZoomItem \{[^{}]*\})\)\s*\.collect\(\)/ => { let mut src__ = zooms_channels; let ghost src0__ = src__@; let mut out__ = Vec::new(); while src__.len() > 0 { let (size, channel) = src__.remove(0); out__.push(\1); } out__ } min=0
//@ret r
//@sig
    ensures
        [[L: bb_full/no_summary_yet]]
        r.summary.is_none(),
        [[L: bb_full/item_count_starts_at_zero]]
        r.total_items == 0,
        [[L: bb_full/no_item_pending_and_empty_sweep_list]]
        r.state_val.items@.len() == 0, r.state_val.overlap@.len() == 0,
        [[L: bb_full/one_fresh_zoom_accumulator_per_channel_in_order]]
        zi_all_fresh(r.state_val.zoom_items@, internal_data.0@),
        [[L: bb_full/chrom_id_is_the_one_handed_in]]
        r.chrom_id == internal_data.2,
        [[L: bb_full/length_is_the_one_handed_in]]
        r.length == internal_data.6,
        [[L: bb_full/options_section_channel_runtime_name_handed_in]]
        r.options == internal_data.3, r.ftx == internal_data.1, r.runtime == internal_data.4, r.chrom == internal_data.5,
//@loop 1
            invariant
                [[L: bb_full/loop/channels_consumed_front_to_back]]
                out__@.len() <= src0__.len(),
                src__@ == src0__.subrange(out__@.len() as int, src0__.len() as int),
                [[L: bb_full/loop/accumulators_so_far_fresh_and_in_order]]
                forall|k: int| 0 <= k < out__@.len() ==> zi_fresh(#[trigger] out__@[k], src0__[k]),
            decreases
                [[L: bb_full/loop/termination]]
                src__@.len(),
//@end
}

impl BigBedNoZoomsProcess {
//@extract method bigtools/src/bbi/bigbedwrite.rs create "BBIDataProcessorCreate for BigBedNoZoomsProcess"
//@rule R16
//@sub /Self::I\b/ => NoZoomsInternalProcessData min=1
//@sub /IndexList::new\(\)/ => VList::new() min=0
//@sub /std::iter::successors\((Some\([^()]*\)), \|z\| (.*?)\)\s*\.take_while\(\|z\| (.*?)\)\s*\.map\(\|z\| (ZoomCounts \{[^{}]*\})\)\s*\.collect\(\)/ => { let mut out__: Vec<ZoomCounts> = Vec::new(); let mut next__: Option<u64> = \1; loop { let item__: u64 = match next__ { Some(v__) => v__, None => { break; } }; next__ = { let z = &item__; \2 }; if !({ let z = &item__; \3 }) { break; } out__.push({ let z = item__; \4 }); } out__ } min=0
//@ret r
//@sig
    ensures
        [[L: bb_nozooms/no_summary_yet]]
        r.summary.is_none(),
        [[L: bb_nozooms/item_count_starts_at_zero]]
        r.total_items == 0,
        [[L: bb_nozooms/no_item_pending_and_empty_sweep_list]]
        r.items@.len() == 0, r.overlap@.len() == 0,
        [[L: bb_nozooms/zoom_counts_are_exactly_the_resolutions_10_times_4_pow_k_up_to_4_length_all_zero]]
        zc_all_fresh(r.length, r.zoom_counts@),
        [[L: bb_nozooms/every_resolution_positive_closes_zoomcount_pre]]
        forall|k: int| 0 <= k < r.zoom_counts@.len() ==> 0 < (#[trigger] r.zoom_counts@[k]).resolution <= u64::MAX / 4,
        [[L: bb_nozooms/chrom_id_is_the_one_handed_in]]
        r.chrom_id == internal_data.1,
        [[L: bb_nozooms/length_is_the_one_handed_in]]
        r.length == internal_data.5,
        [[L: bb_nozooms/options_section_channel_runtime_name_handed_in]]
        r.options == internal_data.2, r.ftx == internal_data.0, r.runtime == internal_data.3, r.chrom == internal_data.4,
//@loop 1
            invariant_except_break
                [[L: bb_nozooms/loop/next_candidate_is_10_times_4_pow_n]]
                next__ is Some, next__->Some_0 as int == res_at(out__@.len()), next__->Some_0 >= 10,
                [[L: bb_nozooms/loop/successor_cannot_overflow]]
                next__->Some_0 <= 10 || next__->Some_0 <= 16 * (length as int),
            invariant
                [[L: bb_nozooms/loop/counters_so_far_fresh_and_in_order]]
                forall|k: int| 0 <= k < out__@.len() ==> zc_fresh(length, #[trigger] out__@[k], k) && out__@[k].resolution >= 10,
            ensures
                [[L: bb_nozooms/loop/stops_only_at_the_first_resolution_out_of_range]]
                !res_in(length, res_at(out__@.len())),
            decreases
                [[L: bb_nozooms/loop/termination]]
                (if next__->Some_0 <= length as int * 4 { length as int * 4 + 1 - next__->Some_0 } else { 0 }),
//@end
}

impl BigBedZoomsProcess {
//@extract method bigtools/src/bbi/bigbedwrite.rs create "BBIDataProcessorCreate for BigBedZoomsProcess"
//@rule R16
//@sub /Self::I\b/ => ZoomsInternalProcessData min=1
//@sub /IndexList::new\(\)/ => VList::new() min=0
//@sub /zooms_channels\s*\.into_iter\(\)\s*\.map\(\|\(size, channel\)\| (ZoomItem \{[^{}]*\})\)\s*\.collect\(\)/ => { let mut src__ = zooms_channels; let ghost src0__ = src__@; let mut out__ = Vec::new(); while src__.len() > 0 { let (size, channel) = src__.remove(0); out__.push(\1); } out__ } min=0
//@ret r
//@sig
    ensures
        [[L: bb_zooms/one_fresh_zoom_accumulator_per_channel_in_order]]
        zi_all_fresh(r.zoom_items@, internal_data.1@),
        [[L: bb_zooms/chrom_id_is_the_one_handed_in]]
        r.chrom_id == internal_data.2,
        [[L: bb_zooms/temp_files_options_runtime_handed_in]]
        r.temp_zoom_items == internal_data.0, r.options == internal_data.3, r.runtime == internal_data.4,
//@loop 1
            invariant
                [[L: bb_zooms/loop/channels_consumed_front_to_back]]
                out__@.len() <= src0__.len(),
                src__@ == src0__.subrange(out__@.len() as int, src0__.len() as int),
                [[L: bb_zooms/loop/accumulators_so_far_fresh_and_in_order]]
                forall|k: int| 0 <= k < out__@.len() ==> zi_fresh(#[trigger] out__@[k], src0__[k]),
            decreases
                [[L: bb_zooms/loop/termination]]
                src__@.len(),
//@end
}
} // mod bb

} // verus!
fn main() {}
