// Plain-Rust statement of what get_rtreeindex must return (no Kani items).  Shared verbatim by the
// Kani harnesses (kani_harness.rs) and by the replay tests that run on the real code.
// Expects `Section`, `RTreeNode`, `RTreeChildren` (bigtools/src/bbi/bbiwrite.rs) in scope; lives in a
// child module of bbiwrite.rs, so the private fields of RTreeNode are visible.
//
// Levels as in unit rt_layout: leaves (DataSections) are level 0, the root is level `levels`.

/// (chrom, base) positions compare lexicographically.
fn pos_le(c1: u32, b1: u32, c2: u32, b2: u32) -> bool {
    c1 < c2 || (c1 == c2 && b1 <= b2)
}

/// The input precondition: sections sorted by (chrom, start).  Ends are NOT constrained
/// (bigBed blocks: an early long entry can end after every later one).
fn sorted_by_start(a: &[Section], n: usize) -> bool {
    let mut ok = true;
    let mut i = 1;
    while i < n {
        ok = ok && pos_le(a[i - 1].chrom, a[i - 1].start, a[i].chrom, a[i].start);
        i += 1;
    }
    ok
}

/// rt_layout's `len_ok`: a node holds at most b items, and exactly b unless it is the last node of its level.
fn len_ok(n: usize, b: usize, last: bool) -> bool {
    n <= b && (last || n == b)
}

/// rt_layout's `wf(t, lvl, b, last)` (contracts/rt_layout/spec.rs), transcribed to executable Rust:
/// uniform depth (DataSections exactly at level 0), 1..=b children per non-leaf node, 0..=b items per
/// leaf, and every node that is not the last of its level (not on the right spine) is full.
fn wf(t: &RTreeChildren, lvl: usize, b: usize, last: bool) -> bool {
    match t {
        RTreeChildren::DataSections(v) => lvl == 0 && len_ok(v.len(), b, last),
        RTreeChildren::Nodes(v) => {
            let mut ok = lvl > 0 && v.len() >= 1 && len_ok(v.len(), b, last);
            if ok {
                let mut i = 0;
                while i < v.len() {
                    ok = ok && wf(&v[i].children, lvl - 1, b, last && i == v.len() - 1);
                    i += 1;
                }
            }
            ok
        }
    }
}

/// Stronger than wf at the leaves for a non-empty input: no empty leaf (an empty leaf is only the root of
/// the empty tree).
fn no_empty_leaf(t: &RTreeChildren) -> bool {
    match t {
        RTreeChildren::DataSections(v) => !v.is_empty(),
        RTreeChildren::Nodes(v) => {
            let mut ok = true;
            let mut i = 0;
            while i < v.len() {
                ok = ok && no_empty_leaf(&v[i].children);
                i += 1;
            }
            ok
        }
    }
}

/// Summary of the sections beneath a subtree: count, first (chrom,start), lexicographic max (chrom,end),
/// and whether every section's start is >= the first one's (true for sorted input).
#[derive(Copy, Clone)]
struct Beneath {
    count: usize,
    first_chrom: u32,
    first_start: u32,
    max_end_chrom: u32,
    max_end: u32,
    starts_ge_first: bool,
}

fn beneath(t: &RTreeChildren) -> Beneath {
    let mut acc = Beneath { count: 0, first_chrom: 0, first_start: 0, max_end_chrom: 0, max_end: 0, starts_ge_first: true };
    match t {
        RTreeChildren::DataSections(v) => {
            let mut i = 0;
            while i < v.len() {
                acc = join(acc, Beneath { count: 1, first_chrom: v[i].chrom, first_start: v[i].start, max_end_chrom: v[i].chrom, max_end: v[i].end, starts_ge_first: true });
                i += 1;
            }
        }
        RTreeChildren::Nodes(v) => {
            let mut i = 0;
            while i < v.len() {
                acc = join(acc, beneath(&v[i].children));
                i += 1;
            }
        }
    }
    acc
}

fn join(a: Beneath, b: Beneath) -> Beneath {
    if a.count == 0 {
        return b;
    }
    if b.count == 0 {
        return a;
    }
    let b_bigger = !pos_le(b.max_end_chrom, b.max_end, a.max_end_chrom, a.max_end);
    Beneath {
        count: a.count + b.count,
        first_chrom: a.first_chrom,
        first_start: a.first_start,
        max_end_chrom: if b_bigger { b.max_end_chrom } else { a.max_end_chrom },
        max_end: if b_bigger { b.max_end } else { a.max_end },
        starts_ge_first: a.starts_ge_first && b.starts_ge_first && pos_le(a.first_chrom, a.first_start, b.first_chrom, b.first_start),
    }
}

/// SPAN COVERAGE (the C04/C05 clause), for every index node (RTreeNode) in the tree:
///   node.start == (chrom, start) of the first section beneath it,
///   node.end   == lexicographic max of (chrom, end) over ALL sections beneath it
///                 (== max over the children's ends, by induction),
///   every section beneath starts at or after node.start.
/// Hence every section beneath a node lies within [node.start, node.end].
fn spans_ok(t: &RTreeChildren) -> bool {
    match t {
        RTreeChildren::DataSections(_) => true,
        RTreeChildren::Nodes(v) => {
            let mut ok = true;
            let mut i = 0;
            while i < v.len() {
                let n = &v[i];
                let s = beneath(&n.children);
                ok = ok
                    && s.count > 0
                    && n.start_chrom_idx == s.first_chrom
                    && n.start_base == s.first_start
                    && n.end_chrom_idx == s.max_end_chrom
                    && n.end_base == s.max_end
                    && s.starts_ge_first
                    && spans_ok(&n.children);
                i += 1;
            }
            ok
        }
    }
}

fn same_section(x: &Section, y: &Section) -> bool {
    x.chrom == y.chrom && x.start == y.start && x.end == y.end && x.offset == y.offset && x.size == y.size
}

/// Leaves, left to right, hold a[*idx..] in order and unchanged; *idx advances past what was seen.
fn leaves_match(t: &RTreeChildren, a: &[Section], idx: &mut usize) -> bool {
    match t {
        RTreeChildren::DataSections(v) => {
            let mut ok = true;
            let mut i = 0;
            while i < v.len() {
                ok = ok && *idx < a.len() && same_section(&v[i], &a[*idx]);
                *idx += 1;
                i += 1;
            }
            ok
        }
        RTreeChildren::Nodes(v) => {
            let mut ok = true;
            let mut i = 0;
            while i < v.len() {
                ok = ok && leaves_match(&v[i].children, a, idx);
                i += 1;
            }
            ok
        }
    }
}

/// Depth of the leftmost path (number of Nodes levels above the leaves).
fn left_depth(t: &RTreeChildren) -> usize {
    match t {
        RTreeChildren::DataSections(_) => 0,
        RTreeChildren::Nodes(v) => {
            if v.is_empty() {
                1
            } else {
                1 + left_depth(&v[0].children)
            }
        }
    }
}
