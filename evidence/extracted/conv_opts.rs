// bedgraphtobigwig / bedtobigbed (CLI): option plumbing and the mode matrix -- the "converting ..." half of C16.
//   C16: "Converting bedGraph to bigWig ..., or BED to bigBed ..., with the command-line tools returns the original
//         records ... This holds for any thread count, parallel mode and pass mode ..." quantified over
//         "-t in 1..16, --parallel in {auto,yes,no}, --single-pass on/off, --inmemory, --uncompressed, --block-size,
//          --zooms".
// Here, per call, on the WHOLE text of the two functions cut from /repo on every run (two carve-outs each: the
// chrom.sizes parser expression and the `|| { .. }` arguments of write_multipass, see NOTES.md): whatever the
// options, the tool makes AT MOST ONE write call; that call gets the file named by the FIRST argument (or stdin)
// as its source, the output path and the sizes of the chrom.sizes file as its destination, and each writer option
// from ITS command-line argument.  Which writer entry / source kind a configuration selects, and the documented
// cancellations, are stated under `doc/` labels (descriptive: every choice round-trips).
// Device: the file system and the writer are shims; every `write` / `write_multipass` call appends one event
// (destination, options, source description, entry, runtime) to the ghost log `Env::writes()`.
// NOT covered: clap parsing, compat_args, the writers themselves, the sources (bedparse, chunks, feed, ...).
use vstd::prelude::*;
// messages on stderr are not modelled
#[allow(unused_macros)]
macro_rules! eprintln {
    ($($t:tt)*) => { () };
}
verus! {

// =====================================================================================
// opaque stand-ins (R11)
// =====================================================================================
/// `String` (paths, option values): opaque; `text()` is its content as a string constant
#[verifier::external_body] pub struct Str { _p: u8 }
impl Str {
    pub uninterp spec fn text(&self) -> &str;
    /// `String::as_ref()` / `as_str()`: the text
    #[verifier::external_body] pub fn as_ref(&self) -> (r: &str) ensures r == self.text(), { unimplemented!() }
    #[verifier::external_body] pub fn as_str(&self) -> (r: &str) ensures r == self.text(), { unimplemented!() }
    /// `s == "literal"`
    #[verifier::external_body] pub fn eq_lit(&self, lit: &str) -> (r: bool) ensures r == (self.text() == lit), { unimplemented!() }
    // plausible foreign calls: nothing promised
    #[verifier::external_body] pub fn is_empty(&self) -> bool { unimplemented!() }
    #[verifier::external_body] pub fn len(&self) -> usize { unimplemented!() }
    #[verifier::external_body] pub fn to_lowercase(&self) -> Str { unimplemented!() }
}
impl Clone for Str {
    #[verifier::external_body] fn clone(&self) -> (r: Str) ensures r == *self, { unimplemented!() }
}
/// `PathBuf::from(s)`: the same path
pub struct PathBuf {}
impl PathBuf {
    #[verifier::external_body] pub fn from(s: Str) -> (r: Str) ensures r == s, { unimplemented!() }
}
/// `impl AsRef<Path>` arguments: a String or a reference to one
pub trait PathArg: Sized { spec fn name(&self) -> Str; }
impl PathArg for Str { open spec fn name(&self) -> Str { *self } }
impl PathArg for &Str { open spec fn name(&self) -> Str { **self } }
/// io::Error
#[verifier::external_body] pub struct IoErr { _p: u8 }
/// BBIProcessError<..> of the writers
#[verifier::external_body] pub struct WriteErr { _p: u8 }
/// Box<dyn Error> / anyhow::Error (which error: lost behind `?`)
#[verifier::external_body] pub struct AnyErr { _p: u8 }
impl From<IoErr> for AnyErr { #[verifier::external_body] fn from(e: IoErr) -> AnyErr { unimplemented!() } }
impl From<WriteErr> for AnyErr { #[verifier::external_body] fn from(e: WriteErr) -> AnyErr { unimplemented!() } }
/// HashMap<String, u32> parsed from the chrom.sizes file
#[verifier::external_body] pub struct SizeMap { _p: u8 }
/// the per-chromosome offsets `index_chroms` returns
#[verifier::external_body] pub struct Index { _p: u8 }
impl Clone for Index {
    #[verifier::external_body] fn clone(&self) -> (r: Index) ensures r == *self, { unimplemented!() }
}
/// the output `File` inside the writer
#[verifier::external_body] pub struct OutFile { _p: u8 }
impl OutFile { pub uninterp spec fn path(&self) -> Str; }

// =====================================================================================
// the repository's types
// =====================================================================================
#[derive(Copy, Clone)]
pub enum InputSortType {
    ALL,
    START,
    // TODO
    //NONE,
}
pub struct BBIWriteOptions {
    pub compress: bool,
    pub items_per_slot: u32,
    pub block_size: u32,
    pub initial_zoom_size: u32,
    pub max_zooms: u32,
    pub manual_zoom_sizes: Option<Vec<u32>>,
    pub input_sort_type: InputSortType,
    pub channel_size: usize,
    pub inmemory: bool,
}
pub struct BigWigWrite {
    pub out: OutFile,
    pub chrom_sizes: SizeMap,
    pub options: BBIWriteOptions,
}
pub struct BigBedWrite {
    pub out: OutFile,
    pub chrom_sizes: SizeMap,
    pub options: BBIWriteOptions,
    pub autosql: Option<Str>,
}
// the tools' arguments (clap attributes dropped)
pub struct BBIWriteArgs {
    pub nthreads: usize,

    pub nzooms: u32,

    pub zooms: Option<Vec<u32>>,

    pub uncompressed: bool,

    pub sorted: Str,

    pub block_size: u32,

    pub items_per_slot: u32,

    pub inmemory: bool,
}
pub struct BedGraphToBigWigArgs {
    pub bedgraph: Str,

    pub chromsizes: Str,

    pub output: Str,

    pub parallel: Str,

    pub single_pass: bool,

    pub write_args: BBIWriteArgs,
}
pub struct BedToBigBedArgs {
    pub bed: Str,

    pub chromsizes: Str,

    pub output: Str,

    pub autosql: Option<Str>,

    pub parallel: Str,

    pub single_pass: bool,

    pub write_args: BBIWriteArgs,
}

// =====================================================================================
// the file system, the sources, the runtime, the writers -- as far as this code sees them
// =====================================================================================
pub ghost enum Where { Stdin, Path(Str) }
pub enum Fmt { BedGraph, Bed }
/// deterministic file system (ASSUMED)
pub uninterp spec fn fs_can_open(p: Str) -> bool;
pub uninterp spec fn fs_len(p: Str) -> u64;
/// what `index_chroms` finds in the file named p: Ok(None) = not sorted by chromosome (no index)
pub uninterp spec fn fs_index(p: Str) -> Result<Option<Index>, IoErr>;
/// the table the chrom.sizes parser builds from the file
pub uninterp spec fn sizes_of(w: Where) -> SizeMap;
pub uninterp spec fn fs_content(p: Str) -> Str;
/// the writer options `create_file` starts from (BBIWriteOptions::default())
pub uninterp spec fn default_options() -> BBIWriteOptions;

/// `File` opened for reading / `StdinLock`
#[verifier::external_body] pub struct InFile { _p: u8 }
#[verifier::external_body] pub struct Meta { _p: u8 }
impl InFile {
    pub uninterp spec fn from(&self) -> Where;
    /// may fail (nothing promised about when)
    #[verifier::external_body]
    pub fn metadata(&self) -> (r: Result<Meta, IoErr>) ensures r matches Ok(m) ==> m.of() == self.from(), { unimplemented!() }
}
impl Meta {
    pub uninterp spec fn of(&self) -> Where;
    #[verifier::external_body]
    pub fn len(&self) -> (r: u64) ensures self.of() matches Where::Path(p) ==> r == fs_len(p), { unimplemented!() }
}
/// `crate::bed::indexer::index_chroms(file)`
#[verifier::external_body]
pub fn index_chroms(f: InFile) -> (r: Result<Option<Index>, IoErr>)
    ensures f.from() matches Where::Path(p) ==> r == fs_index(p),
{ unimplemented!() }

/// what a source reads and how: the description the write event records
pub ghost enum SrcSpec {
    /// BedParserStreamingIterator::from_{bedgraph,bed}_file(file, allow_out_of_order_chroms)
    Serial { from: Where, allow: bool, fmt: Fmt },
    /// BedParserParallelStreamingIterator::new(index, allow_out_of_order_chroms, path, parser)
    Parallel { index: Index, allow: bool, path: Str, fmt: Fmt },
}
#[verifier::external_body] pub struct Src { _p: u8 }
impl Src { pub uninterp spec fn desc(&self) -> SrcSpec; }
pub struct BedParserStreamingIterator {}
impl BedParserStreamingIterator {
    #[verifier::external_body]
    pub fn from_bedgraph_file(f: InFile, allow_out_of_order_chroms: bool) -> (r: Src)
        ensures r.desc() == (SrcSpec::Serial { from: f.from(), allow: allow_out_of_order_chroms, fmt: Fmt::BedGraph }),
    { unimplemented!() }
    #[verifier::external_body]
    pub fn from_bed_file(f: InFile, allow_out_of_order_chroms: bool) -> (r: Src)
        ensures r.desc() == (SrcSpec::Serial { from: f.from(), allow: allow_out_of_order_chroms, fmt: Fmt::Bed }),
    { unimplemented!() }
}
pub struct BedParserParallelStreamingIterator {}
impl BedParserParallelStreamingIterator {
    #[verifier::external_body]
    pub fn new(index: Index, allow_out_of_order_chroms: bool, path: Str, parser: Fmt) -> (r: Src)
        ensures r.desc() == (SrcSpec::Parallel { index, allow: allow_out_of_order_chroms, path, fmt: parser }),
    { unimplemented!() }
}

/// tokio runtime: current-thread, or multi-thread with that many workers (None: tokio's default)
pub ghost enum RtKind { Current, Multi(Option<usize>) }
#[verifier::external_body] pub struct Runtime { _p: u8 }
impl Runtime { pub uninterp spec fn kind(&self) -> RtKind; }
pub mod runtime {
    use super::*;
    #[verifier::external_body] pub struct Builder { _p: u8 }
    #[verifier::external_body] pub struct BuildRes { _p: u8 }
    impl Builder {
        pub uninterp spec fn kind(&self) -> RtKind;
        #[verifier::external_body] pub fn new_current_thread() -> (r: Builder) ensures r.kind() == RtKind::Current, { unimplemented!() }
        #[verifier::external_body] pub fn new_multi_thread() -> (r: Builder) ensures r.kind() == RtKind::Multi(None), { unimplemented!() }
        /// real signature: `&mut self -> &mut Self`
        #[verifier::external_body]
        pub fn worker_threads(self, n: usize) -> (r: Builder)
            ensures self.kind() is Multi ==> r.kind() == RtKind::Multi(Some(n)), self.kind() is Current ==> r.kind() == RtKind::Current,
        { unimplemented!() }
        #[verifier::external_body] pub fn enable_all(self) -> (r: Builder) ensures r.kind() == self.kind(), { unimplemented!() }
        #[verifier::external_body] pub fn build(self) -> (r: BuildRes) ensures r.kind() == self.kind(), { unimplemented!() }
    }
    impl BuildRes {
        pub uninterp spec fn kind(&self) -> RtKind;
        /// a failing build PANICS (not modelled)
        #[verifier::external_body] pub fn unwrap(self) -> (r: Runtime) ensures r.kind() == self.kind(), { unimplemented!() }
    }
}

/// one call of a writer entry: everything it was given
pub ghost struct WriteEv {
    pub out: Str,
    pub sizes: SizeMap,
    pub options: BBIWriteOptions,
    pub autosql: Option<Str>,
    pub src: SrcSpec,
    /// false: `write` (single pass), true: `write_multipass` (the source is built once per pass)
    pub multipass: bool,
    pub rt: RtKind,
}
/// ghost record of the writer calls + handle on the file system
#[verifier::external_body] pub struct Env { _p: u8 }
impl Env {
    pub uninterp spec fn writes(&self) -> Seq<WriteEv>;
    /// `File::open(p)` (p: `String` or `&String`)
    #[verifier::external_body]
    pub fn open<P: PathArg>(&mut self, p: P) -> (r: Result<InFile, IoErr>)
        ensures final(self).writes() == old(self).writes(), r is Ok <==> fs_can_open(p.name()), r matches Ok(f) ==> f.from() == Where::Path(p.name()),
    { unimplemented!() }
    /// `std::io::stdin().lock()`
    #[verifier::external_body]
    pub fn stdin_lock(&mut self) -> (r: InFile) ensures final(self).writes() == old(self).writes(), r.from() == Where::Stdin, { unimplemented!() }
    /// `std::fs::read_to_string(p)`
    #[verifier::external_body]
    pub fn read_to_string(&mut self, p: &Str) -> (r: Result<Str, IoErr>)
        ensures final(self).writes() == old(self).writes(), r matches Ok(t) ==> t == fs_content(*p),
    { unimplemented!() }
    /// the chrom.sizes parser: `BufReader::new(FILE).lines().filter(non-empty).map(split_whitespace ..).collect()`
    /// (iterator adaptors: outside Verus).  ASSUMED: a function of the file.  It PANICS on a malformed line
    /// (`expect("Missing size")`, `parse::<u32>().unwrap()`): a panic returns nothing -- see NOTES.
    #[verifier::external_body]
    pub fn parse_chrom_sizes(&mut self, f: InFile) -> (r: SizeMap)
        ensures final(self).writes() == old(self).writes(), r == sizes_of(f.from()),
    { unimplemented!() }
}
/// bedtobigbed's choice of the autoSql text for file input (`let autosql = match args.autosql.as_ref() { .. };`):
/// unit autosql_choice; here a stub that writes nothing
#[verifier::external_body]
pub fn autosql_choice(env: &mut Env, given: &Option<Str>, bedpath: &Str) -> (r: Result<Option<Str>, AnyErr>)
    ensures final(env).writes() == old(env).writes(),
{ unimplemented!() }

impl BigWigWrite {
    /// `BigWigWrite::create_file(path, chrom_sizes)`: creates (truncates) the output file, default options
    #[verifier::external_body]
    pub fn create_file(path: Str, chrom_sizes: SizeMap) -> (r: Result<BigWigWrite, IoErr>)
        ensures r matches Ok(w) ==> w.out.path() == path && w.chrom_sizes == chrom_sizes && w.options == default_options(),
    { unimplemented!() }
    #[verifier::external_body]
    pub fn write(self, env: &mut Env, vals: Src, rt: Runtime) -> (r: Result<(), WriteErr>)
        ensures final(env).writes() == old(env).writes().push(WriteEv { out: self.out.path(), sizes: self.chrom_sizes, options: self.options,
            autosql: None, src: vals.desc(), multipass: false, rt: rt.kind() }),
    { unimplemented!() }
    /// `write_multipass(|| { BODY }, runtime)`: the closure is called once per pass (twice).  Here (presub, see NOTES)
    /// BODY is evaluated ONCE at the call site and its result is passed in.
    #[verifier::external_body]
    pub fn write_multipass(self, make_vals: Result<Src, AnyErr>, rt: Runtime, env: &mut Env) -> (r: Result<(), WriteErr>)
        ensures
            make_vals matches Ok(vals) ==> final(env).writes() == old(env).writes().push(WriteEv { out: self.out.path(), sizes: self.chrom_sizes,
                options: self.options, autosql: None, src: vals.desc(), multipass: true, rt: rt.kind() }),
            make_vals is Err ==> final(env).writes() == old(env).writes() && r is Err,
    { unimplemented!() }
}
impl BigBedWrite {
    #[verifier::external_body]
    pub fn create_file(path: Str, chrom_sizes: SizeMap) -> (r: Result<BigBedWrite, IoErr>)
        ensures r matches Ok(w) ==> w.out.path() == path && w.chrom_sizes == chrom_sizes && w.options == default_options() && w.autosql is None,
    { unimplemented!() }
    #[verifier::external_body]
    pub fn write(self, env: &mut Env, vals: Src, rt: Runtime) -> (r: Result<(), WriteErr>)
        ensures final(env).writes() == old(env).writes().push(WriteEv { out: self.out.path(), sizes: self.chrom_sizes, options: self.options,
            autosql: self.autosql, src: vals.desc(), multipass: false, rt: rt.kind() }),
    { unimplemented!() }
    #[verifier::external_body]
    pub fn write_multipass(self, make_vals: Result<Src, AnyErr>, rt: Runtime, env: &mut Env) -> (r: Result<(), WriteErr>)
        ensures
            make_vals matches Ok(vals) ==> final(env).writes() == old(env).writes().push(WriteEv { out: self.out.path(), sizes: self.chrom_sizes,
                options: self.options, autosql: self.autosql, src: vals.desc(), multipass: true, rt: rt.kind() }),
            make_vals is Err ==> final(env).writes() == old(env).writes() && r is Err,
    { unimplemented!() }
}

// =====================================================================================
// specification vocabulary
// =====================================================================================
/// `--sorted`: all / start; anything else (including the declared `none`) is refused
pub open spec fn sort_of(s: &str) -> Option<InputSortType> {
    if s == "all" { Some(InputSortType::ALL) } else if s == "start" { Some(InputSortType::START) } else { None }
}
pub open spec fn is_stdin(p: Str) -> bool { p.text() == "-" || p.text() == "stdin" || p.text() == "/dev/stdin" }
/// the input: the FIRST positional argument, or stdin for its three spellings
pub open spec fn input_of(p: Str) -> Where { if is_stdin(p) { Where::Stdin } else { Where::Path(p) } }
/// doc: is a parallel read attempted (-t 1 and `no`: never; `yes`: always; `auto` and any other word: files >= 200 MB)
pub open spec fn par_wanted(nthreads: usize, par: &str, len: u64) -> bool {
    if nthreads == 1 || par == "no" { false } else if par == "yes" { true } else { len >= 200_000_000 }
}
pub open spec fn par_required(nthreads: usize, par: &str) -> bool { nthreads != 1 && par != "no" && par == "yes" }
/// doc: the parallel source is used iff it is wanted and the file has a chromosome index (is sorted)
pub open spec fn uses_parallel(path: Str, nthreads: usize, par: &str) -> bool {
    !is_stdin(path) && par_wanted(nthreads, par, fs_len(path)) && (fs_index(path) matches Ok(Some(_)))
}
/// doc: the two documented cancellations (message, Ok(()), no write)
pub open spec fn cancelled(path: Str, nthreads: usize, par: &str, sorted: &str) -> bool {
    sort_of(sorted) is None
    || (!is_stdin(path) && par_required(nthreads, par) && fs_index(path) == Ok::<Option<Index>, IoErr>(None))
}
/// the source's own view of which file / flag / format it reads
pub open spec fn src_from(s: SrcSpec) -> Where { match s { SrcSpec::Serial { from, .. } => from, SrcSpec::Parallel { path, .. } => Where::Path(path) } }
pub open spec fn src_allow(s: SrcSpec) -> bool { match s { SrcSpec::Serial { allow, .. } => allow, SrcSpec::Parallel { allow, .. } => allow } }
pub open spec fn src_fmt(s: SrcSpec) -> Fmt { match s { SrcSpec::Serial { fmt, .. } => fmt, SrcSpec::Parallel { fmt, .. } => fmt } }
/// exactly one more write than before, and it is w
pub open spec fn one_write(before: Seq<WriteEv>, after: Seq<WriteEv>) -> bool { after.len() == before.len() + 1 && after.drop_last() =~= before }


// ---------------- bedgraphtobigwig ----------------
pub fn bedgraphtobigwig(args: BedGraphToBigWigArgs, env: &mut Env) -> (r: Result<(), AnyErr>)
    ensures
        
        final(env).writes() == old(env).writes() || one_write(old(env).writes(), final(env).writes()),
        
        r is Ok && !cancelled(args.bedgraph, args.write_args.nthreads, args.parallel.text(), args.write_args.sorted.text())
            ==> one_write(old(env).writes(), final(env).writes()),
        
        one_write(old(env).writes(), final(env).writes()) ==> src_from(final(env).writes().last().src) == input_of(args.bedgraph),
        
        one_write(old(env).writes(), final(env).writes()) ==> src_fmt(final(env).writes().last().src) == Fmt::BedGraph,
        
        one_write(old(env).writes(), final(env).writes()) ==> final(env).writes().last().out == args.output
            && final(env).writes().last().sizes == sizes_of(Where::Path(args.chromsizes)),
        
        one_write(old(env).writes(), final(env).writes()) ==> final(env).writes().last().options.max_zooms == args.write_args.nzooms,
        
        one_write(old(env).writes(), final(env).writes()) ==> final(env).writes().last().options.manual_zoom_sizes == args.write_args.zooms,
        
        one_write(old(env).writes(), final(env).writes()) ==> final(env).writes().last().options.compress == !args.write_args.uncompressed,
        
        one_write(old(env).writes(), final(env).writes()) ==> Some(final(env).writes().last().options.input_sort_type) == sort_of(args.write_args.sorted.text()),
        
        one_write(old(env).writes(), final(env).writes()) ==> final(env).writes().last().options.inmemory == args.write_args.inmemory,
        
        one_write(old(env).writes(), final(env).writes()) && args.write_args.nthreads == 1 ==> final(env).writes().last().options.channel_size == 0
            && final(env).writes().last().rt == RtKind::Current,
        
        one_write(old(env).writes(), final(env).writes()) && args.write_args.nthreads != 1 ==> final(env).writes().last().options.channel_size == default_options().channel_size
            && final(env).writes().last().rt == RtKind::Multi(Some(args.write_args.nthreads)),
        
        one_write(old(env).writes(), final(env).writes()) ==> final(env).writes().last().options.block_size == args.write_args.block_size,
        
        one_write(old(env).writes(), final(env).writes()) ==> final(env).writes().last().options.items_per_slot == default_options().items_per_slot
            && final(env).writes().last().options.initial_zoom_size == default_options().initial_zoom_size,
        
        sort_of(args.write_args.sorted.text()) is None ==> r is Ok && final(env).writes() == old(env).writes(),
        
        cancelled(args.bedgraph, args.write_args.nthreads, args.parallel.text(), args.write_args.sorted.text()) ==> final(env).writes() == old(env).writes(),
        
        one_write(old(env).writes(), final(env).writes()) ==> src_allow(final(env).writes().last().src) == (args.write_args.sorted.text() != "all"),
        
        one_write(old(env).writes(), final(env).writes()) && is_stdin(args.bedgraph) ==> final(env).writes().last().src is Serial && !final(env).writes().last().multipass,
        
        one_write(old(env).writes(), final(env).writes()) && !is_stdin(args.bedgraph) ==> (final(env).writes().last().src is Parallel
            <==> uses_parallel(args.bedgraph, args.write_args.nthreads, args.parallel.text())),
        
        one_write(old(env).writes(), final(env).writes()) ==> (final(env).writes().last().src matches SrcSpec::Parallel { index, .. }
            ==> fs_index(args.bedgraph) == Ok::<Option<Index>, IoErr>(Some(index))),
        
        one_write(old(env).writes(), final(env).writes()) && !is_stdin(args.bedgraph) ==> final(env).writes().last().multipass == !args.single_pass,
{
    let bedgraphpath = args.bedgraph;
    let chrom_map = args.chromsizes;
    let bigwigpath = args.output;
    let nthreads = args.write_args.nthreads;
    let input_sort_type = match args.write_args.sorted.as_ref() {
        "all" => InputSortType::ALL,
        "start" => InputSortType::START,
        "none" => {
            eprintln!("Using completely unsorted input is not implemented yet.");
            return Ok(());
        }
        sorted => {
            eprintln!(
                "Invalid option for `sorted`: `{}`. Options are `all`, `start`, or `none`.",
                sorted
            );
            return Ok(());
        }
    };

    let sizes_file__ = env.open(chrom_map)?; let chrom_map: SizeMap = env.parse_chrom_sizes(sizes_file__);

    let mut outb = BigWigWrite::create_file(bigwigpath, chrom_map)?;
    outb.options.max_zooms = args.write_args.nzooms;
    outb.options.manual_zoom_sizes = args.write_args.zooms;
    outb.options.compress = !args.write_args.uncompressed;
    outb.options.input_sort_type = input_sort_type;
    outb.options.block_size = args.write_args.block_size;
    outb.options.inmemory = args.write_args.inmemory;

    let runtime = if nthreads == 1 {
        outb.options.channel_size = 0;
        runtime::Builder::new_current_thread().build().unwrap()
    } else {
        runtime::Builder::new_multi_thread()
            .worker_threads(nthreads)
            .build()
            .unwrap()
    };

    let allow_out_of_order_chroms = !matches!(outb.options.input_sort_type, InputSortType::ALL);
    if bedgraphpath.eq_lit("-") || bedgraphpath.eq_lit("stdin") || bedgraphpath.eq_lit("/dev/stdin") {
        let stdin = env.stdin_lock();
        let vals = BedParserStreamingIterator::from_bedgraph_file(stdin, allow_out_of_order_chroms);
        outb.write(env,vals, runtime)?;
    } else {
        let infile = env.open(&bedgraphpath)?;
        let (parallel, parallel_required) = match (nthreads, args.parallel.as_ref()) {
            (1, _) | (_, "no") => (false, false),
            (_, "auto") => (infile.metadata()?.len() >= 200_000_000, false),
            (_, "yes") => (true, true),
            (_, v) => {
                eprintln!(
                    "Unexpected value for `parallel`: \"{}\". Defaulting to `auto`.",
                    v
                );
                (infile.metadata()?.len() >= 200_000_000, false)
            }
        };
        let chrom_indices = match parallel {
            false => None,
            true => {
                let index = index_chroms(infile)?;
                match (index, parallel_required) {
                    (Some(index), _) => Some(index),
                    (None, true) => {
                        eprintln!(
                            "Parallel conversion requires a sorted bedGraph file. Cancelling.",
                        );
                        return Ok(());
                    }
                    (None, false) => None,
                }
            }
        };
        if let Some(chrom_indices) = chrom_indices {
            if args.single_pass {
                let data = BedParserParallelStreamingIterator::new(
                    chrom_indices,
                    allow_out_of_order_chroms,
                    PathBuf::from(bedgraphpath),
                    Fmt::BedGraph,
                );
                outb.write(env,data, runtime)?;
            } else {
                outb.write_multipass(
                    {
                        let data = BedParserParallelStreamingIterator::new(
                            chrom_indices.clone(),
                            allow_out_of_order_chroms,
                            PathBuf::from(bedgraphpath.clone()),
                            Fmt::BedGraph,
                        );

                        Ok(data)
                    },
                    runtime, env,
                )?;
            }
        } else {
            let infile = env.open(&bedgraphpath)?;
            if args.single_pass {
                let vals = BedParserStreamingIterator::from_bedgraph_file(
                    infile,
                    allow_out_of_order_chroms,
                );
                outb.write(env,vals, runtime)?;
            } else {
                outb.write_multipass(
                    {
                        let infile = env.open(&bedgraphpath)?;
                        Ok(BedParserStreamingIterator::from_bedgraph_file(
                            infile,
                            allow_out_of_order_chroms,
                        ))
                    },
                    runtime, env,
                )?;
            }
        }
    };

    Ok(())
}


// ---------------- bedtobigbed ----------------
pub fn bedtobigbed(args: BedToBigBedArgs, env: &mut Env) -> (r: Result<(), AnyErr>)
    ensures
        
        final(env).writes() == old(env).writes() || one_write(old(env).writes(), final(env).writes()),
        
        r is Ok && !cancelled(args.bed, args.write_args.nthreads, args.parallel.text(), args.write_args.sorted.text())
            ==> one_write(old(env).writes(), final(env).writes()),
        
        one_write(old(env).writes(), final(env).writes()) ==> src_from(final(env).writes().last().src) == input_of(args.bed),
        
        one_write(old(env).writes(), final(env).writes()) ==> src_fmt(final(env).writes().last().src) == Fmt::Bed,
        
        one_write(old(env).writes(), final(env).writes()) ==> final(env).writes().last().out == args.output
            && final(env).writes().last().sizes == sizes_of(Where::Path(args.chromsizes)),
        
        one_write(old(env).writes(), final(env).writes()) ==> final(env).writes().last().options.max_zooms == args.write_args.nzooms,
        
        one_write(old(env).writes(), final(env).writes()) ==> final(env).writes().last().options.manual_zoom_sizes == args.write_args.zooms,
        
        one_write(old(env).writes(), final(env).writes()) ==> final(env).writes().last().options.compress == !args.write_args.uncompressed,
        
        one_write(old(env).writes(), final(env).writes()) ==> Some(final(env).writes().last().options.input_sort_type) == sort_of(args.write_args.sorted.text()),
        
        one_write(old(env).writes(), final(env).writes()) ==> final(env).writes().last().options.inmemory == args.write_args.inmemory,
        
        one_write(old(env).writes(), final(env).writes()) && args.write_args.nthreads == 1 ==> final(env).writes().last().options.channel_size == 0
            && final(env).writes().last().rt == RtKind::Current,
        
        one_write(old(env).writes(), final(env).writes()) && args.write_args.nthreads != 1 ==> final(env).writes().last().options.channel_size == default_options().channel_size
            && final(env).writes().last().rt == RtKind::Multi(Some(args.write_args.nthreads)),
        
        one_write(old(env).writes(), final(env).writes()) ==> final(env).writes().last().options.block_size == default_options().block_size,
        
        one_write(old(env).writes(), final(env).writes()) ==> final(env).writes().last().options.items_per_slot == default_options().items_per_slot
            && final(env).writes().last().options.initial_zoom_size == default_options().initial_zoom_size,
        
        sort_of(args.write_args.sorted.text()) is None ==> r is Ok && final(env).writes() == old(env).writes(),
        
        cancelled(args.bed, args.write_args.nthreads, args.parallel.text(), args.write_args.sorted.text()) ==> final(env).writes() == old(env).writes(),
        
        one_write(old(env).writes(), final(env).writes()) ==> src_allow(final(env).writes().last().src) == (args.write_args.sorted.text() != "all"),
        
        one_write(old(env).writes(), final(env).writes()) && is_stdin(args.bed) ==> final(env).writes().last().src is Serial && !final(env).writes().last().multipass,
        
        one_write(old(env).writes(), final(env).writes()) && !is_stdin(args.bed) ==> (final(env).writes().last().src is Parallel
            <==> uses_parallel(args.bed, args.write_args.nthreads, args.parallel.text())),
        
        one_write(old(env).writes(), final(env).writes()) ==> (final(env).writes().last().src matches SrcSpec::Parallel { index, .. }
            ==> fs_index(args.bed) == Ok::<Option<Index>, IoErr>(Some(index))),
        
        one_write(old(env).writes(), final(env).writes()) && !is_stdin(args.bed) ==> final(env).writes().last().multipass == !args.single_pass,
{
    let bedpath = args.bed;
    let chrom_map = args.chromsizes;
    let bigwigpath = args.output;
    let nthreads = args.write_args.nthreads;
    let input_sort_type = match args.write_args.sorted.as_ref() {
        "all" => InputSortType::ALL,
        "start" => InputSortType::START,
        "none" => {
            eprintln!("Using completely unsorted input is not implemented yet.");
            return Ok(());
        }
        sorted => {
            eprintln!(
                "Invalid option for `sorted`: `{}`. Options are `all`, `start`, or `none`.",
                sorted
            );
            return Ok(());
        }
    };

    let chrom_map = env.open(&chrom_map)?;
    let sizes_file__ = chrom_map; let chrom_map: SizeMap = env.parse_chrom_sizes(sizes_file__);

    let mut outb = BigBedWrite::create_file(bigwigpath, chrom_map)?;
    outb.options.max_zooms = args.write_args.nzooms;
    outb.options.manual_zoom_sizes = args.write_args.zooms;
    outb.options.compress = !args.write_args.uncompressed;
    outb.options.input_sort_type = input_sort_type;
    outb.options.inmemory = args.write_args.inmemory;
    let runtime = if nthreads == 1 {
        outb.options.channel_size = 0;
        runtime::Builder::new_current_thread().build().unwrap()
    } else {
        runtime::Builder::new_multi_thread()
            .worker_threads(nthreads)
            .build()
            .unwrap()
    };

    let allow_out_of_order_chroms = !matches!(outb.options.input_sort_type, InputSortType::ALL);
    if bedpath.eq_lit("-") || bedpath.eq_lit("stdin") || bedpath.eq_lit("/dev/stdin") {
        if let Some(file) = args.autosql.as_ref() {
            outb.autosql = Some(env.read_to_string(file)?);
        }
        let stdin = env.stdin_lock();
        let data = BedParserStreamingIterator::from_bed_file(stdin, allow_out_of_order_chroms);
        outb.write(env,data, runtime)?;
    } else {
        let autosql = autosql_choice(env, &args.autosql, &bedpath)?;
        outb.autosql = autosql;

        let infile = env.open(&bedpath)?;
        let (parallel, parallel_required) = match (nthreads, args.parallel.as_ref()) {
            (1, _) | (_, "no") => (false, false),
            (_, "auto") => (infile.metadata()?.len() >= 200_000_000, false),
            (_, "yes") => (true, true),
            (_, v) => {
                eprintln!(
                    "Unexpected value for `parallel`: \"{}\". Defaulting to `auto`.",
                    v
                );
                (infile.metadata()?.len() >= 200_000_000, false)
            }
        };
        let chrom_indices = match parallel {
            false => None,
            true => {
                let index = index_chroms(infile)?;
                match (index, parallel_required) {
                    (Some(index), _) => Some(index),
                    (None, true) => {
                        eprintln!(
                            "Parallel conversion requires a sorted bedGraph file. Cancelling.",
                        );
                        return Ok(());
                    }
                    (None, false) => None,
                }
            }
        };
        if let Some(chrom_indices) = chrom_indices {
            if args.single_pass {
                let data = BedParserParallelStreamingIterator::new(
                    chrom_indices,
                    allow_out_of_order_chroms,
                    PathBuf::from(bedpath),
                    Fmt::Bed,
                );
                outb.write(env,data, runtime)?;
            } else {
                outb.write_multipass(
                    {
                        let data = BedParserParallelStreamingIterator::new(
                            chrom_indices.clone(),
                            allow_out_of_order_chroms,
                            PathBuf::from(bedpath.clone()),
                            Fmt::Bed,
                        );

                        Ok(data)
                    },
                    runtime, env,
                )?;
            }
        } else {
            if args.single_pass {
                let infile = env.open(&bedpath)?;
                let data =
                    BedParserStreamingIterator::from_bed_file(infile, allow_out_of_order_chroms);
                outb.write(env,data, runtime)?;
            } else {
                outb.write_multipass(
                    {
                        let infile = env.open(&bedpath)?;
                        let data = BedParserStreamingIterator::from_bed_file(
                            infile,
                            allow_out_of_order_chroms,
                        );

                        Ok(data)
                    },
                    runtime, env,
                )?;
            }
        }
    };

    Ok(())
}


} // verus!
fn main() {}

