//@unit avg_fn
//@serves C17
//@backend verus
// bigtools::utils::misc::bigwig_average_over_bed -- "the average-over-bed FUNCTION" of C17 (what pybigtools calls).
//   C17: "For every BED region on a chromosome present in the bigWig, the average-over-bed function and tool report
//         region size, covered bases, sum, mean over the region, mean over covered bases, minimum and maximum exactly as
//         defined from the stored values clipped to the region ... There is one output row per input row in input order
//         with the requested name column ..."
// The function returns `std::iter::from_fn(move || { .. })`: a closure over the captured state (`bedstream`, `error`,
// `bigwig`, `name`).  It is cut from /repo on every run, twice, and shaped by presubs on its own text:
//   * `avg_iter_new` (labels `new/*`): the function WHOLE with the closure expression `move || -> .. { .. }` replaced by the
//                      record of its captures: `let iter = from_fn(AvgIter { bedstream, error, bigwig, name }); iter`;
//   * `step`         (labels `step/*`): the closure body, verbatim, as the `next`-step of the state machine
//                      `step(st: &mut AvgIter)`; captured variable X is spelled `st.X`.
// The callees verified elsewhere (units bedparse / avg_names / stats) are shims carrying those units' contracts.
// `rows_until_none` (template code, verified) is the consumer: it calls `step` until `None` and proves the statement about
// the WHOLE iteration from `step`'s contract alone (`drain/*`, `whole/*`).  See NOTES.md.
use vstd::prelude::*;
verus! {

// =====================================================================================
// opaque stand-ins (R11)
// =====================================================================================
/// every piece of text (`String` / `&str`): a BED line, a chromosome name, a name column
#[verifier::external_body] pub struct Text { _p: u8 }
/// std::io::Error
#[verifier::external_body] pub struct IoErr { _p: u8 }
/// bbiread::BBIReadError (which variant: not needed here)
#[verifier::external_body] pub struct BBIReadError { _p: u8 }
/// misc::InvalidNameColError (a message)
#[verifier::external_body] pub struct InvalidNameColError { _p: u8 }
impl Text {
    #[verifier::external_body] pub fn to_owned(&self) -> (r: Text) ensures r == *self, { unimplemented!() }
    #[verifier::external_body] pub fn to_string(&self) -> (r: Text) ensures r == *self, { unimplemented!() }
    #[verifier::external_body] pub fn as_str(&self) -> (r: &Text) ensures *r == *self, { unimplemented!() }
    // plausible foreign calls: nothing promised (an edit using them is judged by the contract, not rejected)
    #[verifier::external_body] pub fn new() -> Text { unimplemented!() }
    #[verifier::external_body] pub fn trim(&self) -> &Text { unimplemented!() }
    #[verifier::external_body] pub fn trim_end(&self) -> &Text { unimplemented!() }
    #[verifier::external_body] pub fn is_empty(&self) -> bool { unimplemented!() }
    #[verifier::external_body] pub fn len(&self) -> usize { unimplemented!() }
    #[verifier::external_body] pub fn starts_with(&self, p: &str) -> bool { unimplemented!() }
}
impl Clone for Text {
    #[verifier::external_body] fn clone(&self) -> (r: Text) ensures r == *self, { unimplemented!() }
}

//@extract struct bigtools/src/bbi.rs BedEntry
//@rule R8
//@sub /#\[derive\([^\)]*\)\]\n/ => "" min=0
//@sub /rest: String/ => rest: Text min=1
//@end
impl Clone for BedEntry {
    /// `#[derive(Clone)]` of the repository's BedEntry
    fn clone(&self) -> (r: BedEntry) ensures r == *self, { BedEntry { start: self.start, end: self.end, rest: self.rest.clone() } }
}
//@extract enum bigtools/src/utils/misc.rs Name
//@rule R8
//@end
//@extract struct bigtools/src/utils/misc.rs BigWigAverageOverBedEntry
//@rule R8
//@end
// thiserror attributes dropped; io::Error -> IoErr; the message String -> Text
//@extract enum bigtools/src/bed/bedparser.rs BedValueError
//@rule R8
//@sub /#\[derive\(Error, Debug\)\]\n/ => "" min=0
//@sub /[ \t]*#\[error\([^\n]*\)\]\n/ => "" min=0
//@sub /#\[from\] io::Error/ => IoErr min=1
//@sub /InvalidInput\(String\)/ => InvalidInput(Text) min=1
//@end
// the function's own error type: thiserror attributes dropped (`#[from]` = the `From` impls behind `.into()`, below)
//@extract enum bigtools/src/utils/misc.rs BigWigAverageOverBedError
//@rule R8
//@sub /#\[derive\(Error, Debug\)\]\n/ => "" min=0
//@sub /[ \t]*#\[error\([^\n]*\)\]\n/ => "" min=0
//@sub /#\[from\] / => "" min=3
//@end
// `e.into()` with target BigWigAverageOverBedError = thiserror's `#[from]`: the error wrapped in ITS variant (inherent
// methods of the shims; verified, not assumed)
impl BBIReadError {
    pub fn into(self) -> (r: BigWigAverageOverBedError) ensures r == BigWigAverageOverBedError::BBIReadError(self), { BigWigAverageOverBedError::BBIReadError(self) }
}
impl BedValueError {
    pub fn into(self) -> (r: BigWigAverageOverBedError) ensures r == BigWigAverageOverBedError::BedValueError(self), { BigWigAverageOverBedError::BedValueError(self) }
}
impl InvalidNameColError {
    pub fn into(self) -> (r: BigWigAverageOverBedError) ensures r == BigWigAverageOverBedError::InvalidNameColError(self), { BigWigAverageOverBedError::InvalidNameColError(self) }
}

// =====================================================================================
// unit bedparse: StreamingLineReader::{new, read}, parse_bed
// =====================================================================================
/// the `impl BufRead` handed in: the lines (or read errors) a `StreamingLineReader` yields over it, in order
#[verifier::external_body] pub struct BedInput { _p: u8 }
impl BedInput { pub uninterp spec fn lines(&self) -> Seq<Result<Text, IoErr>>; }
/// `StreamingLineReader<B>`: a finite list of lines (or read errors) and a cursor.  Unit bedparse:
/// `read/reader/none_iff_end_of_file`, `read/reader/exactly_one_line_consumed`,
/// `read/reader/line_is_that_line_alone_without_trailing_whitespace`, `read/reader/io_error_is_passed_on`
#[verifier::external_body] pub struct Lines { _p: u8 }
impl Lines {
    pub uninterp spec fn all(&self) -> Seq<Result<Text, IoErr>>;
    pub uninterp spec fn pos(&self) -> nat;
    #[verifier::external_body]
    pub fn read(&mut self) -> (r: Option<Result<&Text, IoErr>>)
        ensures
            final(self).all() == old(self).all(),
            old(self).pos() < old(self).all().len() ==> r is Some && final(self).pos() == old(self).pos() + 1
                && (r->Some_0 matches Ok(t) ==> old(self).all()[old(self).pos() as int] == Ok::<Text, IoErr>(*t))
                && (r->Some_0 matches Err(e) ==> old(self).all()[old(self).pos() as int] == Err::<Text, IoErr>(e)),
            old(self).pos() >= old(self).all().len() ==> r is None && final(self).pos() == old(self).pos(),
    { unimplemented!() }
}
pub struct StreamingLineReader {}
impl StreamingLineReader {
    /// unit bedparse `new/starts_at_the_first_line`
    #[verifier::external_body]
    pub fn new(f: BedInput) -> (r: Lines) ensures r.all() == f.lines(), r.pos() == 0, { unimplemented!() }
}
/// `parse_bed(line)`: a line is accepted (3 columns, numeric start/end) or refused; chrom = column 1, entry = start, end and
/// the rest of the line: uninterpreted functions of the line here.  Unit bedparse:
/// `parse_bed/bed/a_line_is_never_the_end_of_input` (`r is Some` for EVERY text: empty and blank lines included),
/// `../ok_iff_three_columns_and_start_end_numeric`, `../chrom_is_column_1`, `../start_is_the_number_in_column_2`,
/// `../end_is_the_number_in_column_3`, `../rest_is_everything_behind_the_third_tab_verbatim`,
/// `../malformed_line_is_refused_naming_the_first_bad_field` (the error is a function of the line)
pub uninterp spec fn p_ok(t: Text) -> bool;
pub uninterp spec fn p_chrom(t: Text) -> Text;
pub uninterp spec fn p_entry(t: Text) -> BedEntry;
pub uninterp spec fn p_err(t: Text) -> BedValueError;
#[verifier::external_body]
pub fn parse_bed<'a>(s: &'a Text) -> (r: Option<Result<(&'a Text, BedEntry), BedValueError>>)
    ensures
        r is Some,
        r->Some_0 is Ok <==> p_ok(*s),
        r matches Some(Ok(v)) ==> *v.0 == p_chrom(*s) && v.1 == p_entry(*s),
        r matches Some(Err(e)) ==> e == p_err(*s),
{ unimplemented!() }

// =====================================================================================
// unit avg_names: name_for_bed_item
// =====================================================================================
/// the name column (definition: unit avg_names `name_spec`); None = the line does not have that column
pub uninterp spec fn name_spec(name: Name, chrom: Text, entry: BedEntry) -> Option<Text>;
/// the error `name_for_bed_item` reports for a missing column (a message: a function of the arguments)
pub uninterp spec fn name_err(name: Name, chrom: Text, entry: BedEntry) -> InvalidNameColError;
pub open spec fn name_ok(name: Name) -> bool { name matches Name::Column(c) ==> c < usize::MAX }
/// unit avg_names: `name_for_bed_item/pre_column_number_below_usize_max`,
/// `name_for_bed_item/name_is_the_requested_column_interval_or_whole_line`,
/// `name_for_bed_item/a_column_the_line_does_not_have_is_an_error`
#[verifier::external_body]
pub fn name_for_bed_item(name: Name, chrom: &Text, entry: &BedEntry) -> (r: Result<Text, InvalidNameColError>)
    requires
        [[L: names/pre_column_number_below_usize_max]]
        name_ok(name),
    ensures
        r matches Ok(t) ==> name_spec(name, *chrom, *entry) == Some(t),
        r is Err <==> name_spec(name, *chrom, *entry) is None,
        r matches Err(e) ==> e == name_err(name, *chrom, *entry),
{ unimplemented!() }

// =====================================================================================
// unit stats: stats_for_bed_item
// =====================================================================================
#[verifier::external_body] pub struct FileId { _p: u8 }
/// THE statistics of region [s, e) of chromosome `chrom` in bigWig f -- size, covered bases, sum, mean0, mean, min, max
/// as unit stats defines them from the stored values clipped to the region (`stats_for_bed_item/size_is_region_length`,
/// `../bases_is_sum_of_lengths`, `../sum_is_weighted_fold`, `../mean0_is_sum_over_size`, `../mean_is_sum_over_bases`,
/// `../min_is_fold_of_min`, `../max_is_fold_of_max`, `../nan_when_nothing_covered`) -- or the reader's error
/// (`../error_iff_reader_error`).  ASSUMED deterministic in (file, chrom, s, e).
pub uninterp spec fn stats_res(f: FileId, chrom: Text, s: u32, e: u32) -> Result<BigWigAverageOverBedEntry, BBIReadError>;
pub ghost struct Query { pub name: Text, pub start: u32, pub end: u32 }
/// `BigWigRead<R>`
#[verifier::external_body] pub struct Reader { _p: u8 }
impl Reader {
    pub uninterp spec fn file(&self) -> FileId;
    /// ghost log: the statistics calls (= range queries, unit stats `queries_the_region`) made through this handle, in order
    pub uninterp spec fn queries(&self) -> Seq<Query>;
}
/// unit stats: `stats_for_bed_item/pre` (region not inverted), `../queries_the_region`, `../error_iff_reader_error` and
/// the eight value labels behind `stats_res`
#[verifier::external_body]
pub fn stats_for_bed_item(chrom: &Text, entry: BedEntry, bigwig: &mut Reader) -> (r: Result<BigWigAverageOverBedEntry, BBIReadError>)
    requires
        [[L: stats/pre_region_not_inverted]]
        entry.start <= entry.end,
    ensures
        final(bigwig).file() == old(bigwig).file(),
        final(bigwig).queries() == old(bigwig).queries().push(Query { name: *chrom, start: entry.start, end: entry.end }),
        r == stats_res(old(bigwig).file(), *chrom, entry.start, entry.end),
{ unimplemented!() }

// =====================================================================================
// the captured state of the closure, and what C17 says about one step / the whole iteration
// =====================================================================================
/// the variables the `move ||` closure captures (R11: a closure's captures become the fields of a record)
pub struct AvgIter {
    pub bedstream: Lines,
    pub error: bool,
    pub bigwig: Reader,
    pub name: Name,
}
/// A variable the closure captures that the record above does not have (there is none today; an edit may add one in the
/// function's prefix): inside `step` it holds ANY value of its type at every call -- a superset of what the real closure
/// can see, so whatever is proved about `step` holds for the real closure; an edit whose result depends on such a
/// variable is judged (and fails) instead of being rejected by the front end
#[verifier::external_body]
pub fn captured_any<T>(init: T) -> T { unimplemented!() }
/// `std::mem::replace` (not supported by Verus; same semantics, verified)
pub fn replace_val<T>(dest: &mut T, src: T) -> (r: T)
    ensures r == *old(dest), *final(dest) == src,
{
    let mut s = src;
    core::mem::swap(dest, &mut s);
    s
}
/// `std::iter::from_fn(closure)`: the iterator whose `next` IS the closure (std contract) -- here the record of the
/// closure's captures.  Iterator adaptors an edit might hang on it before returning (`iter.skip(1)`, `.take(n)`, ..) are
/// accepted with NOTHING promised about the state, so that such an edit is judged by `new/*` (and fails)
pub struct FromFn { pub st: AvgIter }
pub fn from_fn(st: AvgIter) -> (r: FromFn) ensures r.st == st, { FromFn { st } }
impl FromFn {
    /// `Iterator::fuse`: no change for an iterator that stays finished (`step/a_finished_iterator_..`)
    pub fn fuse(self) -> (r: FromFn) ensures r == self, { self }
    #[verifier::external_body] pub fn skip(self, n: usize) -> FromFn { unimplemented!() }
    #[verifier::external_body] pub fn take(self, n: usize) -> FromFn { unimplemented!() }
    #[verifier::external_body] pub fn step_by(self, n: usize) -> FromFn { unimplemented!() }
    #[verifier::external_body] pub fn rev(self) -> FromFn { unimplemented!() }
    #[verifier::external_body] pub fn peekable(self) -> FromFn { unimplemented!() }
}
pub type AvgRow = (Text, BigWigAverageOverBedEntry);
pub type AvgItem = Result<AvgRow, BigWigAverageOverBedError>;

/// the region of line t as a statistics call
pub open spec fn l_query(t: Text) -> Query { Query { name: p_chrom(t), start: p_entry(t).start, end: p_entry(t).end } }
/// the name column of line t
pub open spec fn l_name(name: Name, t: Text) -> Option<Text> { name_spec(name, p_chrom(t), p_entry(t)) }
/// the statistics of line t: of ITS OWN chromosome and entry
pub open spec fn l_stats(f: FileId, t: Text) -> Result<BigWigAverageOverBedEntry, BBIReadError> {
    stats_res(f, p_chrom(t), p_entry(t).start, p_entry(t).end)
}
/// THE item of one input line (C17: one output row per input row): the row (requested name column, statistics of the
/// line's own region) -- or the error that kept the row from being produced (never nothing)
pub open spec fn line_item(f: FileId, name: Name, l: Result<Text, IoErr>) -> AvgItem {
    match l {
        Err(e) => Err(BigWigAverageOverBedError::BedValueError(BedValueError::IoError(e))),
        Ok(t) =>
            if !p_ok(t) { Err(BigWigAverageOverBedError::BedValueError(p_err(t))) }
            else {
                match l_name(name, t) {
                    None => Err(BigWigAverageOverBedError::InvalidNameColError(name_err(name, p_chrom(t), p_entry(t)))),
                    Some(n) => match l_stats(f, t) {
                        Err(e) => Err(BigWigAverageOverBedError::BBIReadError(e)),
                        Ok(v) => Ok((n, v)),
                    },
                }
            }
    }
}
/// the line has a row: read, parsed, it has the requested name column
pub open spec fn line_has_name(name: Name, l: Result<Text, IoErr>) -> bool {
    l matches Ok(t) && p_ok(t) && l_name(name, t) is Some
}
/// the line's item is an error after which the iterator is finished: the line could not be read, could not be parsed,
/// or its statistics could not be read from the bigWig
pub open spec fn line_ends_it(f: FileId, name: Name, l: Result<Text, IoErr>) -> bool {
    match l {
        Err(_) => true,
        Ok(t) => !p_ok(t) || (l_name(name, t) is Some && l_stats(f, t) is Err),
    }
}
/// the line's item is a name error (the requested column is missing from this line)
pub open spec fn line_lacks_name(name: Name, l: Result<Text, IoErr>) -> bool {
    l matches Ok(t) && p_ok(t) && l_name(name, t) is None
}
/// no accepted line names an inverted region (NOT checked by anyone: unit stats "Suspected defect", DESIGN 11.3)
pub open spec fn no_inverted_entry(ls: Seq<Result<Text, IoErr>>) -> bool {
    forall|k: int| 0 <= k < ls.len() ==> ((#[trigger] ls[k]) matches Ok(t) ==> (p_ok(t) ==> p_entry(t).start <= p_entry(t).end))
}
/// the iterator is finished: end of input, or an error that ends the iteration has been handed out
pub open spec fn finished(st: AvgIter) -> bool { st.error || st.bedstream.pos() >= st.bedstream.all().len() }
/// the line the next step will consume
pub open spec fn cur_line(st: AvgIter) -> Result<Text, IoErr> { st.bedstream.all()[st.bedstream.pos() as int] }

// =====================================================================================
// (1) the construction of the captured state: `bigwig_average_over_bed` whole, the closure replaced by the record of its captures
// =====================================================================================
//@extract fn bigtools/src/utils/misc.rs bigwig_average_over_bed
//@rule R16
//@rule R5
//@rule R6
//@rule R15
//@as new
//@presub /std::iter::from_fn\(\s*move \|\|[^{]*\{.*\},?\s*\)(?=\s*;?[^{}]*\}\s*\Z)/ => from_fn(AvgIter { bedstream, error, bigwig, name }) min=1 count=1
//@presub /^    let (mut )?(?!bedstream\b|error\b)(\w+)((?:: [^=;]+)?) = ((?:(?!\b(?:bedstream|bigwig|bed|error)\b)[^;])*);\n/ => "" min=0
//@sub /fn bigwig_average_over_bed<R: BBIFileRead>\(/ => fn avg_iter_new( min=1
//@sub /bed: impl BufRead,/ => bed: BedInput, min=1
//@sub /mut bigwig: BigWigRead<R>,/ => bigwig: Reader, min=1
//@sub /-> impl Iterator<Item = Result<\(String, BigWigAverageOverBedEntry\), BigWigAverageOverBedError>>/ => -> FromFn min=1
//@sub /\bString\b/ => Text min=0
//@ret it
//@sig
    ensures
        [[L: starts_at_the_first_line_of_the_bed_input]]
        it.st.bedstream.all() == bed.lines() && it.st.bedstream.pos() == 0,
        [[L: starts_without_a_pending_error]]
        !it.st.error,
        [[L: iterates_over_the_callers_bigwig_with_the_requested_name_mode]]
        it.st.bigwig == bigwig && it.st.name == name,
//@end

// =====================================================================================
// (2) one step: the closure body
// =====================================================================================
#[verifier::exec_allows_no_decreases_clause]
//@extract fn bigtools/src/utils/misc.rs bigwig_average_over_bed
//@rule R16
//@rule R5
//@rule R6
//@rule R15
//@rule R12c
//@as step
//@presub /\A.*?\)\s*->\s*impl Iterator<Item = ([^{]*)>\s*\{\n(.*?)[ \t]*(?:let \w+ = )?std::iter::from_fn\(\s*move \|\|[^{]*\{\n(.*)\n[ \t]*\},?\s*\)\s*;?[^{}]*\}\s*\Z/ => fn step(st: &mut AvgIter) -> Option<\1> {\n            let name = st.name;\n\2\3\n} min=1 count=1
//@presub /^    let mut bedstream\b[^;]*;\n/ => "" min=0
//@presub /^    let mut error\b[^;]*;\n/ => "" min=0
//@presub /^    let (mut )?(\w+)((?:: [^=;]+)?) = ((?:(?!\b(?:bedstream|bigwig|bed|error)\b)[^;])*);/ =>     let \1\2\3 = captured_any(\4); min=0
//@presub /^    let\b(?![^;]*captured_any\()[^;]*;\n/ => "" min=0
//@presub /\b(error|bedstream|bigwig)\b/ => st.\1 min=0
//@sub /(?:std|core)::mem::replace\(/ => replace_val( min=0
//@sub /\bString\b/ => Text min=0
//@ret r
//@sig
    requires
        [[L: pre_no_inverted_region]]
        no_inverted_entry(old(st).bedstream.all()),
        [[L: pre_column_number_below_usize_max]]
        name_ok(old(st).name),
    ensures
        [[L: input_bigwig_and_name_mode_are_never_replaced]]
        final(st).bedstream.all() == old(st).bedstream.all() && final(st).bigwig.file() == old(st).bigwig.file() && final(st).name == old(st).name,
        [[L: none_only_at_end_of_input_or_after_an_error_that_ended_the_iteration]]
        r is None <==> finished(*old(st)),
        [[L: a_finished_iterator_reads_nothing_queries_nothing_and_stays_finished]]
        finished(*old(st)) ==> final(st).bedstream.pos() == old(st).bedstream.pos() && final(st).bigwig.queries() == old(st).bigwig.queries()
            && final(st).error == old(st).error,
        [[L: each_call_consumes_exactly_one_line]]
        !finished(*old(st)) ==> final(st).bedstream.pos() == old(st).bedstream.pos() + 1,
        [[L: a_read_error_is_handed_out]]
        !finished(*old(st)) && cur_line(*old(st)) is Err ==> r == Some(line_item(old(st).bigwig.file(), old(st).name, cur_line(*old(st)))),
        [[L: a_parse_error_is_handed_out_never_a_silent_end]]
        !finished(*old(st)) && (cur_line(*old(st)) matches Ok(t) && !p_ok(t)) ==> r == Some(line_item(old(st).bigwig.file(), old(st).name, cur_line(*old(st)))),
        [[L: a_missing_name_column_is_handed_out_as_an_error]]
        !finished(*old(st)) && line_lacks_name(old(st).name, cur_line(*old(st))) ==> r == Some(line_item(old(st).bigwig.file(), old(st).name, cur_line(*old(st)))),
        [[L: a_statistics_error_is_handed_out]]
        !finished(*old(st)) && line_has_name(old(st).name, cur_line(*old(st))) && l_stats(old(st).bigwig.file(), cur_line(*old(st))->Ok_0) is Err
            ==> r == Some(line_item(old(st).bigwig.file(), old(st).name, cur_line(*old(st)))),
        [[L: row_name_is_the_requested_name_column_of_that_line]]
        r matches Some(Ok(row)) ==> Some(row.0) == l_name(old(st).name, cur_line(*old(st))->Ok_0),
        [[L: row_statistics_are_the_statistics_of_that_lines_own_region]]
        r matches Some(Ok(row)) ==> Ok::<BigWigAverageOverBedEntry, BBIReadError>(row.1) == l_stats(old(st).bigwig.file(), cur_line(*old(st))->Ok_0),
        [[L: the_item_is_the_row_or_the_error_of_the_line_consumed]]
        !finished(*old(st)) ==> r == Some(line_item(old(st).bigwig.file(), old(st).name, cur_line(*old(st)))),
        [[L: one_statistics_call_per_row_with_that_lines_own_chrom_and_entry]]
        !finished(*old(st)) && line_has_name(old(st).name, cur_line(*old(st)))
            ==> final(st).bigwig.queries() == old(st).bigwig.queries().push(l_query(cur_line(*old(st))->Ok_0)),
        [[L: a_line_that_cannot_be_read_or_parsed_costs_no_statistics_call]]
        !finished(*old(st)) && !line_has_name(old(st).name, cur_line(*old(st))) && !line_lacks_name(old(st).name, cur_line(*old(st)))
            ==> final(st).bigwig.queries() == old(st).bigwig.queries(),
        [[L: doc/a_line_without_the_name_column_costs_no_statistics_call]]
        !finished(*old(st)) && line_lacks_name(old(st).name, cur_line(*old(st))) ==> final(st).bigwig.queries() == old(st).bigwig.queries(),
        [[L: a_row_does_not_end_the_iteration]]
        r matches Some(Ok(_)) ==> !final(st).error,
        [[L: read_parse_and_statistics_errors_end_the_iteration]]
        !finished(*old(st)) && line_ends_it(old(st).bigwig.file(), old(st).name, cur_line(*old(st))) ==> final(st).error,
        [[L: doc/a_name_error_does_not_end_the_iteration]]
        !finished(*old(st)) && line_lacks_name(old(st).name, cur_line(*old(st))) ==> !final(st).error,
    decreases
        [[L: termination]]
        old(st).bedstream.all().len() - old(st).bedstream.pos(),
//@end

// =====================================================================================
// (3) the whole iteration: a consumer that calls `step` until `None` (template code, verified from step's contract)
// =====================================================================================
/// index of the first line from i on whose item ends the iteration (|ls| if there is none)
pub open spec fn first_end(f: FileId, name: Name, ls: Seq<Result<Text, IoErr>>, i: int) -> int
    decreases ls.len() - i
{
    if i < 0 || i >= ls.len() { ls.len() as int } else if line_ends_it(f, name, ls[i]) { i } else { first_end(f, name, ls, i + 1) }
}
/// the statistics calls of lines [a, b) in input order: one per line that has its name column
pub open spec fn queries_of(name: Name, ls: Seq<Result<Text, IoErr>>, a: int, b: int) -> Seq<Query>
    decreases b - a
{
    if b <= a { Seq::empty() }
    else if line_has_name(name, ls[b - 1]) { queries_of(name, ls, a, b - 1).push(l_query(ls[b - 1]->Ok_0)) }
    else { queries_of(name, ls, a, b - 1) }
}
/// one past the last line the iteration looks at, starting at line p: the line that ends it is still consumed
pub open spec fn stop_line(f: FileId, name: Name, ls: Seq<Result<Text, IoErr>>, p: int) -> int {
    if first_end(f, name, ls, p) < ls.len() { first_end(f, name, ls, p) + 1 } else { ls.len() as int }
}
pub proof fn lemma_first_end(f: FileId, name: Name, ls: Seq<Result<Text, IoErr>>, i: int)
    requires 0 <= i <= ls.len(),
    ensures
        i <= first_end(f, name, ls, i) <= ls.len(),
        forall|j: int| i <= j < first_end(f, name, ls, i) ==> !line_ends_it(f, name, #[trigger] ls[j]),
        first_end(f, name, ls, i) < ls.len() ==> line_ends_it(f, name, ls[first_end(f, name, ls, i)]),
    decreases ls.len() - i,
{
    if i < ls.len() && !line_ends_it(f, name, ls[i]) { lemma_first_end(f, name, ls, i + 1); }
}
/// Calls `step` until it returns `None`, collects what it handed out, then polls once more.
pub fn rows_until_none(st: &mut AvgIter) -> (out: Vec<AvgItem>)
    requires
        no_inverted_entry(old(st).bedstream.all()), name_ok(old(st).name),
        !old(st).error, old(st).bedstream.pos() <= old(st).bedstream.all().len(),
    ensures
        [[L: drain/kth_item_is_the_row_or_error_of_the_kth_line_in_input_order]]
        forall|k: int| 0 <= k < out@.len() ==> #[trigger] out@[k]
            == line_item(old(st).bigwig.file(), old(st).name, old(st).bedstream.all()[old(st).bedstream.pos() + k]),
        [[L: drain/one_item_per_line_up_to_and_including_the_first_line_that_ends_the_iteration]]
        out@.len() == stop_line(old(st).bigwig.file(), old(st).name, old(st).bedstream.all(), old(st).bedstream.pos() as int) - old(st).bedstream.pos(),
        [[L: drain/without_such_a_line_every_input_line_has_its_item]]
        first_end(old(st).bigwig.file(), old(st).name, old(st).bedstream.all(), old(st).bedstream.pos() as int) == old(st).bedstream.all().len()
            ==> out@.len() == old(st).bedstream.all().len() - old(st).bedstream.pos(),
        [[L: drain/an_error_that_ends_the_iteration_is_the_last_item_handed_out_exactly_once]]
        forall|k: int| 0 <= k < out@.len() - 1 ==> !line_ends_it(old(st).bigwig.file(), old(st).name, #[trigger] old(st).bedstream.all()[old(st).bedstream.pos() + k]),
        [[L: drain/one_statistics_call_per_line_with_a_name_in_input_order_none_after_the_end]]
        final(st).bigwig.queries() == old(st).bigwig.queries()
            + queries_of(old(st).name, old(st).bedstream.all(), old(st).bedstream.pos() as int, old(st).bedstream.pos() as int + out@.len() as int),
        [[L: drain/nothing_is_read_after_the_end]]
        final(st).bedstream.pos() == old(st).bedstream.pos() + out@.len(),
        final(st).bedstream.all() == old(st).bedstream.all(),
{
    let ghost ls = st.bedstream.all();
    let ghost p0 = st.bedstream.pos() as int;
    let ghost f0 = st.bigwig.file();
    let ghost nm = st.name;
    let ghost q0 = st.bigwig.queries();
    let mut out: Vec<AvgItem> = Vec::new();
    proof { lemma_first_end(f0, nm, ls, p0); }
    loop
        invariant
            st.bedstream.all() == ls, st.bigwig.file() == f0, st.name == nm, no_inverted_entry(ls), name_ok(nm),
            0 <= p0 <= ls.len(),
            st.bedstream.pos() == p0 + out@.len(), st.bedstream.pos() <= ls.len(),
            forall|k: int| 0 <= k < out@.len() ==> #[trigger] out@[k] == line_item(f0, nm, ls[p0 + k]),
            forall|k: int| 0 <= k < out@.len() - 1 ==> !line_ends_it(f0, nm, #[trigger] ls[p0 + k]),
            st.error <==> (out@.len() > 0 && line_ends_it(f0, nm, ls[p0 + out@.len() - 1])),
            first_end(f0, nm, ls, p0) == (if st.error { st.bedstream.pos() - 1 } else { first_end(f0, nm, ls, st.bedstream.pos() as int) }),
            st.bigwig.queries() == q0 + queries_of(nm, ls, p0, st.bedstream.pos() as int),
        ensures
            finished(*st),
        decreases
            [[L: drain/termination]]
            (ls.len() - st.bedstream.pos()) + (if st.error { 0int } else { 1int }),
    {
        let ghost n = out@.len() as int;
        let ghost qn = st.bigwig.queries();
        let ghost pn = st.bedstream.pos() as int;
        match step(st) {
            None => { break; }
            Some(item) => {
                out.push(item);
                proof {
                    assert(ls[p0 + n] == ls[pn]);
                    // queries_of unfolds by one line
                    assert(queries_of(nm, ls, p0, pn + 1) == (if line_has_name(nm, ls[pn]) { queries_of(nm, ls, p0, pn).push(l_query(ls[pn]->Ok_0)) } else { queries_of(nm, ls, p0, pn) }));
                    if line_has_name(nm, ls[pn]) {
                        assert(q0 + queries_of(nm, ls, p0, pn).push(l_query(ls[pn]->Ok_0)) =~= (q0 + queries_of(nm, ls, p0, pn)).push(l_query(ls[pn]->Ok_0)));
                    }
                    // the line consumed either ends the iteration (flag set) or does not (flag clear)
                    assert(line_ends_it(f0, nm, ls[pn]) || line_lacks_name(nm, ls[pn]) || (line_has_name(nm, ls[pn]) && l_stats(f0, ls[pn]->Ok_0) is Ok));
                    if !line_ends_it(f0, nm, ls[pn]) {
                        assert(first_end(f0, nm, ls, pn) == first_end(f0, nm, ls, pn + 1));
                    } else {
                        assert(first_end(f0, nm, ls, pn) == pn);
                    }
                }
            }
        }
    }
    proof {
        lemma_first_end(f0, nm, ls, st.bedstream.pos() as int);
    }
    // a finished iterator stays finished: one more poll
    let ghost pe = st.bedstream.pos();
    let ghost qe = st.bigwig.queries();
    let again = step(st);
    assert(again is None); [[L: drain/a_finished_iterator_stays_finished]]
    assert(st.bedstream.pos() == pe && st.bigwig.queries() == qe); [[L: drain/polling_a_finished_iterator_reads_nothing_and_queries_nothing]]
    out
}
/// the function as a whole: construct, then consume
pub fn average_over_bed_rows(bed: BedInput, bigwig: Reader, name: Name) -> (out: Vec<AvgItem>)
    requires
        no_inverted_entry(bed.lines()), name_ok(name),
    ensures
        [[L: whole/kth_item_is_the_row_or_error_of_the_kth_bed_line]]
        forall|k: int| 0 <= k < out@.len() ==> #[trigger] out@[k] == line_item(bigwig.file(), name, bed.lines()[k]),
        [[L: whole/one_item_per_bed_line_unless_an_error_ended_the_iteration]]
        out@.len() == stop_line(bigwig.file(), name, bed.lines(), 0),
{
    let mut it = avg_iter_new(bed, bigwig, name);
    rows_until_none(&mut it.st)
}

} // verus!
fn main() {}
