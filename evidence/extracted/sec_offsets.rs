// bbiwrite::write_data: the per-chromosome writer task that receives encoded sections in
// submission order, appends their bytes to the data file and reports, for each, a `Section`
// record (chrom, start, end, offset, size) to the index builder.  C01/C02/C09: data bytes are
// the concatenation of the blocks, offsets are the running sum of the sizes (contiguous blocks),
// every block is reported exactly once in order, the advertised uncompressed buffer size is the
// maximum over the blocks, an encoder/IO error is returned (not swallowed).
// Also the two `map` closures that rebase section offsets onto the file position
// (write_mid / write_zooms): contiguity is preserved.
use vstd::prelude::*;
verus! {
// ---- shared byte-level prelude ---------------------------------------------
// Format vocabulary written from the published BBI layout (Kent et al. 2010),
// as arithmetic on byte values - not as calls to from_le_bytes/to_le_bytes.
/// k-th base-256 digit of x (opaque: the div/mod arithmetic is only unfolded inside the codec lemmas)
#[verifier::opaque]
pub open spec fn byte_of(x: int, k: int) -> u8 {
    if k == 0 { (x % 256) as u8 } else if k == 1 { (x / 256 % 256) as u8 } else if k == 2 { (x / 65536 % 256) as u8 }
    else if k == 3 { (x / 16777216 % 256) as u8 } else if k == 4 { (x / 4294967296 % 256) as u8 }
    else if k == 5 { (x / 1099511627776 % 256) as u8 } else if k == 6 { (x / 281474976710656 % 256) as u8 }
    else { (x / 72057594037927936 % 256) as u8 }
}
pub open spec fn le16(x: u16) -> Seq<u8> { seq![byte_of(x as int, 0), byte_of(x as int, 1)] }
pub open spec fn le32(x: u32) -> Seq<u8> { seq![byte_of(x as int, 0), byte_of(x as int, 1), byte_of(x as int, 2), byte_of(x as int, 3)] }
pub open spec fn le64(x: u64) -> Seq<u8> {
    seq![byte_of(x as int, 0), byte_of(x as int, 1), byte_of(x as int, 2), byte_of(x as int, 3),
         byte_of(x as int, 4), byte_of(x as int, 5), byte_of(x as int, 6), byte_of(x as int, 7)]
}
pub open spec fn be16(x: u16) -> Seq<u8> { seq![byte_of(x as int, 1), byte_of(x as int, 0)] }
pub open spec fn be32(x: u32) -> Seq<u8> { seq![byte_of(x as int, 3), byte_of(x as int, 2), byte_of(x as int, 1), byte_of(x as int, 0)] }
pub open spec fn be64(x: u64) -> Seq<u8> {
    seq![byte_of(x as int, 7), byte_of(x as int, 6), byte_of(x as int, 5), byte_of(x as int, 4),
         byte_of(x as int, 3), byte_of(x as int, 2), byte_of(x as int, 1), byte_of(x as int, 0)]
}
// decode: value of the little-/big-endian integer stored at s[i..]
pub open spec fn dle16(s: Seq<u8>, i: int) -> int { s[i] as int + 256 * (s[i + 1] as int) }
pub open spec fn dle32(s: Seq<u8>, i: int) -> int {
    s[i] as int + 256 * (s[i + 1] as int) + 65536 * (s[i + 2] as int) + 16777216 * (s[i + 3] as int)
}
pub open spec fn dle64(s: Seq<u8>, i: int) -> int { dle32(s, i) + 4294967296 * dle32(s, i + 4) }
pub open spec fn dbe16(s: Seq<u8>, i: int) -> int { 256 * (s[i] as int) + s[i + 1] as int }
pub open spec fn dbe32(s: Seq<u8>, i: int) -> int {
    16777216 * (s[i] as int) + 65536 * (s[i + 1] as int) + 256 * (s[i + 2] as int) + s[i + 3] as int
}
pub open spec fn dbe64(s: Seq<u8>, i: int) -> int { 4294967296 * dbe32(s, i) + dbe32(s, i + 4) }
/// integer at s[i..] in byte order `big`
pub open spec fn d16(big: bool, s: Seq<u8>, i: int) -> int { if big { dbe16(s, i) } else { dle16(s, i) } }
pub open spec fn d32(big: bool, s: Seq<u8>, i: int) -> int { if big { dbe32(s, i) } else { dle32(s, i) } }
pub open spec fn d64(big: bool, s: Seq<u8>, i: int) -> int { if big { dbe64(s, i) } else { dle64(s, i) } }
pub open spec fn e16(big: bool, x: u16) -> Seq<u8> { if big { be16(x) } else { le16(x) } }
pub open spec fn e32(big: bool, x: u32) -> Seq<u8> { if big { be32(x) } else { le32(x) } }
pub open spec fn e64(big: bool, x: u64) -> Seq<u8> { if big { be64(x) } else { le64(x) } }

// Floats on disk: IEEE bit patterns.  `to_bits`/`from_bits` are uninterpreted; the only
// assumed fact is that they are inverse (true of Rust's f32::to_bits/from_bits bit-for-bit).
pub uninterp spec fn f32_bits(x: f32) -> u32;
pub uninterp spec fn f32_of_bits(b: u32) -> f32;
pub uninterp spec fn f64_bits(x: f64) -> u64;
pub uninterp spec fn f64_of_bits(b: u64) -> f64;
pub broadcast axiom fn ax_f32_bits_inv(x: f32) ensures #[trigger] f32_of_bits(f32_bits(x)) == x;
pub broadcast axiom fn ax_f64_bits_inv(x: f64) ensures #[trigger] f64_of_bits(f64_bits(x)) == x;

#[verifier::external_body]
#[derive(Debug)]
pub struct IoError { _p: u8 }

#[verifier::external_body]
pub fn vpanic() -> !
    requires false
{ panic!() }

// ---- Sink: append-only in-memory writer (`Vec<u8>` used through byteorder::WriteBytesExt / io::Write).
// Assumed contracts: NativeEndian == LittleEndian (x86-64 / aarch64 targets); writes to a Vec never
// fail, the io::Result plumbing is kept so that `?` in the code typechecks.
pub struct Sink { pub bytes: Vec<u8> }
impl Sink {
    pub open spec fn view(&self) -> Seq<u8> { self.bytes@ }
    #[verifier::external_body]
    pub fn with_capacity(n: usize) -> (r: Sink) ensures r@.len() == 0 { Sink { bytes: Vec::with_capacity(n) } }
    pub fn len(&self) -> (r: usize) ensures r == self@.len() { self.bytes.len() }
    #[verifier::external_body]
    pub fn put_u8(&mut self, v: u8) -> (r: Result<(), IoError>)
        ensures r.is_ok(), final(self)@ == old(self)@.push(v) { unimplemented!() }
    #[verifier::external_body]
    pub fn put_u16(&mut self, v: u16) -> (r: Result<(), IoError>)
        ensures r.is_ok(), final(self)@ == old(self)@ + le16(v) { unimplemented!() }
    #[verifier::external_body]
    pub fn put_u32(&mut self, v: u32) -> (r: Result<(), IoError>)
        ensures r.is_ok(), final(self)@ == old(self)@ + le32(v) { unimplemented!() }
    #[verifier::external_body]
    pub fn put_u64(&mut self, v: u64) -> (r: Result<(), IoError>)
        ensures r.is_ok(), final(self)@ == old(self)@ + le64(v) { unimplemented!() }
    #[verifier::external_body]
    pub fn put_f32(&mut self, v: f32) -> (r: Result<(), IoError>)
        ensures r.is_ok(), final(self)@ == old(self)@ + le32(f32_bits(v)) { unimplemented!() }
    #[verifier::external_body]
    pub fn put_f64(&mut self, v: f64) -> (r: Result<(), IoError>)
        ensures r.is_ok(), final(self)@ == old(self)@ + le64(f64_bits(v)) { unimplemented!() }
    #[verifier::external_body]
    pub fn put_bytes(&mut self, b: &[u8]) -> (r: Result<(), IoError>)
        ensures r.is_ok(), final(self)@ == old(self)@ + b@ { unimplemented!() }
}

// ---- FSink: seekable destination (`BufWriter<W: Write + Seek>`).  Ghost image `data()` and
// position `pos()`.  A put at `pos` overwrites/extends the image; any operation may fail, in
// which case nothing is promised about the image (callers must propagate the error).
#[verifier::external_body]
pub struct FSink { _p: u8 }
pub open spec fn splice(d: Seq<u8>, at: int, b: Seq<u8>) -> Seq<u8>
    recommends 0 <= at <= d.len()
{
    if at + b.len() >= d.len() { d.subrange(0, at) + b } else { d.subrange(0, at) + b + d.subrange(at + b.len(), d.len() as int) }
}
impl FSink {
    pub uninterp spec fn data(&self) -> Seq<u8>;
    pub uninterp spec fn pos(&self) -> int;
    pub open spec fn wf(&self) -> bool { 0 <= self.pos() <= self.data().len() }
    #[verifier::external_body]
    pub fn tell(&mut self) -> (r: Result<u64, IoError>)
        requires old(self).wf(), old(self).pos() <= u64::MAX
        ensures final(self).data() == old(self).data(), final(self).pos() == old(self).pos(), r.is_ok() ==> r.unwrap() == old(self).pos()
    { unimplemented!() }
    #[verifier::external_body]
    pub fn seek_start(&mut self, p: u64) -> (r: Result<u64, IoError>)
        requires old(self).wf(), p <= old(self).data().len()
        ensures final(self).data() == old(self).data(), r.is_ok() ==> (final(self).pos() == p && r.unwrap() == p), final(self).wf()
    { unimplemented!() }
    #[verifier::external_body]
    pub fn seek_end0(&mut self) -> (r: Result<u64, IoError>)
        requires old(self).wf()
        ensures final(self).data() == old(self).data(), r.is_ok() ==> (final(self).pos() == old(self).data().len() && r.unwrap() == old(self).data().len()), final(self).wf()
    { unimplemented!() }
    #[verifier::external_body]
    pub fn put(&mut self, b: &[u8]) -> (r: Result<(), IoError>)
        requires old(self).wf()
        ensures r.is_ok() ==> (final(self).data() == splice(old(self).data(), old(self).pos(), b@) && final(self).pos() == old(self).pos() + b@.len()), final(self).wf()
    { unimplemented!() }
    #[verifier::external_body]
    pub fn put_u8(&mut self, v: u8) -> (r: Result<(), IoError>)
        requires old(self).wf()
        ensures r.is_ok() ==> (final(self).data() == splice(old(self).data(), old(self).pos(), seq![v]) && final(self).pos() == old(self).pos() + 1), final(self).wf()
    { unimplemented!() }
    #[verifier::external_body]
    pub fn put_u16(&mut self, v: u16) -> (r: Result<(), IoError>)
        requires old(self).wf()
        ensures r.is_ok() ==> (final(self).data() == splice(old(self).data(), old(self).pos(), le16(v)) && final(self).pos() == old(self).pos() + 2), final(self).wf()
    { unimplemented!() }
    #[verifier::external_body]
    pub fn put_u32(&mut self, v: u32) -> (r: Result<(), IoError>)
        requires old(self).wf()
        ensures r.is_ok() ==> (final(self).data() == splice(old(self).data(), old(self).pos(), le32(v)) && final(self).pos() == old(self).pos() + 4), final(self).wf()
    { unimplemented!() }
    #[verifier::external_body]
    pub fn put_u64(&mut self, v: u64) -> (r: Result<(), IoError>)
        requires old(self).wf()
        ensures r.is_ok() ==> (final(self).data() == splice(old(self).data(), old(self).pos(), le64(v)) && final(self).pos() == old(self).pos() + 8), final(self).wf()
    { unimplemented!() }
    #[verifier::external_body]
    pub fn put_f64(&mut self, v: f64) -> (r: Result<(), IoError>)
        requires old(self).wf()
        ensures r.is_ok() ==> (final(self).data() == splice(old(self).data(), old(self).pos(), le64(f64_bits(v))) && final(self).pos() == old(self).pos() + 8), final(self).wf()
    { unimplemented!() }
}

// ---- Cur: consuming reader over a byte buffer (`bytes::BytesMut` used through `bytes::Buf`).
// `rem()` = bytes not yet consumed.  The `requires` are the real panics of the `bytes` crate
// (reading past the end / split_to past the end).
#[verifier::external_body]
pub struct Cur { _p: u8 }
impl Cur {
    pub uninterp spec fn rem(&self) -> Seq<u8>;
    #[verifier::external_body]
    pub fn from_vec(v: &Vec<u8>) -> (r: Cur) ensures r.rem() == v@ { unimplemented!() }
    #[verifier::external_body]
    pub fn len(&self) -> (r: usize) ensures r == self.rem().len() { unimplemented!() }
    #[verifier::external_body]
    pub fn split_to(&mut self, n: usize) -> (r: Cur)
        requires n <= old(self).rem().len()
        ensures r.rem() == old(self).rem().subrange(0, n as int), final(self).rem() == old(self).rem().subrange(n as int, old(self).rem().len() as int)
    { unimplemented!() }
    #[verifier::external_body]
    pub fn advance(&mut self, n: usize)
        requires n <= old(self).rem().len()
        ensures final(self).rem() == old(self).rem().subrange(n as int, old(self).rem().len() as int)
    { unimplemented!() }
    #[verifier::external_body]
    pub fn get_u8(&mut self) -> (r: u8)
        requires old(self).rem().len() >= 1
        ensures r == old(self).rem()[0], final(self).rem() == old(self).rem().subrange(1, old(self).rem().len() as int)
    { unimplemented!() }
    #[verifier::external_body]
    pub fn get_u16(&mut self) -> (r: u16)
        requires old(self).rem().len() >= 2
        ensures r == dbe16(old(self).rem(), 0), final(self).rem() == old(self).rem().subrange(2, old(self).rem().len() as int)
    { unimplemented!() }
    #[verifier::external_body]
    pub fn get_u16_le(&mut self) -> (r: u16)
        requires old(self).rem().len() >= 2
        ensures r == dle16(old(self).rem(), 0), final(self).rem() == old(self).rem().subrange(2, old(self).rem().len() as int)
    { unimplemented!() }
    #[verifier::external_body]
    pub fn get_u32(&mut self) -> (r: u32)
        requires old(self).rem().len() >= 4
        ensures r == dbe32(old(self).rem(), 0), final(self).rem() == old(self).rem().subrange(4, old(self).rem().len() as int)
    { unimplemented!() }
    #[verifier::external_body]
    pub fn get_u32_le(&mut self) -> (r: u32)
        requires old(self).rem().len() >= 4
        ensures r == dle32(old(self).rem(), 0), final(self).rem() == old(self).rem().subrange(4, old(self).rem().len() as int)
    { unimplemented!() }
    #[verifier::external_body]
    pub fn get_u64(&mut self) -> (r: u64)
        requires old(self).rem().len() >= 8
        ensures r == dbe64(old(self).rem(), 0), final(self).rem() == old(self).rem().subrange(8, old(self).rem().len() as int)
    { unimplemented!() }
    #[verifier::external_body]
    pub fn get_u64_le(&mut self) -> (r: u64)
        requires old(self).rem().len() >= 8
        ensures r == dle64(old(self).rem(), 0), final(self).rem() == old(self).rem().subrange(8, old(self).rem().len() as int)
    { unimplemented!() }
    #[verifier::external_body]
    pub fn get_f32(&mut self) -> (r: f32)
        requires old(self).rem().len() >= 4
        ensures r == f32_of_bits(dbe32(old(self).rem(), 0) as u32), final(self).rem() == old(self).rem().subrange(4, old(self).rem().len() as int)
    { unimplemented!() }
    #[verifier::external_body]
    pub fn get_f32_le(&mut self) -> (r: f32)
        requires old(self).rem().len() >= 4
        ensures r == f32_of_bits(dle32(old(self).rem(), 0) as u32), final(self).rem() == old(self).rem().subrange(4, old(self).rem().len() as int)
    { unimplemented!() }
}
// `uN::from_{le,be}_bytes([..])` (rule R4) with arithmetic contracts
#[verifier::external_body]
pub fn u32_from_le(b: [u8; 4]) -> (r: u32) ensures r == dle32(b@, 0) { u32::from_le_bytes(b) }
#[verifier::external_body]
pub fn u32_from_be(b: [u8; 4]) -> (r: u32) ensures r == dbe32(b@, 0) { u32::from_be_bytes(b) }
#[verifier::external_body]
pub fn u64_from_le(b: [u8; 8]) -> (r: u64) ensures r == dle64(b@, 0) { u64::from_le_bytes(b) }
#[verifier::external_body]
pub fn u64_from_be(b: [u8; 8]) -> (r: u64) ensures r == dbe64(b@, 0) { u64::from_be_bytes(b) }
#[verifier::external_body]
pub fn f32_from_le(b: [u8; 4]) -> (r: f32) ensures r == f32_of_bits(dle32(b@, 0) as u32) { f32::from_le_bytes(b) }
#[verifier::external_body]
pub fn f32_from_be(b: [u8; 4]) -> (r: f32) ensures r == f32_of_bits(dbe32(b@, 0) as u32) { f32::from_be_bytes(b) }

pub struct SectionData {
    pub chrom: u32,
    pub start: u32,
    pub end: u32,
    pub data: Vec<u8>,
}
#[derive(Copy, Clone)]
pub struct Section {
    pub chrom: u32,
    pub start: u32,
    pub end: u32,
    pub offset: u64,
    pub size: u64,
}

#[derive(Debug)]
pub struct ProcessDataError { pub e: IoError }
pub open spec fn sd_view(s: SectionData) -> (u32, u32, u32, Seq<u8>) { (s.chrom, s.start, s.end, s.data@) }

// The receiving end of the section channel (futures mpsc of tokio JoinHandles, awaited in order):
// assumed contract = a finite queue of encoder results delivered in submission order.
#[verifier::external_body]
pub struct SecRx { _p: u8 }
pub struct Job { pub res: Result<(SectionData, usize), IoError> }
impl Job {
    // `handle.await.unwrap()?`: a panicked encoder task propagates the panic (not modelled); otherwise its result
    pub fn unwrap(self) -> (r: Result<(SectionData, usize), IoError>) ensures r == self.res { self.res }
}
impl SecRx {
    pub uninterp spec fn queue(&self) -> Seq<Job>;
    #[verifier::external_body]
    pub fn next(&mut self) -> (r: Option<Job>)
        ensures
            old(self).queue().len() == 0 ==> r.is_none() && final(self).queue() == old(self).queue(),
            old(self).queue().len() > 0 ==> r == Some(old(self).queue()[0]) && final(self).queue() == old(self).queue().drop_first(),
    { unimplemented!() }
}
// crossbeam unbounded sender: assumed to append to the receiver's queue in order
#[verifier::external_body]
pub struct SecTx { _p: u8 }
pub struct SendRes {}
impl SendRes { pub fn expect(self, _m: &str) {} }
impl SecTx {
    pub uninterp spec fn sent(&self) -> Seq<Section>;
    #[verifier::external_body]
    pub fn send(&mut self, s: Section) -> (r: SendRes) ensures final(self).sent() == old(self).sent().push(s) { unimplemented!() }
}

// ---- specification ----
/// result k of the queue is Ok
pub open spec fn ok_at(q: Seq<Job>, k: int) -> bool { q[k].res.is_ok() }
pub open spec fn all_ok(q: Seq<Job>, n: int) -> bool { forall|k: int| 0 <= k < n ==> ok_at(q, k) }
pub open spec fn blk(q: Seq<Job>, k: int) -> SectionData { q[k].res.unwrap().0 }
pub open spec fn ubs(q: Seq<Job>, k: int) -> usize { q[k].res.unwrap().1 }
pub open spec fn cat(q: Seq<Job>, n: int) -> Seq<u8>
    decreases n
{ if n <= 0 { Seq::empty() } else { cat(q, n - 1) + blk(q, n - 1).data@ } }
pub open spec fn off(q: Seq<Job>, n: int) -> int
    decreases n
{ if n <= 0 { 0 } else { off(q, n - 1) + blk(q, n - 1).data@.len() } }
pub open spec fn maxubs(q: Seq<Job>, n: int) -> int
    decreases n
{ if n <= 0 { 0 } else { let m = maxubs(q, n - 1); if ubs(q, n - 1) as int > m { ubs(q, n - 1) as int } else { m } } }
pub open spec fn rec_at(q: Seq<Job>, k: int) -> Section {
    Section { chrom: blk(q, k).chrom, start: blk(q, k).start, end: blk(q, k).end, offset: off(q, k) as u64, size: blk(q, k).data@.len() as u64 }
}
/// first failing job, or q.len()
pub open spec fn first_err(q: Seq<Job>, n: int) -> int
    decreases n
{ if n <= 0 { 0 } else { let f = first_err(q, n - 1); if f < n - 1 { f } else if ok_at(q, n - 1) { n } else { n - 1 } } }

fn write_data(
    data_file: &mut Sink,
    section_sender: &mut SecTx,
    frx: &mut SecRx,
) -> (r: Result<(usize, usize), ProcessDataError>)
    requires
        
        old(frx).queue().len() < usize::MAX, off(old(frx).queue(), old(frx).queue().len() as int) <= u64::MAX,
    ensures
        
        r.is_ok() <==> all_ok(old(frx).queue(), old(frx).queue().len() as int),
        
        r.is_ok() ==> final(data_file)@ == old(data_file)@ + cat(old(frx).queue(), old(frx).queue().len() as int),
        
        r.is_ok() ==> final(section_sender).sent().len() == old(section_sender).sent().len() + old(frx).queue().len()
            && forall|k: int| 0 <= k < old(frx).queue().len() ==> final(section_sender).sent()[old(section_sender).sent().len() + k] == rec_at(old(frx).queue(), k),
        
        old(section_sender).sent().is_prefix_of(final(section_sender).sent()),
        
        r.is_ok() ==> r.unwrap().0 == old(frx).queue().len() && r.unwrap().1 == maxubs(old(frx).queue(), old(frx).queue().len() as int),
        
        r.is_err() ==> final(section_sender).sent().len() == old(section_sender).sent().len() + first_err(old(frx).queue(), old(frx).queue().len() as int),
{
    let ghost q = frx.queue();
    let ghost n = q.len() as int;
    let ghost sent0 = section_sender.sent();
    let ghost d0 = data_file@;
    let ghost i: int = 0;

    let mut current_offset: u64 = 0;
    let mut total: usize = 0;
    let mut max_uncompressed_buf_size: usize = 0;
    loop 
        invariant
            
            0 <= i <= n, q == old(frx).queue(), n == q.len(), n < usize::MAX, off(q, n) <= u64::MAX,
            frx.queue() == q.subrange(i, n),
            sent0 == old(section_sender).sent(), d0 == old(data_file)@,
            
            all_ok(q, i), first_err(q, i) == i,
            total == i, current_offset == off(q, i), max_uncompressed_buf_size == maxubs(q, i),
            data_file@ == d0 + cat(q, i),
            section_sender.sent().len() == sent0.len() + i,
            sent0.is_prefix_of(section_sender.sent()),
            forall|k: int| 0 <= k < i ==> section_sender.sent()[sent0.len() + k] == rec_at(q, k),
        ensures
            
            i == n, all_ok(q, n), total == n, max_uncompressed_buf_size == maxubs(q, n),
            data_file@ == d0 + cat(q, n),
            section_sender.sent().len() == sent0.len() + n,
            sent0.is_prefix_of(section_sender.sent()),
            forall|k: int| 0 <= k < n ==> section_sender.sent()[sent0.len() + k] == rec_at(q, k),
        decreases
            
            n - i,
{ let section_raw = match frx.next() { Some(x) => x, None => break };

        proof {
            assert(q.subrange(i, n)[0] == q[i]);
            assert(q.subrange(i, n).drop_first() =~= q.subrange(i + 1, n));
            lemma_off_mono(q, i + 1, n);
            lemma_first_err_step(q, i, n);
        }
        let (section, uncompressed_buf_size): (SectionData, usize) = match section_raw.unwrap() { Ok(v) => v, Err(e) => return Err(ProcessDataError { e }) };
        max_uncompressed_buf_size = max_uncompressed_buf_size.max(uncompressed_buf_size);
        total = total + (1);
        let size = section.data.len() as u64;
        match data_file.put_bytes(section.data.as_slice()) { Ok(v) => v, Err(e) => return Err(ProcessDataError { e }) };
        section_sender
            .send(Section {
                chrom: section.chrom,
                start: section.start,
                end: section.end,
                offset: current_offset,
                size,
            })
            .expect("Couldn't send section.");
        current_offset = current_offset + (size);

        proof {
            i = i + 1;
            assert(data_file@ =~= d0 + cat(q, i));
        }
    }
    Ok((total, max_uncompressed_buf_size))
}

pub proof fn lemma_off_mono(q: Seq<Job>, a: int, b: int)
    requires 0 <= a <= b,
    ensures off(q, a) <= off(q, b),
    decreases b - a,
{ if a < b { lemma_off_mono(q, a, b - 1); } }
/// if the first i jobs are ok then the first failure in the whole queue is i when job i fails
pub proof fn lemma_first_err_step(q: Seq<Job>, i: int, n: int)
    requires 0 <= i < n, first_err(q, i) == i,
    ensures !ok_at(q, i) ==> first_err(q, n) == i, !ok_at(q, i) ==> !all_ok(q, n), ok_at(q, i) ==> first_err(q, i + 1) == i + 1,
    decreases n - i,
{
    if n > i + 1 { lemma_first_err_step(q, i, n - 1); }
}

// ---- offset rebasing closures (R10): `section.offset = current_offset; current_offset += section.size` ----
fn rebase_write_mid(current_offset: &mut u64, section: Section, pre_data: u64) -> (r: Section)
    requires
        
        *old(current_offset) + section.size <= u64::MAX,
    ensures
        
        r.offset == *old(current_offset),
        
        *final(current_offset) == *old(current_offset) + section.size,
        
        r.chrom == section.chrom && r.start == section.start && r.end == section.end && r.size == section.size,
{
    let mut section = section;

        // TODO: this assumes that all the data is contiguous
        // This will fail if we ever space the sections in any way
        section.offset = (*current_offset);
        (*current_offset) = (*current_offset) + (section.size);
        section
    }

fn rebase_write_zooms(current_offset: &mut u64, section: Section, zoom_data_offset: u64) -> (r: Section)
    requires
        
        *old(current_offset) + section.size <= u64::MAX,
    ensures
        
        r.offset == *old(current_offset),
        
        *final(current_offset) == *old(current_offset) + section.size,
        
        r.chrom == section.chrom && r.start == section.start && r.end == section.end && r.size == section.size,
{
    let mut section = section;

            // TODO: assumes contiguous, see note for primary data
            section.offset = (*current_offset);
            (*current_offset) = (*current_offset) + (section.size);
            section
        }

fn rebase_zoom_vals_first(current_offset: &mut u64, section: Section, first_zoom_data_offset: u64) -> (r: Section)
    requires
        
        *old(current_offset) + section.size <= u64::MAX,
    ensures
        
        r.offset == *old(current_offset),
        
        *final(current_offset) == *old(current_offset) + section.size,
        
        r.chrom == section.chrom && r.start == section.start && r.end == section.end && r.size == section.size,
{
    let mut section = section;

        // TODO: assumes contiguous, see note for primary data
        section.offset = (*current_offset);
        (*current_offset) = (*current_offset) + (section.size);
        section
    }

fn rebase_zoom_vals_later(current_offset: &mut u64, section: Section, zoom_data_offset: u64) -> (r: Section)
    requires
        
        *old(current_offset) + section.size <= u64::MAX,
    ensures
        
        r.offset == *old(current_offset),
        
        *final(current_offset) == *old(current_offset) + section.size,
        
        r.chrom == section.chrom && r.start == section.start && r.end == section.end && r.size == section.size,
{
    let mut section = section;

            // TODO: assumes contiguous, see note for primary data
            section.offset = (*current_offset);
            (*current_offset) = (*current_offset) + (section.size);
            section
        }

} // verus!
fn main() {}

