"""Kani "extracted crate" lane: bounded / complete Kani harnesses over functions CUT from /repo on every
run and compiled in a stand-alone scratch crate without dependencies.

For code whose own crate cannot be built under `cargo kani` (pybigtools: pyo3/numpy), so that the in-place
lane (lib/kani_lane.py) cannot be used.  The function text is the real text; the only rewrites are the
substitutions listed in the unit's `[[subst]]` table (type names / paths that belong to the dropped
dependencies) and `[[item]] kind = "carve"` entries, which cut a block out of a larger function with a
regex and wrap it in a declared signature (the pyo3 glue around it is dropped).  Every substitution and
carve is reported with its hit count; a substitution with fewer hits than `min` or a lost item => undecided.

A unit is contracts/<unit>/kext.toml (+ harness.rs, spec.rs, trusted.txt, NOTES.md):

    name = "py_bins"
    serves = ["C20"]
    harness_file = "harness.rs"        # included as  #[cfg(kani)] mod verif_kani { use super::*; include!(..) }
    spec_file = "spec.rs"              # plain-Rust statement of the property; `pub mod spec { include!(..) }`
    prelude = '''use std::collections::VecDeque; ...'''    # hand-written header of the scratch crate (listed)

    [[subst]]                          # literal (default) or regex = true; applied to every extracted item
    from = "ArrayViewMut<'_, f64, numpy::Ix1>"
    to = "&mut [f64]"
    min = 1                            # total hits over all items; fewer => undecided (anchor lost)
    why = "numpy view -> slice"

    [[item]]
    kind = "fn"                        # fn | struct | enum | const | type | carve
    file = "pybigtools/src/lib.rs"
    name = "to_array_bins"
    module = ""                        # optional: put the item into `pub mod <module> { .. }`
    vis = "pub"                        # optional: prefix for a private item (`fn` -> `pub fn`): no text change otherwise
    # kind = "carve":  fn = "intervals_to_array"; regex = '(?s)...( captured block )...'; wrap = 'pub fn f(..) {\n{carved}\n}'

    [[harness]]                        # same fields as kani_lane (name, label, tier, kind, bound, timeout_s,
    name = "bins_bw_minmax"            #  cbmc_args, flags, inputs, consts, replay_template[_file])
    kind = "bounded"

Result dicts have the shape of kani_lane.run's (see kani_lane._blank), so check.py can merge them:

    import kani_extract
    kx_units = kani_extract.units_for(prop, tier)          # + `--unit` filter on u['name']
    results += kani_extract.run(prop, kx_units, scratch, tier, REPO)

Stand-alone:  python3 lib/kani_extract.py <unit> [--tier quick|thorough] [--repo DIR] [--keep] [--harness NAME ...]
prints OK / VIOLATION / UNDECIDED lines like ./check and exits 0 / 1 / 2.

Verdicts are kani_lane.classify_run's: a FAILURE check other than unwinding/unsupported is `failed`
(falsified; concrete values by concrete playback, then replayed with a plain `cargo test` in the scratch
crate); timeouts, OOM, build errors, lost anchors, unwinding assertions, missing reach-cover, un-audited
assumptions are `undecided`.  Harnesses of kind "bounded" are listed under `bounded` and never counted as
proved obligations.
"""
import concurrent.futures as cf
import glob
import hashlib
import json
import os
import re
import shutil
import subprocess
import sys
import time

HERE = os.path.dirname(os.path.abspath(__file__))
VERIF = os.path.dirname(HERE)
sys.path.insert(0, HERE)

import kani_lane  # noqa: E402  (result parsing, classification, playback decoding, process helpers)
import rustlex  # noqa: E402
from rustlex import AnchorLost  # noqa: E402

try:
    import tomllib
except ImportError:  # pragma: no cover
    tomllib = None

CACHE = os.path.join(VERIF, '.cache', 'kani-extract-target')   # the one persistent dir (git-ignored)
KEEP_TARGETS = int(os.environ.get('VERIF_KEXT_KEEP_TARGETS', '3'))
DEFAULT_TIMEOUT = {'quick': 300, 'thorough': 1800}
KANI_FLAGS = ['--lib']


# --------------------------------------------------------------------------------------------
# unit discovery

def _load(path):
    with open(path, 'rb') as f:
        u = tomllib.load(f)
    d = os.path.dirname(path)
    u.setdefault('name', os.path.basename(d))
    u['dir'] = d
    u.setdefault('serves', [])
    u.setdefault('harness_file', 'harness.rs')
    u.setdefault('spec_file', 'spec.rs')
    u.setdefault('prelude', '')
    u.setdefault('subst', [])
    u.setdefault('item', [])
    u.setdefault('harness', [])
    u['contract'] = []            # kani_lane.scan_trusted looks at it
    u['anchor'] = []
    for s in u['subst']:
        s.setdefault('regex', False)
        s.setdefault('min', 1)
        s.setdefault('why', '')
    for it in u['item']:
        it.setdefault('module', '')
        it.setdefault('vis', '')
    for h in u['harness']:
        h.setdefault('label', h['name'])
        h.setdefault('tier', 'quick')
        h.setdefault('kind', 'bounded')
        h.setdefault('flags', [])
        h.setdefault('inputs', [])
        h.setdefault('consts', {})
        h.setdefault('cbmc_args', [])
    return u


def all_units():
    if tomllib is None:
        return []
    out = []
    for p in sorted(glob.glob(os.path.join(VERIF, 'contracts', '*', 'kext.toml'))):
        try:
            out.append(_load(p))
        except Exception as e:   # malformed unit: an undecided unit, never silently dropped
            out.append({'name': os.path.basename(os.path.dirname(p)), 'dir': os.path.dirname(p), 'serves': ['*'],
                        'load_error': '%s: %s' % (type(e).__name__, e), 'harness': [], 'contract': [], 'anchor': []})
    return out


def _selected(unit, tier, only=None):
    hs = [h for h in unit['harness'] if h['tier'] == 'quick' or tier == 'thorough']
    if only:
        hs = [h for h in unit['harness'] if h['name'] in only]
    return hs


def units_for(prop, tier):
    res = []
    for u in all_units():
        if prop in u['serves'] or ('load_error' in u and '*' in u['serves']):
            if 'load_error' in u or _selected(u, tier):
                res.append(u)
    return res


def find_unit(name):
    for u in all_units():
        if u['name'] == name:
            return u
    return None


# --------------------------------------------------------------------------------------------
# extraction

def _cut(repo, it):
    """-> (text, original_text_for_sha, description).  Raises AnchorLost."""
    path = os.path.join(repo, it['file'])
    if not os.path.exists(path):
        raise AnchorLost('source file %s missing' % it['file'])
    src = open(path, encoding='utf-8').read()
    kind = it['kind']
    if kind == 'fn':
        a, s, ob, cb = rustlex.find_fn(src, it['name'], it.get('within'))
        text = src[a:cb + 1]
        return text, text, '%s:%s' % (it['file'], it['name'])
    if kind in ('struct', 'enum', 'const', 'type'):
        a, s, e = rustlex.find_type_item(src, kind, it['name'])
        text = src[a:e]
        return text, text, '%s:%s %s' % (it['file'], kind, it['name'])
    if kind == 'carve':
        a, s, ob, cb = rustlex.find_fn(src, it['fn'], it.get('within'))
        body = src[a:cb + 1]
        ms = list(re.finditer(it['regex'], body))
        if len(ms) != 1:
            raise AnchorLost('carve %s: regex matched %d time(s) in fn %s (expected exactly 1)' % (it['name'], len(ms), it['fn']))
        carved = ms[0].group(1)
        if '{carved}' not in it['wrap']:
            raise AnchorLost('carve %s: wrap has no {carved} placeholder' % it['name'])
        return it['wrap'].replace('{carved}', carved), carved, '%s:%s (block carved from fn %s)' % (it['file'], it['name'], it['fn'])
    raise AnchorLost('unknown item kind %r' % kind)


def _apply_subst(text, table, counts):
    for k, s in enumerate(table):
        if s['regex']:
            text, n = re.subn(s['from'], s['to'], text)
        else:
            n = text.count(s['from'])
            text = text.replace(s['from'], s['to'])
        counts[k] = counts.get(k, 0) + n
    return text


def build_crate(unit, repo, dest):
    """Write the scratch crate.  -> info dict(functions, substitutions, problems, key)."""
    info = {'functions': [], 'substitutions': [], 'problems': [], 'key': None}
    counts = {}
    mods = {}
    order = []
    for it in unit['item']:
        try:
            text, orig, desc = _cut(repo, it)
        except AnchorLost as e:
            info['problems'].append('anchor lost: %s' % e)
            continue
        except re.error as e:
            info['problems'].append('bad regex in item %s: %s' % (it.get('name'), e))
            continue
        per = {}
        new = _apply_subst(text, unit['subst'], per)
        for k, n in per.items():
            counts[k] = counts.get(k, 0) + n
        if it['vis']:
            head = re.search(r'(?m)^(\s*)((?:async\s+)?(?:fn|struct|enum|const|type)\b)', new)
            if head and not re.match(r'\s*pub\b', new[head.start():]):
                new = new[:head.start(2)] + it['vis'] + ' ' + new[head.start(2):]
        sha = hashlib.sha256(orig.encode('utf-8')).hexdigest()
        info['functions'].append('%s sha256=%s%s' % (desc, sha[:16], ' (extracted copy; substitutions: %s)' % (
            ', '.join('#%d x%d' % (k + 1, n) for k, n in sorted(per.items()) if n) or 'none')))
        m = it['module']
        if m not in mods:
            mods[m] = []
            order.append(m)
        mods[m].append('// ---- cut from %s ----\n%s\n' % (desc, new))
    for k, s in enumerate(unit['subst']):
        n = counts.get(k, 0)
        info['substitutions'].append('#%d %s%r -> %r  [%d hit(s)]%s' % (k + 1, 'regex ' if s['regex'] else '', s['from'], s['to'], n,
                                                                         ('  (' + s['why'] + ')') if s['why'] else ''))
        if n < s['min']:
            info['problems'].append('anchor lost: substitution #%d %r expected >= %d hit(s), got %d' % (k + 1, s['from'], s['min'], n))
    src_dir = os.path.join(dest, 'src')
    os.makedirs(src_dir, exist_ok=True)
    crate = 'kext_' + re.sub(r'[^A-Za-z0-9_]', '_', unit['name'])
    open(os.path.join(dest, 'Cargo.toml'), 'w').write(
        '[package]\nname = "%s"\nversion = "0.0.0"\nedition = "2021"\npublish = false\n\n[lib]\npath = "src/lib.rs"\n\n'
        '[workspace]\n\n[profile.dev]\noverflow-checks = true\n' % crate)
    parts = ['// GENERATED by lib/kani_extract.py for unit %s -- do not edit; items below are cut from the repository\n'
             '#![allow(unused, dead_code, unexpected_cfgs, unused_mut, non_snake_case, clippy::all)]\n' % unit['name'],
             '// ---- prelude (hand-written, from kext.toml) ----\n' + unit['prelude'].strip() + '\n']
    for m in order:
        body = '\n'.join(mods[m])
        if m:
            parts.append('pub mod %s {\n%s}\n' % (m, body))
        else:
            parts.append(body)
    for key, modname, cfg in (('spec_file', 'spec', None), ('harness_file', 'verif_kani', 'kani')):
        f = os.path.join(unit['dir'], unit[key])
        if not os.path.exists(f):
            info['problems'].append('%s missing' % unit[key])
            continue
        shutil.copy(f, os.path.join(src_dir, os.path.basename(f)))
        parts.append('%spub mod %s {\n    use super::*;\n    include!("%s");\n}\n' % (('#[cfg(%s)]\n' % cfg) if cfg else '', modname, os.path.basename(f)))
    lib = '\n'.join(parts)
    open(os.path.join(src_dir, 'lib.rs'), 'w').write(lib)
    h = hashlib.sha256()
    for p in sorted(glob.glob(os.path.join(src_dir, '*.rs'))):
        h.update(open(p, 'rb').read())
    info['key'] = h.hexdigest()[:12]
    info['crate'] = crate
    return info


def _target_dir(unit, key):
    """One cache root; one sub-directory per generated text (identical text => identical artifacts, so
    concurrent runs can share it; a mutated tree gets its own).  Old ones are pruned."""
    os.makedirs(CACHE, exist_ok=True)
    d = os.path.join(CACHE, '%s-%s' % (unit['name'], key))
    try:
        olds = sorted((p for p in glob.glob(os.path.join(CACHE, unit['name'] + '-*')) if p != d), key=os.path.getmtime)
        for p in olds[:max(0, len(olds) - (KEEP_TARGETS - 1))]:
            if time.time() - os.path.getmtime(p) > 3600:     # never pull a dir from under a live run
                shutil.rmtree(p, ignore_errors=True)
    except OSError:
        pass
    os.makedirs(d, exist_ok=True)
    os.utime(d, None)
    return d


# --------------------------------------------------------------------------------------------
# kani / replay

def _kani_cmd(hname, target, flags=(), cbmc_args=()):
    cmd = ['cargo', 'kani'] + KANI_FLAGS + list(flags) + ['--target-dir', target, '--harness', 'verif_kani::' + hname, '--exact']
    if cbmc_args:   # must be the last flag
        cmd += ['-Z', 'unstable-options', '--cbmc-args'] + list(cbmc_args)
    return cmd


def run_replay(unit, harness, values, crate_dir, workdir):
    """Plain `cargo test` of the rendered replay template inside a copy of the scratch crate.
    -> (True reproduced | False | None could not run, text)."""
    body = kani_lane.render_template(unit, harness, values)
    if body is None:
        return None, 'no replay_template (or values missing) for harness %s' % harness['name']
    copy = os.path.join(workdir, 'replay-crate')
    shutil.rmtree(copy, ignore_errors=True)
    shutil.copytree(crate_dir, copy, ignore=shutil.ignore_patterns('target'))
    with open(os.path.join(copy, 'src', 'lib.rs'), 'a', encoding='utf-8') as f:
        f.write('\n#[cfg(test)]\n#[allow(unused, dead_code, clippy::all)]\nmod verif_replay {\n    use super::*;\n%s\n}\n' % body)
    cmd = ['cargo', 'test', '--lib', '--offline', 'verif_replay', '--', '--nocapture', '--test-threads', '1']
    env = kani_lane._env({'CARGO_TARGET_DIR': os.path.join(workdir, 'replay-target')})
    rc, out, secs = kani_lane._run(cmd, copy, env, 600)
    lines = [l for l in out.split('\n') if 'VERIF-REPLAY' in l or l.startswith('test result') or l.startswith('error')]
    text = ('cargo test verif_replay in the extracted crate (%.0fs): ' % secs) + ' | '.join(l.strip()[:400] for l in lines[:8])
    if rc is None:
        return None, 'replay timed out'
    if re.search(r'test result: FAILED', out) and kani_lane.REPLAY_MARK in out:
        return True, text
    if re.search(r'test result: ok\. [1-9]\d* passed', out):
        return False, text
    return None, 'replay could not be run: ' + (text if lines else out[-600:])


def _counterexample(u, h, entry, crate_dir, target, env, scratch):
    spec = h.get('inputs') or []
    work = os.path.join(scratch, 'kext-replay-%s-%s' % (u['name'], h['name']))
    os.makedirs(work, exist_ok=True)
    first, total, note = None, 0.0, ''
    sources = [h['cex_harness'], h['name']] if h.get('cex_harness') else [h['name']]
    try:
        for src in sources:
            cmd = _kani_cmd(src, target, list(h['flags']) + ['-Z', 'concrete-playback', '--concrete-playback=print'], h['cbmc_args'])
            rc, out, secs = kani_lane._run(cmd, crate_dir, env, kani_lane.CEX_TIMEOUT, kani_lane.MEM_KB)
            total += secs
            if rc is None:
                note = 'concrete playback of %s timed out after %ds' % (src, kani_lane.CEX_TIMEOUT)
                continue
            tests = kani_lane.parse_playback(out)
            for cls, desc, vals in kani_lane._candidates(tests, entry.get('failed_checks', []))[:3]:
                dec = kani_lane.decode_inputs(spec, vals)
                if dec is None:
                    if first is None:
                        first = ({'harness': src, 'check': re.sub(r'\s+', ' ', desc)[:300], 'values': None, 'raw_bytes': vals,
                                  'note': 'could not map playback bytes to the declared inputs %s' % spec}, False,
                                 'playback values could not be decoded against `inputs`')
                    continue
                values, readable = dec
                conc = {'harness': src, 'check': re.sub(r'\s+', ' ', desc)[:300], 'check_class': cls, 'values': values,
                        'readable': readable, 'playback_seconds': round(total, 1)}
                got, text = run_replay(u, h, values, crate_dir, work)
                res = (conc, bool(got), text if got is not None else 'replay could not run: ' + text)
                if got:
                    entry['concrete'], entry['replay_reproduced'], entry['replay_result'] = res
                    return
                if first is None or first[0].get('values') is None:
                    first = res
    finally:
        shutil.rmtree(work, ignore_errors=True)
    if first is not None:
        entry['concrete'], entry['replay_reproduced'], entry['replay_result'] = first
        if first[0].get('values') is None:
            entry['concrete'] = None if not first[0].get('raw_bytes') else first[0]
    else:
        entry['replay_result'] = note or 'concrete playback gave no values (%.0fs)' % total


def replay(rec):
    """./check <prop> --replay <file> for driver 'kext:<unit>:<harness>'.  1 = reproduces, 0 = does not, 2 = cannot run."""
    try:
        _, uname, hname = rec['driver'].split(':', 2)
    except (KeyError, ValueError):
        print('replay: malformed driver %r' % rec.get('driver'))
        return 2
    unit = find_unit(uname)
    hs = [h for h in (unit or {}).get('harness', []) if h['name'] == hname]
    values = (rec.get('input') or {}).get('values') if isinstance(rec.get('input'), dict) else None
    if not unit or 'load_error' in unit or not hs or not values:
        print('replay: unit/harness/values not found')
        return 2
    repo = os.environ.get('VERIF_REPO', '/repo')
    work = os.path.join(os.environ.get('VERIF_SCRATCH', '/var/tmp'), 'bt-verif-kext-replay.%d' % os.getpid())
    try:
        crate = os.path.join(work, 'crate')
        info = build_crate(unit, repo, crate)
        if info['problems']:
            print('replay: ' + '; '.join(info['problems']))
            return 2
        got, text = run_replay(unit, hs[0], values, crate, work)
    finally:
        shutil.rmtree(work, ignore_errors=True)
    print(text)
    if got is None:
        return 2
    print('REPRODUCED on the extracted real code' if got else 'not reproduced on this tree')
    return 1 if got else 0


# --------------------------------------------------------------------------------------------
# the lane

def run(prop, units, scratch, tier, repo, only=None):
    t_start = time.time()
    results = {u['name']: kani_lane._blank(u) for u in units}
    order = [u['name'] for u in units]

    def done():
        for r in results.values():
            r['wall'] = round(time.time() - t_start, 2)
            if r['failed']:
                r['status'] = 'failed' if not r['undecided'] else 'failed+undecided'
            elif r['undecided']:
                r['status'] = 'undecided'
        return [results[n] for n in order]

    live = []
    for u in units:
        if 'load_error' in u:
            results[u['name']] = kani_lane._blank(u, 'kext.toml could not be loaded: ' + u['load_error'])
        else:
            live.append(u)
    if tomllib is None:
        for u in live:
            results[u['name']]['undecided'].append('python tomllib unavailable')
        return done()
    if not live:
        return done()
    if shutil.which('cargo-kani') is None and subprocess.run(['cargo', 'kani', '--version'], stdout=subprocess.PIPE, stderr=subprocess.STDOUT).returncode != 0:
        for u in live:
            results[u['name']]['undecided'].append('cargo kani not installed')
        return done()

    env = kani_lane._env()
    jobs = []
    ctx = {}
    for u in live:
        r = results[u['name']]
        crate_dir = os.path.join(scratch, 'kext-' + u['name'])
        shutil.rmtree(crate_dir, ignore_errors=True)
        info = build_crate(u, repo, crate_dir)
        r['functions_under_contract'] = info['functions']
        r['substitutions'] = info['substitutions']
        found = kani_lane.scan_trusted(u)
        r['trusted'] = ['extracted-crate lane: the functions are compiled OUTSIDE their crate, from text cut on this run; substitutions: '
                        + ' || '.join(info['substitutions']),
                        'hand-written prelude of the scratch crate: ' + re.sub(r'\s+', ' ', u['prelude'].strip())[:400],
                        'Kani 0.68 / CBMC 6.11 (compiler, goto translation, SAT back end)'] + found
        for pb in info['problems']:
            r['undecided'].append(pb)
        for pb in kani_lane.check_trusted_list(u, found):
            r['undecided'].append(pb)
        if r['undecided']:
            continue
        target = _target_dir(u, info['key'])
        # one serial build (type check of the extracted text + every harness)
        cmd = ['cargo', 'kani'] + KANI_FLAGS + ['--target-dir', target, '--only-codegen']
        rc, out, secs = kani_lane._run(cmd, crate_dir, env, 900, kani_lane.MEM_KB)
        if rc != 0:
            m = re.search(r'^error.*(?:\n.*){0,14}', out, re.M)
            r['undecided'].append('build timed out' if rc is None else
                                  'build error (the extracted text or a harness does not compile under Kani): ' + (m.group(0)[:1200] if m else out[-800:]))
            continue
        sel = _selected(u, tier, only)
        if not sel:
            r['undecided'].append('no harness selected (tier=%s, only=%s)' % (tier, only))
            continue
        r['cmd'] = ('CARGO_NET_OFFLINE=true cargo kani %s %s   (in $SCRATCH/kext-%s: stand-alone crate generated by lib/kani_extract.py from %s)'
                    % (' '.join(KANI_FLAGS), ' '.join('--harness verif_kani::%s --exact' % h['name'] for h in sel), u['name'],
                       ', '.join(sorted(set(it['file'] for it in u['item'])))))
        ctx[u['name']] = (crate_dir, target)
        for h in sel:
            jobs.append((u, h))

    def one(job):
        u, h = job
        crate_dir, target = ctx[u['name']]
        to = int(h.get('timeout_s') or DEFAULT_TIMEOUT[tier if h['tier'] == 'thorough' else 'quick'])
        # a loaded machine must not turn a passing harness into a time-out (= undecided, exit 2 on an unchanged tree):
        # the per-harness figure is the expected cost; the kill timer is a multiple of it
        to = int(to * float(os.environ.get('VERIF_TIMEOUT_FACTOR', '4')))
        cmd = _kani_cmd(h['name'], target, h['flags'], h['cbmc_args'])
        rc, out, secs = kani_lane._run(cmd, crate_dir, env, to, kani_lane.MEM_KB)
        c = kani_lane.classify_run(rc, out, secs, to, h)
        c['seconds'] = round(secs, 2)
        c['out'] = out
        m = re.search(r'Maximum resident set size[^\d]*(\d+)', out)
        c['rss_kb'] = int(m.group(1)) if m else None
        return c

    with cf.ThreadPoolExecutor(max_workers=max(1, kani_lane.JOBS)) as ex:
        outs = list(ex.map(one, jobs))

    for (u, h), c in zip(jobs, outs):
        r = results[u['name']]
        pr = c.get('parsed')
        r['harnesses'][h['name']] = {'seconds': c['seconds'], 'checks': c['checks'], 'status': c['status'], 'label': h['label'],
                                     'kind': h['kind'], 'bound': h.get('bound'), 'solver_s': pr['time'] if pr else None}
        r['solver_s'] += pr['time'] if pr else 0.0
        bounded = h['kind'] in ('bounded', 'termination')
        if bounded:
            r['bounded'].append({'harness': '%s/%s' % (u['name'], h['name']), 'bound': h.get('bound'), 'checks': c['checks'], 'status': c['status']})
        if c['status'] == 'undecided':
            r['undecided'].append('%s: %s' % (h['label'], c['why']))
            continue
        if not bounded:
            r['obligations'] += c['checks']
            r['discharged'] += c['checks'] - len(c['failures'])
        if pr and len(r['samples']) < 6:
            user = [k for k in pr['checks'] if 'harness.rs' in k['location'] and '.cover.' not in k['id']
                    and not re.search(r'overflow|dereference|alloc|recursive|unreachable code|pointer|^assertion failed', k['description'])]
            for k in user[:2]:
                r['samples'].append('%s/%s: %s' % (u['name'], h['label'], re.sub(r'\s+', ' ', k['description'])[:160]))
        if c['status'] == 'ok':
            continue
        descs = [re.sub(r'\s+', ' ', k['description']) + ((' @ ' + k['location'][:120]) if 'harness.rs' not in k['location'] else '') for k in c['failures']]
        entry = {'obligation': '%s/%s' % (u['name'], h['label']), 'message': 'Kani FAILURE: ' + ' || '.join(descs)[:600],
                 'rendered': kani_lane.render_failure(c['out'], c['failures']), 'class': 'falsified', 'concrete': None,
                 'driver': 'kext:%s:%s' % (u['name'], h['name']), 'replay_reproduced': False, 'replay_result': 'no concrete values obtained',
                 'harness': h['name'], 'failed_checks': [re.sub(r'\s+', ' ', k['description']) for k in c['failures']][:12]}
        r['failed'].append(entry)

    for u in live:
        r = results[u['name']]
        for entry in r['failed']:
            h = [x for x in u['harness'] if x['name'] == entry['harness']][0]
            crate_dir, target = ctx[u['name']]
            try:
                _counterexample(u, h, entry, crate_dir, target, env, scratch)
            except Exception as e:   # never let the cex search change a verdict
                entry['replay_result'] = 'counterexample search crashed: %s: %s' % (type(e).__name__, e)
    return done()


def main(argv):
    import argparse
    ap = argparse.ArgumentParser(description='run one extracted-crate Kani unit stand-alone')
    ap.add_argument('unit')
    ap.add_argument('--tier', default='quick', choices=['quick', 'thorough'])
    ap.add_argument('--repo', default=os.environ.get('VERIF_REPO', '/repo'))
    ap.add_argument('--keep', action='store_true', help='keep the scratch crate')
    ap.add_argument('--harness', action='append', help='run only these harnesses (any tier)')
    ap.add_argument('--gen-only', action='store_true', help='only generate the scratch crate and print where it is')
    a = ap.parse_args(argv)
    u = find_unit(a.unit)
    if u is None:
        print('UNDECIDED: no unit %s (contracts/%s/kext.toml)' % (a.unit, a.unit))
        return 2
    scratch = os.path.join(os.environ.get('VERIF_SCRATCH', '/var/tmp'), 'bt-verif-kext.%d' % os.getpid())
    os.makedirs(scratch, exist_ok=True)
    t0 = time.time()
    try:
        if a.gen_only:
            if 'load_error' in u:
                print('UNDECIDED: ' + u['load_error'])
                return 2
            d = os.path.join(scratch, 'kext-' + u['name'])
            info = build_crate(u, a.repo, d)
            print('generated', d)
            for s in info['functions'] + info['substitutions'] + info['problems']:
                print('  ' + s)
            a.keep = True
            return 2 if info['problems'] else 0
        prop = (u.get('serves') or ['?'])[0]
        unknown = [n for n in (a.harness or []) if n not in [h['name'] for h in u.get('harness', [])]]
        if unknown:
            print('UNDECIDED: %s: harness(es) %s not declared in kext.toml' % (a.unit, unknown))
            return 2
        res = run(prop, [u], scratch, a.tier, a.repo, only=a.harness)[0]
    finally:
        if not a.keep:
            shutil.rmtree(scratch, ignore_errors=True)
        else:
            print('scratch kept: ' + scratch)
    for s in res.get('substitutions', []):
        print('subst ' + s)
    for f in res['functions_under_contract']:
        print('fn    ' + f)
    for n, h in sorted(res['harnesses'].items()):
        print('  %-44s %-9s %-9s %7.1fs  checks=%s%s' % (n, h['kind'], h['status'], h['seconds'], h['checks'],
                                                          (' bound=%s' % h['bound']) if h.get('bound') else ''))
    rc = 0
    for f in res['failed']:
        rc = 1
        print('VIOLATION unit=%s obligation=%s' % (res['unit'], f['obligation']))
        print('  failed obligation: %s  [%s]' % (f['obligation'], f['message']))
        if f.get('concrete'):
            print('  input: %s' % json.dumps(f['concrete'].get('readable') or f['concrete'].get('values'))[:800])
        print('  replay: %s' % f.get('replay_result'))
    if rc == 0 and res['undecided']:
        rc = 2
    for x in res['undecided']:
        print('UNDECIDED: %s: %s' % (res['unit'], x))
    if rc == 0:
        nb = len(res['bounded'])
        print('OK unit=%s harnesses=%d (bounded=%d, not counted as proved) obligations=%d discharged=%d wall=%.1fs'
              % (res['unit'], len(res['harnesses']), nb, res['obligations'], res['discharged'], time.time() - t0))
    return rc


if __name__ == '__main__':
    sys.exit(main(sys.argv[1:]))
