// ================= the image read back by position (unit rt_layout) =================
// `stored(img, t, cur, st)`: the subtree t (root at level cur) can be found in the byte image img by
// following positions: st[L] is the absolute position of the subtree's first node of level L; the node
// itself is at st[cur] in the published node layout, its i-th child pointer is
// st[cur-1] + (real sizes of children 0..i) -- and THAT is where child i is stored (kid_st(..)[cur-1]).
// This is pointer correctness stated on the image, with no reference to how the bytes were produced.
spec fn seg(img: Seq<u8>, p: int, n: int) -> Seq<u8> { img.subrange(p, p + n) }
/// the node t (level lvl, first child at kidpos) occupies img[p .. p + node_size(t)]
spec fn node_bytes_at(img: Seq<u8>, p: int, t: RTreeChildren, lvl: int, kidpos: int) -> bool {
    0 <= p && p + node_size(t) <= img.len() && seg(img, p, node_size(t)) == put_node(Seq::<u8>::empty(), t, lvl, kidpos)
}
/// positions of the first nodes of levels 0..=kl of the subtree of child i: after the level-L nodes of
/// the subtrees of children 0..i
spec fn kid_st(st: Seq<int>, s: Seq<RTreeNode>, kl: int, i: int) -> Seq<int> {
    Seq::new((kl + 1) as nat, |l: int| st[l] + sz_kids(s, kl, l, i))
}
spec fn stored(img: Seq<u8>, t: RTreeChildren, cur: int, st: Seq<int>) -> bool
    decreases cur, 0int
{
    &&& cur >= 0
    &&& st.len() == cur + 1
    &&& node_bytes_at(img, st[cur], t, cur, if cur >= 1 { st[cur - 1] } else { 0 })
    &&& match t {
        RTreeChildren::DataSections(_) => cur == 0,
        RTreeChildren::Nodes(v) => cur >= 1 && forall|i: int| 0 <= i < v@.len() ==> stored(img, (#[trigger] v@[i]).children, cur - 1, kid_st(st, v@, cur - 1, i)),
    }
}
/// positions of the levels in the whole index: level L starts after the header and all higher levels
spec fn top_st(t: RTreeChildren, levels: int, p0: int) -> Seq<int> {
    Seq::new((levels + 1) as nat, |l: int| p0 + above(t, levels, l + 1))
}

// ---- (A) the format functions append to their first argument ----
spec fn lv(t: RTreeChildren, cur: int, dest: int, kidpos: int) -> Seq<u8> { fmt_level(Seq::<u8>::empty(), t, cur, dest, kidpos) }
proof fn lemma_leaf_items_app(b: Seq<u8>, v: Seq<Section>, n: int)
    ensures put_leaf_items(b, v, n) == b + put_leaf_items(Seq::<u8>::empty(), v, n),
    decreases n,
{
    let e = Seq::<u8>::empty();
    if n > 0 {
        lemma_leaf_items_app(b, v, n - 1);
        let p = put_leaf_items(e, v, n - 1);
        assert(put_leaf_item(b + p, v[n - 1]) =~= b + put_leaf_item(p, v[n - 1]));
    } else {
        assert(b =~= b + e);
    }
}
proof fn lemma_nl_items_app(b: Seq<u8>, s: Seq<RTreeNode>, kl: int, kidpos: int, n: int)
    ensures put_nl_items(b, s, kl, kidpos, n) == b + put_nl_items(Seq::<u8>::empty(), s, kl, kidpos, n),
    decreases n,
{
    let e = Seq::<u8>::empty();
    if n > 0 {
        lemma_nl_items_app(b, s, kl, kidpos, n - 1);
        let p = put_nl_items(e, s, kl, kidpos, n - 1);
        let ptr = kidpos + sz_kids(s, kl, kl, n - 1);
        assert(put_nl_item(b + p, s[n - 1], ptr) =~= b + put_nl_item(p, s[n - 1], ptr));
    } else {
        assert(b =~= b + e);
    }
}
proof fn lemma_node_app(b: Seq<u8>, t: RTreeChildren, lvl: int, kidpos: int)
    ensures put_node(b, t, lvl, kidpos) == b + put_node(Seq::<u8>::empty(), t, lvl, kidpos),
{
    let e = Seq::<u8>::empty();
    match t {
        RTreeChildren::DataSections(v) => {
            let n = v@.len() as int;
            lemma_leaf_items_app(put_hdr(b, true, n), v@, n);
            lemma_leaf_items_app(put_hdr(e, true, n), v@, n);
            assert(put_hdr(b, true, n) =~= b + put_hdr(e, true, n));
            let x = put_leaf_items(e, v@, n);
            assert((b + put_hdr(e, true, n)) + x =~= b + (put_hdr(e, true, n) + x));
        }
        RTreeChildren::Nodes(v) => {
            let n = v@.len() as int;
            lemma_nl_items_app(put_hdr(b, false, n), v@, lvl - 1, kidpos, n);
            lemma_nl_items_app(put_hdr(e, false, n), v@, lvl - 1, kidpos, n);
            assert(put_hdr(b, false, n) =~= b + put_hdr(e, false, n));
            let x = put_nl_items(e, v@, lvl - 1, kidpos, n);
            assert((b + put_hdr(e, false, n)) + x =~= b + (put_hdr(e, false, n) + x));
        }
    }
}
proof fn lemma_level_app(b: Seq<u8>, t: RTreeChildren, cur: int, dest: int, kidpos: int)
    ensures fmt_level(b, t, cur, dest, kidpos) == b + lv(t, cur, dest, kidpos),
    decreases cur, 0int,
{
    let e = Seq::<u8>::empty();
    if cur == dest { lemma_node_app(b, t, dest, kidpos); }
    else if cur > dest && cur > 0 {
        match t {
            RTreeChildren::Nodes(v) => { lemma_kids_app(b, v@, cur - 1, dest, kidpos, v@.len() as int); }
            RTreeChildren::DataSections(_) => { assert(b =~= b + e); }
        }
    } else { assert(b =~= b + e); }
}
proof fn lemma_kids_app(b: Seq<u8>, s: Seq<RTreeNode>, kl: int, dest: int, kidpos: int, n: int)
    ensures fmt_kids(b, s, kl, dest, kidpos, n) == b + fmt_kids(Seq::<u8>::empty(), s, kl, dest, kidpos, n),
    decreases kl, n + 1,
{
    let e = Seq::<u8>::empty();
    if !(n <= 0 || kl < 0 || n > s.len()) {
        let k = kidpos + sz_kids(s, kl, dest - 1, n - 1);
        let c = s[n - 1].children;
        lemma_kids_app(b, s, kl, dest, kidpos, n - 1);
        let p = fmt_kids(e, s, kl, dest, kidpos, n - 1);
        lemma_level_app(b + p, c, kl, dest, k);
        lemma_level_app(p, c, kl, dest, k);
        assert((b + p) + lv(c, kl, dest, k) =~= b + (p + lv(c, kl, dest, k)));
    } else {
        assert(b =~= b + e);
    }
}
// ---- (D) the level-L bytes of a node's subtree are the level-L bytes of its children's subtrees, in order ----
proof fn lemma_kids_split(s: Seq<RTreeNode>, kl: int, dest: int, kidpos: int, n: int, i: int)
    requires 0 <= i < n <= s.len(), kl >= 0,
    ensures
        0 <= sz_kids(s, kl, dest, i) <= sz_kids(s, kl, dest, i + 1) <= sz_kids(s, kl, dest, n),
        sz_kids(s, kl, dest, i + 1) == sz_kids(s, kl, dest, i) + sz(s[i].children, kl, dest),
        fmt_kids(Seq::<u8>::empty(), s, kl, dest, kidpos, n).len() == sz_kids(s, kl, dest, n),
        seg(fmt_kids(Seq::<u8>::empty(), s, kl, dest, kidpos, n), sz_kids(s, kl, dest, i), sz(s[i].children, kl, dest))
            == lv(s[i].children, kl, dest, kidpos + sz_kids(s, kl, dest - 1, i)),
    decreases n,
{
    let e = Seq::<u8>::empty();
    let k = kidpos + sz_kids(s, kl, dest - 1, n - 1);
    let c = s[n - 1].children;
    let p = fmt_kids(e, s, kl, dest, kidpos, n - 1);
    lemma_kids_len(e, s, kl, dest, kidpos, n);
    lemma_kids_len(e, s, kl, dest, kidpos, n - 1);
    lemma_level_app(p, c, kl, dest, k);
    lemma_level_len(p, c, kl, dest, k);
    lemma_szk_mono(s, kl, dest, i, i + 1);
    lemma_szk_mono(s, kl, dest, i + 1, n);
    let whole = fmt_kids(e, s, kl, dest, kidpos, n);
    assert(whole == p + lv(c, kl, dest, k));
    if i == n - 1 {
        assert(seg(whole, p.len() as int, lv(c, kl, dest, k).len() as int) =~= lv(c, kl, dest, k));
    } else {
        lemma_kids_split(s, kl, dest, kidpos, n - 1, i);
        assert(seg(whole, sz_kids(s, kl, dest, i), sz(s[i].children, kl, dest)) =~= seg(p, sz_kids(s, kl, dest, i), sz(s[i].children, kl, dest)));
    }
}
// ---- (C) from "every level of the subtree is in the image at st[L]" to `stored` ----
/// level L of subtree t is in img at st[L], formatted with the position of level L-1 of the subtree
spec fn level_in(img: Seq<u8>, t: RTreeChildren, cur: int, st: Seq<int>, l: int) -> bool {
    &&& 0 <= st[l]
    &&& st[l] + sz(t, cur, l) <= img.len()
    &&& seg(img, st[l], sz(t, cur, l)) == lv(t, cur, l, kp(l, if l >= 1 { st[l - 1] } else { 0 }))
}
spec fn levels_in(img: Seq<u8>, t: RTreeChildren, cur: int, st: Seq<int>) -> bool {
    st.len() == cur + 1 && forall|l: int| 0 <= l <= cur ==> level_in(img, t, cur, st, l)
}
proof fn lemma_kid_levels_in(img: Seq<u8>, s: Seq<RTreeNode>, kl: int, st: Seq<int>, t: RTreeChildren, i: int)
    requires
        kl >= 0, 0 <= i < s.len(),
        t matches RTreeChildren::Nodes(v) && v@ == s,
        levels_in(img, t, kl + 1, st),
    ensures
        levels_in(img, s[i].children, kl, kid_st(st, s, kl, i)),
{
    let e = Seq::<u8>::empty();
    let kst = kid_st(st, s, kl, i);
    let c = s[i].children;
    assert forall|l: int| 0 <= l <= kl implies level_in(img, c, kl, kst, l) by {
        assert(level_in(img, t, kl + 1, st, l));
        let kk = kp(l, if l >= 1 { st[l - 1] } else { 0 });
        // level l of t is the concatenation over the children
        assert(lv(t, kl + 1, l, kk) == fmt_kids(e, s, kl, l, kk, s.len() as int));
        assert(sz(t, kl + 1, l) == sz_kids(s, kl, l, s.len() as int));
        lemma_kids_split(s, kl, l, kk, s.len() as int, i);
        let whole = seg(img, st[l], sz(t, kl + 1, l));
        let a = sz_kids(s, kl, l, i);
        let n = sz(c, kl, l);
        assert(seg(whole, a, n) =~= seg(img, st[l] + a, n));
        assert(kst[l] == st[l] + a);
        if l >= 1 {
            assert(kst[l - 1] == st[l - 1] + sz_kids(s, kl, l - 1, i));
        } else {
            lemma_szk_neg(s, kl, l - 1, i);
        }
    }
}
proof fn lemma_levels_in_stored(img: Seq<u8>, t: RTreeChildren, cur: int, st: Seq<int>)
    requires depth_ok(t, cur), cur >= 0, levels_in(img, t, cur, st),
    ensures stored(img, t, cur, st),
    decreases cur,
{
    assert(level_in(img, t, cur, st, cur));
    match t {
        RTreeChildren::DataSections(_) => {}
        RTreeChildren::Nodes(v) => {
            let s = v@;
            assert forall|i: int| 0 <= i < s.len() implies stored(img, (#[trigger] s[i]).children, cur - 1, kid_st(st, s, cur - 1, i)) by {
                lemma_kid_levels_in(img, s, cur - 1, st, t, i);
                lemma_levels_in_stored(img, s[i].children, cur - 1, kid_st(st, s, cur - 1, i));
            }
        }
    }
}
// ---- (B) the whole index image contains every level at top_st ----
proof fn lemma_down_has_level(b: Seq<u8>, t: RTreeChildren, levels: int, l: int, p0: int, ll: int)
    requires b.len() == p0, 0 <= l <= ll <= levels,
    ensures
        fmt_down(b, t, levels, l, p0).len() == p0 + above(t, levels, l),
        p0 + above(t, levels, ll + 1) + sz(t, levels, ll) <= p0 + above(t, levels, l),
        0 <= above(t, levels, ll + 1),
        seg(fmt_down(b, t, levels, l, p0), p0 + above(t, levels, ll + 1), sz(t, levels, ll))
            == lv(t, levels, ll, kp(ll, p0 + above(t, levels, ll))),
    decreases ll - l,
{
    let k = kp(l, p0 + above(t, levels, l));
    let prev = fmt_down(b, t, levels, l + 1, p0);
    lemma_down_len(b, t, levels, l, p0);
    lemma_down_len(b, t, levels, l + 1, p0);
    lemma_level_app(prev, t, levels, l, k);
    lemma_level_len(prev, t, levels, l, k);
    lemma_above_bounds(t, levels, l);
    lemma_above_bounds(t, levels, ll);
    lemma_above_bounds(t, levels, ll + 1);
    let whole = fmt_down(b, t, levels, l, p0);
    assert(whole == prev + lv(t, levels, l, k));
    if l == ll {
        assert(seg(whole, prev.len() as int, lv(t, levels, l, k).len() as int) =~= lv(t, levels, l, k));
    } else {
        lemma_down_has_level(b, t, levels, l + 1, p0, ll);
        assert(seg(whole, p0 + above(t, levels, ll + 1), sz(t, levels, ll)) =~= seg(prev, p0 + above(t, levels, ll + 1), sz(t, levels, ll)));
    }
}
/// THE layout theorem: in the image of the whole index every node is where its parent's pointer says.
proof fn lemma_index_stored(b0: Seq<u8>, t: RTreeChildren, levels: int, block_size: u32, item_count: u64, items_per_slot: u32)
    requires depth_ok(t, levels), levels >= 0,
    ensures
        [[L: theorem/every_node_is_stored_where_its_parent_points]]
        stored(fmt_index(b0, t, levels, block_size, item_count, items_per_slot), t, levels, top_st(t, levels, b0.len() as int + 48)),
        [[L: theorem/root_node_follows_the_48_byte_header]]
        top_st(t, levels, b0.len() as int + 48)[levels] == b0.len() + 48,
        [[L: theorem/earlier_file_content_is_a_prefix]]
        b0.is_prefix_of(fmt_index(b0, t, levels, block_size, item_count, items_per_slot)),
{
    let p0 = b0.len() as int + 48;
    let hdr = fmt_cir_header(b0, block_size, item_count, root_start(t), root_end(t), b0.len() as u64, items_per_slot);
    let img = fmt_index(b0, t, levels, block_size, item_count, items_per_slot);
    let st = top_st(t, levels, p0);
    assert(hdr.len() == p0);
    assert forall|l: int| 0 <= l <= levels implies level_in(img, t, levels, st, l) by {
        lemma_down_has_level(hdr, t, levels, 0, p0, l);
        assert(st[l] == p0 + above(t, levels, l + 1));
        if l >= 1 { assert(st[l - 1] == p0 + above(t, levels, l)); }
    }
    lemma_levels_in_stored(img, t, levels, st);
    lemma_above_bounds(t, levels, levels + 1);
    lemma_down_prefix(hdr, t, levels, 0, p0);
    assert(b0.is_prefix_of(hdr)) by { assert(hdr.subrange(0, b0.len() as int) =~= b0); }
}
proof fn lemma_down_prefix(b: Seq<u8>, t: RTreeChildren, levels: int, l: int, p0: int)
    ensures b.is_prefix_of(fmt_down(b, t, levels, l, p0)),
    decreases levels + 1 - l,
{
    if l <= levels {
        let prev = fmt_down(b, t, levels, l + 1, p0);
        lemma_down_prefix(b, t, levels, l + 1, p0);
        lemma_level_app(prev, t, levels, l, kp(l, p0 + above(t, levels, l)));
    }
}
