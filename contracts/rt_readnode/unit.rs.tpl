//@unit rt_readnode
//@serves C10 C05
//@backend verus
// bbiread::read_node, cir_tree_leaf_items, cir_tree_non_leaf_items: reading one R-tree node.
// C10 ("R-trees of any fan-out, depth and node placement"): a node that is stored completely
// inside the file is read successfully wherever it lies (in particular at the very end of the
// file), exactly its own bytes are consumed (4 + 32*count for a leaf, 4 + 24*count for a
// non-leaf), the item bytes are handed to the item decoders unchanged, the count is decoded in
// the file's byte order.
use vstd::prelude::*;
verus! {
//@include ../_shared/bytes.rs

#[derive(Copy, Clone)]
pub enum Endianness { Big, Little }
pub open spec fn is_big(e: Endianness) -> bool { e is Big }

//@extract struct bigtools/src/bbi/bbiread.rs CirTreeLeafItemIterator
//@rule R8
//@sub /^    (\w+):/ => pub \1: min=0
//@end
//@extract struct bigtools/src/bbi/bbiread.rs CirTreeNonLeafItemsIterator
//@rule R8
//@sub /^    (\w+):/ => pub \1: min=0
//@end
//@extract enum bigtools/src/bbi/bbiread.rs CirTreeNodeIterator
//@rule R8
//@sub /<\s*L: Iterator<Item = CirTreeNodeLeaf> = CirTreeLeafItemIterator,\s*N: Iterator<Item = CirTreeNodeNonLeaf> = CirTreeNonLeafItemsIterator,\s*>/ => ""
//@sub /Leaf\(L\)/ => Leaf(CirTreeLeafItemIterator)
//@sub /NonLeaf\(N\)/ => NonLeaf(CirTreeNonLeafItemsIterator)
//@end

// The file (any `Read + Seek`): ghost content, OS position, and an environment flag saying whether
// the next operations fail for reasons outside the program.  Assumed contract of std:
// `seek(Start(p))` moves to p (seeking past the end is allowed); `read_exact(buf)` fails iff fewer
// than buf.len() bytes remain or the environment fails; on success it fills buf with the next bytes.
#[verifier::external_body]
pub struct VRead { _p: u8 }
impl VRead {
    pub uninterp spec fn content(&self) -> Seq<u8>;
    pub uninterp spec fn pos(&self) -> int;
    pub uninterp spec fn env_ok(&self) -> bool;
    #[verifier::external_body]
    pub fn seek_start(&mut self, p: u64) -> (r: Result<u64, IoError>)
        ensures final(self).content() == old(self).content(), final(self).env_ok() == old(self).env_ok(),
            old(self).env_ok() ==> r.is_ok(), r.is_ok() ==> final(self).pos() == p,
    { unimplemented!() }
    #[verifier::external_body]
    pub fn read_exact(&mut self, buf: &mut Vec<u8>) -> (r: Result<(), IoError>)
        requires old(self).pos() >= 0,
        ensures final(self).content() == old(self).content(), final(self).env_ok() == old(self).env_ok(),
            final(buf)@.len() == old(buf)@.len(),
            (old(self).env_ok() && old(self).pos() + old(buf)@.len() <= old(self).content().len()) ==> r.is_ok(),
            old(self).pos() + old(buf)@.len() > old(self).content().len() ==> r.is_err(),
            r.is_ok() ==> final(self).pos() == old(self).pos() + old(buf)@.len()
                && final(buf)@ == old(self).content().subrange(old(self).pos(), old(self).pos() + old(buf)@.len()),
    { unimplemented!() }
    /// `Read::read` (0 hits on /repo; lets an edit that replaces `read_exact` by a single `read` reach the
    /// verifier) with its REAL contract: Ok(n) with 0 <= n <= buf.len() and n no more than what is left; the first
    /// n bytes of buf are the next n bytes of the file, the rest of buf is unchanged, the position advances by n;
    /// n MAY be smaller than buf.len() even when more bytes are available (short read); it fails only for
    /// reasons of the environment.  Nothing is said about position/buffer after an Err.
    #[verifier::external_body]
    pub fn read(&mut self, buf: &mut Vec<u8>) -> (r: Result<usize, IoError>)
        requires old(self).pos() >= 0,
        ensures final(self).content() == old(self).content(), final(self).env_ok() == old(self).env_ok(),
            final(buf)@.len() == old(buf)@.len(),
            old(self).env_ok() ==> r.is_ok(),
            r matches Ok(n) ==> {
                &&& n <= old(buf)@.len()
                &&& final(self).pos() == old(self).pos() + n
                &&& n == 0 ==> final(buf)@ == old(buf)@
                &&& n > 0 ==> old(self).pos() + n <= old(self).content().len()
                        && final(buf)@ == old(self).content().subrange(old(self).pos(), old(self).pos() + n)
                            + old(buf)@.subrange(n as int, old(buf)@.len() as int)
            },
    { unimplemented!() }
    /// `let mut b = BytesMut::zeroed(n); file.read_exact(&mut b)` as one step
    #[verifier::external_body]
    pub fn read_cur(&mut self, n: usize) -> (r: Result<Cur, IoError>)
        requires old(self).pos() >= 0,
        ensures final(self).content() == old(self).content(), final(self).env_ok() == old(self).env_ok(),
            (old(self).env_ok() && old(self).pos() + n <= old(self).content().len()) ==> r.is_ok(),
            old(self).pos() + n > old(self).content().len() ==> r.is_err(),
            r.is_ok() ==> final(self).pos() == old(self).pos() + n
                && r.unwrap().rem() == old(self).content().subrange(old(self).pos(), old(self).pos() + n),
    { unimplemented!() }
}
pub fn zeros(n: usize) -> (r: Vec<u8>) ensures r@.len() == n
{
    let mut v: Vec<u8> = Vec::new();
    let mut i: usize = 0;
    while i < n invariant i <= n, v@.len() == i decreases n - i { v.push(0u8); i = i + 1; }
    v
}

/// a node of `count` items of `isz` bytes each is stored completely inside the file at `at`
pub open spec fn node_stored(c: Seq<u8>, at: int, isleaf: u8, count: int, big: bool) -> bool {
    &&& 0 <= at && at + 4 <= c.len()
    &&& c[at] == isleaf && (isleaf == 0 || isleaf == 1)
    &&& d16(big, c, at + 2) == count
    &&& at + 4 + (if isleaf == 1 { 32int } else { 24int }) * count <= c.len()
}

//@extract fn bigtools/src/bbi/bbiread.rs cir_tree_leaf_items
//@rule R16
//@sub /<R: SeekableRead>/ => ""
//@sub /file: &mut R,/ => file: &mut VRead,
//@sub /io::Result</ => Result<
//@sub /CirTreeLeafItemIterator> \{/ => CirTreeLeafItemIterator, IoError> {
//@sub /vec!\[0u8; (.*?)\];/ => zeros(\1); min=0
//@ret r
//@sig
    requires
        [[L: leaf_items/pre]]
        old(file).pos() >= 0, count <= 65535,
    ensures
        [[L: leaf_items/reads_exactly_32_bytes_per_item]]
        r.is_ok() ==> final(file).pos() == old(file).pos() + 32 * count,
        [[L: leaf_items/succeeds_when_the_items_are_in_the_file]]
        (old(file).env_ok() && old(file).pos() + 32 * count <= old(file).content().len()) ==> r.is_ok(),
        [[L: leaf_items/hands_item_bytes_to_the_decoder_unchanged]]
        r.is_ok() ==> r.unwrap().bytes@ == old(file).content().subrange(old(file).pos(), old(file).pos() + 32 * count)
            && r.unwrap().i == 0 && r.unwrap().count == count && r.unwrap().endianness == endianness,
        [[L: leaf_items/file_unchanged]]
        final(file).content() == old(file).content() && final(file).env_ok() == old(file).env_ok(),
//@end

//@extract fn bigtools/src/bbi/bbiread.rs cir_tree_non_leaf_items
//@rule R16
//@sub /<R: SeekableRead>/ => ""
//@sub /file: &mut R,/ => file: &mut VRead,
//@sub /io::Result</ => Result<
//@sub /CirTreeNonLeafItemsIterator> \{/ => CirTreeNonLeafItemsIterator, IoError> {
//@sub /vec!\[0u8; (.*?)\];/ => zeros(\1); min=0
//@ret r
//@sig
    requires
        [[L: nonleaf_items/pre]]
        old(file).pos() >= 0, count <= 65535,
    ensures
        [[L: nonleaf_items/reads_exactly_24_bytes_per_item]]
        r.is_ok() ==> final(file).pos() == old(file).pos() + 24 * count,
        [[L: nonleaf_items/succeeds_when_the_items_are_in_the_file]]
        (old(file).env_ok() && old(file).pos() + 24 * count <= old(file).content().len()) ==> r.is_ok(),
        [[L: nonleaf_items/hands_item_bytes_to_the_decoder_unchanged]]
        r.is_ok() ==> r.unwrap().bytes@ == old(file).content().subrange(old(file).pos(), old(file).pos() + 24 * count)
            && r.unwrap().i == 0 && r.unwrap().count == count && r.unwrap().endianness == endianness,
        [[L: nonleaf_items/file_unchanged]]
        final(file).content() == old(file).content() && final(file).env_ok() == old(file).env_ok(),
//@end

//@extract fn bigtools/src/bbi/bbiread.rs read_node
//@rule R16
//@rule R6
//@rule R8
//@sub /<R: SeekableRead>/ => ""
//@sub /file: &mut R,/ => file: &mut VRead,
//@sub /io::Result</ => Result<
//@sub /CirTreeNodeIterator> \{/ => CirTreeNodeIterator, IoError> {
//@sub /file\.seek\(SeekFrom::Start\(node_offset\)\)/ => file.seek_start(node_offset) min=0
//@sub /let mut header_data = BytesMut::zeroed\(4\);\s*match file\.read_exact\(&mut header_data\) \{\s*Err\(e\) => return Err\(e\),\s*Ok\(_\) => \{\}\s*\}/ => let mut header_data = match file.read_cur(4) { Err(e) => return Err(e), Ok(c) => c }; min=1
//@ret r
//@sig
    requires
        [[L: read_node/pre_node_header_is_wellformed]]
        node_offset + 4 <= old(file).content().len() ==> (old(file).content()[node_offset as int] == 0 || old(file).content()[node_offset as int] == 1),
    ensures
        [[L: read_node/stored_node_is_read_wherever_it_lies]]
        forall|isleaf: u8, count: int| (old(file).env_ok() && #[trigger] node_stored(old(file).content(), node_offset as int, isleaf, count, is_big(endianness))) ==> r.is_ok(),
        [[L: read_node/leaf_node_gives_leaf_items]]
        forall|count: int| (r.is_ok() && #[trigger] node_stored(old(file).content(), node_offset as int, 1, count, is_big(endianness))) ==>
            (r.unwrap() matches CirTreeNodeIterator::Leaf(it) && it.count == count && it.i == 0 && it.endianness == endianness
            && it.bytes@ == old(file).content().subrange(node_offset + 4, node_offset + 4 + 32 * count)),
        [[L: read_node/nonleaf_node_gives_nonleaf_items]]
        forall|count: int| (r.is_ok() && #[trigger] node_stored(old(file).content(), node_offset as int, 0, count, is_big(endianness))) ==>
            (r.unwrap() matches CirTreeNodeIterator::NonLeaf(it) && it.count == count && it.i == 0 && it.endianness == endianness
            && it.bytes@ == old(file).content().subrange(node_offset + 4, node_offset + 4 + 24 * count)),
        [[L: read_node/file_unchanged]]
        final(file).content() == old(file).content(),
//@at /let isleaf: u8 = header_data\.get_u8\(\);/ before
    let ghost hdr = header_data.rem();
    proof {
        let c = file.content(); let k = node_offset as int;
        assert(hdr[0] == c[k] && hdr[1] == c[k + 1] && hdr[2] == c[k + 2] && hdr[3] == c[k + 3]);
    }
//@end

} // verus!
fn main() {}
