// beddata.rs: the five constructors of the SERIAL source `BedParserStreamingIterator`:
//   `new`, `from_bed_file`, `from_bedgraph_file`, `wrap_iter`, `wrap_infallible_iter`.
// What the properties need from them (C01/C02: "reading back returns the same ... in the same order" for "serial and
// parallel sources"; C13: "chromosomes out of order when sorted input is required" is refused; C16: the CLI builds its
// sources with exactly these calls):
//   * the source reads THE reader / iterator it was given, from its current state (nothing consumed, nothing prefetched):
//     unit bedparse proves "one item per line / per iterator item, in order" for a stream OVER a given reader, unit feed
//     proves the feeding protocol for a source whose `rest()` is that item sequence -- the constructors are the link;
//   * a BED file is parsed with `parse_bed`, a bedGraph file with `parse_bedgraph` (bedparse verifies each stream
//     instantiation with ITS parse function);
//   * `allow_out_of_order_chroms` is stored AS GIVEN: unit feed refuses a non-increasing chromosome switch iff
//     `!self.allow_out_of_order_chroms` (`feed: out_of_order_switch_refused_before_advance_and_start`), unit conv_opts
//     states which value the CLI passes -- a constructor that negates or overrides the flag breaks the C13 refusal
//     (or refuses valid unsorted input that was explicitly allowed).
// Descriptive (`doc/`): the iterator streams start with `curr: None`.  bedparse's `next` contracts (`iter/...`,
// `infallible/...`) carry NO precondition on `curr` (the cached name is only reused after the equality test), so a
// stale cache cannot change an answer; the clause records the initial state of bedparse's `cache_holds_what_was_returned`
// invariant (nothing returned yet = nothing cached).
use vstd::prelude::*;
verus! {

// ---------------- shims (each one is a listed assumption) ----------------
/// `R: Read` (a `File`, `Stdin`, ...): opaque, identity matters only
#[verifier::external_body] pub struct RawRead { _p: u8 }
/// `BufReader<R>`: which reader it buffers
#[verifier::external_body] pub struct VBufRead { _p: u8 }
impl VBufRead {
    pub uninterp spec fn over(&self) -> RawRead;
}
/// `BufReader::new(file)` / `BufReader::with_capacity(n, file)` (ASSUMED std contract: wraps the given reader, reads
/// nothing at construction; buffering is transparent, see bedparse `buf_reader_new`)
#[verifier::external_body]
pub fn buf_reader_new(file: RawRead) -> (r: VBufRead) ensures r.over() == file, { unimplemented!() }
#[verifier::external_body]
pub fn buf_reader_with_capacity(n: usize, file: RawRead) -> (r: VBufRead) ensures r.over() == file, { unimplemented!() }
/// `utils::file::streaming_linereader::StreamingLineReader<B>`: which buffered reader it reads lines from.
/// ASSUMED contract of `StreamingLineReader::new(bf)`: holds `bf`, nothing read (unit bedparse verifies the real text:
/// `new/starts_at_the_first_line`)
#[verifier::external_body] pub struct StreamingLineReader { _p: u8 }
impl StreamingLineReader {
    pub uninterp spec fn buf(&self) -> VBufRead;
    #[verifier::external_body]
    pub fn new(bf: VBufRead) -> (r: StreamingLineReader) ensures r.buf() == bf, { unimplemented!() }
}
/// `Parser<V>` (a fn pointer `for<'a> fn(&'a str) -> Option<Result<(&'a str, V), BedValueError>>`): WHICH parse function
/// the stream calls.  (In the repository `Parser<BedEntry>` and `Parser<Value>` are different types, so wiring the
/// wrong function does not compile there; here both are one marker type so that such an edit is judged, not rejected.)
pub enum ParserMark { Bed, BedGraph }
/// `parse: parse_bed` / `parse: parse_bedgraph` (fn item -> fn pointer): the marker of that function
pub fn fnptr_parse_bed() -> (r: ParserMark) ensures r == ParserMark::Bed, { ParserMark::Bed }
pub fn fnptr_parse_bedgraph() -> (r: ParserMark) ensures r == ParserMark::BedGraph, { ParserMark::BedGraph }

/// `String` of a chromosome name and the stream's value type `V`: opaque (never built here)
#[verifier::external_body] pub struct Str { _p: u8 }
#[verifier::external_body] pub struct Val { _p: u8 }
/// `C: Into<String>`, `E: Into<BedValueError>`: opaque
#[verifier::external_body] pub struct CName { _p: u8 }
impl CName {
    #[verifier::external_body] pub fn into(self) -> (r: Str) { unimplemented!() }
    #[verifier::external_body] pub fn to_string(&self) -> (r: Str) { unimplemented!() }
}
#[verifier::external_body] pub struct SrcErr { _p: u8 }
/// `I: Iterator<Item = Result<(C, V), E>>`: the items not handed out yet (as in bedparse).  `next` is not called by the
/// constructors today: it is there so that a constructor that PREFETCHES is judged (the stream then no longer wraps
/// the iterator it was given).
#[verifier::external_body] pub struct VIter { _p: u8 }
impl VIter {
    pub uninterp spec fn rest(&self) -> Seq<Result<(CName, Val), SrcErr>>;
    #[verifier::external_body]
    pub fn next(&mut self) -> (r: Option<Result<(CName, Val), SrcErr>>)
        ensures
            old(self).rest().len() == 0 ==> r is None && final(self).rest() == old(self).rest(),
            old(self).rest().len() > 0 ==> r == Some(old(self).rest()[0]) && final(self).rest() == old(self).rest().drop_first(),
    { unimplemented!() }
}
/// `I: Iterator<Item = (C, V)>`
#[verifier::external_body] pub struct VIterI { _p: u8 }
impl VIterI {
    pub uninterp spec fn rest(&self) -> Seq<(CName, Val)>;
    #[verifier::external_body]
    pub fn next(&mut self) -> (r: Option<(CName, Val)>)
        ensures
            old(self).rest().len() == 0 ==> r is None && final(self).rest() == old(self).rest(),
            old(self).rest().len() > 0 ==> r == Some(old(self).rest()[0]) && final(self).rest() == old(self).rest().drop_first(),
    { unimplemented!() }
}

// ---------------- repository structs ----------------
// R11: `<V, B>` dropped; `StreamingLineReader<B>` -> shim; `Parser<V>` -> `ParserMark`
pub struct BedFileStream {
    pub bed: StreamingLineReader,
    pub parse: ParserMark,
}
// R11: `<V, I>` dropped; `iter: I` -> `VIter` / `VIterI`; `(String, V)` -> `(Str, Val)`
pub struct BedIteratorStream {
    pub iter: VIter,
    pub curr: Option<(Str, Val)>,
}
pub struct BedInfallibleIteratorStream {
    pub iter: VIterI,
    pub curr: Option<(Str, Val)>,
}
// 0-hit stand-ins: the two constructors of `BedFileStream` itself (bedparser.rs; under contract in unit bedparse:
// `from_bed_file/stream_starts_at_the_first_line_of_the_file`, the parse function by the stream's type).  Not called by
// beddata.rs today; an edit that builds the stream through them instead of the struct literal is equivalent and is
// then judged (and accepted) instead of being rejected.
impl BedFileStream {
    #[verifier::external_body]
    pub fn from_bed_file(file: RawRead) -> (r: BedFileStream)
        ensures r.bed.buf().over() == file, r.parse == ParserMark::Bed,
    { unimplemented!() }
    #[verifier::external_body]
    pub fn from_bedgraph_file(file: RawRead) -> (r: BedFileStream)
        ensures r.bed.buf().over() == file, r.parse == ParserMark::BedGraph,
    { unimplemented!() }
}

// The source struct stays generic in the stream type `S` (only the trait bound is dropped; fields made `pub` inside
// the unit so that the contracts of `pub fn`s can name them).
pub struct BedParserStreamingIterator<S> {
    pub bed_data: S,
    pub allow_out_of_order_chroms: bool,
}

impl<S> BedParserStreamingIterator<S> {
pub fn new(bed_data: S, allow_out_of_order_chroms: bool) -> (r: Self)
    ensures
        
        r.bed_data == bed_data,
        
        r.allow_out_of_order_chroms == allow_out_of_order_chroms,
{
        BedParserStreamingIterator {
            bed_data,
            allow_out_of_order_chroms,
        }
    }
}

impl BedParserStreamingIterator<BedFileStream> {
// R11: `file: R` -> `RawRead`; `BufReader::new(` -> `buf_reader_new(`; `parse: parse_bed,` -> `parse: fnptr_parse_bed(),`
pub fn from_bed_file(file: RawRead, allow_out_of_order_chroms: bool) -> (r: Self)
    ensures
        
        r.bed_data.bed.buf().over() == file,
        
        r.bed_data.parse == ParserMark::Bed,
        
        r.allow_out_of_order_chroms == allow_out_of_order_chroms,
{
        BedParserStreamingIterator::new(
            BedFileStream {
                bed: StreamingLineReader::new(buf_reader_new(file)),
                parse: fnptr_parse_bed(),
            },
            allow_out_of_order_chroms,
        )
    }

pub fn from_bedgraph_file(file: RawRead, allow_out_of_order_chroms: bool) -> (r: Self)
    ensures
        
        r.bed_data.bed.buf().over() == file,
        
        r.bed_data.parse == ParserMark::BedGraph,
        
        r.allow_out_of_order_chroms == allow_out_of_order_chroms,
{
        BedParserStreamingIterator::new(
            BedFileStream {
                bed: StreamingLineReader::new(buf_reader_new(file)),
                parse: fnptr_parse_bedgraph(),
            },
            allow_out_of_order_chroms,
        )
    }
}

impl BedParserStreamingIterator<BedIteratorStream> {
// R11 (0 hits on /repo): `iter.next().map(|PAT| E)` -> `(match iter.next() { Some(PAT) => Some(E), None => None })`
// (definition of Option::map), so that a prefetching constructor is judged.
// R11: `iter: I` -> `VIter` (a `mut` on the parameter is moved into a `let mut iter = iter;` so that the contract
// keeps talking about the iterator AS GIVEN)
pub fn wrap_iter(iter: VIter, allow_out_of_order_chroms: bool) -> (r: Self)
    ensures
        
        r.bed_data.iter == iter,
        
        r.bed_data.curr is None,
        
        r.allow_out_of_order_chroms == allow_out_of_order_chroms,
{
        #[allow(unused_mut)]
        let mut iter = iter;

        BedParserStreamingIterator::new(
            BedIteratorStream { iter, curr: None },
            allow_out_of_order_chroms,
        )
    }
}

impl BedParserStreamingIterator<BedInfallibleIteratorStream> {
pub fn wrap_infallible_iter(iter: VIterI, allow_out_of_order_chroms: bool) -> (r: Self)
    ensures
        
        r.bed_data.iter == iter,
        
        r.bed_data.curr is None,
        
        r.allow_out_of_order_chroms == allow_out_of_order_chroms,
{
        #[allow(unused_mut)]
        let mut iter = iter;

        BedParserStreamingIterator::new(
            BedInfallibleIteratorStream { iter, curr: None },
            allow_out_of_order_chroms,
        )
    }
}

} // verus!
fn main() {}

