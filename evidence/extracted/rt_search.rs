// bbiread::CirTreeBlockSearchIter::next + search_cir_tree_inner: the work-list DFS over the on-disk
// R-tree.  Property (C05): "finds every block whose span intersects the query and returns the blocks
// in file order"; (C10): "R-trees of any fan-out, depth and node placement" -- the contract only uses
// the pointer graph (ghost map offset -> node), not where nodes are placed.
use vstd::prelude::*;
use std::collections::VecDeque;
verus! {
/// `VecDeque::extend(vec)` (not used by the code today; present so that an edit using it is judged): appends at the BACK
#[verifier::external_body]
fn deque_extend_back(d: &mut std::collections::VecDeque<u64>, v: Vec<u64>)
    ensures final(d)@ == old(d)@ + v@,
{ unimplemented!() }


#[derive(Copy, Clone)]
pub struct Block {
    pub offset: u64,
    pub size: u64,
}
#[derive(Copy, Clone)]
pub struct CirTreeNodeLeaf {
    start_chrom_ix: u32,
    start_base: u32,
    end_chrom_ix: u32,
    end_base: u32,
    data_offset: u64,
    data_size: u64,
}
#[derive(Copy, Clone)]
pub struct CirTreeNodeNonLeaf {
    start_chrom_ix: u32,
    start_base: u32,
    end_chrom_ix: u32,
    end_base: u32,
    node_offset: u64,
}

// ---------------- specification vocabulary shared by rt_nodes and rt_search ----------------
// Written from the property texts (C05: "finds every block whose span intersects the query and
// returns the blocks in file order"; C04: "every stored entry whose span overlaps the range").
// Included AFTER the extracted structs CirTreeNodeLeaf, CirTreeNodeNonLeaf, Block.

/// strict lexicographic order on (chromosome index, base)
spec fn pos_lt(a: (u32, u32), b: (u32, u32)) -> bool {
    a.0 < b.0 || (a.0 == b.0 && a.1 < b.1)
}
/// non-strict lexicographic order on (chromosome index, base)
spec fn pos_le(a: (u32, u32), b: (u32, u32)) -> bool {
    a.0 < b.0 || (a.0 == b.0 && a.1 <= b.1)
}
/// A span is the closed range of positions from (b1, b1s) to (b2, b2e) in (chrom, base) order; the
/// query is chromosome q, bases [qs, qe].  They intersect iff neither lies wholly before the other.
spec fn overlaps_spec(q: u32, qs: u32, qe: u32, b1: u32, b1s: u32, b2: u32, b2e: u32) -> bool {
    pos_le((q, qs), (b2, b2e)) && pos_le((b1, b1s), (q, qe))
}
spec fn leaf_hit(c: CirTreeNodeLeaf, q: u32, qs: u32, qe: u32) -> bool {
    overlaps_spec(q, qs, qe, c.start_chrom_ix, c.start_base, c.end_chrom_ix, c.end_base)
}
spec fn nonleaf_hit(c: CirTreeNodeNonLeaf, q: u32, qs: u32, qe: u32) -> bool {
    overlaps_spec(q, qs, qe, c.start_chrom_ix, c.start_base, c.end_chrom_ix, c.end_base)
}
spec fn leaf_block(c: CirTreeNodeLeaf) -> Block {
    Block { offset: c.data_offset, size: c.data_size }
}
/// order-preserving filter+map of the first n leaf items: the blocks (offset, size) of the items
/// whose span intersects the query, in stored order
spec fn filter_blocks(items: Seq<CirTreeNodeLeaf>, q: u32, qs: u32, qe: u32, n: int) -> Seq<Block>
    decreases n
{
    if n <= 0 { Seq::empty() }
    else {
        let prev = filter_blocks(items, q, qs, qe, n - 1);
        if leaf_hit(items[n - 1], q, qs, qe) { prev.push(leaf_block(items[n - 1])) } else { prev }
    }
}
/// order-preserving filter+map of the first n non-leaf items: the child node offsets of the items
/// whose span intersects the query, in stored order
spec fn filter_children(items: Seq<CirTreeNodeNonLeaf>, q: u32, qs: u32, qe: u32, n: int) -> Seq<u64>
    decreases n
{
    if n <= 0 { Seq::empty() }
    else {
        let prev = filter_children(items, q, qs, qe, n - 1);
        if nonleaf_hit(items[n - 1], q, qs, qe) { prev.push(items[n - 1].node_offset) } else { prev }
    }
}

// the per-node filter, with its contracts, exactly as verified in unit rt_nodes (same include file)
// ---- shared by rt_nodes and rt_search (included): CirTreeNodeIterator, compare_position, overlaps,
// ---- nodes_overlapping with their contracts.  Needs spec.rs and the three structs before it.
// iterator -> Vec: the two generic parameters lose their `Iterator` bound and default; the unit
// instantiates them with Vec<CirTreeNodeLeaf> / Vec<CirTreeNodeNonLeaf> (drops laziness only).
pub enum CirTreeNodeIterator<
    L,
    N,
> {
    Leaf(L),
    NonLeaf(N),
}

// std methods a "branchless" rewrite of compare_position reaches for (0 hits on /repo), with their REAL
// contracts, so that such an edit is judged by the labels below instead of being refused by the front end:
// `iN::signum` = -1 / 0 / 1 by sign (total, no overflow); `u32::wrapping_sub` has a vstd specification
// (difference mod 2^32); `X.wrapping_sub(Y) as i32` is the two's-complement reinterpretation of the u32
// (Verus leaves an out-of-range exec cast unspecified, so the cast is routed through `u32_as_i32`).
pub assume_specification[i8::signum](x: i8) -> (r: i8)
    ensures r == (if x > 0 { 1i8 } else if x < 0 { -1i8 } else { 0i8 });
pub assume_specification[i32::signum](x: i32) -> (r: i32)
    ensures r == (if x > 0 { 1i32 } else if x < 0 { -1i32 } else { 0i32 });
pub assume_specification[i64::signum](x: i64) -> (r: i64)
    ensures r == (if x > 0 { 1i64 } else if x < 0 { -1i64 } else { 0i64 });
/// `x as i32` for `x: u32` (Rust reference: integer casts between same-size types are a no-op on the bits)
#[verifier::external_body]
fn u32_as_i32(x: u32) -> (r: i32)
    ensures r as int == (if x < 0x8000_0000u32 { x as int } else { x as int - 0x1_0000_0000 }),
{ x as i32 }

fn compare_position(chrom1: u32, chrom1_base: u32, chrom2: u32, chrom2_base: u32) -> (r: i8)
    ensures
        
        r == -1 || r == 0 || r == 1,
        
        r == -1 <==> pos_lt((chrom1, chrom1_base), (chrom2, chrom2_base)),
        
        r == 0 <==> (chrom1 == chrom2 && chrom1_base == chrom2_base),
        
        r == 1 <==> pos_lt((chrom2, chrom2_base), (chrom1, chrom1_base)),
{
    if chrom1 < chrom2 {
        -1
    } else if chrom1 > chrom2 {
        1
    } else if chrom1_base < chrom2_base {
        -1
    } else if chrom1_base > chrom2_base {
        1
    } else {
        0
    }
}

fn overlaps(
    chromq: u32,
    chromq_start: u32,
    chromq_end: u32,
    chromb1: u32,
    chromb1_start: u32,
    chromb2: u32,
    chromb2_end: u32,
) -> (r: bool)
    ensures
        
        r == overlaps_spec(chromq, chromq_start, chromq_end, chromb1, chromb1_start, chromb2, chromb2_end),
{
    compare_position(chromq, chromq_start, chromb2, chromb2_end) <= 0
        && compare_position(chromq, chromq_end, chromb1, chromb1_start) >= 0
}

// nodes_overlapping: iterator parameters -> Vec (R11, drops laziness only); SmallVec<[T; 4]> -> Vec<T>,
// smallvec![] -> Vec::new(); `for child in iter` -> index loop (R7).
fn nodes_overlapping(
    iter: CirTreeNodeIterator<Vec<CirTreeNodeLeaf>, Vec<CirTreeNodeNonLeaf>>,
    chrom_ix: u32,
    start: u32,
    end: u32,
) -> (r: (Vec<u64>, Vec<Block>))
    ensures
        
        iter matches CirTreeNodeIterator::Leaf(items) ==>
            r.1@ == filter_blocks(items@, chrom_ix, start, end, items@.len() as int),
        
        iter matches CirTreeNodeIterator::Leaf(items) ==> r.0@.len() == 0,
        
        iter matches CirTreeNodeIterator::NonLeaf(items) ==>
            r.0@ == filter_children(items@, chrom_ix, start, end, items@.len() as int),
        
        iter matches CirTreeNodeIterator::NonLeaf(items) ==> r.1@.len() == 0,
{
    match iter {
        CirTreeNodeIterator::Leaf(iter) => {
            let mut blocks: Vec<_> = Vec::new();
            for i__1 in 0..iter.len() 
                invariant
                    
                    blocks@ == filter_blocks(iter@, chrom_ix, start, end, i__1 as int),
                decreases
                    
                    iter.len() - i__1,
{ let child = &iter[i__1];
                let block_overlaps = overlaps(
                    chrom_ix,
                    start,
                    end,
                    child.start_chrom_ix,
                    child.start_base,
                    child.end_chrom_ix,
                    child.end_base,
                );
                if block_overlaps {
                    blocks.push(Block {
                        offset: child.data_offset,
                        size: child.data_size,
                    });
                }
            }
            (Vec::new(), blocks)
        }
        CirTreeNodeIterator::NonLeaf(iter) => {
            let mut new_childblocks: Vec<_> = Vec::new();
            for i__2 in 0..iter.len() 
                invariant
                    
                    new_childblocks@ == filter_children(iter@, chrom_ix, start, end, i__2 as int),
                decreases
                    
                    iter.len() - i__2,
{ let child = &iter[i__2];
                let block_overlaps = overlaps(
                    chrom_ix,
                    start,
                    end,
                    child.start_chrom_ix,
                    child.start_base,
                    child.end_chrom_ix,
                    child.end_base,
                );
                if block_overlaps {
                    new_childblocks.push(child.node_offset);
                }
            }
            (new_childblocks, Vec::new())
        }
    }
}

// ---------------- shims (assumed; listed in NOTES.md) ----------------
/// shim for std::io::Error (opaque)
pub struct IoError { _p: u8 }
/// shim for byteordered::Endianness (external crate; only passed through)
#[derive(Clone, Copy)]
pub enum Endianness { Big, Little }

/// ghost content of one R-tree node
pub enum Node {
    Leaf(Seq<CirTreeNodeLeaf>),
    NonLeaf(Seq<CirTreeNodeNonLeaf>),
}
/// what `nodes_overlapping` returns for a node (unit rt_nodes proves exactly this of the real function):
/// .0 = child offsets, .1 = blocks
spec fn node_kids(n: Node, q: u32, qs: u32, qe: u32) -> Seq<u64> {
    match n {
        Node::Leaf(items) => Seq::empty(),
        Node::NonLeaf(items) => filter_children(items, q, qs, qe, items.len() as int),
    }
}
spec fn node_blocks(n: Node, q: u32, qs: u32, qe: u32) -> Seq<Block> {
    match n {
        Node::Leaf(items) => filter_blocks(items, q, qs, qe, items.len() as int),
        Node::NonLeaf(items) => Seq::empty(),
    }
}

/// R11 shim for the reader `R: BBIFileRead`: the index part of the file as a ghost map
/// node offset -> node, a ghost height witness (only used to state well-foundedness) and a ghost log
/// of the node reads performed so far: (offset, succeeded).
#[verifier::external_body]
pub struct VIndex { _p: u8 }
impl VIndex {
    pub uninterp spec fn tree(&self) -> Map<u64, Node>;
    pub uninterp spec fn ht(&self) -> Map<u64, nat>;
    pub uninterp spec fn log(&self) -> Seq<(u64, bool)>;
}
/// the ghost node an (iterator -> Vec) CirTreeNodeIterator stands for
spec fn node_of(it: CirTreeNodeIterator<Vec<CirTreeNodeLeaf>, Vec<CirTreeNodeNonLeaf>>) -> Node {
    match it {
        CirTreeNodeIterator::Leaf(v) => Node::Leaf(v@),
        CirTreeNodeIterator::NonLeaf(v) => Node::NonLeaf(v@),
    }
}
// ASSUMED contract of `read_node` (signature cut from /repo, body skipped; the decoding itself is the
// business of units rt_readnode / rt_items): may fail at any time (I/O); if it succeeds and node_offset
// is a node of the ghost tree, it yields that node's items in stored order.  Nothing is promised for
// offsets outside the ghost tree.  The file content does not change; one log entry per call.
#[verifier::external_body]
fn read_node(
    file: &mut VIndex,
    node_offset: u64,
    endianness: Endianness,
) -> (r: Result<CirTreeNodeIterator<Vec<CirTreeNodeLeaf>, Vec<CirTreeNodeNonLeaf>>, IoError>)
    ensures
        final(file).tree() == old(file).tree(),
        final(file).ht() == old(file).ht(),
        final(file).log() == old(file).log().push((node_offset, r is Ok)),
        r is Ok && old(file).tree().contains_key(node_offset) ==> node_of(r->Ok_0) == old(file).tree()[node_offset],
{ unimplemented!() }

impl VIndex {
// The reader call of the search: the real `blocks_for_cir_tree_node` of plain readers
// (`impl<S: SeekableRead> BBIFileRead for S`), verified here: read_node, then nodes_overlapping.
// `Self = S` -> VIndex (R11, by placing the method in `impl VIndex`).
fn blocks_for_cir_tree_node(
        &mut self,
        endianness: Endianness,
        node_offset: u64,
        chrom_ix: u32,
        start: u32,
        end: u32,
    ) -> (r: Result<(Vec<u64>, Vec<Block>), IoError>)
        ensures
            
            final(self).tree() == old(self).tree(),
            final(self).ht() == old(self).ht(),
            
            final(self).log() == old(self).log().push((node_offset, r is Ok)),
            
            r is Ok && old(self).tree().contains_key(node_offset) ==> {
                &&& r->Ok_0.0@ == node_kids(old(self).tree()[node_offset], chrom_ix, start, end)
                &&& r->Ok_0.1@ == node_blocks(old(self).tree()[node_offset], chrom_ix, start, end)
            },
{
        let iter = match read_node(self, node_offset, endianness) {
            Ok(d) => d,
            Err(e) => return Err(e),
        };

        Ok(nodes_overlapping(iter, chrom_ix, start, end))
    }
}

/// verified stand-in for `Vec::extend(Vec)` (appends all elements in order)
fn extend_vec(v: &mut Vec<Block>, w: Vec<Block>)
    ensures final(v)@ == old(v)@ + w@,
{
    let mut i: usize = 0;
    while i < w.len()
        invariant i <= w.len(), v@ == old(v)@ + w@.subrange(0, i as int),
        decreases w.len() - i,
    {
        v.push(w[i]);
        i = i + 1;
        assert(w@.subrange(0, i as int) =~= w@.subrange(0, i as int - 1).push(w@[i as int - 1]));
    }
    assert(w@.subrange(0, w@.len() as int) =~= w@);
}

// ---------------- specification vocabulary (written from the property) ----------------
/// the searched structure and the query
pub struct Ctx { pub t: Map<u64, Node>, pub ht: Map<u64, nat>, pub q: u32, pub qs: u32, pub qe: u32 }
spec fn ctx_of(f: VIndex, q: u32, qs: u32, qe: u32) -> Ctx { Ctx { t: f.tree(), ht: f.ht(), q: q, qs: qs, qe: qe } }

spec fn kid_off(c: Ctx, off: u64, i: int) -> u64 { c.t[off]->NonLeaf_0[i].node_offset }
/// the pointer graph is closed (every child pointer of a stored non-leaf node leads to a stored node)
/// and well-founded (the child is strictly lower in the height witness): a finite-height forest/DAG.
spec fn tree_wf(c: Ctx) -> bool {
    forall|off: u64, i: int| c.t.contains_key(off) && c.t[off] is NonLeaf && 0 <= i < c.t[off]->NonLeaf_0.len()
        ==> c.t.contains_key(#[trigger] kid_off(c, off, i)) && c.ht[kid_off(c, off, i)] < c.ht[off]
}
spec fn kids_of(c: Ctx, off: u64) -> Seq<u64> { node_kids(c.t[off], c.q, c.qs, c.qe) }
spec fn blocks_of(c: Ctx, off: u64) -> Seq<Block> { node_blocks(c.t[off], c.q, c.qs, c.qe) }

/// C05 result: pre-order ( = file order of the leaves for a level-order layout with ordered children):
/// a leaf contributes its filtered blocks; a non-leaf the concatenation of dfs(child) over its filtered
/// children, in stored order.  `dfs_list(offs, bound)` = concatenation over `offs`; `bound` only makes
/// the recursion well-founded (children are below their parent's height).
spec fn dfs(c: Ctx, off: u64) -> Seq<Block>
    decreases c.ht[off], 1nat, 0nat
{
    if !c.t.contains_key(off) { Seq::empty() }
    else { blocks_of(c, off) + dfs_list(c, kids_of(c, off), c.ht[off]) }
}
spec fn dfs_list(c: Ctx, offs: Seq<u64>, bound: nat) -> Seq<Block>
    decreases bound, 0nat, offs.len()
{
    if offs.len() == 0 { Seq::empty() }
    else {
        (if c.ht[offs[0]] < bound { dfs(c, offs[0]) } else { Seq::empty() }) + dfs_list(c, offs.drop_first(), bound)
    }
}
/// concatenation of dfs over a list of nodes of any heights (the work-list)
spec fn dfs_seq(c: Ctx, offs: Seq<u64>) -> Seq<Block>
    decreases offs.len()
{
    if offs.len() == 0 { Seq::empty() } else { dfs(c, offs[0]) + dfs_seq(c, offs.drop_first()) }
}
/// nodes the search reads, in order (same recursion, collecting the offsets)
spec fn visit(c: Ctx, off: u64) -> Seq<u64>
    decreases c.ht[off], 1nat, 0nat
{
    if !c.t.contains_key(off) { seq![off] }
    else { seq![off] + visit_list(c, kids_of(c, off), c.ht[off]) }
}
spec fn visit_list(c: Ctx, offs: Seq<u64>, bound: nat) -> Seq<u64>
    decreases bound, 0nat, offs.len()
{
    if offs.len() == 0 { Seq::empty() }
    else {
        (if c.ht[offs[0]] < bound { visit(c, offs[0]) } else { seq![offs[0]] }) + visit_list(c, offs.drop_first(), bound)
    }
}
spec fn visit_seq(c: Ctx, offs: Seq<u64>) -> Seq<u64>
    decreases offs.len()
{
    if offs.len() == 0 { Seq::empty() } else { visit(c, offs[0]) + visit_seq(c, offs.drop_first()) }
}
spec fn all_stored(c: Ctx, offs: Seq<u64>) -> bool {
    forall|j: int| 0 <= j < offs.len() ==> c.t.contains_key(#[trigger] offs[j])
}
/// log entries for successful reads of `offs`
spec fn ok_reads(offs: Seq<u64>) -> Seq<(u64, bool)> {
    Seq::new(offs.len(), |j: int| (offs[j], true))
}

/// log after a run that read v[0..n) successfully and then failed on v[n]
spec fn err_log(log0: Seq<(u64, bool)>, v: Seq<u64>, n: int) -> Seq<(u64, bool)> {
    log0 + ok_reads(v.subrange(0, n)).push((v[n], false))
}

// ---------------- lemmas ----------------
proof fn lemma_filter_children_members(items: Seq<CirTreeNodeNonLeaf>, q: u32, qs: u32, qe: u32, n: int)
    requires 0 <= n <= items.len(),
    ensures
        forall|j: int| #![trigger filter_children(items, q, qs, qe, n)[j]] 0 <= j < filter_children(items, q, qs, qe, n).len() ==>
            exists|i: int| 0 <= i < n && filter_children(items, q, qs, qe, n)[j] == (#[trigger] items[i]).node_offset,
    decreases n,
{
    if n > 0 {
        lemma_filter_children_members(items, q, qs, qe, n - 1);
        let prev = filter_children(items, q, qs, qe, n - 1);
        let cur = filter_children(items, q, qs, qe, n);
        assert forall|j: int| #![trigger cur[j]] 0 <= j < cur.len() implies
            exists|i: int| 0 <= i < n && cur[j] == (#[trigger] items[i]).node_offset by {
            if j < prev.len() {
                assert(cur[j] == prev[j]);
                let i = choose|i: int| 0 <= i < n - 1 && prev[j] == (#[trigger] items[i]).node_offset;
                assert(0 <= i < n && cur[j] == items[i].node_offset);
            } else {
                assert(cur[j] == items[n - 1].node_offset);
            }
        }
    }
}
/// under tree_wf the filtered children of a stored node are stored and strictly lower
proof fn lemma_kids_lower(c: Ctx, off: u64)
    requires tree_wf(c), c.t.contains_key(off),
    ensures
        all_stored(c, kids_of(c, off)),
        forall|j: int| 0 <= j < kids_of(c, off).len() ==> c.ht[#[trigger] kids_of(c, off)[j]] < c.ht[off],
{
    match c.t[off] {
        Node::Leaf(items) => {}
        Node::NonLeaf(items) => {
            lemma_filter_children_members(items, c.q, c.qs, c.qe, items.len() as int);
            let k = kids_of(c, off);
            assert forall|j: int| 0 <= j < k.len() implies c.t.contains_key(#[trigger] k[j]) && c.ht[k[j]] < c.ht[off] by {
                let i = choose|i: int| 0 <= i < items.len() && k[j] == (#[trigger] items[i]).node_offset;
                assert(kid_off(c, off, i) == k[j]);
            }
        }
    }
}
proof fn lemma_list_is_seq(c: Ctx, offs: Seq<u64>, bound: nat)
    requires forall|j: int| 0 <= j < offs.len() ==> c.ht[#[trigger] offs[j]] < bound,
    ensures dfs_list(c, offs, bound) == dfs_seq(c, offs), visit_list(c, offs, bound) == visit_seq(c, offs),
    decreases offs.len(),
{
    if offs.len() > 0 {
        assert(c.ht[offs[0]] < bound);
        assert forall|j: int| 0 <= j < offs.drop_first().len() implies c.ht[#[trigger] offs.drop_first()[j]] < bound by {
            assert(offs.drop_first()[j] == offs[j + 1]);
        }
        lemma_list_is_seq(c, offs.drop_first(), bound);
    }
}
proof fn lemma_seq_concat(c: Ctx, a: Seq<u64>, b: Seq<u64>)
    ensures dfs_seq(c, a + b) == dfs_seq(c, a) + dfs_seq(c, b), visit_seq(c, a + b) == visit_seq(c, a) + visit_seq(c, b),
    decreases a.len(),
{
    if a.len() == 0 {
        assert(a + b =~= b);
        assert(dfs_seq(c, a) + dfs_seq(c, b) =~= dfs_seq(c, b));
        assert(visit_seq(c, a) + visit_seq(c, b) =~= visit_seq(c, b));
    } else {
        assert((a + b).drop_first() =~= a.drop_first() + b);
        assert((a + b)[0] == a[0]);
        lemma_seq_concat(c, a.drop_first(), b);
        assert(dfs_seq(c, a + b) =~= dfs_seq(c, a) + dfs_seq(c, b));
        assert(visit_seq(c, a + b) =~= visit_seq(c, a) + visit_seq(c, b));
    }
}
/// one step of the search seen from the specification: popping the front node f and pushing its filtered
/// children, in order, to the FRONT leaves "blocks of f ++ dfs of the new work-list" equal to the dfs of
/// the old work-list, keeps every entry stored, and shrinks the termination measure by one.
proof fn lemma_step(c: Ctx, wl: Seq<u64>)
    requires tree_wf(c), all_stored(c, wl), wl.len() > 0,
    ensures
        
        dfs_seq(c, wl) == blocks_of(c, wl[0]) + dfs_seq(c, kids_of(c, wl[0]) + wl.drop_first()),
        visit_seq(c, wl) == seq![wl[0]] + visit_seq(c, kids_of(c, wl[0]) + wl.drop_first()),
        all_stored(c, kids_of(c, wl[0]) + wl.drop_first()),
{
    let f = wl[0];
    let kids = kids_of(c, f);
    let rest = wl.drop_first();
    assert(c.t.contains_key(f));
    lemma_kids_lower(c, f);
    lemma_list_is_seq(c, kids, c.ht[f]);
    lemma_seq_concat(c, kids, rest);
    assert(dfs(c, f) == blocks_of(c, f) + dfs_seq(c, kids));
    assert(dfs_seq(c, wl) =~= blocks_of(c, f) + (dfs_seq(c, kids) + dfs_seq(c, rest)));
    assert(visit_seq(c, wl) =~= seq![f] + (visit_seq(c, kids) + visit_seq(c, rest)));
    assert forall|j: int| 0 <= j < (kids + rest).len() implies c.t.contains_key(#[trigger] (kids + rest)[j]) by {
        if j < kids.len() { assert((kids + rest)[j] == kids[j]); }
        else { assert((kids + rest)[j] == rest[j - kids.len()]); assert(rest[j - kids.len()] == wl[j - kids.len() + 1]); }
    }
}
proof fn lemma_single(c: Ctx, at: u64)
    ensures dfs_seq(c, seq![at]) == dfs(c, at), visit_seq(c, seq![at]) == visit(c, at),
{
    assert(seq![at].drop_first() =~= Seq::<u64>::empty());
    assert(dfs_seq(c, seq![at]) =~= dfs(c, at) + dfs_seq(c, Seq::<u64>::empty()));
    assert(visit_seq(c, seq![at]) =~= visit(c, at) + visit_seq(c, Seq::<u64>::empty()));
}
// ---------------- search == linear scan, given span coverage (glue to rt_build / C04 rtree_span) ----------------
spec fn leaf_in(x: CirTreeNodeLeaf, lo: (u32, u32), hi: (u32, u32)) -> bool {
    pos_le(lo, (x.start_chrom_ix, x.start_base)) && pos_le((x.end_chrom_ix, x.end_base), hi)
}
spec fn nonleaf_in(x: CirTreeNodeNonLeaf, lo: (u32, u32), hi: (u32, u32)) -> bool {
    pos_le(lo, (x.start_chrom_ix, x.start_base)) && pos_le((x.end_chrom_ix, x.end_base), hi)
}
spec fn items_within(xs: Seq<CirTreeNodeLeaf>, lo: (u32, u32), hi: (u32, u32)) -> bool {
    forall|j: int| 0 <= j < xs.len() ==> leaf_in(#[trigger] xs[j], lo, hi)
}
/// every item stored in node n has its span inside [lo, hi]
spec fn node_within(n: Node, lo: (u32, u32), hi: (u32, u32)) -> bool {
    match n {
        Node::Leaf(items) => items_within(items, lo, hi),
        Node::NonLeaf(items) => forall|j: int| 0 <= j < items.len() ==> nonleaf_in(#[trigger] items[j], lo, hi),
    }
}
/// span coverage, one level at a time (what the builder must establish: C04 `rtree_span`): the span
/// recorded for a child pointer covers the span of every item stored in the child node.
spec fn span_cover(c: Ctx) -> bool {
    forall|off: u64, i: int| c.t.contains_key(off) && c.t[off] is NonLeaf && 0 <= i < c.t[off]->NonLeaf_0.len()
        ==> node_within(c.t[#[trigger] kid_off(c, off, i)],
                (c.t[off]->NonLeaf_0[i].start_chrom_ix, c.t[off]->NonLeaf_0[i].start_base),
                (c.t[off]->NonLeaf_0[i].end_chrom_ix, c.t[off]->NonLeaf_0[i].end_base))
}
/// all leaf items below `off`, unfiltered, in pre-order ( = what a linear scan over the blocks sees)
spec fn all_items(c: Ctx, off: u64) -> Seq<CirTreeNodeLeaf>
    decreases c.ht[off], 1nat, 0nat
{
    if !c.t.contains_key(off) { Seq::empty() }
    else {
        match c.t[off] {
            Node::Leaf(items) => items,
            Node::NonLeaf(items) => all_items_pref(c, items, items.len() as int, c.ht[off]),
        }
    }
}
/// ... below the first n child pointers of a non-leaf node (`bound` only for well-foundedness)
spec fn all_items_pref(c: Ctx, items: Seq<CirTreeNodeNonLeaf>, n: int, bound: nat) -> Seq<CirTreeNodeLeaf>
    decreases bound, 0nat, n
{
    if n <= 0 { Seq::empty() }
    else {
        all_items_pref(c, items, n - 1, bound)
            + (if c.ht[items[n - 1].node_offset] < bound { all_items(c, items[n - 1].node_offset) } else { Seq::empty() })
    }
}
/// the linear scan: keep the blocks of the items that intersect the query, in order
spec fn scan(c: Ctx, xs: Seq<CirTreeNodeLeaf>) -> Seq<Block> { filter_blocks(xs, c.q, c.qs, c.qe, xs.len() as int) }

proof fn lemma_filter_blocks_concat(a: Seq<CirTreeNodeLeaf>, b: Seq<CirTreeNodeLeaf>, q: u32, qs: u32, qe: u32, m: int)
    requires 0 <= m <= b.len(),
    ensures
        filter_blocks(a + b, q, qs, qe, a.len() + m) == filter_blocks(a, q, qs, qe, a.len() as int) + filter_blocks(b, q, qs, qe, m),
    decreases m,
{
    if m == 0 {
        lemma_filter_blocks_prefix(a, b, q, qs, qe, a.len() as int);
        assert(filter_blocks(a, q, qs, qe, a.len() as int) + filter_blocks(b, q, qs, qe, 0) =~= filter_blocks(a, q, qs, qe, a.len() as int));
    } else {
        lemma_filter_blocks_concat(a, b, q, qs, qe, m - 1);
        assert((a + b)[a.len() + m - 1] == b[m - 1]);
        let l = filter_blocks(a, q, qs, qe, a.len() as int);
        let r = filter_blocks(b, q, qs, qe, m - 1);
        if leaf_hit(b[m - 1], q, qs, qe) {
            assert((l + r).push(leaf_block(b[m - 1])) =~= l + r.push(leaf_block(b[m - 1])));
        }
    }
}
proof fn lemma_filter_blocks_prefix(a: Seq<CirTreeNodeLeaf>, b: Seq<CirTreeNodeLeaf>, q: u32, qs: u32, qe: u32, m: int)
    requires 0 <= m <= a.len(),
    ensures filter_blocks(a + b, q, qs, qe, m) == filter_blocks(a, q, qs, qe, m),
    decreases m,
{
    if m > 0 {
        lemma_filter_blocks_prefix(a, b, q, qs, qe, m - 1);
        assert((a + b)[m - 1] == a[m - 1]);
    }
}
proof fn lemma_scan_concat(c: Ctx, a: Seq<CirTreeNodeLeaf>, b: Seq<CirTreeNodeLeaf>)
    ensures scan(c, a + b) == scan(c, a) + scan(c, b),
{
    lemma_filter_blocks_concat(a, b, c.q, c.qs, c.qe, b.len() as int);
}
/// items inside a span that the query does not intersect are all rejected (contrapositive of nesting)
proof fn lemma_scan_none(c: Ctx, xs: Seq<CirTreeNodeLeaf>, lo: (u32, u32), hi: (u32, u32), m: int)
    requires items_within(xs, lo, hi), !overlaps_spec(c.q, c.qs, c.qe, lo.0, lo.1, hi.0, hi.1), 0 <= m <= xs.len(),
    ensures filter_blocks(xs, c.q, c.qs, c.qe, m) == Seq::<Block>::empty(),
    decreases m,
{
    if m > 0 {
        lemma_scan_none(c, xs, lo, hi, m - 1);
        assert(leaf_in(xs[m - 1], lo, hi));
    }
}
proof fn lemma_within(c: Ctx, off: u64, lo: (u32, u32), hi: (u32, u32))
    requires tree_wf(c), span_cover(c), c.t.contains_key(off), node_within(c.t[off], lo, hi),
    
    ensures items_within(all_items(c, off), lo, hi),
    decreases c.ht[off], 1nat, 0nat,
{
    match c.t[off] {
        Node::Leaf(items) => {}
        Node::NonLeaf(items) => { lemma_within_pref(c, off, items.len() as int, lo, hi); }
    }
}
proof fn lemma_within_pref(c: Ctx, off: u64, n: int, lo: (u32, u32), hi: (u32, u32))
    requires tree_wf(c), span_cover(c), c.t.contains_key(off), c.t[off] is NonLeaf, node_within(c.t[off], lo, hi),
        0 <= n <= c.t[off]->NonLeaf_0.len(),
    ensures items_within(all_items_pref(c, c.t[off]->NonLeaf_0, n, c.ht[off]), lo, hi),
    decreases c.ht[off], 0nat, n,
{
    let items = c.t[off]->NonLeaf_0;
    if n > 0 {
        lemma_within_pref(c, off, n - 1, lo, hi);
        let it = items[n - 1];
        let k = kid_off(c, off, n - 1);
        assert(k == it.node_offset);
        assert(c.t.contains_key(k) && c.ht[k] < c.ht[off]);
        assert(nonleaf_in(it, lo, hi));
        let ilo = (it.start_chrom_ix, it.start_base);
        let ihi = (it.end_chrom_ix, it.end_base);
        assert(node_within(c.t[k], ilo, ihi));
        // transitivity: inside the child's recorded span ==> inside [lo, hi]
        match c.t[k] {
            Node::Leaf(xs) => {
                assert forall|j: int| 0 <= j < xs.len() implies leaf_in(#[trigger] xs[j], lo, hi) by { assert(leaf_in(xs[j], ilo, ihi)); }
            }
            Node::NonLeaf(xs) => {
                assert forall|j: int| 0 <= j < xs.len() implies nonleaf_in(#[trigger] xs[j], lo, hi) by { assert(nonleaf_in(xs[j], ilo, ihi)); }
            }
        }
        lemma_within(c, k, lo, hi);
        let p = all_items_pref(c, items, n - 1, c.ht[off]);
        let x = all_items(c, k);
        assert forall|j: int| 0 <= j < (p + x).len() implies leaf_in(#[trigger] (p + x)[j], lo, hi) by {
            if j < p.len() { assert((p + x)[j] == p[j]); } else { assert((p + x)[j] == x[j - p.len()]); }
        }
    }
}
/// C05: "finds every block whose span intersects the query and returns the blocks in file order,
/// exactly as a linear scan over all blocks would" -- for every well-founded tree with span coverage.
proof fn lemma_dfs_is_scan(c: Ctx, off: u64)
    requires tree_wf(c), span_cover(c), c.t.contains_key(off),
    
    ensures dfs(c, off) == scan(c, all_items(c, off)),
    decreases c.ht[off], 1nat, 0nat,
{
    match c.t[off] {
        Node::Leaf(items) => {
            assert(kids_of(c, off) =~= Seq::<u64>::empty());
            assert(dfs(c, off) =~= blocks_of(c, off));
        }
        Node::NonLeaf(items) => {
            lemma_dfs_is_scan_pref(c, off, items.len() as int);
            lemma_kids_lower(c, off);
            lemma_list_is_seq(c, kids_of(c, off), c.ht[off]);
            assert(dfs(c, off) =~= dfs_seq(c, kids_of(c, off)));
        }
    }
}
proof fn lemma_dfs_is_scan_pref(c: Ctx, off: u64, n: int)
    requires tree_wf(c), span_cover(c), c.t.contains_key(off), c.t[off] is NonLeaf, 0 <= n <= c.t[off]->NonLeaf_0.len(),
    ensures
        dfs_seq(c, filter_children(c.t[off]->NonLeaf_0, c.q, c.qs, c.qe, n))
            == scan(c, all_items_pref(c, c.t[off]->NonLeaf_0, n, c.ht[off])),
    decreases c.ht[off], 0nat, n,
{
    let items = c.t[off]->NonLeaf_0;
    if n > 0 {
        lemma_dfs_is_scan_pref(c, off, n - 1);
        let it = items[n - 1];
        let k = kid_off(c, off, n - 1);
        assert(k == it.node_offset);
        assert(c.t.contains_key(k) && c.ht[k] < c.ht[off]);
        let prev = filter_children(items, c.q, c.qs, c.qe, n - 1);
        let p = all_items_pref(c, items, n - 1, c.ht[off]);
        let x = all_items(c, k);
        lemma_scan_concat(c, p, x);
        if nonleaf_hit(it, c.q, c.qs, c.qe) {
            lemma_dfs_is_scan(c, k);
            lemma_seq_concat(c, prev, seq![k]);
            lemma_single(c, k);
            assert(prev.push(k) =~= prev + seq![k]);
        } else {
            let ilo = (it.start_chrom_ix, it.start_base);
            let ihi = (it.end_chrom_ix, it.end_base);
            assert(node_within(c.t[k], ilo, ihi));
            lemma_within(c, k, ilo, ihi);
            lemma_scan_none(c, x, ilo, ihi, x.len() as int);
            assert(scan(c, p) + scan(c, x) =~= scan(c, p));
        }
    } else {
        assert(scan(c, Seq::<CirTreeNodeLeaf>::empty()) =~= Seq::<Block>::empty());
    }
}
proof fn theorem_search_equals_linear_scan(c: Ctx, root: u64)
    requires
        tree_wf(c), span_cover(c), c.t.contains_key(root),
    ensures
        
        dfs(c, root) == filter_blocks(all_items(c, root), c.q, c.qs, c.qe, all_items(c, root).len() as int),
{
    lemma_dfs_is_scan(c, root);
}

// CirTreeBlockSearchIter: reader type parameter R -> VIndex (R11).
pub struct CirTreeBlockSearchIter<'a> {
    remaining_childblocks: VecDeque<u64>,

    file: &'a mut VIndex,
    endianness: Endianness,
    chrom_ix: u32,
    start: u32,
    end: u32,
}

impl<'a> CirTreeBlockSearchIter<'a> {
// `impl Iterator for ..` -> inherent method; `Self::Item` written out (it is
// `io::Result<SmallVec<[Block; 4]>>` at bbiread.rs:1169) with io::Result -> Result<_, IoError>, SmallVec -> Vec.
// `for child in new_childblocks.into_iter().rev() {` -> reverse index loop (same elements, same order);
// the second substitution maps a (mutated) forward `into_iter()` loop to a forward index loop so that such
// a change is judged by the contract instead of being an extraction failure.
fn next(&mut self) -> (r: Option<Result<Vec<Block>, IoError>>)
        ensures
            
            final(self).chrom_ix == old(self).chrom_ix, final(self).start == old(self).start, final(self).end == old(self).end,
            final(self).endianness == old(self).endianness,
            final(self).file.tree() == old(self).file.tree(), final(self).file.ht() == old(self).file.ht(),
            *final(final(self).file) == *final(old(self).file),
            
            old(self).remaining_childblocks@.len() == 0 ==> r is None && final(self).remaining_childblocks@.len() == 0
                && final(self).file.log() == old(self).file.log(),
            
            old(self).remaining_childblocks@.len() > 0 ==> r is Some
                && final(self).file.log() == old(self).file.log().push((old(self).remaining_childblocks@[0], r->Some_0 is Ok)),
            
            r matches Some(Ok(b)) ==> old(self).file.tree().contains_key(old(self).remaining_childblocks@[0]) ==>
                b@ == node_blocks(old(self).file.tree()[old(self).remaining_childblocks@[0]], old(self).chrom_ix, old(self).start, old(self).end),
            
            r matches Some(Ok(b)) ==> old(self).file.tree().contains_key(old(self).remaining_childblocks@[0]) ==>
                final(self).remaining_childblocks@ ==
                    node_kids(old(self).file.tree()[old(self).remaining_childblocks@[0]], old(self).chrom_ix, old(self).start, old(self).end)
                    + old(self).remaining_childblocks@.drop_first(),
            
            r matches Some(Err(e)) ==> final(self).remaining_childblocks@ == old(self).remaining_childblocks@.drop_first(),
{
        let file = &mut *self.file;
        let endianness = self.endianness;
        let chrom_ix = self.chrom_ix;
        let start = self.start;
        let end = self.end;

        let node_offset = self.remaining_childblocks.pop_front()?;

        let (new_childblocks, blocks) =
            match file.blocks_for_cir_tree_node(endianness, node_offset, chrom_ix, start, end) {
                Ok(d) => d,
                Err(e) => return Some(Err(e)),
            };

        let mut k__ = new_childblocks.len(); while k__ > 0 
            invariant
                
                k__ <= new_childblocks@.len(),
                self.remaining_childblocks@ == new_childblocks@.subrange(k__ as int, new_childblocks@.len() as int) + old(self).remaining_childblocks@.drop_first(),
            decreases
                
                k__,
{ k__ = k__ - 1; let child = new_childblocks[k__];
            self.remaining_childblocks.push_front(child);
        }


        proof {
            assert(new_childblocks@.subrange(0, new_childblocks@.len() as int) =~= new_childblocks@);
        }
        Some(Ok(blocks))
    }
}

// search_cir_tree_inner: `R: BBIFileRead` -> VIndex, io::Result -> Result<_, IoError> (R11);
// `for i in iter {` -> `loop { let i = match iter.next() { None => { break; } Some(r__) => r__ };`
// (the desugaring of `for` over an Iterator, with the inherent `next`); `blocks.extend(i)` -> extend_vec.
#[verifier::loop_isolation(false)]
fn search_cir_tree_inner(
    endianness: Endianness,
    file: &mut VIndex,
    at: u64,
    chrom_ix: u32,
    start: u32,
    end: u32,
) -> (r: Result<Vec<Block>, IoError>)
    requires
        
        tree_wf(ctx_of(*old(file), chrom_ix, start, end)),
        old(file).tree().contains_key(at),
    ensures
        
        final(file).tree() == old(file).tree(), final(file).ht() == old(file).ht(),
        
        r matches Ok(b) ==> b@ == dfs(ctx_of(*old(file), chrom_ix, start, end), at),
        
        r is Ok ==> final(file).log() == old(file).log() + ok_reads(visit(ctx_of(*old(file), chrom_ix, start, end), at)),
        
        r is Err ==> exists|n: int| 0 <= n < visit(ctx_of(*old(file), chrom_ix, start, end), at).len()
            && final(file).log() == #[trigger] err_log(old(file).log(), visit(ctx_of(*old(file), chrom_ix, start, end), at), n),
{
    let ghost c = ctx_of(*file, chrom_ix, start, end);
    let ghost log0 = file.log();
    let ghost ff = *final(file);
    let ghost mut done: Seq<u64> = Seq::empty();

    // We currently don't check that the passed interval overlaps with *any* data.
    // We could, but would have to store this data when we check the header.
    let mut blocks = vec![];

    let mut remaining_childblocks = VecDeque::with_capacity(2048);
    remaining_childblocks.push_front(at);

    proof {
        lemma_single(c, at);
        assert(remaining_childblocks@ =~= seq![at]); 
        assert(ok_reads(done) =~= Seq::<(u64, bool)>::empty());
        assert(log0 + ok_reads(done) =~= log0);
        assert(done + visit_seq(c, seq![at]) =~= visit(c, at));
    }
    let mut iter = CirTreeBlockSearchIter {
        remaining_childblocks,
        file,
        endianness,
        chrom_ix,
        start,
        end,
    };

    loop 
        invariant
            
            iter.chrom_ix == chrom_ix, iter.start == start, iter.end == end,
            iter.file.tree() == c.t, iter.file.ht() == c.ht,
            *final(iter.file) == ff,
            
            all_stored(c, iter.remaining_childblocks@),
            
            blocks@ + dfs_seq(c, iter.remaining_childblocks@) == dfs(c, at),
            
            iter.file.log() == log0 + ok_reads(done),
            done + visit_seq(c, iter.remaining_childblocks@) == visit(c, at),
        decreases
            
            visit_seq(c, iter.remaining_childblocks@).len(),
{

        let ghost wl0 = iter.remaining_childblocks@;
        let ghost blocks0 = blocks@;
        let i = match iter.next() { None => { break; } Some(r__) => r__ };

        proof {
            // here r__ was Some(i): the work-list was not empty
            lemma_step(c, wl0); 
            let f = wl0[0];
            let v = visit(c, at);
            let wl1 = iter.remaining_childblocks@;
            assert(v =~= done + (seq![f] + visit_seq(c, kids_of(c, f) + wl0.drop_first())));
            assert(v[done.len() as int] == f);
            assert(v.subrange(0, done.len() as int) =~= done);
            if i is Ok {
                assert(wl1 == kids_of(c, f) + wl0.drop_first());
                assert(ok_reads(done.push(f)) =~= ok_reads(done).push((f, true)));
                assert(log0 + ok_reads(done).push((f, true)) =~= (log0 + ok_reads(done)).push((f, true)));
                assert(done.push(f) + visit_seq(c, wl1) =~= v);
                assert(blocks0 + (blocks_of(c, f) + dfs_seq(c, wl1)) =~= (blocks0 + blocks_of(c, f)) + dfs_seq(c, wl1));
                done = done.push(f);
            } else {
                assert(log0 + ok_reads(done).push((f, false)) =~= (log0 + ok_reads(done)).push((f, false)));
                assert(iter.file.log() == err_log(log0, v, done.len() as int));
            }
        }
        let i = i?;
        extend_vec(&mut blocks, i);
    }


    proof {
        // reached only after `break`: the work-list is empty
        assert(iter.remaining_childblocks@ =~= Seq::<u64>::empty()); 
        assert(blocks@ + Seq::<Block>::empty() =~= blocks@);
        assert(done + Seq::<u64>::empty() =~= done);
    }
    Ok(blocks)
}

} // verus!
fn main() {}

