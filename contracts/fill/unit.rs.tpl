//@unit fill
//@serves C15
//@backend verus
// utils::fill::FillValues::next (+ constructors fill / fill_start_to_end).  The property (C15):
// gap filling yields a gapless tiling that keeps every original value and adds only zeros.
use vstd::prelude::*;
verus! {

//@extract struct bigtools/src/bbi.rs Value
//@rule R8
//@end

// ---------------- shims (assumed; listed in NOTES.md) ----------------
/// opaque `std::io::Error`
#[verifier::external_body]
pub struct IoError { _p: u8 }

/// R11 shim for the generic inner iterator `I: Iterator<Item = io::Result<Value>>`:
/// ghost `rest()` = the items it will still yield.  `next` yields the head and advances;
/// when exhausted it yields None and stays exhausted (a *fused* iterator).
#[verifier::external_body]
pub struct VIter { _p: u8 }
impl VIter {
    pub uninterp spec fn rest(&self) -> Seq<Result<Value, IoError>>;
    #[verifier::external_body]
    fn next(&mut self) -> (r: Option<Result<Value, IoError>>)
        ensures
            old(self).rest().len() == 0 ==> r is None && final(self).rest() == old(self).rest(),
            old(self).rest().len() > 0 ==> r == Some(old(self).rest()[0]) && final(self).rest() == old(self).rest().drop_first(),
    { unimplemented!() }
}
/// std: `Option::replace` stores the new value and returns the old one
pub assume_specification<T> [std::option::Option::<T>::replace] (o: &mut std::option::Option<T>, x: T) -> (r: std::option::Option<T>)
    ensures *final(o) == Some(x), r == *old(o);

//@extract struct bigtools/src/utils/fill.rs FillValues
//@rule R8
//@sub /struct FillValues<I>\s*where\s*I: Iterator<Item = io::Result<Value>>,\s*\{/ => struct FillValues {
//@sub /iter: I,/ => iter: VIter,
//@end

// ---------------- specification vocabulary (written from the property) ----------------
/// the input stream is sorted and non-overlapping from position `from` on: every Ok item starts at or
/// after the end of the previous Ok item (errors carry no position and are skipped)
pub open spec fn sorted_from(s: Seq<Result<Value, IoError>>, from: int) -> bool
    decreases s.len()
{
    if s.len() == 0 { true }
    else {
        match s[0] {
            Ok(v) => from <= v.start && sorted_from(s.drop_first(), v.end as int),
            Err(_) => sorted_from(s.drop_first(), from),
        }
    }
}
/// original items not yet handed out, in order: the held-back value (if any), then the rest of the input
spec fn pending(f: FillValues) -> Seq<Result<Value, IoError>> {
    (if f.last_val is Some { seq![Ok::<Value, IoError>(f.last_val->Some_0)] } else { Seq::empty() }) + f.iter.rest()
}
/// data-structure invariant: a held-back value starts exactly where the output has got to
spec fn inv(f: FillValues) -> bool {
    f.last_val is Some ==> f.last_end == f.last_val->Some_0.start
}
/// `inv` + the assumption on the remaining input relative to the output cursor `last_end`
spec fn state_ok(f: FillValues) -> bool {
    &&& inv(f)
    &&& sorted_from(pending(f), f.last_end as int)
}
/// a filler piece: value 0.0, positive length
pub open spec fn is_zero_piece(v: Value, a: int, b: int) -> bool {
    v.start == a && v.end == b && a < b && v.value == 0.0f32
}

/// the whole output stream for pending originals `p`, output cursor `cur` and optional `expected_end`,
/// written from the property: originals in order and unchanged, a zero piece exactly in front of
/// every original that starts after the cursor, errors handed on, one closing zero piece up to
/// `expected_end` if the cursor has not reached it
pub open spec fn zero_piece(a: u32, b: u32) -> Value { Value { start: a, end: b, value: 0.0f32 } }
pub open spec fn out_spec(p: Seq<Result<Value, IoError>>, cur: u32, ee: Option<u32>) -> Seq<Result<Value, IoError>>
    decreases p.len()
{
    if p.len() == 0 {
        match ee {
            Some(e) if cur < e => seq![Ok::<Value, IoError>(zero_piece(cur, e))],
            _ => Seq::empty(),
        }
    } else {
        match p[0] {
            Ok(v) => (if v.start > cur { seq![Ok::<Value, IoError>(zero_piece(cur, v.start))] } else { Seq::empty() })
                     + seq![Ok::<Value, IoError>(v)] + out_spec(p.drop_first(), v.end, ee),
            Err(e) => seq![Err::<Value, IoError>(e)] + out_spec(p.drop_first(), cur, ee),
        }
    }
}
/// gapless tiling: every Ok piece starts where the previous Ok piece ended (the first at `cur`)
pub open spec fn chained(s: Seq<Result<Value, IoError>>, cur: int) -> bool
    decreases s.len()
{
    if s.len() == 0 { true }
    else {
        match s[0] {
            Ok(v) => v.start == cur && chained(s.drop_first(), v.end as int),
            Err(_) => chained(s.drop_first(), cur),
        }
    }
}
/// sanity of the specification itself: on sorted input the specified stream is a gapless tiling from `cur`
proof fn lemma_out_spec_tiles(p: Seq<Result<Value, IoError>>, cur: u32, ee: Option<u32>)
    requires sorted_from(p, cur as int),
    ensures chained(out_spec(p, cur, ee), cur as int), [[L: spec/out_spec_is_gapless_tiling]]
    decreases p.len(),
{
    let o = out_spec(p, cur, ee);
    if p.len() == 0 {
        if o.len() > 0 { assert(o.drop_first().len() == 0); assert(chained(o.drop_first(), ee->Some_0 as int)); }
        assert(chained(o, cur as int));
    } else {
        match p[0] {
            Ok(v) => {
                lemma_out_spec_tiles(p.drop_first(), v.end, ee);
                let tail = out_spec(p.drop_first(), v.end, ee);
                let mid = seq![Ok::<Value, IoError>(v)] + tail;
                assert(mid.drop_first() =~= tail);
                assert(mid[0] == Ok::<Value, IoError>(v));
                if v.start > cur {
                    assert(o =~= seq![Ok::<Value, IoError>(zero_piece(cur, v.start))] + mid);
                    assert(o.drop_first() =~= mid);
                    assert(chained(mid, v.start as int));
                    assert(chained(o, cur as int));
                } else {
                    assert(o =~= mid);
                    assert(chained(o, cur as int));
                }
            },
            Err(e) => {
                lemma_out_spec_tiles(p.drop_first(), cur, ee);
                assert(o.drop_first() =~= out_spec(p.drop_first(), cur, ee));
                assert(chained(o, cur as int));
            },
        }
    }
}
spec fn out_of(f: FillValues) -> Seq<Result<Value, IoError>> { out_spec(pending(f), f.last_end, f.expected_end) }

impl FillValues {
//@extract method bigtools/src/utils/fill.rs next "Iterator for FillValues"
//@rule R16
//@rule R8
//@sub /Option<Self::Item>/ => Option<Result<Value, IoError>>
//@ret r
//@sig
    requires
        [[L: pre]]
        state_ok(*old(self)),
    ensures
        [[L: state_ok_preserved]]
        state_ok(*final(self)),
        [[L: output_is_head_of_spec_stream]]
        // the whole result: successive calls enumerate exactly out_spec(initial state), then None for ever
        r is Some ==> out_of(*old(self)).len() > 0 && r->Some_0 == out_of(*old(self))[0] && out_of(*final(self)) == out_of(*old(self)).drop_first(),
        r is None ==> out_of(*old(self)).len() == 0 && out_of(*final(self)).len() == 0,
        [[L: expected_end_unchanged]]
        final(self).expected_end == old(self).expected_end,
        [[L: tiles_from_cursor]]
        // every Ok output starts exactly at the cursor and moves the cursor to its end: consecutive
        // outputs tile without gap or overlap starting from the initial last_end
        (r is Some && r->Some_0 is Ok) ==> r->Some_0->Ok_0.start == old(self).last_end && final(self).last_end == r->Some_0->Ok_0.end,
        [[L: original_or_zero]]
        // an output is either the next pending original (bit-identical, consumed) or a zero piece
        // (nothing consumed: no original is dropped, duplicated or reordered)
        r is Some ==> {
            ||| (old(self).pending_().len() > 0 && r->Some_0 == old(self).pending_()[0] && final(self).pending_() == old(self).pending_().drop_first())
            ||| (r->Some_0 is Ok && r->Some_0->Ok_0.value == 0.0f32 && r->Some_0->Ok_0.start < r->Some_0->Ok_0.end && final(self).pending_() == old(self).pending_())
        },
        [[L: held_back_returned_first]]
        old(self).last_val is Some ==> r == Some(Ok::<Value, IoError>(old(self).last_val->Some_0)) && final(self).last_val is None && final(self).iter.rest() == old(self).iter.rest(),
        [[L: gap_piece_only_before_later_start]]
        // (b) a gap: next original starts after the cursor -> zero piece [cursor, next.start), original held back
        (old(self).last_val is None && old(self).iter.rest().len() > 0 && old(self).iter.rest()[0] is Ok && old(self).iter.rest()[0]->Ok_0.start > old(self).last_end) ==> {
            &&& r is Some && r->Some_0 is Ok
            &&& is_zero_piece(r->Some_0->Ok_0, old(self).last_end as int, old(self).iter.rest()[0]->Ok_0.start as int)
            &&& final(self).last_val == Some(old(self).iter.rest()[0]->Ok_0)
        },
        [[L: adjacent_original_unchanged]]
        // (c) no gap: the original is passed through unchanged
        (old(self).last_val is None && old(self).iter.rest().len() > 0 && old(self).iter.rest()[0] is Ok && old(self).iter.rest()[0]->Ok_0.start <= old(self).last_end) ==> {
            &&& r == Some(old(self).iter.rest()[0])
            &&& old(self).iter.rest()[0]->Ok_0.start == old(self).last_end
            &&& final(self).last_val is None
        },
        [[L: error_passes_through]]
        // (e) an error is handed on unchanged; only the input advances
        (old(self).last_val is None && old(self).iter.rest().len() > 0 && old(self).iter.rest()[0] is Err) ==> {
            &&& r == Some(old(self).iter.rest()[0])
            &&& final(self).last_end == old(self).last_end && final(self).last_val is None
            &&& final(self).iter.rest() == old(self).iter.rest().drop_first()
        },
        [[L: final_piece_to_expected_end]]
        // (d) input exhausted: one zero piece [cursor, e) iff cursor < e; afterwards (cursor == e) None
        (old(self).last_val is None && old(self).iter.rest().len() == 0) ==> {
            &&& final(self).last_val is None && final(self).iter.rest().len() == 0
            &&& match old(self).expected_end {
                    Some(e) if old(self).last_end < e => r is Some && r->Some_0 is Ok && is_zero_piece(r->Some_0->Ok_0, old(self).last_end as int, e as int) && final(self).last_end == e,
                    _ => r is None && final(self).last_end == old(self).last_end,
                }
        },
        [[L: none_only_when_exhausted]]
        r is None ==> old(self).pending_().len() == 0 && final(self).pending_().len() == 0,
    // measure for a `next` that calls itself (today it does not): the pending input must have shrunk.  Without it
    // a recursive edit is rejected by the front end (undecided) instead of being judged against the clauses above.
    decreases old(self).pending_().len(),
//@at /return Some\(Ok\(last\)\);/ before
            proof {
                assert(pending(*old(self)).drop_first() =~= self.iter.rest());
                assert(pending(*self) =~= self.iter.rest());
            }
//@at /match next \{/ before
        proof {
            assert(pending(*old(self)) =~= old(self).iter.rest());
            assert(pending(*self) =~= self.iter.rest());
        }
//@at /^\s*Some\(Ok\(Value \{/ nth=1 before
                    proof {
                        assert(pending(*self) =~= pending(*old(self))); [[L: gap_piece_keeps_original_pending]]
                    }
//@end
    spec fn pending_(&self) -> Seq<Result<Value, IoError>> { pending(*self) }
}

// ---------------- constructors: establish the invariant and the initial cursor ----------------
//@extract fn bigtools/src/utils/fill.rs fill
//@rule R16
//@rule R8
//@sub /pub fn fill<I>\(iter: I\)/ => fn fill(iter: VIter)
//@sub /-> impl Iterator<Item = io::Result<Value>> \+ Send\s*where\s*I: Iterator<Item = io::Result<Value>> \+ Send,/ => -> FillValues
//@ret r
//@sig
    ensures
        [[L: starts_at_zero_no_expected_end]]
        r.last_val is None && r.last_end == 0 && r.expected_end is None && r.iter.rest() == iter.rest(),
        [[L: establishes_state_ok]]
        inv(r),
        sorted_from(iter.rest(), 0) ==> state_ok(r),
        [[L: output_stream]]
        out_of(r) == out_spec(iter.rest(), 0, None),
//@end

//@extract fn bigtools/src/utils/fill.rs fill_start_to_end
//@rule R16
//@rule R8
//@sub /pub fn fill_start_to_end<I>\(/ => fn fill_start_to_end(
//@sub /iter: I,/ => iter: VIter,
//@sub /-> impl Iterator<Item = io::Result<Value>> \+ Send\s*where\s*I: Iterator<Item = io::Result<Value>> \+ Send,/ => -> FillValues
//@ret r
//@sig
    ensures
        [[L: starts_at_start_expects_end]]
        r.last_val is None && r.last_end == start && r.expected_end == Some(end) && r.iter.rest() == iter.rest(),
        [[L: establishes_state_ok]]
        inv(r),
        sorted_from(iter.rest(), start as int) ==> state_ok(r),
        [[L: output_stream]]
        out_of(r) == out_spec(iter.rest(), start, Some(end)),
//@end

} // verus!
fn main() {}
