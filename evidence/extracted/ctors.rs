// Constructors and defaults: `BBIWriteOptions::default`, `BigWigWrite::new`, `BigBedWrite::new` (and their
// `create_file` wrappers).  Every per-function contract of the writers is stated under preconditions on the options
// ("1 <= items_per_slot <= 65535", "block_size >= 2", a positive initial zoom size whose levels fit u32, at most 10
// levels): the DEFAULT options satisfy them, and the constructors hand exactly the defaults, the given output and the
// given chromosome sizes to the writer (C01/C02: "for every combination of ... options": the default combination is
// inside the range the proofs cover; C09: the defaults produce blocks within the format's u16 item counts).
use vstd::prelude::*;
verus! {

#[derive(Copy, Clone)]
pub enum InputSortType {
    ALL,
    START,
    // TODO
    //NONE,
}
pub struct BBIWriteOptions {
    pub compress: bool,
    pub items_per_slot: u32,
    pub block_size: u32,
    pub initial_zoom_size: u32,
    pub max_zooms: u32,
    pub manual_zoom_sizes: Option<Vec<u32>>,
    pub input_sort_type: InputSortType,
    pub channel_size: usize,
    pub inmemory: bool,
}
pub const DEFAULT_BLOCK_SIZE: u32 = 256;
pub const DEFAULT_ITEMS_PER_SLOT: u32 = 1024;
pub const MAX_ZOOM_LEVELS: usize = 10;

/// the ranges the writer units assume (bw_batch/bb_batch `pre`, rt_tree `block_size >= 2`, chrom_ids zoom list,
/// zoom_levels `at_most_ten_levels_are_listed`)
pub open spec fn options_in_the_proved_range(o: BBIWriteOptions) -> bool {
    // C01/C02 quantify over 1 <= items_per_slot <= 65535 and block_size >= 2 (u16 item counts in the format; the
    // R-tree level loop needs a fan-out of at least 2): the defaults must lie inside.  Zoom options need no range:
    // zero sizes are filtered, levels that do not fit u32 are not produced, more than 10 levels are cut (units
    // chrom_ids, zoom_sizes, zoom_levels).
    &&& 1 <= o.items_per_slot <= 65535
    &&& 2 <= o.block_size <= 65535
}

impl BBIWriteOptions {
pub fn default() -> (r: BBIWriteOptions)
    ensures
        
        options_in_the_proved_range(r),
{
        BBIWriteOptions {
            compress: true,
            items_per_slot: DEFAULT_ITEMS_PER_SLOT,
            block_size: DEFAULT_BLOCK_SIZE,
            initial_zoom_size: 160,
            max_zooms: 10,
            manual_zoom_sizes: None,
            input_sort_type: InputSortType::ALL,
            channel_size: 100,
            inmemory: false,
        }
    }
}

/// the output (`W: Write + Seek`) and the chromosome sizes map: opaque, identity matters only
#[verifier::external_body] pub struct OutW { _p: u8 }
#[verifier::external_body] pub struct ChromSizes { _p: u8 }

pub struct BigWigWrite {
    pub out: OutW,
    pub chrom_sizes: ChromSizes,
    pub options: BBIWriteOptions,
}
impl BigWigWrite {
pub fn new(out: OutW, chrom_sizes: ChromSizes) -> (r: BigWigWrite)
    ensures
        
        r.out == out && r.chrom_sizes == chrom_sizes && options_in_the_proved_range(r.options),
{
        BigWigWrite {
            out,
            chrom_sizes,
            options: BBIWriteOptions::default(),
        }
    }
}

pub struct BigBedWrite {
    pub out: OutW,
    pub chrom_sizes: ChromSizes,
    pub options: BBIWriteOptions,
    pub autosql: Option<Vec<u8>>,
}
impl BigBedWrite {
pub fn new(out: OutW, chrom_sizes: ChromSizes) -> (r: BigBedWrite)
    ensures
        
        r.out == out && r.chrom_sizes == chrom_sizes && options_in_the_proved_range(r.options) && r.autosql is None,
{
        BigBedWrite {
            out,
            chrom_sizes,
            options: BBIWriteOptions::default(),
            autosql: None,
        }
    }
}

} // verus!
fn main() {}

