//@unit zoom_outer
//@serves C07 C08 C09 C13
//@backend verus
// The level loop of `process_val_zoom` (bigwigwrite.rs and bigbedwrite.rs): the WHOLE function is cut,
// only the `{ .. }` of `for zoom_item in zoom_items.iter_mut() { .. }` is replaced by ONE call
// `level_step(zoom_item, options, <the value>, next_val, runtime, chrom_id)`.  That `{ .. }` is exactly what
// units bw_zoom / bb_zoom put under contract (`loopbody .. 1`, rule R9 "the enclosing iteration is dropped");
// this unit is the enclosing iteration: the loop header and every statement before / after the loop.
//   C07 / C08 "every base that has data lies in exactly one record" holds for EVERY zoom level and
//   "nothing is pending at the end of a chromosome" for EVERY level only if every level is stepped exactly
//   once per value, with the value's own start/end/value, the caller's `next_val` (None exactly when the
//   caller passed None: the end-of-chromosome flush depends on it) and the chromosome id.
// The postcondition of both functions IS the contract that unit procs assumes for its signature-only
// `process_val_zoom` (`pvz_post`, `pvz_pre .. ==> flushed`): same names, here with a definition.
use vstd::prelude::*;
use vstd::std_specs::ops::*;
use vstd::std_specs::convert::FromSpec;
verus! {
//@include ../_shared/floats.rs

//@extract struct bigtools/src/bbi.rs Summary
//@rule R8
//@end
//@extract struct bigtools/src/bbi.rs Value
//@rule R8
//@end
//@extract struct bigtools/src/bbi.rs ZoomRecord
//@rule R8
//@end
// R11: `rest: String` -> `rest: Vec<u8>` (as units procs / bb_enc / bb_batch; the text is never inspected here)
//@extract struct bigtools/src/bbi.rs BedEntry
//@rule R8
//@sub /#\[derive\(Clone\)\]\n/ => ""
//@sub /rest: String/ => rest: Vec<u8>
//@end
//@extract enum bigtools/src/bbi/bbiwrite.rs InputSortType
//@rule R8
//@end
//@extract struct bigtools/src/bbi/bbiwrite.rs BBIWriteOptions
//@rule R8
//@sub /#\[derive\(Clone\)\]\n/ => ""
//@end
// thiserror attributes dropped; io::Error -> opaque IoErr
//@extract enum bigtools/src/bbi/bbiwrite.rs ProcessDataError
//@rule R8
//@sub /[ \t]*#\[error\([^\n]*\)\]\n/ => "" min=3
//@sub /#\[from\] io::Error/ => IoErr
//@end

// ---------------- shims (each one is a listed assumption) ----------------
#[verifier::external_body]
pub struct IoErr { _p: u8 }
/// tokio runtime handle: only passed on
#[verifier::external_body]
pub struct Handle { _p: u8 }
/// IndexList<Value>: the sweep line of units bb_sweep / bb_zoom; opaque here
#[verifier::external_body]
pub struct Overlap { _p: u8 }
/// section channel (BBIDataProcessoringInputSectionChannel): opaque here
#[verifier::external_body]
pub struct ZoomSink { _p: u8 }

/// `v.iter_mut()` hands out, for each position, the exclusive borrow of THAT element (`IndexMut`): the
/// element is read as it is, whatever is written through the borrow lands at that position, no other
/// position changes (this is the frame "level k's step sees only item k").  Panics out of range.
#[verifier::external_body]
pub fn elem_mut<T>(v: &mut Vec<T>, i: usize) -> (r: &mut T)
    requires
        i < old(v)@.len(),
    ensures
        *r == old(v)@[i as int],
        final(v)@ == old(v)@.update(i as int, *final(r)),
{ unimplemented!() }

// ---------------- the order in which an iterator chain visits the positions of a Vec ----------------
// `for x in V.iter_mut()<adaptors> { B }` is rewritten (R7-style, unit-local sub) into
//   let order__ = Order::all(V.len())<adaptors>; let mut j__ = 0;
//   while j__ < order__.len() { let x = elem_mut(V, order__.at(j__)); B  j__ = j__ + 1; }
// `Order` is the sequence of positions visited; `all(n)` = 0, 1, .., n-1 (slice::IterMut), and the
// adaptors `skip / take / rev` act on that sequence as the std adaptors act on any exact-size
// double-ended iterator.  Everything below is VERIFIED (no external_body).
pub open spec fn vis(o: Seq<usize>, j: int, k: int) -> bool {
    exists|i: int| 0 <= i < j && i < o.len() && (#[trigger] o[i]) as int == k
}
/// no position is visited twice
pub open spec fn inj(o: Seq<usize>) -> bool {
    forall|a: int, b: int| 0 <= a < b < o.len() ==> (#[trigger] o[a]) != (#[trigger] o[b])
}
pub open spec fn bounded(o: Seq<usize>, n: int) -> bool {
    forall|i: int| 0 <= i < o.len() ==> (#[trigger] o[i]) < n
}
/// every position below n is visited
pub open spec fn onto(o: Seq<usize>, n: int) -> bool {
    forall|k: int| 0 <= k < n ==> #[trigger] vis(o, o.len() as int, k)
}
pub proof fn lemma_vis_step(o: Seq<usize>, j: int, k: int)
    requires 0 <= j < o.len(),
    ensures vis(o, j + 1, k) == (vis(o, j, k) || o[j] as int == k),
{
    if vis(o, j + 1, k) {
        let i = choose|i: int| 0 <= i < j + 1 && i < o.len() && (#[trigger] o[i]) as int == k;
        if i < j { assert(vis(o, j, k)); }
    }
    if vis(o, j, k) {
        let i = choose|i: int| 0 <= i < j && i < o.len() && (#[trigger] o[i]) as int == k;
        assert(0 <= i < j + 1 && o[i] as int == k);
    }
    if o[j] as int == k { assert(0 <= j < j + 1 && o[j] as int == k); }
}
pub proof fn lemma_fresh(o: Seq<usize>, j: int)
    requires inj(o), 0 <= j < o.len(),
    ensures !vis(o, j, o[j] as int),
{
    if vis(o, j, o[j] as int) {
        let i = choose|i: int| 0 <= i < j && i < o.len() && (#[trigger] o[i]) as int == o[j] as int;
        assert(o[i] != o[j]);
    }
}
pub struct Order { pub ix: Vec<usize> }
impl Order {
    pub open spec fn view(&self) -> Seq<usize> { self.ix@ }
    pub fn all(n: usize) -> (r: Order)
        ensures
            r@.len() == n,
            forall|i: int| 0 <= i < n ==> (#[trigger] r@[i]) == i,
            inj(r@), bounded(r@, n as int), onto(r@, n as int),
    {
        let mut ix: Vec<usize> = Vec::new();
        let mut i: usize = 0;
        while i < n
            invariant i <= n, ix@.len() == i, forall|t: int| 0 <= t < i ==> (#[trigger] ix@[t]) == t,
            decreases n - i,
        {
            ix.push(i);
            i = i + 1;
        }
        proof {
            assert forall|k: int| 0 <= k < n implies #[trigger] vis(ix@, ix@.len() as int, k) by {
                assert(ix@[k] as int == k);
            }
        }
        Order { ix }
    }
    pub fn len(&self) -> (r: usize)
        ensures r == self@.len(),
    { self.ix.len() }
    pub fn at(&self, j: usize) -> (r: usize)
        requires j < self@.len(),
        ensures r == self@[j as int],
    { self.ix[j] }
    /// Iterator::skip(n): drops the first n (all of them when there are fewer)
    pub fn skip(self, n: usize) -> (r: Order)
        ensures
            r@ == self@.subrange(if n <= self@.len() { n as int } else { self@.len() as int }, self@.len() as int),
            inj(self@) ==> inj(r@),
            forall|m: int| bounded(self@, m) ==> #[trigger] bounded(r@, m),
            n == 0 ==> r@ == self@,
    {
        let len = self.ix.len();
        let lo = if n <= len { n } else { len };
        let mut ix: Vec<usize> = Vec::new();
        let mut i: usize = lo;
        while i < len
            invariant lo <= i <= len, len == self.ix@.len(), ix@ == self.ix@.subrange(lo as int, i as int),
            decreases len - i,
        {
            ix.push(self.ix[i]);
            i = i + 1;
            assert(ix@ =~= self.ix@.subrange(lo as int, i as int));
        }
        proof {
            let s = self.ix@; let t = ix@;
            assert forall|a: int| 0 <= a < t.len() implies (#[trigger] t[a]) == s[a + lo] by { }
            if inj(s) {
                assert forall|a: int, b: int| 0 <= a < b < t.len() implies (#[trigger] t[a]) != (#[trigger] t[b]) by {
                    assert(s[a + lo] != s[b + lo]);
                }
            }
            assert forall|m: int| bounded(s, m) implies #[trigger] bounded(t, m) by {
                assert forall|a: int| 0 <= a < t.len() implies (#[trigger] t[a]) < m by { assert(s[a + lo] < m); }
            }
            if n == 0 { assert(t =~= s); }
        }
        Order { ix }
    }
    /// Iterator::take(n): keeps the first n (all of them when there are fewer)
    pub fn take(self, n: usize) -> (r: Order)
        ensures
            r@ == self@.subrange(0, if n <= self@.len() { n as int } else { self@.len() as int }),
            inj(self@) ==> inj(r@),
            forall|m: int| bounded(self@, m) ==> #[trigger] bounded(r@, m),
            n >= self@.len() ==> r@ == self@,
    {
        let len = self.ix.len();
        let hi = if n <= len { n } else { len };
        let mut ix: Vec<usize> = Vec::new();
        let mut i: usize = 0;
        while i < hi
            invariant i <= hi <= len, len == self.ix@.len(), ix@ == self.ix@.subrange(0, i as int),
            decreases hi - i,
        {
            ix.push(self.ix[i]);
            i = i + 1;
            assert(ix@ =~= self.ix@.subrange(0, i as int));
        }
        proof {
            let s = self.ix@; let t = ix@;
            if inj(s) {
                assert forall|a: int, b: int| 0 <= a < b < t.len() implies (#[trigger] t[a]) != (#[trigger] t[b]) by {
                    assert(s[a] != s[b]);
                }
            }
            assert forall|m: int| bounded(s, m) implies #[trigger] bounded(t, m) by {
                assert forall|a: int| 0 <= a < t.len() implies (#[trigger] t[a]) < m by { assert(s[a] < m); }
            }
            if n >= len { assert(t =~= s); }
        }
        Order { ix }
    }
    /// Iterator::step_by(n): panics for n == 0; for n == 1 the same sequence; otherwise NOTHING is promised here
    /// (a plausible edit "every other level" is judged - it cannot show that every level is visited - not rejected)
    pub fn step_by(self, n: usize) -> (r: Order)
        requires
            n > 0,
        ensures
            n == 1 ==> r@ == self@,
    {
        let len = self.ix.len();
        let mut ix: Vec<usize> = Vec::new();
        let mut i: usize = 0;
        while i < len
            invariant i <= len, len == self.ix@.len(), n > 0, n == 1 ==> ix@ == self.ix@.subrange(0, i as int),
            decreases len - i,
        {
            ix.push(self.ix[i]);
            i = if len - i > n { i + n } else { len };
            assert(n == 1 ==> ix@ =~= self.ix@.subrange(0, i as int));
        }
        assert(n == 1 ==> ix@ =~= self.ix@);
        Order { ix }
    }
    /// DoubleEndedIterator::rev(): the same positions, last first
    pub fn rev(self) -> (r: Order)
        ensures
            r@.len() == self@.len(),
            forall|i: int| 0 <= i < r@.len() ==> (#[trigger] r@[i]) == self@[self@.len() - 1 - i],
            inj(self@) ==> inj(r@),
            forall|m: int| bounded(self@, m) ==> #[trigger] bounded(r@, m),
            forall|m: int| onto(self@, m) ==> #[trigger] onto(r@, m),
    {
        let len = self.ix.len();
        let mut ix: Vec<usize> = Vec::new();
        let mut i: usize = 0;
        while i < len
            invariant i <= len, len == self.ix@.len(), ix@.len() == i,
                forall|t: int| 0 <= t < i ==> (#[trigger] ix@[t]) == self.ix@[len - 1 - t],
            decreases len - i,
        {
            ix.push(self.ix[len - 1 - i]);
            i = i + 1;
        }
        proof {
            let s = self.ix@; let t = ix@;
            if inj(s) {
                assert forall|a: int, b: int| 0 <= a < b < t.len() implies (#[trigger] t[a]) != (#[trigger] t[b]) by {
                    assert(s[len - 1 - b] != s[len - 1 - a]);
                }
            }
            assert forall|m: int| bounded(s, m) implies #[trigger] bounded(t, m) by {
                assert forall|a: int| 0 <= a < t.len() implies (#[trigger] t[a]) < m by { assert(s[len - 1 - a] < m); }
            }
            assert forall|m: int| onto(s, m) implies #[trigger] onto(t, m) by {
                assert forall|k: int| 0 <= k < m implies #[trigger] vis(t, t.len() as int, k) by {
                    assert(vis(s, s.len() as int, k));
                    let i0 = choose|i0: int| 0 <= i0 < s.len() && i0 < s.len() && (#[trigger] s[i0]) as int == k;
                    assert(t[len - 1 - i0] as int == k);
                }
            }
        }
        Order { ix }
    }
}

// =====================================================================================
pub mod bw {
use super::*;

//@extract struct bigtools/src/bbi/bigwigwrite.rs ZoomItem
//@rule R8
//@sub /BBIDataProcessoringInputSectionChannel/ => ZoomSink min=1
//@sub /^struct/ => pub struct
//@sub /^    (\w+):/ => pub \1: min=0
//@end

// ---- vocabulary of unit procs (same names) ----
pub open spec fn opt_value(o: Option<&Value>) -> Option<Value> {
    match o { Some(v) => Some(*v), None => None }
}
/// every zoom level has no open record and no pending records (what `destroy` asserts per level)
pub open spec fn flushed(z: Seq<ZoomItem>) -> bool {
    forall|k: int| 0 <= k < z.len() ==> (#[trigger] z[k]).live_info.is_none() && z[k].records@.len() == 0
}
/// ONE level went through the per-level body once, from z0 to z1, with exactly these arguments.
/// Uninterpreted: "whatever unit bw_zoom guarantees" (bw_zoom/process_val_zoom__level/tiling_invariant,
/// size_unchanged, batch_not_full_at_exit, chrom_end_flushes_everything, stream_only_grows).  Nothing is
/// assumed about it (no determinism, no composition): two steps, no step, or a step with another
/// argument cannot establish it.
pub uninterp spec fn stepped(z0: ZoomItem, z1: ZoomItem, options: BBIWriteOptions, current_val: Value, next: Option<Value>, chrom_id: u32) -> bool;
/// unit bw_zoom, label `pre`, of one level (with the level's ghost history)
pub uninterp spec fn level_pre(z0: ZoomItem, options: BBIWriteOptions, current_val: Value, next: Option<Value>, chrom_id: u32) -> bool;
/// procs' `pvz_pre`: bw_zoom's `pre` for every level
pub open spec fn pvz_pre(z0: Seq<ZoomItem>, options: BBIWriteOptions, current_val: Value, next: Option<Value>, chrom_id: u32) -> bool {
    forall|k: int| 0 <= k < z0.len() ==> level_pre(#[trigger] z0[k], options, current_val, next, chrom_id)
}
/// procs' `pvz_post`: same number of levels, every level stepped exactly once with exactly these arguments
pub open spec fn pvz_post(z0: Seq<ZoomItem>, options: BBIWriteOptions, current_val: Value, next: Option<Value>, chrom_id: u32, z1: Seq<ZoomItem>) -> bool {
    &&& z1.len() == z0.len()
    &&& forall|k: int| 0 <= k < z0.len() ==> stepped(z0[k], #[trigger] z1[k], options, current_val, next, chrom_id)
}
/// state of level k while the loop runs: stepped once if already visited, untouched otherwise
pub open spec fn lvl(z0: ZoomItem, z1: ZoomItem, visited: bool, options: BBIWriteOptions, current_val: Value, next: Option<Value>, chrom_id: u32) -> bool {
    if visited { stepped(z0, z1, options, current_val, next, chrom_id) } else { z1 == z0 }
}

/// R9 the other way round: stands for the `{ .. }` of `for zoom_item in zoom_items.iter_mut()`, i.e. for
/// exactly the text that unit bw_zoom verifies as `process_val_zoom__level` (same parameters in the same
/// order + `runtime`, which bw_zoom's R2 hand-off shim swallows).
#[verifier::external_body]
pub fn level_step(zoom_item: &mut ZoomItem, options: &BBIWriteOptions, current_val: Value, next_val: Option<&Value>, runtime: &Handle, chrom_id: u32)
    ensures
        stepped(*old(zoom_item), *final(zoom_item), *options, current_val, opt_value(next_val), chrom_id),
        // bw_zoom / process_val_zoom__level / chrom_end_flushes_everything
        level_pre(*old(zoom_item), *options, current_val, opt_value(next_val), chrom_id) && next_val.is_none()
            ==> final(zoom_item).live_info.is_none() && final(zoom_item).records@.len() == 0,
{ unimplemented!() }

//@extract fn bigtools/src/bbi/bigwigwrite.rs process_val_zoom
//@as bw
//@presub /^([ \t]*)for (\w+) in (zoom_items\b[^\n{]*?)[ \t]*\{[ \t]*\n.*?\n\1\}[ \t]*$/ => \1for \2 in \3 {\n\1    level_step(\2, options, current_val, next_val, runtime, chrom_id);\n\1} min=1
//@rule R1 min=1
//@rule R5
//@rule R6
//@rule R12
//@rule R15
//@rule R16
//@sub /^([ \t]*)for (\w+) in (\w+)\.iter_mut\(\)((?:\.(?:skip|take|rev|step_by)\([^()\n]*\))*) \{\n([^\n]*)\n\1\}/ => \1let order__ = Order::all(\3.len())\4;\n\1let mut j__: usize = 0;\n\1while j__ < order__.len() {\n\1    let \2 = elem_mut(\3, order__.at(j__));\n\5\n\1    j__ = j__ + 1;\n\1} min=1
//@sub /([A-Za-z_][\w\.]*)\.is_empty\(\)/ => (\1.len() == 0) min=0
//@sig
    ensures
        [[L: level_count_unchanged]]
        final(zoom_items)@.len() == old(zoom_items)@.len(),
        [[L: every_level_stepped_exactly_once_with_the_value_its_next_and_the_chrom]]
        forall|k: int| 0 <= k < old(zoom_items)@.len() ==>
            stepped(old(zoom_items)@[k], #[trigger] final(zoom_items)@[k], *options, current_val, opt_value(next_val), chrom_id),
        [[L: is_the_contract_procs_assumes]]
        pvz_post(old(zoom_items)@, *options, current_val, opt_value(next_val), chrom_id, final(zoom_items)@),
        [[L: chrom_end_flushes_every_level]]
        pvz_pre(old(zoom_items)@, *options, current_val, opt_value(next_val), chrom_id) && next_val.is_none()
            ==> flushed(final(zoom_items)@),
    decreases
        [[L: termination]]
        0int,
//@at /^\s*while j__ < order__\.len\(\)/ before
    assert(inj(order__@) && bounded(order__@, zoom_items@.len() as int)); [[L: no_level_visited_twice]]
    assert(onto(order__@, zoom_items@.len() as int)); [[L: every_level_visited]]
//@loop 1
        invariant
            [[L: loop/frame]]
            zoom_items@.len() == old(zoom_items)@.len(),
            j__ <= order__@.len(),
            inj(order__@), bounded(order__@, zoom_items@.len() as int), onto(order__@, zoom_items@.len() as int),
            [[L: loop/visited_levels_stepped_once_others_untouched]]
            forall|k: int| 0 <= k < zoom_items@.len() ==>
                lvl(old(zoom_items)@[k], #[trigger] zoom_items@[k], vis(order__@, j__ as int, k), *options, current_val, opt_value(next_val), chrom_id),
            [[L: loop/chrom_end_visited_levels_flushed]]
            pvz_pre(old(zoom_items)@, *options, current_val, opt_value(next_val), chrom_id) && next_val.is_none() ==>
                forall|k: int| 0 <= k < zoom_items@.len() && vis(order__@, j__ as int, k) ==>
                    (#[trigger] zoom_items@[k]).live_info.is_none() && zoom_items@[k].records@.len() == 0,
        decreases
            [[L: loop/termination]]
            order__@.len() - j__,
//@loop 2 optional
        // a second pass over the levels (not in the code today) is judged, not rejected: it gets a measure and no facts
        invariant
            [[L: loop2/frame]]
            j__ <= order__@.len(),
        decreases
            [[L: loop2/termination]]
            order__@.len() - j__,
//@at /= elem_mut\(/ before
        let ghost prev = zoom_items@;
        let ghost k0 = order__@[j__ as int] as int;
        proof {
            lemma_fresh(order__@, j__ as int);
            assert(prev[k0] == old(zoom_items)@[k0]); [[L: loop/level_is_untouched_before_its_step]]
        }
//@at /^\s*j__ = j__ \+ 1;/ before
        proof {
            assert(zoom_items@.len() == prev.len() && forall|k: int| 0 <= k < prev.len() && k != k0 ==> (#[trigger] zoom_items@[k]) == prev[k]); [[L: loop/only_this_level_changes]]
            assert forall|k: int| 0 <= k < zoom_items@.len() implies [[L: loop/this_level_stepped_once_with_the_value_its_next_and_the_chrom]]
                lvl(old(zoom_items)@[k], #[trigger] zoom_items@[k], vis(order__@, j__ as int + 1, k), *options, current_val, opt_value(next_val), chrom_id) by {
                lemma_vis_step(order__@, j__ as int, k);
                if k != k0 { assert(zoom_items@[k] == prev[k]); }
            }
            assert forall|k: int| 0 <= k < zoom_items@.len() && vis(order__@, j__ as int + 1, k) && next_val.is_none() [[L: loop/chrom_end_this_level_flushed]]
                && pvz_pre(old(zoom_items)@, *options, current_val, opt_value(next_val), chrom_id) implies
                (#[trigger] zoom_items@[k]).live_info.is_none() && zoom_items@[k].records@.len() == 0 by {
                lemma_vis_step(order__@, j__ as int, k);
                if k != k0 { assert(zoom_items@[k] == prev[k]); }
            }
        }
//@end
} // mod bw

// =====================================================================================
pub mod bb {
use super::*;

//@extract struct bigtools/src/bbi/bigbedwrite.rs ZoomItem
//@rule R8
//@sub /IndexList<Value>/ => Overlap min=1
//@sub /BBIDataProcessoringInputSectionChannel/ => ZoomSink min=1
//@sub /^struct/ => pub struct
//@sub /^    (\w+):/ => pub \1: min=0
//@end

// ---- vocabulary of unit procs (same names) ----
pub open spec fn opt_entry(o: Option<&BedEntry>) -> Option<BedEntry> {
    match o { Some(v) => Some(*v), None => None }
}
/// every zoom level has no open record and no pending records (what `destroy` asserts per level)
pub open spec fn flushed(z: Seq<ZoomItem>) -> bool {
    forall|k: int| 0 <= k < z.len() ==> (#[trigger] z[k]).live_info.is_none() && z[k].records@.len() == 0
}
/// ONE level went through the per-level body once, from z0 to z1, with exactly these arguments.
/// Uninterpreted: "whatever unit bb_zoom guarantees" (bb_zoom/process_val_zoom__level/tiling_invariant,
/// size_unchanged, batch_not_full_at_exit, chrom_end_flushes_everything, stream_only_grows).  Nothing is
/// assumed about it (no determinism, no composition): two steps, no step, or a step with another
/// argument cannot establish it.
pub uninterp spec fn stepped(z0: ZoomItem, z1: ZoomItem, options: BBIWriteOptions, item_start: u32, item_end: u32, next: Option<BedEntry>, chrom_id: u32) -> bool;
/// unit bb_zoom, label `pre`, of one level (with the level's ghost history)
pub uninterp spec fn level_pre(z0: ZoomItem, options: BBIWriteOptions, item_start: u32, item_end: u32, next: Option<BedEntry>, chrom_id: u32) -> bool;
/// procs' `pvz_pre`: bb_zoom's `pre` for every level
pub open spec fn pvz_pre(z0: Seq<ZoomItem>, options: BBIWriteOptions, item_start: u32, item_end: u32, next: Option<BedEntry>, chrom_id: u32) -> bool {
    forall|k: int| 0 <= k < z0.len() ==> level_pre(#[trigger] z0[k], options, item_start, item_end, next, chrom_id)
}
/// procs' `pvz_post`: Ok (the level body has no error path), same number of levels, every level stepped exactly once with exactly these arguments
pub open spec fn pvz_post(z0: Seq<ZoomItem>, options: BBIWriteOptions, item_start: u32, item_end: u32, next: Option<BedEntry>, chrom_id: u32,
    z1: Seq<ZoomItem>, r: Result<(), ProcessDataError>) -> bool {
    &&& r.is_ok()
    &&& z1.len() == z0.len()
    &&& forall|k: int| 0 <= k < z0.len() ==> stepped(z0[k], #[trigger] z1[k], options, item_start, item_end, next, chrom_id)
}
/// state of level k while the loop runs: stepped once if already visited, untouched otherwise
pub open spec fn lvl(z0: ZoomItem, z1: ZoomItem, visited: bool, options: BBIWriteOptions, item_start: u32, item_end: u32, next: Option<BedEntry>, chrom_id: u32) -> bool {
    if visited { stepped(z0, z1, options, item_start, item_end, next, chrom_id) } else { z1 == z0 }
}

/// R9 the other way round: stands for the `{ .. }` of `for zoom_item in zoom_items.iter_mut()`, i.e. for
/// exactly the text that unit bb_zoom verifies as `process_val_zoom__level` (same parameters in the same
/// order + `runtime`, which bb_zoom's R2 hand-off shim swallows).
#[verifier::external_body]
pub fn level_step(zoom_item: &mut ZoomItem, options: &BBIWriteOptions, item_start: u32, item_end: u32, next_val: Option<&BedEntry>, runtime: &Handle, chrom_id: u32)
    ensures
        stepped(*old(zoom_item), *final(zoom_item), *options, item_start, item_end, opt_entry(next_val), chrom_id),
        // bb_zoom / process_val_zoom__level / chrom_end_flushes_everything
        level_pre(*old(zoom_item), *options, item_start, item_end, opt_entry(next_val), chrom_id) && next_val.is_none()
            ==> final(zoom_item).live_info.is_none() && final(zoom_item).records@.len() == 0,
{ unimplemented!() }

//@extract fn bigtools/src/bbi/bigbedwrite.rs process_val_zoom
//@as bb
//@presub /^([ \t]*)for (\w+) in (zoom_items\b[^\n{]*?)[ \t]*\{[ \t]*\n.*?\n\1\}[ \t]*$/ => \1for \2 in \3 {\n\1    level_step(\2, options, item_start, item_end, next_val, runtime, chrom_id);\n\1} min=1
//@rule R1 min=1
//@rule R5
//@rule R6
//@rule R12
//@rule R15
//@rule R16
//@sub /^([ \t]*)for (\w+) in (\w+)\.iter_mut\(\)((?:\.(?:skip|take|rev|step_by)\([^()\n]*\))*) \{\n([^\n]*)\n\1\}/ => \1let order__ = Order::all(\3.len())\4;\n\1let mut j__: usize = 0;\n\1while j__ < order__.len() {\n\1    let \2 = elem_mut(\3, order__.at(j__));\n\5\n\1    j__ = j__ + 1;\n\1} min=1
//@sub /([A-Za-z_][\w\.]*)\.is_empty\(\)/ => (\1.len() == 0) min=0
//@ret r
//@sig
    ensures
        [[L: never_fails]]
        r.is_ok(),
        [[L: level_count_unchanged]]
        final(zoom_items)@.len() == old(zoom_items)@.len(),
        [[L: every_level_stepped_exactly_once_with_the_value_its_next_and_the_chrom]]
        forall|k: int| 0 <= k < old(zoom_items)@.len() ==>
            stepped(old(zoom_items)@[k], #[trigger] final(zoom_items)@[k], *options, item_start, item_end, opt_entry(next_val), chrom_id),
        [[L: is_the_contract_procs_assumes]]
        pvz_post(old(zoom_items)@, *options, item_start, item_end, opt_entry(next_val), chrom_id, final(zoom_items)@, r),
        [[L: chrom_end_flushes_every_level]]
        pvz_pre(old(zoom_items)@, *options, item_start, item_end, opt_entry(next_val), chrom_id) && r.is_ok() && next_val.is_none()
            ==> flushed(final(zoom_items)@),
    decreases
        [[L: termination]]
        0int,
//@at /^\s*while j__ < order__\.len\(\)/ before
    assert(inj(order__@) && bounded(order__@, zoom_items@.len() as int)); [[L: no_level_visited_twice]]
    assert(onto(order__@, zoom_items@.len() as int)); [[L: every_level_visited]]
//@loop 1
        invariant
            [[L: loop/frame]]
            zoom_items@.len() == old(zoom_items)@.len(),
            j__ <= order__@.len(),
            inj(order__@), bounded(order__@, zoom_items@.len() as int), onto(order__@, zoom_items@.len() as int),
            [[L: loop/visited_levels_stepped_once_others_untouched]]
            forall|k: int| 0 <= k < zoom_items@.len() ==>
                lvl(old(zoom_items)@[k], #[trigger] zoom_items@[k], vis(order__@, j__ as int, k), *options, item_start, item_end, opt_entry(next_val), chrom_id),
            [[L: loop/chrom_end_visited_levels_flushed]]
            pvz_pre(old(zoom_items)@, *options, item_start, item_end, opt_entry(next_val), chrom_id) && next_val.is_none() ==>
                forall|k: int| 0 <= k < zoom_items@.len() && vis(order__@, j__ as int, k) ==>
                    (#[trigger] zoom_items@[k]).live_info.is_none() && zoom_items@[k].records@.len() == 0,
        decreases
            [[L: loop/termination]]
            order__@.len() - j__,
//@loop 2 optional
        // a second pass over the levels (not in the code today) is judged, not rejected: it gets a measure and no facts
        invariant
            [[L: loop2/frame]]
            j__ <= order__@.len(),
        decreases
            [[L: loop2/termination]]
            order__@.len() - j__,
//@at /= elem_mut\(/ before
        let ghost prev = zoom_items@;
        let ghost k0 = order__@[j__ as int] as int;
        proof {
            lemma_fresh(order__@, j__ as int);
            assert(prev[k0] == old(zoom_items)@[k0]); [[L: loop/level_is_untouched_before_its_step]]
        }
//@at /^\s*j__ = j__ \+ 1;/ before
        proof {
            assert(zoom_items@.len() == prev.len() && forall|k: int| 0 <= k < prev.len() && k != k0 ==> (#[trigger] zoom_items@[k]) == prev[k]); [[L: loop/only_this_level_changes]]
            assert forall|k: int| 0 <= k < zoom_items@.len() implies [[L: loop/this_level_stepped_once_with_the_value_its_next_and_the_chrom]]
                lvl(old(zoom_items)@[k], #[trigger] zoom_items@[k], vis(order__@, j__ as int + 1, k), *options, item_start, item_end, opt_entry(next_val), chrom_id) by {
                lemma_vis_step(order__@, j__ as int, k);
                if k != k0 { assert(zoom_items@[k] == prev[k]); }
            }
            assert forall|k: int| 0 <= k < zoom_items@.len() && vis(order__@, j__ as int + 1, k) && next_val.is_none() [[L: loop/chrom_end_this_level_flushed]]
                && pvz_pre(old(zoom_items)@, *options, item_start, item_end, opt_entry(next_val), chrom_id) implies
                (#[trigger] zoom_items@[k]).live_info.is_none() && zoom_items@[k].records@.len() == 0 by {
                lemma_vis_step(order__@, j__ as int, k);
                if k != k0 { assert(zoom_items@[k] == prev[k]); }
            }
        }
//@end
} // mod bb

} // verus!
fn main() {}
