//@unit avg_rows
//@serves C17
//@backend verus
// bigwigaverageoverbed (CLI): the text of one output row.  The tool builds every row TWICE in the source: in
// `process_chunk` (worker of the multi-threaded path, -t >= 2) and in the single-threaded loop (-t 1).  Both are
//     let stats = match add_min_max { true => format!(F7, 7 args), false => format!(F5, 5 args) };
//     writeln!(&mut OUT, "{}\t{}", name, stats)?
// Exactly these statements are carved out (whole-text //@presub, see NOTES.md): per path one function for the
// `let stats = ..;` statement and one for what follows it up to the end of the loop body.  Nothing around them
// (argument parsing, name column, statistics, chunking, threads, temp files, reassembly) is covered here.
//   C17: "report region size, covered bases, sum, mean over the region, mean over covered bases[, minimum and
//         maximum] ... one output row per input row ... identical for any number of threads"
// `format!` / `writeln!` are macros outside Verus.  They are NOT rewritten by a regex: the two macros below
// SHADOW std's in the generated file, so the repository's invocations are kept verbatim and rustc itself
// splits the arguments: `format!(LIT, a, b, ..)` becomes `fmt_row(LIT, (a, b, ..,))`, an opaque `Row` that is
// an uninterpreted function of the format literal and of the argument TUPLE (arity and order are part of
// the tuple type/value).  The literal is compared as a string constant: the same text is the same constant, a
// different text is a different (unrelated) constant, so any edit of a format string makes the text unknown.
use vstd::prelude::*;
#[allow(unused_macros)]
macro_rules! format {
    ($f:literal $(, $a:expr)* $(,)?) => { fmt_row($f, ($($a,)*)) };
}
#[allow(unused_macros)]
macro_rules! writeln {
    ($w:expr, $f:literal $(, $a:expr)* $(,)?) => { write_line($w, $f, ($($a,)*)) };
}
verus! {

/// text produced by one `format!` call (R11: String -> opaque)
#[verifier::external_body] pub struct Row { _p: u8 }
/// the name column: result of name_for_bed_item (R11: String -> opaque)
#[verifier::external_body] pub struct NameText { _p: u8 }
/// io::Error
#[verifier::external_body] pub struct IoErr { _p: u8 }
/// the text `format!(fmt, args.0, args.1, ..)` produces.  Uninterpreted: what a placeholder (`{}`, `{:.3}`) does to
/// its argument, and whether the literal has as many placeholders as there are arguments, is not modelled
/// (rustc checks the count when it compiles the real macro).
pub uninterp spec fn row_spec<T>(fmt: &str, args: T) -> Row;
/// shim behind the shadowing `format!` (assumption: `format!` is a deterministic function of literal and arguments)
#[verifier::external_body]
pub fn fmt_row<T>(fmt: &'static str, args: T) -> (r: Row)
    ensures r == row_spec(fmt, args)
{ unimplemented!() }

/// one line written by one `writeln!` call (text + '\n')
#[verifier::external_body] pub struct Line { _p: u8 }
pub uninterp spec fn line_spec<T>(fmt: &str, args: T) -> Line;
/// the writer rows go to: the chunk's temp `File` (threaded path) / `BufWriter<File>` on the output (single-threaded)
#[verifier::external_body] pub struct Out { _p: u8 }
impl Out {
    /// everything written so far, one element per `writeln!`
    pub uninterp spec fn lines(&self) -> Seq<Line>;
}
/// shim behind the shadowing `writeln!`: on Ok exactly that one line was appended (on Err nothing is claimed)
#[verifier::external_body]
pub fn write_line<T>(w: &mut Out, fmt: &'static str, args: T) -> (r: Result<(), IoErr>)
    ensures r is Ok ==> final(w).lines() == old(w).lines().push(line_spec(fmt, args))
{ unimplemented!() }

//@extract struct bigtools/src/utils/misc.rs BigWigAverageOverBedEntry
//@rule R8
//@end

// ---------------- the documented row (C17) ----------------
// Column order of the tool: size, covered bases, sum, mean0 (= mean over the REGION, uncovered bases count
// as 0), mean (= mean over COVERED bases) [, min, max].  The literals pin the layout of the pinned tree
// (tab separated, positional placeholders only, so argument i lands in column i).
pub open spec fn fmt5() -> &'static str { "{}\t{}\t{:.3}\t{:.3}\t{:.3}" }
pub open spec fn fmt7() -> &'static str { "{}\t{}\t{:.3}\t{:.3}\t{:.3}\t{:.3}\t{:.3}" }
pub open spec fn row5(e: BigWigAverageOverBedEntry) -> Row { row_spec(fmt5(), (e.size, e.bases, e.sum, e.mean0, e.mean)) }
pub open spec fn row7(e: BigWigAverageOverBedEntry) -> Row { row_spec(fmt7(), (e.size, e.bases, e.sum, e.mean0, e.mean, e.min, e.max)) }
/// the whole line: name column, a tab, the statistics
pub open spec fn out_line(name: NameText, stats: Row) -> Line { line_spec("{}\t{}", (name, stats)) }

// ---------------- which statistics a row is built from (both copies) ----------------
//@extract enum bigtools/src/bbi/bbiread.rs BBIReadError
//@rule R8
//@sub /[ \t]*#\[error\([^\n]*\)\]\n/ => "" min=5
//@sub /#\[from\] io::Error/ => IoErr
//@sub /#\[from\] BedValueError/ => BedValueErr
//@sub /String/ => ErrText min=2
//@end
#[verifier::external_body] pub struct BedValueErr { _p: u8 }
#[verifier::external_body] pub struct ErrText { _p: u8 }
#[verifier::external_body] pub struct CirTreeSearchError { _p: u8 }
/// `Box<dyn Error + Send + Sync>` made from a read error by `e.into()` (opaque)
#[verifier::external_body] pub struct AnyErr { _p: u8 }
#[verifier::external_body] pub fn any_err(e: BBIReadError) -> (r: AnyErr) { unimplemented!() }
/// the region's statistics as `stats_for_bed_item` returned them are what the row shows: C17 is about regions
/// on a chromosome PRESENT in the bigWig, for which `stats_for_bed_item` returns Ok (unit stats) -- whatever the
/// number of covered bases ("NaN means and extrema when nothing is covered" are inside `s`, unit stats)
pub open spec fn shows_the_computed_stats(res: Result<BigWigAverageOverBedEntry, BBIReadError>, r: Result<BigWigAverageOverBedEntry, AnyErr>) -> bool {
    res matches Ok(s) ==> r == Ok::<BigWigAverageOverBedEntry, AnyErr>(s)
}
// multi-threaded copy: `let entry = match stats_for_bed_item(chrom, entry, inbigwig) { ARMS };` of process_chunk
//@extract fn bigtools/src/utils/cli/bigwigaverageoverbed.rs process_chunk
//@rule R16
//@presub /\A.*?\n([ \t]*)let entry = match stats_for_bed_item\([^)]*\) \{(.*?)\n\1\};\n.*\Z/ => fn entry_mt(res: Result<BigWigAverageOverBedEntry, BBIReadError>, size: u32) -> Result<BigWigAverageOverBedEntry, AnyErr> {\n    let entry = match res {\2\n    };\n    Ok(entry)\n} min=1 count=1
//@sub /\be\.into\(\)/ => any_err(e) min=0
//@ret r
//@sig
    ensures
        [[L: mt/row_shows_the_statistics_computed_for_the_region]]
        shows_the_computed_stats(res, r),
        [[L: mt/read_errors_other_than_unknown_chromosome_are_reported]]
        (res matches Err(e) && !(e is InvalidChromosome)) ==> r is Err,
//@end
// single-threaded copy: the LAST such statement of `bigwigaverageoverbed`
//@extract fn bigtools/src/utils/cli/bigwigaverageoverbed.rs bigwigaverageoverbed
//@rule R16
//@presub /\A.*\n([ \t]*)let entry = match stats_for_bed_item\([^)]*\) \{(.*?)\n\1\};\n.*\Z/ => fn entry_st(res: Result<BigWigAverageOverBedEntry, BBIReadError>, size: u32) -> Result<BigWigAverageOverBedEntry, AnyErr> {\n    let entry = match res {\2\n    };\n    Ok(entry)\n} min=1 count=1
//@sub /\be\.into\(\)/ => any_err(e) min=0
//@ret r
//@sig
    ensures
        [[L: st/row_shows_the_statistics_computed_for_the_region]]
        shows_the_computed_stats(res, r),
        [[L: st/read_errors_other_than_unknown_chromosome_are_reported]]
        (res matches Err(e) && !(e is InvalidChromosome)) ==> r is Err,
//@end

// ---- multi-threaded path: the FIRST `let stats = match add_min_max {..};` of `process_chunk` ----
//@extract fn bigtools/src/utils/cli/bigwigaverageoverbed.rs process_chunk
//@rule R16
//@presub /\A.*?let stats = match add_min_max \{(.*?)\n[ \t]*\};\n.*\Z/ => fn stats_row_mt(entry: &BigWigAverageOverBedEntry, add_min_max: bool) -> Row {\n    let stats = match add_min_max {\1\n    };\n    stats\n} min=1 count=1
//@ret r
//@sig
    ensures
        [[L: mt/minmax_row_is_size_bases_sum_mean0_mean_min_max]]
        add_min_max ==> r == row7(*entry),
        [[L: mt/plain_row_is_size_bases_sum_mean0_mean]]
        !add_min_max ==> r == row5(*entry),
//@end
// ---- multi-threaded path: everything between that statement and the end of the loop body (`} Ok(tmp) }`) ----
//@extract fn bigtools/src/utils/cli/bigwigaverageoverbed.rs process_chunk
//@rule R16
//@presub /\A.*?let stats = match add_min_max \{.*?\n[ \t]*\};\n(.*?)\n[ \t]*\}\s*Ok\(tmp\)\s*\}\s*\Z/ => fn emit_row_mt(name: NameText, stats: Row, tmp0: Out) -> Result<Out, IoErr> {\n    let mut tmp = tmp0;\n\1\n    ;\n    Ok(tmp)\n} min=1 count=1
//@ret r
//@sig
    ensures
        [[L: mt/one_line_name_tab_stats_appended]]
        r matches Ok(o) ==> o.lines() == tmp0.lines().push(out_line(name, stats)),
//@end

// ---- single-threaded path: the LAST `let stats = match add_min_max {..};` of `bigwigaverageoverbed` ----
//@extract fn bigtools/src/utils/cli/bigwigaverageoverbed.rs bigwigaverageoverbed
//@rule R16
//@presub /\A.*let stats = match add_min_max \{(.*?)\n[ \t]*\};\n.*\Z/ => fn stats_row_st(entry: &BigWigAverageOverBedEntry, add_min_max: bool) -> Row {\n    let stats = match add_min_max {\1\n    };\n    stats\n} min=1 count=1
//@ret r
//@sig
    ensures
        [[L: st/minmax_row_is_size_bases_sum_mean0_mean_min_max]]
        add_min_max ==> r == row7(*entry),
        [[L: st/plain_row_is_size_bases_sum_mean0_mean]]
        !add_min_max ==> r == row5(*entry),
//@end
// ---- single-threaded path: everything between that statement and the end of the loop body (`} } Ok(()) }`) ----
//@extract fn bigtools/src/utils/cli/bigwigaverageoverbed.rs bigwigaverageoverbed
//@rule R16
//@presub /\A.*let stats = match add_min_max \{.*?\n[ \t]*\};\n(.*?)\n[ \t]*\}\s*\}\s*Ok\(\(\)\)\s*\}\s*\Z/ => fn emit_row_st(name: NameText, stats: Row, bedoutwriter0: Out) -> Result<Out, IoErr> {\n    let mut bedoutwriter = bedoutwriter0;\n\1\n    ;\n    Ok(bedoutwriter)\n} min=1 count=1
//@ret r
//@sig
    ensures
        [[L: st/one_line_name_tab_stats_appended]]
        r matches Ok(o) ==> o.lines() == bedoutwriter0.lines().push(out_line(name, stats)),
//@end

/// Thread-count independence of the row text, as far as literals and argument tuples go: for the same entry,
/// the same --min-max flag, the same name and the same text written before, the two copies of the formatting
/// code leave the same text behind.  Uses only the four contracts above (product program).
fn same_row_for_any_thread_count(entry: &BigWigAverageOverBedEntry, add_min_max: bool,
        name_a: NameText, name_b: NameText, out_a: Out, out_b: Out)
    requires name_a == name_b, out_a.lines() == out_b.lines(),
{
    let a = stats_row_mt(entry, add_min_max);
    let b = stats_row_st(entry, add_min_max);
    assert(a == b); [[L: stats_agree_between_threaded_and_single_threaded_path]]
    let ra = emit_row_mt(name_a, a, out_a);
    let rb = emit_row_st(name_b, b, out_b);
    assert(ra matches Ok(oa) ==> (rb matches Ok(ob) ==> oa.lines() == ob.lines())); [[L: lines_agree_between_threaded_and_single_threaded_path]]
}

} // verus!
fn main() {}
