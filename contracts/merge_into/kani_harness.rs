// Kani harnesses for unit merge_into (bigtools/src/utils/merge.rs :: merge_into).
// Included as `#[cfg(kani)] mod verif_kani_merge_into` at the end of merge.rs in the
// scratch copy, so `super::merge_into` is the REAL function (body byte-identical to /repo).
//
// Plain `#[kani::proof]` harnesses (not proof_for_contract): the value postcondition
// quantifies over a base `p` that is not a parameter of merge_into, which an `ensures`
// closure cannot mention.  merge_into is loop-free, inputs are full-width symbolic, so a
// successful run is a complete proof (kind = "complete"), not a bounded one.
//
// Every kani::assume below is the function's stated precondition PRE (see NOTES.md) or the
// choice of the symbolic base inside the union; nothing else is assumed.

use crate::bbi::Value;

include!("spec.rs");

fn sym_value() -> Value {
    Value {
        start: kani::any(),
        end: kani::any(),
        value: kani::any(),
    }
}

// ---------------------------------------------------------------------------------------
// L: tiling — the returned pieces, in tuple order, are non-empty, each starts where the
// previous one ends (hence sorted and pairwise disjoint), and together cover exactly
// [min(start), max(end)).  Also: no panic under PRE (Kani checks the `panic!` itself).
#[kani::proof]
fn merge_into_tiling() {
    let one = sym_value();
    let two = sym_value();
    kani::assume(pre(&one, &two));
    kani::cover!(true, "reach_tiling");
    let r = super::merge_into(one, two);
    let w = walk(&r, 0);
    assert!(w.nonempty, "tiling/each piece has start < end");
    assert!(w.contiguous, "tiling/each piece starts where the previous ends (sorted, disjoint, gap-free)");
    assert!(w.first_start == umin(one.start, two.start), "tiling/first piece starts at min(one.start, two.start)");
    assert!(w.last_end == umax(one.end, two.end), "tiling/last piece ends at max(one.end, two.end)");
}

// ---------------------------------------------------------------------------------------
// L: queue_shape — what insert_into_queue relies on when it replaces `queued` (= one) by
// piece 0, inserts pieces 1 and 2 right after it and re-inserts the overhang: the
// non-overhang pieces end exactly at one.end (they never reach into the next queue item,
// whose start is >= one.end), and the overhang is exactly two's part beyond one.end.
// This is stated under the extra premise one.value != 0.0: WITHOUT it the claim is false
// on /repo (branch `one.value == 0.0 => (two, None, None, None)` returns a first piece
// that ends at two.end > one.end) — see NOTES.md "Finding F-MI-1".  The premise is what the
// only call site establishes today (queued values are filtered with `c.2 != 0.0`).
#[kani::proof]
fn merge_into_queue_shape() {
    let one = sym_value();
    let two = sym_value();
    kani::assume(pre(&one, &two));
    kani::assume(one.value != 0.0);
    kani::cover!(true, "reach_queue_shape");
    let r = super::merge_into(one, two);
    let mut inner_end = r.0.end;
    if let Some(x) = r.1 {
        inner_end = x.end;
    }
    if let Some(x) = r.2 {
        inner_end = x.end;
    }
    assert!(r.0.start == umin(one.start, two.start), "queue_shape/piece 0 starts at min(one.start, two.start)");
    assert!(inner_end == one.end, "queue_shape/pieces 0..2 end exactly at one.end");
    assert!(r.3.is_some() == (two.end > one.end), "queue_shape/overhang present iff two ends after one");
    if let Some(o) = r.3 {
        assert!(o.start == one.end && o.end == two.end, "queue_shape/overhang is [one.end, two.end)");
        assert!(o.value == two.value, "queue_shape/overhang carries two.value");
    }
    if r.2.is_some() {
        assert!(r.1.is_some(), "queue_shape/piece 2 only with piece 1");
    }
}

// ---------------------------------------------------------------------------------------
// L: value_at_base (quick form) — for a symbolic base p in the union, the piece that
// contains p carries: one.value + two.value where both inputs cover p, one.value where
// only `one` does, two.value where only `two` does (spec.rs: value_ok_by_cases).
// Comparison is numeric f32 `==`: the property speaks of the per-base *value*, so
// -0.0 == +0.0 (the code returns `one.value` = -0.0 where the IEEE sum -0.0 + 0.0 is +0.0).
// Quick form: the both-covered expectation is written by cases on the code's own
// `== 0.0` tests — x where the other addend is (+/-)0.0, else the f32 sum — so CBMC only has
// to match the code's float additions against the same addition.  The case split is sound
// because x + (+/-0.0) == x numerically for every finite x: harness f32_add_zero_identity.
// One harness per order of the two starts (u32 trichotomy: the three assumptions are
// exhaustive); a single harness over all shapes needs ~280 s, the three take 25-35 s each.
fn value_at_base(start_rel: u8) {
    let one = sym_value();
    let two = sym_value();
    let p: u32 = kani::any();
    kani::assume(pre(&one, &two));
    kani::assume(umin(one.start, two.start) <= p && p < umax(one.end, two.end));
    kani::assume(start_relation(&one, &two) == start_rel);
    kani::cover!(true, "reach_value_at_base");
    let r = super::merge_into(one, two);
    let w = walk(&r, p);
    assert!(w.hits == 1, "value_at_base/p lies in exactly one piece");
    assert!(covers(&one, p) || covers(&two, p), "value_at_base/union of overlapping intervals has no hole");
    assert!(value_ok_by_cases(&one, &two, p, w.v_at_p), "value_at_base/value at p is the sum of the inputs' values at p");
}

#[kani::proof]
fn merge_into_value_one_starts_first() {
    value_at_base(0)
}
#[kani::proof]
fn merge_into_value_same_start() {
    value_at_base(1)
}
#[kani::proof]
fn merge_into_value_two_starts_first() {
    value_at_base(2)
}

// Lemma used by the quick form: adding a zero of either sign is the numeric identity on
// finite f32 (so the code's `== 0.0` shortcuts return a value numerically equal to the sum).
#[kani::proof]
fn f32_add_zero_identity() {
    let x: f32 = kani::any();
    let z: f32 = kani::any();
    kani::assume(x.is_finite());
    kani::assume(z == 0.0);
    kani::cover!(true, "reach_add_zero");
    assert!(x + z == x, "add_zero/x + (+/-0.0) == x");
    assert!(z + x == x, "add_zero/(+/-0.0) + x == x");
}

// ---------------------------------------------------------------------------------------
// L: value_sum_bitprecise (thorough) — the same statement with the expectation written as
// plain arithmetic: (one.value if one covers p else 0) + (two.value if two covers p else 0),
// no case split on zero, CBMC decides the IEEE-754 additions bit-precisely.
#[kani::proof]
fn merge_into_value_sum_bitprecise() {
    let one = sym_value();
    let two = sym_value();
    let p: u32 = kani::any();
    kani::assume(pre(&one, &two));
    kani::assume(umin(one.start, two.start) <= p && p < umax(one.end, two.end));
    kani::cover!(true, "reach_value_sum_bitprecise");
    let r = super::merge_into(one, two);
    let w = walk(&r, p);
    assert!(w.hits == 1, "value_sum/p lies in exactly one piece");
    assert!(w.v_at_p == arithmetic_sum_at(&one, &two, p), "value_sum/value at p == sum of the inputs' values at p");
}
