//@unit bb_batch
//@serves C02 C13
//@backend verus
// bigBed per-entry step: bigbedwrite::process_val (validation prefix + batching suffix; the
// coverage sweep in the middle is cut out, see unit bb_sweep), the two `do_process` methods
// (item counting) and the zoom-count loop body of BigBedNoZoomsProcess::do_process.
//   C13: Err <=> start > end \/ start >= chrom_length \/ (next /\ start > next.start); Err changes nothing.
//   C02: every accepted entry is kept exactly once, in input order, unchanged (rest included),
//        batches are non-empty, <= items_per_slot, one chrom id, start-sorted; nothing pending
//        at the end of the chromosome; total_items counts every entry once.
use vstd::prelude::*;
verus! {

//@extract struct bigtools/src/bbi.rs Summary
//@rule R8
//@end
//@extract struct bigtools/src/bbi.rs Value
//@rule R8
//@end
//@extract struct bigtools/src/bbi.rs ZoomRecord
//@rule R8
//@end
// R11: `rest: String` -> `rest: Vec<u8>` (same choice as unit bb_enc; the text is never inspected here).
//@extract struct bigtools/src/bbi.rs BedEntry
//@rule R8
//@sub /#\[derive\(Clone\)\]\n/ => ""
//@sub /rest: String/ => rest: Vec<u8>
//@end
//@extract enum bigtools/src/bbi/bbiwrite.rs InputSortType
//@rule R8
//@end
//@extract struct bigtools/src/bbi/bbiwrite.rs BBIWriteOptions
//@rule R8
//@sub /#\[derive\(Clone\)\]\n/ => ""
//@end
// thiserror attributes dropped; io::Error -> opaque IoErr
//@extract enum bigtools/src/bbi/bbiwrite.rs ProcessDataError
//@rule R8
//@sub /[ \t]*#\[error\([^\n]*\)\]\n/ => "" min=3
//@sub /#\[from\] io::Error/ => IoErr
//@end

// ---------------- shims (each one is a listed assumption) ----------------
#[verifier::external_body]
pub struct IoErr { _p: u8 }
/// tokio runtime handle: only passed on to the R2 hand-off.
#[verifier::external_body]
pub struct Handle { _p: u8 }
/// IndexList<Value>: the sweep line of unit bb_sweep; opaque here.
#[verifier::external_body]
pub struct Overlap { _p: u8 }
/// `format!(..)` of the three error messages: text dropped.
#[verifier::external_body]
fn err_msg() -> String { unimplemented!() }

/// one emitted section: what encode_section receives
pub ghost struct Batch { pub items: Seq<BedEntry>, pub chrom: u32, pub compress: bool }

// R2 shim: `runtime.spawn(encode_section(compress, items, chrom_id))` + `ftx.send(handle)`.
// Assumed: the batch is appended, in order, to this chromosome's section stream (one channel
// per chromosome: bbiwrite::setup_chrom / future_channel).  `requires` = encode_section's own
// precondition (it reads items_in_section[0]); encode_section itself is unit bb_enc.
#[verifier::external_body]
pub struct SectionSink { _p: u8 }
impl SectionSink {
    pub uninterp spec fn log(&self) -> Seq<BedEntry>;
    pub uninterp spec fn batches(&self) -> Seq<Batch>;
    #[verifier::external_body]
    fn emit_encode_section(&mut self, compress: bool, items: Vec<BedEntry>, chrom_id: u32)
        requires
            items@.len() > 0,
        ensures
            final(self).log() == old(self).log() + items@,
            final(self).batches() == old(self).batches().push(Batch { items: items@, chrom: chrom_id, compress: compress }),
    { unimplemented!() }
}

/// `std::mem::replace(items, Vec::with_capacity(n))` (verified; capacity is not observable)
fn replace_vec(v: &mut Vec<BedEntry>, n: Vec<BedEntry>) -> (r: Vec<BedEntry>)
    ensures r@ == old(v)@, final(v)@ == n@
{ let mut n = n; std::mem::swap(v, &mut n); n }

/// The coverage sweep (closure `add_interval_to_summary`) is verified in unit bb_sweep.  Here its
/// definition is cut out and the call goes to this shim: no contract at all, i.e. `overlap` and
/// `summary` are havocked.  Frame assumption (by its signature): it touches only those two.
/// What it does to its two arguments is a deterministic function of what it is given (uninterpreted here: unit bb_sweep
/// owns the content) -- so the CALL is pinned: which start, which end, which look-ahead.
pub uninterp spec fn sweep_summary(s: Option<Summary>, o: Overlap, item_start: u32, item_end: u32, next_start: Option<u32>) -> Option<Summary>;
pub uninterp spec fn sweep_overlap(s: Option<Summary>, o: Overlap, item_start: u32, item_end: u32, next_start: Option<u32>) -> Overlap;
#[verifier::external_body]
fn add_interval_to_summary(overlap: &mut Overlap, summary: &mut Option<Summary>, item_start: u32, item_end: u32, next_start_opt: Option<u32>)
    ensures
        *final(summary) == sweep_summary(*old(summary), *old(overlap), item_start, item_end, next_start_opt),
        *final(overlap) == sweep_overlap(*old(summary), *old(overlap), item_start, item_end, next_start_opt),
{ unimplemented!() }

// ---------------- specification vocabulary (from the property texts) ----------------
/// C13: the bigBed refusal condition
pub open spec fn refused(cur: BedEntry, next: Option<&BedEntry>, chrom_length: u32) -> bool {
    ||| cur.start > cur.end
    ||| cur.start >= chrom_length
    ||| (next.is_some() && cur.start > next.unwrap().start)
    // C02 (accepted => can be read back): the format cannot hold a (0,0) record (readers treat it as
    // invalid) nor a NUL inside the NUL-terminated rest of the line
    ||| (cur.start == 0 && cur.end == 0)
    ||| has_nul_spec(cur.rest@)
}
pub open spec fn has_nul_spec(s: Seq<u8>) -> bool { exists|i: int| 0 <= i < s.len() && s[i] == 0 }
/// `rest.contains('\0')` on the String (R11: rest is bytes here; U+0000 is the single byte 0 in UTF-8)
fn has_nul(v: &Vec<u8>) -> (r: bool)
    ensures r == has_nul_spec(v@)
{
    let mut i: usize = 0;
    while i < v.len()
        invariant i <= v.len(), forall|k: int| 0 <= k < i ==> v@[k] != 0,
        decreases v.len() - i,
    {
        if v[i] == 0 { return true; }
        i = i + 1;
    }
    false
}
pub open spec fn starts_sorted(s: Seq<BedEntry>) -> bool {
    forall|i: int, j: int| 0 <= i <= j < s.len() ==> (#[trigger] s[i]).start <= (#[trigger] s[j]).start
}
pub open spec fn all_start_le(s: Seq<BedEntry>, b: u32) -> bool {
    forall|i: int| 0 <= i < s.len() ==> (#[trigger] s[i]).start <= b
}
/// everything accepted so far on this chromosome, in input order
pub open spec fn accepted(sink: SectionSink, items: Seq<BedEntry>) -> Seq<BedEntry> { sink.log() + items }
/// C02/C09 per-section facts
pub open spec fn batch_ok(b: Batch, ips: u32, chrom: u32, compress: bool) -> bool {
    &&& 1 <= b.items.len() <= ips
    &&& b.chrom == chrom
    &&& b.compress == compress
}
pub open spec fn batches_ok(bs: Seq<Batch>, ips: u32, chrom: u32, compress: bool) -> bool {
    forall|i: int| 0 <= i < bs.len() ==> batch_ok(#[trigger] bs[i], ips, chrom, compress)
}
pub open spec fn batches_sorted(bs: Seq<Batch>) -> bool {
    forall|i: int| 0 <= i < bs.len() ==> starts_sorted((#[trigger] bs[i]).items)
}

/// concatenation of the emitted sections
pub open spec fn flat(bs: Seq<Batch>) -> Seq<BedEntry>
    decreases bs.len()
{
    if bs.len() == 0 { Seq::empty() } else { flat(bs.drop_last()) + bs.last().items }
}
/// State of one chromosome's writer between two entries (C02 at the hand-off boundary): the
/// emitted sections concatenate to the emitted stream, every section has 1..=ips entries of this
/// chromosome and is start-sorted, fewer than ips entries are pending, and everything accepted
/// so far (emitted ++ pending) is start-sorted.
pub open spec fn chain_inv(sink: SectionSink, items: Seq<BedEntry>, ips: u32, chrom: u32, compress: bool) -> bool {
    &&& flat(sink.batches()) == sink.log()
    &&& items.len() < ips
    &&& batches_ok(sink.batches(), ips, chrom, compress)
    &&& batches_sorted(sink.batches())
    &&& starts_sorted(accepted(sink, items))
}
proof fn lemma_le_suffix(a: Seq<BedEntry>, b: Seq<BedEntry>, m: u32)
    requires all_start_le(a + b, m),
    ensures all_start_le(b, m),
{
    assert forall|i: int| 0 <= i < b.len() implies (#[trigger] b[i]).start <= m by {
        assert((a + b)[a.len() + i] == b[i]);
    }
}

proof fn lemma_sorted_push(s: Seq<BedEntry>, x: BedEntry)
    requires starts_sorted(s), all_start_le(s, x.start),
    ensures starts_sorted(s.push(x)),
{
    assert forall|i: int, j: int| 0 <= i <= j < s.push(x).len() implies (#[trigger] s.push(x)[i]).start <= (#[trigger] s.push(x)[j]).start by {
        if j < s.len() { assert(s.push(x)[i] == s[i]); assert(s.push(x)[j] == s[j]); }
        else if i < s.len() { assert(s.push(x)[i] == s[i]); }
    }
}
proof fn lemma_sorted_suffix(a: Seq<BedEntry>, b: Seq<BedEntry>)
    requires starts_sorted(a + b),
    ensures starts_sorted(b), starts_sorted(a),
{
    assert forall|i: int, j: int| 0 <= i <= j < b.len() implies (#[trigger] b[i]).start <= (#[trigger] b[j]).start by {
        assert((a + b)[a.len() + i] == b[i]); assert((a + b)[a.len() + j] == b[j]);
    }
    assert forall|i: int, j: int| 0 <= i <= j < a.len() implies (#[trigger] a[i]).start <= (#[trigger] a[j]).start by {
        assert((a + b)[i] == a[i]); assert((a + b)[j] == a[j]);
    }
}
proof fn lemma_le_push(s: Seq<BedEntry>, x: BedEntry, b: u32)
    requires all_start_le(s, x.start), x.start <= b,
    ensures all_start_le(s.push(x), b),
{
    assert forall|i: int| 0 <= i < s.push(x).len() implies (#[trigger] s.push(x)[i]).start <= b by {
        if i < s.len() { assert(s.push(x)[i] == s[i]); }
    }
}

//@extract fn bigtools/src/bbi/bigbedwrite.rs process_val
//@rule R16
//@presub /let add_interval_to_summary =\s*move \|.*?\n[ \t]*\};[ \t]*\n(?=\s*add_interval_to_summary\()/ => "" min=1 count=1
//@rule R2 min=1
//@rule R1 min=1
//@sub /format!\(.*?\)(?=\)\);)/ => err_msg() min=3
//@sub /current_val\.rest\.contains\('\\0'\)/ => has_nul(&current_val.rest) min=0
//@sub /(\w+)\.map\(\|(\w+)\| \2\.(\w+)\)/ => (match \1 { Some(\2) => Some(\2.\3), None => None }) min=0
//@sub /IndexList<Value>/ => Overlap min=1
//@sub /BBIDataProcessoringInputSectionChannel/ => SectionSink min=1
//@sub /std::mem::replace\(/ => replace_vec( min=1
//@ret r
//@sig
    ensures
        [[L: refused_iff_unrepresentable]]
        r.is_err() <==> refused(current_val, next_val, chrom_length),
        [[L: err_changes_nothing]]
        r.is_err() ==> final(items)@ == old(items)@ && final(ftx).log() == old(ftx).log()
            && final(ftx).batches() == old(ftx).batches()
            && *final(summary) == *old(summary) && *final(overlap) == *old(overlap),
        [[L: kept_once_in_order_unchanged]]
        r.is_ok() ==> accepted(*final(ftx), final(items)@) == accepted(*old(ftx), old(items)@).push(current_val),
        // C06: the coverage sweep sees the entry's OWN extent (also where it reaches past the chromosome length: the
        // writer accepts such entries and the readers return them whole) and the start of the next entry
        [[L: sweep_gets_the_entrys_own_start_and_end_and_the_next_start_once]]
        r.is_ok() ==> *final(summary) == sweep_summary(*old(summary), *old(overlap), current_val.start, current_val.end, match next_val { Some(v) => Some(v.start), None => None })
            && *final(overlap) == sweep_overlap(*old(summary), *old(overlap), current_val.start, current_val.end, match next_val { Some(v) => Some(v.start), None => None }),
        [[L: emit_exactly_when_full_or_last]]
        r.is_ok() ==> ({
            let all = old(items)@.push(current_val);
            if next_val.is_none() || all.len() >= options.items_per_slot as int {
                &&& final(ftx).batches() == old(ftx).batches().push(Batch { items: all, chrom: chrom_id, compress: options.compress })
                &&& final(ftx).log() == old(ftx).log() + all
                &&& final(items)@.len() == 0
            } else {
                &&& final(ftx).batches() == old(ftx).batches()
                &&& final(ftx).log() == old(ftx).log()
                &&& final(items)@ == all
            }
        }),
        [[L: chrom_end_flushes_everything]]
        r.is_ok() && next_val.is_none() ==> final(items)@.len() == 0,
        [[L: batch_not_full_at_exit]]
        r.is_ok() && options.items_per_slot >= 1 ==> final(items)@.len() < options.items_per_slot,
        [[L: batches_nonempty_bounded_one_chrom]]
        r.is_ok() && options.items_per_slot >= 1 && old(items)@.len() < options.items_per_slot
            && batches_ok(old(ftx).batches(), options.items_per_slot, chrom_id, options.compress)
            ==> batches_ok(final(ftx).batches(), options.items_per_slot, chrom_id, options.compress),
        [[L: history_stays_start_sorted]]
        r.is_ok() && starts_sorted(accepted(*old(ftx), old(items)@)) && all_start_le(accepted(*old(ftx), old(items)@), current_val.start)
            ==> starts_sorted(accepted(*final(ftx), final(items)@))
                && (next_val.is_some() ==> all_start_le(accepted(*final(ftx), final(items)@), next_val.unwrap().start)),
        [[L: emitted_batches_start_sorted]]
        r.is_ok() && starts_sorted(old(items)@) && all_start_le(old(items)@, current_val.start) && batches_sorted(old(ftx).batches())
            ==> batches_sorted(final(ftx).batches()) && starts_sorted(final(items)@)
                && (next_val.is_some() ==> all_start_le(final(items)@, next_val.unwrap().start)),
        [[L: chain_invariant_preserved]]
        r.is_ok() && chain_inv(*old(ftx), old(items)@, options.items_per_slot, chrom_id, options.compress)
            && all_start_le(accepted(*old(ftx), old(items)@), current_val.start)
            ==> chain_inv(*final(ftx), final(items)@, options.items_per_slot, chrom_id, options.compress)
                && (next_val.is_some() ==> all_start_le(accepted(*final(ftx), final(items)@), next_val.unwrap().start)),
        [[L: whole_chromosome_delivered_in_order]]
        r.is_ok() && next_val.is_none() && chain_inv(*old(ftx), old(items)@, options.items_per_slot, chrom_id, options.compress)
            ==> flat(final(ftx).batches()) == accepted(*old(ftx), old(items)@).push(current_val),
//@at /items\.push\(current_val\);/ before
    let ghost acc0 = accepted(*ftx, items@);
    let ghost items0 = items@;
    let ghost bs0 = ftx.batches();
    proof {
        assert(items@ == old(items)@ && ftx.log() == old(ftx).log() && ftx.batches() == old(ftx).batches()); [[L: no_mutation_before_validation_passes]]
    }
//@at /^\s*Ok\(\(\)\)\s*$/ before
    proof {
        let all = items0.push(current_val);
        assert(accepted(*ftx, items@) =~= acc0.push(current_val)); [[L: accepted_grows_by_exactly_current]]
        if starts_sorted(items0) && all_start_le(items0, current_val.start) {
            lemma_sorted_push(items0, current_val);
            if next_val.is_some() { lemma_le_push(items0, current_val, next_val.unwrap().start); }
        }
        if starts_sorted(acc0) && all_start_le(acc0, current_val.start) {
            lemma_sorted_push(acc0, current_val);
            if next_val.is_some() { lemma_le_push(acc0, current_val, next_val.unwrap().start); }
        }
        if next_val.is_none() || all.len() >= options.items_per_slot as int {
            let b = Batch { items: all, chrom: chrom_id, compress: options.compress };
            assert(bs0.push(b).drop_last() =~= bs0);
            assert(bs0.push(b).last() == b);
            assert((old(ftx).log() + items0).push(current_val) =~= old(ftx).log() + all);
        }
        if starts_sorted(acc0) && all_start_le(acc0, current_val.start) {
            lemma_sorted_suffix(old(ftx).log(), items0);
            lemma_le_suffix(old(ftx).log(), items0, current_val.start);
            lemma_sorted_push(items0, current_val);
        }
    }
//@end


// =====================================================================================
// (2) item counting: the two `do_process` methods
// =====================================================================================
/// zoom section channel: opaque here (unit bb_zoom)
#[verifier::external_body]
pub struct ZoomSink { _p: u8 }

//@extract struct bigtools/src/bbi/bigbedwrite.rs ZoomItem
//@rule R8
//@sub /IndexList<Value>/ => Overlap min=1
//@sub /BBIDataProcessoringInputSectionChannel/ => ZoomSink min=1
//@end
//@extract struct bigtools/src/bbi/bigbedwrite.rs EntriesSection
//@rule R8
//@sub /IndexList<Value>/ => Overlap min=1
//@end
//@extract struct bigtools/src/bbi/bigbedwrite.rs BigBedFullProcess
//@rule R8
//@sub /BBIDataProcessoringInputSectionChannel/ => SectionSink min=1
//@end
//@extract struct bigtools/src/bbi/bigbedwrite.rs ZoomCounts
//@rule R8
//@end
//@extract struct bigtools/src/bbi/bigbedwrite.rs BigBedNoZoomsProcess
//@rule R8
//@sub /IndexList<Value>/ => Overlap min=1
//@sub /BBIDataProcessoringInputSectionChannel/ => SectionSink min=1
//@end

// process_val_zoom: signature cut from the repository, body dropped (unit bb_zoom); no contract:
// it may return Err and may do anything to `zoom_items` (and nothing else, by its signature).
//@extract fn bigtools/src/bbi/bigbedwrite.rs process_val_zoom
//@rule R16
//@rule R1 min=1
//@skipbody
//@end

impl BigBedFullProcess {
//@extract method bigtools/src/bbi/bigbedwrite.rs do_process "BBIDataProcessor for BigBedFullProcess"
//@rule R16
//@rule R1 min=2
//@rule R5 min=1
//@sub /Self::Value/ => BedEntry min=2
//@ret r
//@sig
    requires
        [[L: full/pre]]
        old(self).total_items < u64::MAX,
    ensures
        [[L: full/counted_exactly_once]]
        final(self).total_items == old(self).total_items + 1,
        [[L: full/refused_input_is_err]]
        refused(current_val, next_val, old(self).length) ==> r.is_err()
            && final(self).state_val.items@ == old(self).state_val.items@
            && final(self).ftx.log() == old(self).ftx.log() && final(self).ftx.batches() == old(self).ftx.batches()
            && final(self).summary == old(self).summary && final(self).state_val.overlap == old(self).state_val.overlap
            && final(self).state_val.zoom_items@ == old(self).state_val.zoom_items@,
        [[L: full/accepted_input_is_kept]]
        !refused(current_val, next_val, old(self).length) ==>
            accepted(final(self).ftx, final(self).state_val.items@) == accepted(old(self).ftx, old(self).state_val.items@).push(current_val),
        [[L: full/chrom_end_flushes_everything]]
        !refused(current_val, next_val, old(self).length) && next_val.is_none() ==> final(self).state_val.items@.len() == 0,
        [[L: full/chain_invariant_preserved]]
        !refused(current_val, next_val, old(self).length)
            && chain_inv(old(self).ftx, old(self).state_val.items@, old(self).options.items_per_slot, old(self).chrom_id, old(self).options.compress)
            && all_start_le(accepted(old(self).ftx, old(self).state_val.items@), current_val.start)
            ==> chain_inv(final(self).ftx, final(self).state_val.items@, old(self).options.items_per_slot, old(self).chrom_id, old(self).options.compress)
                && (next_val.is_some() ==> all_start_le(accepted(final(self).ftx, final(self).state_val.items@), next_val.unwrap().start))
                && (next_val.is_none() ==> flat(final(self).ftx.batches()) == accepted(old(self).ftx, old(self).state_val.items@).push(current_val)),
        [[L: full/frame]]
        final(self).chrom_id == old(self).chrom_id, final(self).length == old(self).length,
        final(self).options == old(self).options,
//@end
}

/// R9 by hand: stands for the `for zoom in zoom_counts { .. }` loop of
/// BigBedNoZoomsProcess::do_process (iter_mut over a Vec cannot carry invariants); its body is
/// verified below as `zoom_count_step`.  No contract: touches only `zoom_counts`.
#[verifier::external_body]
fn zoom_counts_all(zoom_counts: &mut Vec<ZoomCounts>, item_start: u32, item_end: u32)
{ unimplemented!() }

impl BigBedNoZoomsProcess {
//@extract method bigtools/src/bbi/bigbedwrite.rs do_process "BBIDataProcessor for BigBedNoZoomsProcess"
//@rule R16
//@presub /for zoom in zoom_counts \{.*?\n        \}\n/ => zoom_counts_all(zoom_counts, item_start, item_end);\n min=1 count=1
//@rule R1 min=1
//@rule R5 min=1
//@sub /Self::Value/ => BedEntry min=2
//@ret r
//@sig
    requires
        [[L: nozooms/pre]]
        old(self).total_items < u64::MAX,
    ensures
        [[L: nozooms/counted_exactly_once]]
        final(self).total_items == old(self).total_items + 1,
        [[L: nozooms/err_iff_refused]]
        r.is_err() <==> refused(current_val, next_val, old(self).length),
        [[L: nozooms/refused_input_changes_no_data]]
        r.is_err() ==> final(self).items@ == old(self).items@
            && final(self).ftx.log() == old(self).ftx.log() && final(self).ftx.batches() == old(self).ftx.batches()
            && final(self).summary == old(self).summary && final(self).zoom_counts@ == old(self).zoom_counts@,
        [[L: nozooms/accepted_input_is_kept]]
        r.is_ok() ==> accepted(final(self).ftx, final(self).items@) == accepted(old(self).ftx, old(self).items@).push(current_val),
        [[L: nozooms/chrom_end_flushes_everything]]
        r.is_ok() && next_val.is_none() ==> final(self).items@.len() == 0,
        [[L: nozooms/chain_invariant_preserved]]
        r.is_ok()
            && chain_inv(old(self).ftx, old(self).items@, old(self).options.items_per_slot, old(self).chrom_id, old(self).options.compress)
            && all_start_le(accepted(old(self).ftx, old(self).items@), current_val.start)
            ==> chain_inv(final(self).ftx, final(self).items@, old(self).options.items_per_slot, old(self).chrom_id, old(self).options.compress)
                && (next_val.is_some() ==> all_start_le(accepted(final(self).ftx, final(self).items@), next_val.unwrap().start))
                && (next_val.is_none() ==> flat(final(self).ftx.batches()) == accepted(old(self).ftx, old(self).items@).push(current_val)),
        [[L: nozooms/frame]]
        final(self).chrom_id == old(self).chrom_id, final(self).length == old(self).length,
        final(self).options == old(self).options,
//@end
}


// =====================================================================================
// (3) zoom-count loop body of BigBedNoZoomsProcess::do_process (R9 outline by presub:
//     `loopbody` cannot address the second `do_process` of the file)
// =====================================================================================
/// number of tiles of width `res` laid from `ce` until `end` is reached
spec fn tiles(ce: int, end: int, res: int) -> int
    decreases (if end > ce { end - ce } else { 0 })
{
    if res > 0 && end > ce { 1 + tiles(ce + res, end, res) } else { 0 }
}
proof fn lemma_tiles_bound(ce: int, end: int, res: int)
    requires res > 0,
    ensures 0 <= tiles(ce, end, res) <= (if end > ce { end - ce } else { 0 }),
    decreases (if end > ce { end - ce } else { 0 })
{
    if end > ce { lemma_tiles_bound(ce + res, end, res); }
}
proof fn lemma_tiles_step(ce: int, end: int, res: int)
    requires res > 0, end > ce,
    ensures tiles(ce, end, res) == 1 + tiles(ce + res, end, res),
        ce + tiles(ce, end, res) * res == (ce + res) + tiles(ce + res, end, res) * res,
{
    let t = tiles(ce + res, end, res);
    assert((1 + t) * res == res + t * res) by (nonlinear_arith);
}

//@extract method bigtools/src/bbi/bigbedwrite.rs do_process "BBIDataProcessor for BigBedNoZoomsProcess"
//@rule R16
//@presub /\A.*?for zoom in zoom_counts \{(.*?)\n        \}\n.*\Z/ => fn zoom_count_step(zoom: &mut ZoomCounts, item_start: u32, item_end: u32) {\1\n} min=1 count=1
//@rule R5 min=3
//@sig
    requires
        [[L: zoomcount/pre]]
        0 < old(zoom).resolution <= u64::MAX / 4,
        old(zoom).counts <= u64::MAX - 0x1_0000_0001,
    ensures
        [[L: zoomcount/resolution_unchanged]]
        final(zoom).resolution == old(zoom).resolution,
        [[L: zoomcount/covers_item_end]]
        final(zoom).current_end >= item_end,
        [[L: zoomcount/counts_tiles_exactly]]
        ({
            let res = old(zoom).resolution as int;
            let fresh = item_start as int >= old(zoom).current_end as int;
            let ce1 = if fresh { item_start as int + res } else { old(zoom).current_end as int };
            let k = tiles(ce1, item_end as int, res);
            &&& final(zoom).counts as int == old(zoom).counts as int + (if fresh { 1int } else { 0int }) + k
            &&& final(zoom).current_end as int == ce1 + k * res
            &&& 0 <= k <= item_end
        }),
//@at /while item_end as u64 >=? zoom\.current_end/ before
            let ghost ce1 = zoom.current_end as int;
            let ghost c1 = zoom.counts as int;
            let ghost res = zoom.resolution as int;
            proof { lemma_tiles_bound(ce1, item_end as int, res); }
//@loop 1
                invariant
                    [[L: zoomcount/loop/frame]]
                    zoom.resolution == old(zoom).resolution, res == zoom.resolution as int,
                    0 < res <= u64::MAX / 4,
                    c1 <= old(zoom).counts + 1,
                    old(zoom).counts <= u64::MAX - 0x1_0000_0001,
                    [[L: zoomcount/loop/tiles_accounting]]
                    zoom.counts as int + tiles(zoom.current_end as int, item_end as int, res) == c1 + tiles(ce1, item_end as int, res),
                    zoom.current_end as int + tiles(zoom.current_end as int, item_end as int, res) * res == ce1 + tiles(ce1, item_end as int, res) * res,
                    0 <= tiles(ce1, item_end as int, res) <= item_end,
                    tiles(zoom.current_end as int, item_end as int, res) >= 0,
                decreases
                    [[L: zoomcount/loop/termination]]
                    (if item_end as int > zoom.current_end as int { item_end as int - zoom.current_end as int } else { 0int }),
//@at /zoom\.current_end = zoom\.current_end \+ \(zoom\.resolution\);/ before
                proof {
                    lemma_tiles_step(zoom.current_end as int, item_end as int, res); [[L: zoomcount/loop/one_more_tile_needed]]
                    lemma_tiles_bound(zoom.current_end as int + res, item_end as int, res);
                }
//@end

} // verus!
fn main() {}
