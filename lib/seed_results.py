#!/usr/bin/env python3
"""Runs the registered check of each seeded change's property against a scratch copy of /repo with the change applied
(the same machinery as ./check, VERIF_REPO=<copy>) and writes /verif/seeded/RESULTS.md."""
import json, os, re, shutil, subprocess, sys, concurrent.futures as cf
V = '/verif'
allseeds = sorted(d for d in os.listdir(V + '/seeded') if os.path.isdir(V + '/seeded/' + d))
# `seed_results.py` runs every seed; `seed_results.py <name|Cxx>...` re-runs only those (a bare property id selects all of
# its seeds) and merges them into the results kept in seeded/results.json, from which RESULTS.md is rewritten.
CACHE = V + '/seeded/results.json'
sel = sys.argv[1:]
seeds = [s for s in allseeds if not sel or s in sel or s.split('-')[0] in sel]
def run(name):
    d = V + '/seeded/' + name
    meta = json.load(open(d + '/meta.json'))
    prop = meta['property']
    scratch = '/var/tmp/seedres-%s' % name
    shutil.rmtree(scratch, ignore_errors=True)
    subprocess.check_call(['rsync', '-a', '--exclude', 'target', '--exclude', '.git', '/repo/', scratch + '/'])
    p = subprocess.run(['patch', '-p1', '--no-backup-if-mismatch', '-i', d + '/patch.diff'], cwd=scratch, stdout=subprocess.PIPE, stderr=subprocess.STDOUT, text=True)
    if p.returncode != 0:
        shutil.rmtree(scratch); return name, prop, 'n/a', ['patch no longer applies to /repo HEAD'], meta
    r = subprocess.run(['./check', prop], cwd=V, env=dict(os.environ, VERIF_REPO=scratch, VERIF_SCRATCH='/var/tmp'), stdout=subprocess.PIPE, stderr=subprocess.STDOUT, text=True)
    shutil.rmtree(scratch)
    lines = [l.strip() for l in r.stdout.split('\n') if 'failed obligation' in l or l.startswith('UNDECIDED')]
    return name, prop, r.returncode, lines, meta
with cf.ThreadPoolExecutor(int(os.environ.get('SEED_JOBS', '4'))) as ex:
    new = list(ex.map(run, seeds))
cache = json.load(open(CACHE)) if os.path.exists(CACHE) and sel else {}
for name, prop, rc, lines, meta in new:
    cache[name] = [prop, rc, lines]
cache = {k: v for k, v in cache.items() if k in allseeds}
json.dump(cache, open(CACHE, 'w'), indent=0, sort_keys=True)
res = [(n, cache[n][0], cache[n][1], cache[n][2], json.load(open(V + '/seeded/' + n + '/meta.json'))) for n in allseeds if n in cache]
out = ['# Seeded changes vs registered checks', '',
       'exit 1 = VIOLATION reported (caught); 0 = not caught; 2 = undecided (not caught). Regenerate: `python3 lib/seed_results.py`.', '',
       '| seed | property | what the change does (needs) | check exit | failing obligations / reason |', '|---|---|---|---|---|']
caught = 0
for name, prop, rc, lines, meta in res:
    if rc == 1: caught += 1
    what = (meta.get('what') or '')[:220].replace('|', '/').replace('\n', ' ')
    needs = (meta.get('needs') or '')[:160].replace('|', '/').replace('\n', ' ')
    fl = '<br>'.join(re.sub(r'\s+', ' ', l.replace('failed obligation: ', '').replace('|', '/'))[:170] for l in lines[:4]) or '-'
    out.append('| %s | %s | %s *(needs: %s)* | %s | %s |' % (name, prop, what, needs, rc, fl))
out += ['', 'caught: %d of %d' % (caught, len(res)), '']
notes = V + '/seeded/NOTES.md'
if os.path.exists(notes): out += [open(notes).read()]
open(V + '/seeded/RESULTS.md', 'w').write('\n'.join(out))
print('caught %d of %d' % (caught, len(res)))
for name, prop, rc, lines, meta in res: print(name, prop, rc, (lines[:1] or [''])[0][:120])
