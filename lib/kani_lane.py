"""Kani lane of ./check (DESIGN §3.1, §4): function contracts / complete harnesses proved on the
REAL crate, in place, insert-only.

A Kani unit is contracts/<unit>/kani.toml (+ kani_harness.rs, optional spec.rs, NOTES.md):

    name = "cmp_k"
    serves = ["C05", "C04"]
    file = "bigtools/src/bbi/bbiread.rs"     # source file the harness module is appended to
    crate_dir = "bigtools"                   # optional, where `cargo kani` runs (default "bigtools")
    harness_file = "kani_harness.rs"         # included as  #[cfg(kani)] mod verif_kani_<name> { include!(..); }
    max_cex = 1                              # optional: counterexample search for the first k failed harnesses only (default 3)
    module_path = ["parse", "parser"]         # optional: put that module inside this inline `mod a { mod b { .. } }`
                                             # (just before its closing brace) instead of at the end of the file —
                                             # needed when the items are private to a nested module

    [[contract]]                             # attribute lines inserted immediately above `fn <fn>`
    fn = "overlaps"                          # optional: within = "<regex on an impl header>"
    attrs = ["kani::requires(..)", "kani::ensures(|r: &bool| ..)"]   # each wrapped in #[cfg_attr(kani, ..)]

    [[anchor]]                               # fn exercised by a plain harness: presence + sha only
    fn = "next"
    within = "Iterator for CirTreeLeafItemIterator"

    [[harness]]
    name = "cmp_k_overlaps"                  # fn name inside harness_file
    label = "overlaps_iff_lexicographic"     # obligation id = <unit>/<label>
    tier = "quick"                           # "thorough" => only in the thorough tier
    kind = "contract"                        # contract | complete | bounded | termination
    bound = 0                                # for kind = "bounded"/"termination": reported, never counted
    termination_of = ["get_rtreeindex"]      # kind = "termination": loops of these fns carry the obligation
    consts = { n = "5usize", b = "2u32" }    # extra {name} substitutions for the replay template (not inputs)
    cbmc_args = ["--unwindset", "..."]       # passed after `--cbmc-args` (needs -Z unstable-options; added)
    timeout_s = 300
    flags = []                               # extra cargo-kani flags, e.g. ["-Z", "stubbing"]
    inputs = ["q:u32", "qs:u32"]             # the harness's kani::any() calls, in order (for playback decoding)
    cex_harness = "cmp_k_overlaps_cex"       # optional plain twin used only to extract concrete values
    replay_template = '''...{q}...{unit_dir}...'''   # body of  #[cfg(test)] mod verif_replay { .. }

contracts/<unit>/trusted.txt lists (one per line, text after the file:line prefix) every assumption-like
line the scan finds in the unit's *.rs files and contract attributes (kani::assume, kani::requires,
stubs, kani::unwind, ...); a scanned line that is not listed there => undecided.
spec.rs (optional) holds the plain-Rust statement shared by the harness (`include!("spec.rs")`) and
the replay templates (`include!("{unit_dir}/spec.rs")`).

kind = "termination" (a bounded harness whose obligation is "the call returns"): the harness fixes the
input size, and its #[kani::unwind(K)] is chosen so that on the pinned tree every loop has exited within
K iterations (the harness passing on /repo is what shows K suffices).  In THIS kind a failed
`unwinding assertion` of a loop located in one of the `termination_of` functions (any loop, if the list
is absent; a kind = "bounded" harness that sets `termination_of` gets the same treatment) is a FAILURE of the termination obligation — the loop was still running after K iterations
on an input for which it used to stop — not "undetermined".  Unwinding failures elsewhere (std, itertools,
the harness's own loops) stay undecided.  The replay template must carry its own watchdog (run the call in
a thread, report VERIF-REPLAY-REPRODUCED if it has not returned after a few seconds).

Verdicts: a Kani check with status FAILURE (other than unwinding / unsupported-construct
checks) in a selected harness is `failed` (class falsified).  Everything else that is not a
clean success — timeout, OOM, build error, lost/ambiguous anchor, add-only guard, reach-cover
not SATISFIED, UNDETERMINED, unwinding assertions, new un-audited assumption — is `undecided`.
"""
import concurrent.futures as cf
import difflib
import glob
import hashlib
import json
import os
import re
import shutil
import signal
import subprocess
import sys
import time

try:
    import tomllib
except ImportError:  # pragma: no cover
    tomllib = None

HERE = os.path.dirname(os.path.abspath(__file__))
VERIF = os.path.dirname(HERE)
sys.path.insert(0, HERE)

import rustlex  # noqa: E402
from rustlex import AnchorLost  # noqa: E402

CACHE = os.path.join(VERIF, '.cache', 'kani-target')       # the one persistent cache (deps only)
KANI_LOCK = os.path.join(VERIF, 'notes', 'Cargo.lock.kani-compatible')
BASE_FLAGS = ['--lib', '--no-default-features', '--features', 'read,write', '-Z', 'function-contracts']
DEFAULT_TIMEOUT = {'quick': 300, 'thorough': 1800}
MEM_KB = int(os.environ.get('VERIF_KANI_MEM_KB', str(24 * 1024 * 1024)))   # ulimit -v, 24 GB
JOBS = int(os.environ.get('VERIF_KANI_JOBS', '6'))
MAX_CEX_PER_UNIT = int(os.environ.get('VERIF_KANI_MAX_CEX', '3'))   # playback+replay is heavy: first few failed harnesses only
CEX_TIMEOUT = int(os.environ.get('VERIF_KANI_CEX_TIMEOUT', '900'))
REPLAY_MARK = 'VERIF-REPLAY-REPRODUCED'

# FAILURE checks that mean "the tool could not decide", not "the property is false"
UNDECIDED_CHECK = re.compile(r'unwinding assertion|recursion unwinding|not currently supported|unsupported|'
                             r'is not supported|unimplemented|Kani does not support', re.I)
SCAN_PATTERNS = ['kani::assume', 'kani::stub', 'stub_verified', 'kani::requires', 'kani::unwind', 'kani::solver',
                 'kani::should_panic', 'unsafe ']


# --------------------------------------------------------------------------------------------
# unit discovery

def _load(path):
    with open(path, 'rb') as f:
        u = tomllib.load(f)
    d = os.path.dirname(path)
    u.setdefault('name', os.path.basename(d))
    u['dir'] = d
    u.setdefault('serves', [])
    u.setdefault('crate_dir', 'bigtools')
    u.setdefault('harness_file', 'kani_harness.rs')
    u.setdefault('contract', [])
    u.setdefault('anchor', [])
    u.setdefault('harness', [])
    for h in u['harness']:
        h.setdefault('label', h['name'])
        h.setdefault('tier', 'quick')
        h.setdefault('kind', 'complete')
        h.setdefault('flags', [])
        h.setdefault('inputs', [])
        h.setdefault('consts', {})
        h.setdefault('cbmc_args', [])
    return u


def all_units():
    if tomllib is None:
        return []
    out = []
    for p in sorted(glob.glob(os.path.join(VERIF, 'contracts', '*', 'kani.toml'))):
        try:
            out.append(_load(p))
        except Exception as e:  # malformed unit: surfaces as an undecided unit, never silently dropped
            out.append({'name': os.path.basename(os.path.dirname(p)), 'dir': os.path.dirname(p), 'serves': ['*'],
                        'load_error': '%s: %s' % (type(e).__name__, e), 'harness': [], 'contract': [], 'anchor': []})
    return out


def _selected(unit, tier):
    return [h for h in unit['harness'] if h['tier'] == 'quick' or tier == 'thorough']


def units_for(prop, tier):
    res = []
    for u in all_units():
        if prop in u['serves'] or ('load_error' in u and '*' in u['serves']):
            if 'load_error' in u or _selected(u, tier):
                res.append(u)
    return res


def find_unit(name):
    for u in all_units():
        if u['name'] == name:
            return u
    return None


# --------------------------------------------------------------------------------------------
# helpers

def _modname(unit):
    return 'verif_kani_' + re.sub(r'[^A-Za-z0-9_]', '_', unit['name'])


def _qualified(unit, fn):
    """Fully qualified harness name as Kani prints it: <module path of file>::verif_kani_<unit>::<fn>."""
    rel = os.path.relpath(unit['file'], os.path.join(unit['crate_dir'], 'src'))
    parts = rel[:-3].split(os.sep) if rel.endswith('.rs') else rel.split(os.sep)
    if parts and parts[-1] in ('mod', 'lib', 'main'):
        parts = parts[:-1]
    return '::'.join(parts + list(unit.get('module_path') or []) + [_modname(unit), fn])


def _rsync(src, dst, extra=()):
    os.makedirs(dst, exist_ok=True)
    cmd = ['rsync', '-a', '--delete', '--exclude', 'target/', '--exclude', '.git/'] + list(extra) + [src.rstrip('/') + '/', dst.rstrip('/') + '/']
    p = subprocess.run(cmd, stdout=subprocess.PIPE, stderr=subprocess.STDOUT, text=True)
    return p.returncode == 0, p.stdout[-600:]


def _run(cmd, cwd, env, timeout, mem_kb=None):
    """Run cmd in its own process group with a wall-clock limit and an address-space cap.
    Returns (rc or None on timeout, output, seconds)."""
    t0 = time.time()
    if mem_kb:
        shcmd = 'ulimit -v %d 2>/dev/null; exec "$@"' % mem_kb
        argv = ['sh', '-c', shcmd, 'sh'] + cmd
    else:
        argv = cmd
    p = subprocess.Popen(argv, cwd=cwd, env=env, stdout=subprocess.PIPE, stderr=subprocess.STDOUT, text=True,
                         start_new_session=True, errors='replace')
    try:
        out, _ = p.communicate(timeout=timeout)
        rc = p.returncode
    except subprocess.TimeoutExpired:
        try:
            os.killpg(p.pid, signal.SIGKILL)   # the whole group (cargo-kani, kani-driver, cbmc); never pkill
        except OSError:
            pass
        try:
            out, _ = p.communicate(timeout=30)
        except Exception:
            out = ''
        rc = None
    return rc, out or '', time.time() - t0


def _env(extra=None):
    e = dict(os.environ, CARGO_NET_OFFLINE='true', RUST_BACKTRACE='0', CARGO_TERM_COLOR='never')
    e.pop('RUSTFLAGS', None)
    e.pop('CARGO_TARGET_DIR', None)
    if extra:
        e.update(extra)
    return e


# --------------------------------------------------------------------------------------------
# injection (insert-only) and the add-only guard

def _module_insert_offset(src, masked, path):
    """Offset (start of the line holding the closing brace) of the inline module a::b::.. in src."""
    lo, hi = 0, len(src)
    for name in path:
        found = None
        for m in re.finditer(r'\bmod\s+%s\s*\{' % re.escape(name), masked[lo:hi]):
            s0 = lo + m.start()
            depth = 0
            for ch in masked[lo:s0]:
                if ch == '{':
                    depth += 1
                elif ch == '}':
                    depth -= 1
            if depth == 0:
                found = lo + m.end() - 1
                break
        if found is None:
            raise AnchorLost('inline module `%s` (of module_path %s) not found' % (name, '::'.join(path)))
        cb = rustlex.match_close(masked, found)
        lo, hi = found + 1, cb
    ls = src.rfind('\n', 0, hi) + 1
    if src[ls:hi].strip():
        raise AnchorLost('closing brace of module %s does not start its line; cannot insert lines before it' % '::'.join(path))
    return ls, src[ls:hi]


def _add_module(src, masked, unit, text_lines):
    """Insert whole lines: at the end of the file, or just before the closing brace of unit['module_path']."""
    path = unit.get('module_path') or []
    if not path:
        return src + '\n' + ''.join(l + '\n' for l in text_lines)
    off, indent = _module_insert_offset(src, masked, path)
    body = ''.join(indent + '    ' + l + '\n' for l in text_lines)
    return src[:off] + '\n' + body + src[off:]


def inject(copy_root, units):
    """Insert contract attribute lines above anchored fns and append the harness modules.
    Returns (per-unit info, per-unit error).  Only ever ADDS lines."""
    info, errs = {}, {}
    by_file = {}
    for u in units:
        by_file.setdefault(u['file'], []).append(u)
    for rel, us in by_file.items():
        path = os.path.join(copy_root, rel)
        if not os.path.exists(path):
            for u in us:
                errs[u['name']] = 'anchor lost: source file %s does not exist' % rel
            continue
        src = open(path, encoding='utf-8').read()
        masked = rustlex.mask(src)
        inserts = []   # (offset, text)
        good = []
        for u in us:
            fns = []
            try:
                hf = os.path.join(u['dir'], u['harness_file'])
                if not os.path.exists(hf):
                    raise AnchorLost('harness file %s missing' % hf)
                for c in list(u['contract']) + list(u['anchor']):
                    a0, s, ob, cb = rustlex.find_fn(src, c['fn'], within=c.get('within'), masked=masked)
                    try:
                        rustlex.find_fn(src, c['fn'], within=c.get('within'), masked=masked, nth=2)
                        raise AnchorLost('ambiguous anchor: more than one fn %s%s' % (c['fn'], (' in impl /%s/' % c['within']) if c.get('within') else ''))
                    except AnchorLost as e:
                        if 'ambiguous' in str(e):
                            raise
                    ls = src.rfind('\n', 0, s) + 1
                    if src[ls:s].strip():
                        raise AnchorLost('fn %s does not start its line; cannot place attributes insert-only' % c['fn'])
                    indent = src[ls:s]
                    text = ''.join('%s#[cfg_attr(kani, %s)]\n' % (indent, a.strip()) for a in c.get('attrs', []))
                    if text:
                        inserts.append((ls, text))
                    fns.append({'fn': c['fn'], 'within': c.get('within'), 'contract': bool(c.get('attrs')),
                                'sha256': hashlib.sha256(src[s:cb + 1].encode()).hexdigest()})
                info[u['name']] = fns
                good.append(u)
            except AnchorLost as e:
                errs[u['name']] = 'anchor lost: %s' % e
        out = src
        for off, text in sorted(inserts, key=lambda x: -x[0]):
            out = out[:off] + text + out[off:]
        if not out.endswith('\n'):
            # appending after an unterminated last line would modify that line in a line diff
            for u in good:
                errs[u['name']] = 'add-only guard: %s does not end with a newline' % rel
            continue
        # nested-module insertions first (offsets refer to the text before appending), then end-of-file ones
        for u in sorted(good, key=lambda x: 0 if x.get('module_path') else 1):
            lines = ['#[cfg(kani)]', 'mod %s { include!("%s"); }' % (_modname(u), os.path.join(u['dir'], u['harness_file']))]
            try:
                out = _add_module(out, rustlex.mask(out), u, lines)
            except AnchorLost as e:
                errs[u['name']] = 'anchor lost: %s' % e
                info.pop(u['name'], None)
        open(path, 'w', encoding='utf-8').write(out)
    return info, errs


def add_only_guard(repo, copy_root):
    """Every difference between copy and repo must be a pure insertion of lines (Cargo.lock excepted:
    it is replaced by the Kani-compatible lock and listed as trusted).  Returns list of problems."""
    problems = []

    def walk(root):
        res = {}
        for dp, dn, fn in os.walk(root):
            if dp == root:
                dn[:] = [d for d in dn if d not in ('target', '.git')]
            for f in fn:
                p = os.path.join(dp, f)
                res[os.path.relpath(p, root)] = p
        return res
    a = walk(repo)
    b = walk(copy_root)
    for k in sorted(set(a) | set(b)):
        if k == 'Cargo.lock':
            continue
        if k not in b:
            problems.append('file missing in copy: %s' % k)
            continue
        if k not in a:
            problems.append('file only in copy: %s' % k)
            continue
        if os.path.islink(a[k]) or os.path.islink(b[k]):
            continue
        try:
            with open(a[k], 'rb') as f1, open(b[k], 'rb') as f2:
                x, y = f1.read(), f2.read()
        except OSError as e:
            problems.append('unreadable %s: %s' % (k, e))
            continue
        if x == y:
            continue
        xl = x.decode('utf-8', 'replace').splitlines(keepends=True)
        yl = y.decode('utf-8', 'replace').splitlines(keepends=True)
        sm = difflib.SequenceMatcher(None, xl, yl, autojunk=False)
        for tag, i1, i2, j1, j2 in sm.get_opcodes():
            if tag not in ('equal', 'insert'):
                problems.append('%s: hunk %s at repo lines %d-%d is not a pure addition' % (k, tag, i1 + 1, i2))
                break
    return problems


def scan_trusted(unit):
    """Every assumption-like construct in the unit's Rust files and contract attributes."""
    found = []
    for p in sorted(glob.glob(os.path.join(unit['dir'], '*.rs'))):
        for n, line in enumerate(open(p, encoding='utf-8'), 1):
            s = line.strip()
            if s.startswith('//'):
                continue
            for pat in SCAN_PATTERNS:
                if pat in s:
                    found.append('%s:%d: %s' % (os.path.basename(p), n, s[:200]))
                    break
    for c in unit['contract']:
        for a in c.get('attrs', []):
            if 'requires' in a or 'stub' in a or 'assume' in a:
                found.append('kani.toml: fn %s: %s' % (c['fn'], a.strip()[:200]))
    for h in unit['harness']:
        if any('stubbing' in f for f in h['flags']):
            found.append('kani.toml: harness %s uses -Z stubbing' % h['name'])
    return found


def check_trusted_list(unit, found):
    """New assumption not in contracts/<unit>/trusted.txt => undecided (DESIGN §4 honesty guard).
    Entries are compared without their file:line prefix so that moving code does not trip it."""
    p = os.path.join(unit['dir'], 'trusted.txt')
    if not os.path.exists(p):
        return ['trusted.txt missing for unit %s (audit list of assumptions)' % unit['name']] if found else []

    def norm(s):
        s = re.sub(r'^[\w.]+:\d+:\s*', '', s.strip())
        return re.sub(r'\s+', ' ', s)
    allowed = set(norm(l) for l in open(p, encoding='utf-8') if l.strip() and not (l.startswith('#') and not l.startswith('#[')))
    return ['assumption not in trusted.txt: %s' % f for f in found if norm(f) not in allowed]


# --------------------------------------------------------------------------------------------
# Kani output parsing

CHECK_RE = re.compile(r'^Check (\d+): (\S[^\n]*?)[ \t]*\n((?:[ \t]+- .*\n(?:(?![ \t]+- |Check \d+:|\n).*\n)*)+)', re.M)


def parse_kani(out):
    """Parse the regular (human) output of one harness run."""
    r = {'verdict': None, 'checks': [], 'n_failed': None, 'n_total': None, 'covers': None, 'time': 0.0}
    for m in CHECK_RE.finditer(out):
        body = m.group(3)
        st = re.search(r'- Status: (\w+)', body)
        de = re.search(r'- Description: "(.*?)"\n[ \t]+- Location:', body, re.S) or re.search(r'- Description: "(.*)"', body, re.S)
        lo = re.search(r'- Location: (.*)', body)
        r['checks'].append({'n': int(m.group(1)), 'id': m.group(2), 'status': st.group(1) if st else '?',
                            'description': (de.group(1) if de else '').strip(), 'location': (lo.group(1).strip() if lo else ''),
                            'span': (m.start(), m.end())})
    m = re.search(r'VERIFICATION:- (SUCCESSFUL|FAILED)', out)
    if m:
        r['verdict'] = m.group(1)
    m = re.search(r'\*\* (\d+) of (\d+) failed', out)
    if m:
        r['n_failed'], r['n_total'] = int(m.group(1)), int(m.group(2))
    m = re.search(r'\*\* (\d+) of (\d+) cover properties satisfied', out)
    if m:
        r['covers'] = (int(m.group(1)), int(m.group(2)))
    m = re.search(r'Verification Time: ([0-9.]+)s', out)
    if m:
        r['time'] = float(m.group(1))
    return r


def classify_run(rc, out, secs, timeout, harness):
    """-> dict(status ok|failed|undecided, why, checks(int), failures[list of check dicts], parsed)."""
    label = harness['label']
    if rc is None:
        return {'status': 'undecided', 'why': 'timeout after %ds' % timeout, 'checks': 0, 'failures': [], 'parsed': None}
    pr = parse_kani(out)
    low = out.lower()
    if pr['verdict'] is None:
        if 'bad_alloc' in low or 'out of memory' in low or 'cannot allocate memory' in low or rc in (-9, 137, -6, 134):
            why = 'out of memory / killed (rc=%s)' % rc
        elif re.search(r'^error(\[E\d+\])?:', out, re.M) or 'could not compile' in low:
            m = re.search(r'^error.*(?:\n.*){0,12}', out, re.M)
            why = 'build error: ' + (m.group(0)[:900] if m else out[-600:])
        elif 'no harnesses matched' in low or 'no proof harnesses' in low or '0 total' in low:
            why = 'harness %s not found by Kani' % harness['name']
        else:
            why = 'Kani produced no verdict (rc=%s): %s' % (rc, out[-500:])
        return {'status': 'undecided', 'why': why, 'checks': 0, 'failures': [], 'parsed': pr}
    props = [c for c in pr['checks'] if '.cover.' not in c['id'] and c['status'] not in ('SATISFIED', 'UNSATISFIABLE')]
    covers = [c for c in pr['checks'] if c not in props]
    fails = [c for c in props if c['status'] == 'FAILURE']
    genuine = [c for c in fails if not UNDECIDED_CHECK.search(c['description'])]
    soft = [c for c in fails if UNDECIDED_CHECK.search(c['description'])]
    if harness.get('kind') == 'termination' or harness.get('termination_of'):
        fns = harness.get('termination_of') or []
        nonterm = [c for c in soft if re.search(r'unwinding assertion|recursion unwinding', c['description'])
                   and (not fns or any(re.search(r'\b%s\b' % re.escape(f), c['location'] + ' ' + c['id']) for f in fns))]
        for c in nonterm:
            c['description'] = 'TERMINATION: still looping after the unwinding bound (%s) in %s' % (c['description'], c['location'][:160])
        genuine += nonterm
        soft = [c for c in soft if c not in nonterm]
        if nonterm:
            undet_ok = True
        else:
            undet_ok = False
    else:
        undet_ok = False
    undet = [c for c in props if c['status'] == 'UNDETERMINED']
    n = pr['n_total'] if pr['n_total'] is not None else len(props)
    res = {'checks': n, 'failures': genuine, 'parsed': pr, 'why': ''}
    if genuine:
        res['status'] = 'failed'
        return res
    if soft or (undet and not undet_ok):
        res['status'] = 'undecided'
        res['why'] = 'not decided by Kani: ' + '; '.join(sorted(set(c['description'][:80] for c in (soft + undet))))[:400]
        return res
    if pr['verdict'] != 'SUCCESSFUL':
        res['status'] = 'undecided'
        res['why'] = 'VERIFICATION FAILED without a FAILURE check: ' + out[-400:]
        return res
    reach = [c for c in covers if c['description'].startswith('reach_')]
    if not reach:
        res['status'] = 'undecided'
        res['why'] = 'vacuity guard: harness has no kani::cover!(true, "reach_%s")' % label
        return res
    bad = [c for c in reach if c['status'] != 'SATISFIED']
    if bad:
        res['status'] = 'undecided'
        res['why'] = 'precondition unsatisfiable: cover %s is %s' % (bad[0]['description'], bad[0]['status'])
        return res
    res['status'] = 'ok'
    return res


def render_failure(out, failures):
    parts = []
    for c in failures[:3]:
        a, b = c['span']
        parts.append(out[a:b].rstrip())
    m = re.search(r'SUMMARY:.*?VERIFICATION:- \w+', out, re.S)
    if m:
        parts.append(m.group(0))
    return ('\n'.join(parts))[:1500]


# --------------------------------------------------------------------------------------------
# concrete playback decoding

_INT = {'u8': (1, False), 'u16': (2, False), 'u32': (4, False), 'u64': (8, False), 'usize': (8, False), 'u128': (16, False),
        'i8': (1, True), 'i16': (2, True), 'i32': (4, True), 'i64': (8, True), 'isize': (8, True), 'i128': (16, True)}


def parse_playback(out):
    """-> list of (check class, check description, [bytes, ...]) one per generated unit test."""
    tests = []
    for m in re.finditer(r'Concrete playback unit test for `[^`]+`:\n```\n(.*?)\n```', out, re.S):
        blk = m.group(1)
        cm = re.search(r'/// Check for `(\w+)`: "(.*?)"\n\s*\n?#\[test\]', blk, re.S)
        vals = [[int(x) for x in v.replace(' ', '').split(',') if x != ''] for v in re.findall(r'vec!\[([0-9, ]*)\]', blk)]
        tests.append((cm.group(1) if cm else '?', cm.group(2).strip() if cm else '?', vals))
    return tests


def decode_inputs(spec, vals):
    """spec: ["name:type", ...] in kani::any() order.  Returns (values {name: rust literal}, readable {name: ..}) or None."""
    values, readable = {}, {}
    k = 0
    try:
        for item in spec:
            name, ty = [x.strip() for x in item.split(':', 1)]
            am = re.match(r'\[\s*(\w+)\s*;\s*(\d+)\s*\]$', ty)
            if am:
                ety, cnt = am.group(1), int(am.group(2))
                elems = []
                for _ in range(cnt):
                    lit, rd = _decode_scalar(ety, vals[k])
                    k += 1
                    elems.append(rd)
                values[name] = '[' + ', '.join('%s%s' % (e, ety if i == 0 else '') for i, e in enumerate(elems)) + ']'
                readable[name] = elems
            else:
                lit, rd = _decode_scalar(ty, vals[k])
                k += 1
                values[name] = lit
                readable[name] = rd
    except (IndexError, ValueError, KeyError):
        return None
    if k != len(vals):
        return None
    return values, readable


def _decode_scalar(ty, b):
    if ty == 'bool':
        if len(b) != 1:
            raise ValueError
        return ('true' if b[0] & 1 else 'false'), bool(b[0] & 1)
    if ty in ('f32', 'f64'):
        import struct
        n = 4 if ty == 'f32' else 8
        if len(b) != n:
            raise ValueError
        bits = int.from_bytes(bytes(b), 'little')
        x = struct.unpack('<f' if n == 4 else '<d', bytes(b))[0]
        return '%s::from_bits(0x%0*x)' % (ty, n * 2, bits), '%r (bits 0x%0*x)' % (x, n * 2, bits)
    n, signed = _INT[ty]
    if len(b) != n:
        raise ValueError
    v = int.from_bytes(bytes(b), 'little', signed=signed)
    return ('(%d%s)' % (v, ty) if v < 0 else '%d%s' % (v, ty)), v


# --------------------------------------------------------------------------------------------
# replay on the real code

def render_template(unit, harness, values):
    tpl = harness.get('replay_template')
    if not tpl and harness.get('replay_template_file'):
        tpl = open(os.path.join(unit['dir'], harness['replay_template_file']), encoding='utf-8').read()
    if not tpl:
        return None
    subs = dict(harness.get('consts') or {})
    subs.update(values)
    subs['unit_dir'] = unit['dir']
    missing = []

    def rep(m):
        k = m.group(1)
        if k in subs:
            return str(subs[k])
        return m.group(0)
    body = re.sub(r'\{([A-Za-z_][A-Za-z0-9_]*)\}', rep, tpl)
    for item in harness.get('inputs', []):
        nm = item.split(':', 1)[0].strip()
        if nm not in values:
            missing.append(nm)
    if missing:
        return None
    return body


def run_replay(unit, harness, values, repo, workdir, target=None):
    """Append #[cfg(test)] mod verif_replay to a fresh copy of `repo` (its own Cargo.lock, normal
    toolchain) and run it.  -> (True reproduced | False not reproduced | None could not run, text)."""
    body = render_template(unit, harness, values)
    if body is None:
        return None, 'no replay_template (or values missing) for harness %s' % harness['name']
    copy = os.path.join(workdir, 'replay-copy')
    ok, log = _rsync(repo, copy)
    if not ok:
        return None, 'rsync failed: ' + log
    path = os.path.join(copy, unit['file'])
    if not os.path.exists(path):
        return None, 'source file %s missing' % unit['file']
    src = open(path, encoding='utf-8').read()
    lines = ['#[cfg(test)]', '#[allow(unused, dead_code, clippy::all)]', 'mod verif_replay {'] + body.split('\n') + ['}']
    try:
        src = _add_module(src, rustlex.mask(src), unit, lines)
    except AnchorLost as e:
        return None, 'replay module could not be placed: %s' % e
    open(path, 'w', encoding='utf-8').write(src)
    cmd = ['cargo', 'test', '--lib', '--no-default-features', '--features', 'read,write', '--offline', 'verif_replay',
           '--', '--nocapture', '--test-threads', '1']
    env = _env({'CARGO_TARGET_DIR': target or os.path.join(workdir, 'replay-target')})
    rc, out, secs = _run(cmd, os.path.join(copy, unit['crate_dir']), env, 1200)
    lines = [l for l in out.split('\n') if 'VERIF-REPLAY' in l or l.startswith('test result') or l.startswith('error')]
    text = ('cargo test verif_replay (%.0fs): ' % secs) + ' | '.join(l.strip()[:400] for l in lines[:8])
    if rc is None:
        return None, 'replay timed out'
    if re.search(r'test result: FAILED', out) and REPLAY_MARK in out:
        return True, text
    if re.search(r'test result: ok\. [1-9]\d* passed', out):
        return False, text
    return None, 'replay could not be run: ' + (text if lines else out[-600:])


def replay(rec):
    """./check <prop> --replay <file> for driver 'kani:<unit>:<harness>'.  1 = reproduces, 0 = does not, 2 = cannot run."""
    try:
        _, uname, hname = rec['driver'].split(':', 2)
    except (KeyError, ValueError):
        print('replay: malformed driver %r' % rec.get('driver'))
        return 2
    unit = find_unit(uname)
    if not unit or 'load_error' in unit:
        print('replay: unit %s not found' % uname)
        return 2
    hs = [h for h in unit['harness'] if h['name'] == hname]
    if not hs:
        print('replay: harness %s not in unit %s' % (hname, uname))
        return 2
    inp = rec.get('input') or {}
    values = inp.get('values') if isinstance(inp, dict) else None
    if values is None:   # {} is legitimate: a harness without symbolic inputs (e.g. the empty section stream)
        print('replay: no concrete values recorded')
        return 2
    repo = os.environ.get('VERIF_REPO', '/repo')
    work = os.path.join(os.environ.get('VERIF_SCRATCH', '/var/tmp'), 'bt-verif-replay.%d' % os.getpid())
    os.makedirs(work, exist_ok=True)
    try:
        print('replaying %s/%s on %s with %s' % (uname, harness_label(hs[0]), repo, json.dumps(inp.get('readable', values))[:600]))
        got, text = run_replay(unit, hs[0], values, repo, work)
    finally:
        shutil.rmtree(work, ignore_errors=True)
    print(text)
    if got is None:
        return 2
    print('REPRODUCED on the real code' if got else 'not reproduced on this tree')
    return 1 if got else 0


def harness_label(h):
    return h.get('label', h['name'])


# --------------------------------------------------------------------------------------------
# target-dir cache (dependency artifacts only; bigtools itself is always rebuilt from the copy)

def _cache_key():
    h = hashlib.sha256()
    try:
        h.update(open(KANI_LOCK, 'rb').read())
    except OSError:
        pass
    try:
        h.update(subprocess.run(['cargo', 'kani', '--version'], stdout=subprocess.PIPE, stderr=subprocess.STDOUT, timeout=60).stdout)
    except Exception:
        pass
    return h.hexdigest()[:16]


def seed_target(run_target):
    """Copy cached dependency artifacts into the per-run target dir.  Returns True if seeded."""
    src = os.path.join(CACHE, 'kani')
    key = os.path.join(CACHE, '.key')
    if not (os.path.isdir(src) and os.path.exists(key) and open(key).read().strip() == _cache_key()):
        return False
    os.makedirs(run_target, exist_ok=True)
    p = subprocess.run(['cp', '-a', src, os.path.join(run_target, 'kani')], stdout=subprocess.PIPE, stderr=subprocess.STDOUT)
    return p.returncode == 0


def save_target(run_target):
    """First successful run (or after a toolchain/lock change): keep dependency artifacts, never bigtools'."""
    src = os.path.join(run_target, 'kani')
    if not os.path.isdir(src):
        return
    try:
        os.makedirs(CACHE, exist_ok=True)
        dst = os.path.join(CACHE, 'kani')
        p = subprocess.run(['rsync', '-a', '--delete', '--exclude', '*bigtools*', '--exclude', 'incremental/', src + '/', dst + '/'],
                           stdout=subprocess.PIPE, stderr=subprocess.STDOUT)
        if p.returncode == 0:
            open(os.path.join(CACHE, '.key'), 'w').write(_cache_key() + '\n')
    except OSError:
        pass


# --------------------------------------------------------------------------------------------
# the lane

def _blank(unit, why=None):
    r = {'unit': unit['name'], 'backend': 'kani', 'status': 'ok', 'cmd': '', 'obligations': 0, 'discharged': 0,
         'failed': [], 'undecided': [], 'bounded': [], 'harnesses': {}, 'functions_under_contract': [], 'trusted': [],
         'samples': [], 'solver_s': 0.0, 'wall': 0.0, 'serves': unit.get('serves', [])}
    if why:
        r['status'] = 'undecided'
        r['undecided'].append(why)
    return r


def _kani_cmd(unit, hname, target, extra=(), cbmc_args=()):
    cmd = ['cargo', 'kani'] + BASE_FLAGS + list(extra) + ['--target-dir', target, '--harness', _qualified(unit, hname), '--exact']
    if cbmc_args:   # must be the last flag
        cmd += ['-Z', 'unstable-options', '--cbmc-args'] + list(cbmc_args)
    return cmd


def run(prop, units, scratch, tier, repo):
    t_start = time.time()
    results = {u['name']: _blank(u) for u in units}
    order = [u['name'] for u in units]

    def done():
        for r in results.values():
            r['wall'] = round(time.time() - t_start, 2)
            if r['failed']:
                r['status'] = 'failed' if not r['undecided'] else 'failed+undecided'
            elif r['undecided']:
                r['status'] = 'undecided'
        return [results[n] for n in order]

    live = []
    for u in units:
        if 'load_error' in u:
            results[u['name']] = _blank(u, 'kani.toml could not be loaded: ' + u['load_error'])
        else:
            live.append(u)
    if tomllib is None:
        for u in live:
            results[u['name']]['undecided'].append('python tomllib unavailable')
        return done()
    if not live:
        return done()
    if shutil.which('cargo-kani') is None and subprocess.run(['cargo', 'kani', '--version'], stdout=subprocess.PIPE, stderr=subprocess.STDOUT).returncode != 0:
        for u in live:
            results[u['name']]['undecided'].append('cargo kani not installed')
        return done()

    # 1. scratch copy of the real crate + Kani-compatible lock
    os.makedirs(scratch, exist_ok=True)
    copy = os.path.join(scratch, 'kani-copy')
    ok, log = _rsync(repo, copy)
    if ok:
        try:
            shutil.copy(KANI_LOCK, os.path.join(copy, 'Cargo.lock'))
        except OSError as e:
            ok, log = False, str(e)
    if not ok:
        for u in live:
            results[u['name']]['undecided'].append('could not create scratch copy: ' + log)
        return done()

    # 2. insert-only injection, 3. add-only guard
    info, errs = inject(copy, live)
    for n, e in errs.items():
        results[n]['undecided'].append(e)
    live = [u for u in live if u['name'] not in errs]
    problems = add_only_guard(repo, copy)
    if problems:
        for u in live:
            results[u['name']]['undecided'].append('add-only guard failed: ' + '; '.join(problems[:4]))
        return done()
    lock_note = 'Cargo.lock of the scratch copy replaced by notes/Cargo.lock.kani-compatible (once_cell 1.21.3, tempfile 3.20.0 -> rustix 1.x; dependency versions only, no bigtools source change)'
    for u in live:
        r = results[u['name']]
        found = scan_trusted(u)
        r['trusted'] = [lock_note, 'Kani 0.68 / CBMC 6.11 (compiler, goto translation, SAT back end)'] + found
        for pb in check_trusted_list(u, found):
            r['undecided'].append(pb)
        r['functions_under_contract'] = ['%s:%s%s sha256=%s%s' % (u['file'], (f['within'] + '::') if f['within'] else '', f['fn'], f['sha256'][:16],
                                                                 '' if f['contract'] else ' (plain harness, no contract attribute)')
                                         for f in info.get(u['name'], [])]
    live = [u for u in live if not results[u['name']]['undecided']]
    if not live:
        return done()

    # 4. one serial build (dependencies + a type check of every injected harness)
    target = os.path.join(scratch, 'kani-target')
    seeded = seed_target(target)
    crate_dirs = sorted(set(u['crate_dir'] for u in live))
    env = _env()
    for cd in crate_dirs:
        cmd = ['cargo', 'kani'] + BASE_FLAGS + ['-Z', 'stubbing', '--target-dir', target, '--only-codegen']
        rc, out, secs = _run(cmd, os.path.join(copy, cd), env, 1800, MEM_KB)
        if rc != 0:
            m = re.search(r'^error.*(?:\n.*){0,14}', out, re.M)
            why = ('build timed out' if rc is None else 'build error (the crate or a harness does not compile under Kani): ' + (m.group(0)[:1200] if m else out[-800:]))
            for u in live:
                if u['crate_dir'] == cd:
                    results[u['name']]['undecided'].append(why)
    live = [u for u in live if not results[u['name']]['undecided']]
    if not live:
        return done()
    if not seeded:
        save_target(target)

    # 5. harnesses, in parallel
    jobs = []
    for u in live:
        sel = _selected(u, tier)
        hn = ' '.join('--harness %s' % h['name'] for h in sel)
        results[u['name']]['cmd'] = ('CARGO_NET_OFFLINE=true cargo kani %s %s   (in $SCRATCH/kani-copy/%s; %s + verif_kani module injected insert-only)'
                                     % (' '.join(BASE_FLAGS), hn, u['crate_dir'], u['file']))
        for h in sel:
            jobs.append((u, h))

    def one(job):
        u, h = job
        to = int(h.get('timeout_s') or DEFAULT_TIMEOUT[tier if h['tier'] == 'thorough' else 'quick'])
        # a loaded machine must not turn a passing harness into a time-out (= undecided, exit 2 on an unchanged tree):
        # the per-harness figure is the expected cost; the kill timer is a multiple of it
        to = int(to * float(os.environ.get('VERIF_TIMEOUT_FACTOR', '4')))
        cmd = _kani_cmd(u, h['name'], target, h['flags'], h['cbmc_args'])
        rc, out, secs = _run(cmd, os.path.join(copy, u['crate_dir']), env, to, MEM_KB)
        c = classify_run(rc, out, secs, to, h)
        c['seconds'] = round(secs, 2)
        c['out'] = out
        return c

    with cf.ThreadPoolExecutor(max_workers=max(1, JOBS)) as ex:
        outs = list(ex.map(one, jobs))

    # 6. verdicts, counterexamples, replay
    for (u, h), c in zip(jobs, outs):
        r = results[u['name']]
        pr = c.get('parsed')
        r['harnesses'][h['name']] = {'seconds': c['seconds'], 'checks': c['checks'], 'status': c['status'], 'label': h['label'],
                                     'kind': h['kind'], 'solver_s': pr['time'] if pr else None}
        r['solver_s'] += pr['time'] if pr else 0.0
        bounded = h['kind'] in ('bounded', 'termination')
        if bounded:
            r['bounded'].append({'harness': '%s/%s' % (u['name'], h['name']), 'bound': h.get('bound'), 'checks': c['checks'], 'status': c['status']})
        if c['status'] == 'undecided':
            r['undecided'].append('%s: %s' % (h['label'], c['why']))
            continue
        if not bounded:
            r['obligations'] += c['checks']
            r['discharged'] += c['checks'] - len(c['failures'])
        if pr and len(r['samples']) < 6:
            user = [k for k in pr['checks'] if ('contracts/' in k['location'] or 'closure' in k['id']) and '.cover.' not in k['id']
                    and not re.search(r'overflow|dereference|alloc|recursive|unreachable code|Only a single top-level|Check that|placeholder|pointer|^assertion failed', k['description'])]
            for k in user[:2]:
                r['samples'].append('%s/%s: %s' % (u['name'], h['label'], re.sub(r'\s+', ' ', k['description'])[:160]))
        if c['status'] == 'ok':
            continue
        descs = [re.sub(r'\s+', ' ', k['description']) for k in c['failures']]
        entry = {'obligation': '%s/%s' % (u['name'], h['label']), 'message': 'Kani FAILURE: ' + ' || '.join(descs)[:600],
                 'rendered': render_failure(c['out'], c['failures']), 'class': 'falsified', 'concrete': None,
                 'driver': 'kani:%s:%s' % (u['name'], h['name']), 'replay_reproduced': False, 'replay_result': 'no concrete values obtained',
                 'harness': h['name'], 'failed_checks': descs[:12]}
        r['failed'].append(entry)

    # counterexample extraction + replay (only for failed harnesses; serial: these are rare and heavy)
    for u in live:
        r = results[u['name']]
        for k, entry in enumerate(r['failed']):
            h = [x for x in u['harness'] if x['name'] == entry['harness']][0]
            if k >= int(u.get('max_cex', MAX_CEX_PER_UNIT)):
                entry['replay_result'] = 'counterexample search skipped (budget: first %d failed harnesses of a unit)' % int(u.get('max_cex', MAX_CEX_PER_UNIT))
                continue
            try:
                _counterexample(u, h, entry, copy, target, env, repo, scratch)
            except Exception as e:  # never let the cex search change a verdict
                entry['replay_result'] = 'counterexample search crashed: %s: %s' % (type(e).__name__, e)
    return done()


def _playback(u, hname, flags, copy, target, env, cbmc_args=()):
    cmd = _kani_cmd(u, hname, target, list(flags) + ['-Z', 'concrete-playback', '--concrete-playback=print'], cbmc_args)
    rc, out, secs = _run(cmd, os.path.join(copy, u['crate_dir']), env, CEX_TIMEOUT, MEM_KB)
    return (parse_playback(out) if rc is not None else []), secs, rc


def _candidates(tests, failed_descs):
    """Order playback tests: those generated for a check that failed in the deciding run first, then other
    property checks, then cover tests.  Kani de-duplicates generated tests by their VALUES, so a failing
    input that coincides with the reach-cover witness shows up only under the cover: cover inputs are
    therefore kept as (last) candidates — the replay on the real code decides whether an input fails."""
    norm = lambda d: re.sub(r'\s+', ' ', d).strip().strip('"')
    fd = set(norm(d) for d in failed_descs)
    a = [t for t in tests if t[0] != 'cover' and norm(t[1]) in fd and 'placeholder message' not in t[1]]
    b = [t for t in tests if t[0] != 'cover' and t not in a]
    c = [t for t in tests if t[0] == 'cover']
    seen, res = set(), []
    for t in a + b + c:
        k = json.dumps(t[2])
        if k not in seen:
            seen.add(k)
            res.append(t)
    return res


def _counterexample(u, h, entry, copy, target, env, repo, scratch):
    """Concrete values for a failed harness (Kani concrete playback), then replay on the real code."""
    spec = h.get('inputs') or []
    work = os.path.join(scratch, 'replay-%s-%s' % (u['name'], h['name']))
    rtarget = os.path.join(scratch, 'replay-target')
    sources = [h['cex_harness'], h['name']] if h.get('cex_harness') else [h['name']]
    first = None
    total = 0.0
    note = ''
    for src in sources:
        tests, secs, rc = _playback(u, src, h['flags'], copy, target, env, h['cbmc_args'])
        total += secs
        if rc is None:
            note = 'concrete playback of %s timed out after %ds' % (src, CEX_TIMEOUT)
        for cls, desc, vals in _candidates(tests, entry.get('failed_checks', []))[:3]:
            dec = decode_inputs(spec, vals)
            if dec is None:
                if first is None:
                    first = ({'harness': src, 'check': re.sub(r'\s+', ' ', desc)[:300], 'values': None, 'raw_bytes': vals,
                              'note': 'could not map playback bytes to the declared inputs %s' % spec},
                             False, 'playback values could not be decoded against `inputs`')
                continue
            values, readable = dec
            conc = {'harness': src, 'check': re.sub(r'\s+', ' ', desc)[:300], 'check_class': cls, 'values': values,
                    'readable': readable, 'playback_seconds': round(total, 1)}
            os.makedirs(work, exist_ok=True)
            got, text = run_replay(u, h, values, repo, work, rtarget)
            shutil.rmtree(work, ignore_errors=True)
            res = (conc, bool(got), text if got is not None else 'replay could not run: ' + text)
            if got:
                entry['concrete'], entry['replay_reproduced'], entry['replay_result'] = res
                return
            if first is None or first[0].get('values') is None:
                first = res
    if first is not None:
        entry['concrete'], entry['replay_reproduced'], entry['replay_result'] = first
        if first[0].get('values') is None:
            entry['concrete'] = None if not first[0].get('raw_bytes') else first[0]
    else:
        entry['replay_result'] = note or 'concrete playback gave no values (%.0fs)' % total


if __name__ == '__main__':   # python3 lib/kani_lane.py <prop> [tier]  — list what would run
    pr = sys.argv[1] if len(sys.argv) > 1 else 'C05'
    tr = sys.argv[2] if len(sys.argv) > 2 else 'quick'
    for un in units_for(pr, tr):
        print(un['name'], [x['name'] for x in _selected(un, tr)] if 'load_error' not in un else un['load_error'])
