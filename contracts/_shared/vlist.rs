// ---- shared shim: index_list::IndexList<Value> ---------------------------------
// `VList` stands for `index_list::IndexList<Value>` (a doubly linked list stored in a Vec,
// addressed by `ListIndex` slot handles), `VIndex` for `index_list::ListIndex`.
// ASSUMED sequential contract, for exactly the methods bigbedwrite.rs uses.  The list is
// viewed as `Seq<Value>` in list order.  A handle is not a position: `has(i)` says that the
// handle `i` names a live element of *this* list state and `pos(i)` which position it has;
// both are functions of the list state.  Only what is true of the real list is assumed:
//   * a handle obtained from first_index/next_index names a live element iff it `is_some()`;
//   * get_mut does not change the structure (same handles, same positions), only the element
//     that is handed out can change;
//   * insert_after(i, v) puts v right behind i and keeps i valid at the same position;
//   * insert_first/insert_last/remove_first are the obvious sequence operations; nothing is
//     said about handles after them (the code never keeps a handle across them).
// Requires `Value { start: u32, end: u32, value: f32 }` to be in scope (extract it first).
#[verifier::external_body]
pub struct VList { _p: u8 }
#[verifier::external_body]
#[derive(Copy, Clone)]
pub struct VIndex { _p: usize }
impl VIndex {
    pub uninterp spec fn some(&self) -> bool;
    #[verifier::external_body]
    pub fn is_some(&self) -> (r: bool)
        ensures r == self.some(),
    { unimplemented!() }
}
impl VList {
    pub uninterp spec fn view(&self) -> Seq<Value>;
    /// handle i names a live element of this list state
    pub uninterp spec fn has(&self, i: VIndex) -> bool;
    /// ... at this position (meaningful when has(i))
    pub uninterp spec fn pos(&self, i: VIndex) -> int;
    /// same handles at the same positions
    pub open spec fn same_shape(&self, o: &VList) -> bool {
        &&& forall|j: VIndex| #![trigger self.has(j)] #![trigger o.has(j)] self.has(j) == o.has(j)
        &&& forall|j: VIndex| #![trigger self.pos(j)] #![trigger o.pos(j)] self.pos(j) == o.pos(j)
    }

    #[verifier::external_body]
    pub fn new() -> (r: VList)
        ensures r@.len() == 0,
    { unimplemented!() }

    #[verifier::external_body]
    pub fn first_index(&self) -> (r: VIndex)
        ensures
            r.some() == (self@.len() > 0),
            r.some() ==> self.has(r) && self.pos(r) == 0,
    { unimplemented!() }

    #[verifier::external_body]
    pub fn next_index(&self, i: VIndex) -> (r: VIndex)
        ensures
            self.has(i) ==> r.some() == (self.pos(i) + 1 < self@.len()),
            self.has(i) && r.some() ==> self.has(r) && self.pos(r) == self.pos(i) + 1,
    { unimplemented!() }

    #[verifier::external_body]
    pub fn get_mut(&mut self, i: VIndex) -> (r: Option<&mut Value>)
        ensures
            r.is_some() == old(self).has(i),
            old(self).has(i) ==> 0 <= old(self).pos(i) < old(self)@.len(),
            r.is_some() ==> *r.unwrap() == old(self)@[old(self).pos(i)]
                && final(self)@ == old(self)@.update(old(self).pos(i), *final(r.unwrap())),
            r.is_none() ==> final(self)@ == old(self)@,
            final(self).same_shape(old(self)),
    { unimplemented!() }

    #[verifier::external_body]
    pub fn insert_after(&mut self, i: VIndex, v: Value) -> (r: VIndex)
        requires
            old(self).has(i),
        ensures
            final(self)@ == old(self)@.insert(old(self).pos(i) + 1, v),
            final(self).has(i) && final(self).pos(i) == old(self).pos(i),
    { unimplemented!() }

    #[verifier::external_body]
    pub fn get_first(&self) -> (r: Option<&Value>)
        ensures
            r.is_some() == (self@.len() > 0),
            r.is_some() ==> *r.unwrap() == self@[0],
    { unimplemented!() }

    #[verifier::external_body]
    pub fn get_last(&self) -> (r: Option<&Value>)
        ensures
            r.is_some() == (self@.len() > 0),
            r.is_some() ==> *r.unwrap() == self@[self@.len() - 1],
    { unimplemented!() }

    #[verifier::external_body]
    pub fn insert_last(&mut self, v: Value) -> (r: VIndex)
        ensures
            final(self)@ == old(self)@.push(v),
    { unimplemented!() }

    #[verifier::external_body]
    pub fn insert_first(&mut self, v: Value) -> (r: VIndex)
        ensures
            final(self)@ == seq![v] + old(self)@,
    { unimplemented!() }

    #[verifier::external_body]
    pub fn remove_first(&mut self) -> (r: Option<Value>)
        ensures
            r.is_some() == (old(self)@.len() > 0),
            r.is_some() ==> r.unwrap() == old(self)@[0] && final(self)@ == old(self)@.subrange(1, old(self)@.len() as int),
            r.is_none() ==> final(self)@ == old(self)@,
    { unimplemented!() }
}
