//@unit chrom_ids
//@serves C01 C02 C09
//@backend verus
// Who gets which chromosome id, and what a per-chromosome processor is built from.
//   utils/idmap.rs   IdMap::get_id                       -- ids are dense 0..n in FIRST-APPEARANCE order and never change
//   bbi/bbiwrite.rs  the three `do_read` closures of write_vals / write_vals_no_zoom / write_zoom_vals (R10 closure lift)
//                    setup_chrom (nested fn of write_vals), the `setup_chrom` closure of write_vals_no_zoom
//                    the zoom size list at the top of write_vals (carve-out, iterator chains desugared)
// C01/C02: "the chromosome table lists exactly the chromosomes that had data, in first-appearance order, with the
// sizes that were supplied": a chromosome that is refused (not in chrom_sizes) consumes NO id and sets up no channel;
// an accepted one gets `get_id(name)`, and the processor is created from (zoom channels, section channel, THAT id,
// the options, the runtime handle, THAT name, THE SUPPLIED size) -- each component in its slot.
// C09 (offsets and counts consistent): exactly one message per chromosome reaches the writer task, carrying the
// receiving ends of the SAME channel whose sending end the processor got; one zoom channel per zoom size, in
// order, the TempZoomInfo of size s carries the receiving ends of the channel paired with s.
use vstd::prelude::*;
verus! {

// =====================================================================================
// shims (R11): assumed contracts
// =====================================================================================
/// std::collections::HashMap<String, u32> seen through a ghost `view(): Map<Seq<char>, u32>`.
/// ASSUMED: `get` is a lookup by string contents; `entry(k).or_insert(v)` inserts (k, v) iff k is absent and
/// returns the value now stored under k.  Nothing else is assumed (the other methods have no postcondition).
#[verifier::external_body]
pub struct VMap { _p: u8 }
impl VMap {
    pub uninterp spec fn view(&self) -> Map<Seq<char>, u32>;
    #[verifier::external_body]
    pub fn get(&self, key: &str) -> (r: Option<&u32>)
        ensures r == (if self@.dom().contains(key@) { Some(&self@[key@]) } else { None::<&u32> }),
    { unimplemented!() }
    /// `*self.entry(key).or_insert(v)` (one call: the Entry API borrows the map across two calls)
    #[verifier::external_body]
    pub fn entry_or_insert(&mut self, key: String, v: u32) -> (r: &u32)
        ensures
            old(self)@.dom().contains(key@) ==> final(self)@ == old(self)@ && *r == old(self)@[key@],
            !old(self)@.dom().contains(key@) ==> final(self)@ == old(self)@.insert(key@, v) && *r == v,
    { unimplemented!() }
    /// HashMap::new / Default: empty
    #[verifier::external_body]
    pub fn new() -> (r: VMap) ensures r@ == Map::<Seq<char>, u32>::empty() { unimplemented!() }
    /// lookup by contents (ASSUMED, like `get`)
    #[verifier::external_body]
    pub fn contains_key(&self, key: &str) -> (r: bool) ensures r == self@.dom().contains(key@) { unimplemented!() }
    #[verifier::external_body]
    pub fn insert(&mut self, key: String, v: u32) -> Option<u32> { unimplemented!() }
    #[verifier::external_body]
    pub fn remove(&mut self, key: &str) -> Option<u32> { unimplemented!() }
    #[verifier::external_body]
    pub fn len(&self) -> usize { unimplemented!() }
}
#[verifier::external_body]
pub struct IoErr { _p: u8 }
/// `format!("Input bedGraph contains chromosome that isn't in the input chrom sizes: {}", chrom)`: text not modelled
#[verifier::external_body]
pub fn fmt_unknown_chrom(chrom: &String) -> String { unimplemented!() }

/// tokio Runtime / Handle: only handed on
#[verifier::external_body]
pub struct Runtime { _p: u8 }
#[verifier::external_body]
pub struct Handle { _p: u8 }
impl Runtime {
    pub uninterp spec fn h(&self) -> Handle;
    #[verifier::external_body]
    pub fn handle(&self) -> (r: &Handle) ensures *r == self.h() { unimplemented!() }
}
impl Clone for Handle {
    #[verifier::external_body]
    fn clone(&self) -> (r: Self) ensures r == *self { unimplemented!() }
}

// The four ends of ONE `future_channel` (bbiwrite.rs): each end has its own type, so they cannot be swapped,
// and a ghost `cid()` says which channel an end belongs to.  ASSUMED: the four ends returned by one call share
// their cid; the staging buffer is created with the given `inmemory` flag, the channel with the given capacity.
// (That two calls return different cids is NOT assumed and not needed.)
/// BBIDataProcessoringInputSectionChannel = futures mpsc Sender of encoder JoinHandles (the processor's end)
#[verifier::external_body]
pub struct Chan { _p: u8 }
/// tokio JoinHandle<Result<(usize, usize), ProcessDataError>> of the `write_data` task
#[verifier::external_body]
pub struct WriteHandle { _p: u8 }
/// TempFileBuffer<R>: the staging buffer the `write_data` task writes into
#[verifier::external_body]
#[verifier::reject_recursive_types(R)]
pub struct StageBuf<R> { _p: core::marker::PhantomData<R> }
/// crossbeam Receiver<Section>: the index records of the written blocks
#[verifier::external_body]
pub struct SecRecv { _p: u8 }
/// marker types for `R`: BufWriter<W> (data), TempFileBufferWriter<File> (zoom, single pass),
/// TempFileBufferWriter<BufWriter<W>> (zoom, second pass)
pub struct DataFile {}
pub struct ZoomFile {}
pub struct ZoomFile2 {}
impl Chan { pub uninterp spec fn cid(&self) -> int; pub uninterp spec fn capacity(&self) -> usize; }
impl WriteHandle { pub uninterp spec fn cid(&self) -> int; }
impl<R> StageBuf<R> { pub uninterp spec fn cid(&self) -> int; pub uninterp spec fn inmemory(&self) -> bool; }
impl SecRecv { pub uninterp spec fn cid(&self) -> int; }
#[verifier::external_body]
pub fn future_channel<R>(channel_size: usize, runtime: &Handle, inmemory: bool) -> (r: (Chan, WriteHandle, StageBuf<R>, SecRecv))
    ensures
        r.0.cid() == r.1.cid() && r.1.cid() == r.2.cid() && r.2.cid() == r.3.cid(),
        r.0.capacity() == channel_size, r.2.inmemory() == inmemory,
{ unimplemented!() }

/// futures mpsc UnboundedSender<M> towards the writer task: ASSUMED to append to a log in call order.
/// `.expect("Expected to always send.")`: the real call fails (and the code panics) only when the writer task is gone.
#[verifier::external_body]
#[verifier::reject_recursive_types(M)]
pub struct ChromTx<M> { _p: core::marker::PhantomData<M> }
pub struct SendRes {}
impl SendRes { pub fn expect(self, _m: &str) {} pub fn unwrap(self) {} }
impl<M> ChromTx<M> {
    pub uninterp spec fn sent(&self) -> Seq<M>;
    #[verifier::external_body]
    pub fn unbounded_send(&mut self, m: M) -> (r: SendRes)
        ensures final(self).sent() == old(self).sent().push(m),
    { unimplemented!() }
}

/// the log grew by exactly one message (the last one); everything before is untouched
pub open spec fn one_more<M>(before: Seq<M>, after: Seq<M>) -> bool {
    after.len() == before.len() + 1 && after == before.push(after.last())
}

// =====================================================================================
// the repository's types
// =====================================================================================
//@extract enum bigtools/src/bbi/bbiwrite.rs InputSortType
//@rule R8
//@end
//@extract struct bigtools/src/bbi/bbiwrite.rs BBIWriteOptions
//@rule R8
//@sub /#\[derive\(Clone\)\]\n/ => ""
//@end
/// `#[derive(Clone)]` of BBIWriteOptions: ASSUMED to return an equal value
impl Clone for BBIWriteOptions {
    #[verifier::external_body]
    fn clone(&self) -> (r: Self) ensures r == *self { unimplemented!() }
}
// thiserror attributes dropped; io::Error -> opaque IoErr
//@extract enum bigtools/src/bbi/bbiwrite.rs ProcessDataError
//@rule R8
//@sub /[ \t]*#\[error\([^\n]*\)\]\n/ => "" min=0
//@sub /#\[from\] io::Error/ => IoErr min=0
//@end
//@extract struct bigtools/src/bbi/bbiwrite.rs TempZoomInfo
//@rule R8
//@sub /tokio::task::JoinHandle<Result<\(usize, usize\), ProcessDataError>>/ => WriteHandle
//@sub /TempFileBuffer<TempFileBufferWriter<File>>/ => StageBuf<ZoomFile>
//@sub /crossbeam_channel::Receiver<Section>/ => SecRecv
//@end
//@extract type bigtools/src/bbi/bbiwrite.rs Data
//@sub /type Data<W>/ => pub type Data
//@sub /tokio::task::JoinHandle<Result<\(usize, usize\), ProcessDataError>>/ => WriteHandle
//@sub /TempFileBuffer<BufWriter<W>>/ => StageBuf<DataFile>
//@sub /crossbeam_channel::Receiver<Section>/ => SecRecv
//@end
//@extract type bigtools/src/bbi/bbiwrite.rs DataWithoutzooms
//@sub /type DataWithoutzooms<W>/ => pub type DataWithoutzooms
//@sub /tokio::task::JoinHandle<Result<\(usize, usize\), ProcessDataError>>/ => WriteHandle
//@sub /TempFileBuffer<BufWriter<W>>/ => StageBuf<DataFile>
//@sub /crossbeam_channel::Receiver<Section>/ => SecRecv
//@end
//@extract struct bigtools/src/bbi/bbiwrite.rs InternalTempZoomInfo
//@rule R8
//@sub /<W: Write \+ Send \+ Seek \+ 'static>/ => "" min=1
//@sub /tokio::task::JoinHandle<Result<\(usize, usize\), ProcessDataError>>/ => WriteHandle
//@sub /TempFileBuffer<TempFileBufferWriter<BufWriter<W>>>/ => StageBuf<ZoomFile2>
//@sub /crossbeam_channel::Receiver<Section>/ => SecRecv
//@end
// the three argument tuples of `create`
//@extract struct bigtools/src/bbi/bbiwrite.rs InternalProcessData
//@rule R8
//@sub /BBIDataProcessoringInputSectionChannel/ => Chan min=2
//@end
//@extract struct bigtools/src/bbi/bbiwrite.rs NoZoomsInternalProcessData
//@rule R8
//@sub /BBIDataProcessoringInputSectionChannel/ => Chan min=1
//@end
//@extract struct bigtools/src/bbi/bbiwrite.rs ZoomsInternalProcessData
//@rule R8
//@sub /<W: Write \+ Seek \+ Send \+ 'static>/ => "" min=1
//@sub /InternalTempZoomInfo<W>/ => InternalTempZoomInfo min=1
//@sub /BBIDataProcessoringInputSectionChannel/ => Chan min=1
//@end

/// `P: BBIDataProcessorCreate<I = InternalProcessData>`: the generic processor.  ASSUMED: `create` is a function of
/// its argument; the ghost `made_from()` remembers the argument (what the six real `create`s do with it: unit `create`).
#[verifier::external_body]
pub struct Proc { _p: u8 }
impl Proc {
    pub uninterp spec fn made_from(&self) -> InternalProcessData;
    #[verifier::external_body]
    pub fn create(internal_data: InternalProcessData) -> (p: Proc) ensures p.made_from() == internal_data { unimplemented!() }
}
#[verifier::external_body]
pub struct ProcNZ { _p: u8 }
impl ProcNZ {
    pub uninterp spec fn made_from(&self) -> NoZoomsInternalProcessData;
    #[verifier::external_body]
    pub fn create(internal_data: NoZoomsInternalProcessData) -> (p: ProcNZ) ensures p.made_from() == internal_data { unimplemented!() }
}
#[verifier::external_body]
pub struct ProcZ { _p: u8 }
impl ProcZ {
    pub uninterp spec fn made_from(&self) -> ZoomsInternalProcessData;
    #[verifier::external_body]
    pub fn create(internal_data: ZoomsInternalProcessData) -> (p: ProcZ) ensures p.made_from() == internal_data { unimplemented!() }
}

// =====================================================================================
// (a) IdMap::get_id
// =====================================================================================
// R11: HashMap<String, u32> -> VMap; a GHOST field `order` (the names in first-appearance order) is appended to
// the struct: it is what the contract talks about and has no run-time existence.
//@extract struct bigtools/src/utils/idmap.rs IdMap
//@rule R8
//@sub /HashMap<String, u32>/ => VMap min=1
//@sub /^(\s+)(map|next_id):/ => \1pub \2: min=0
//@sub /(next_id: u32,)/ => \1\n    pub order: Ghost<Seq<Seq<char>>>, min=1
//@end

impl IdMap {
    /// the ids are exactly 0..n, `order[i]` is the name with id i, the map knows exactly those names
    pub open spec fn wf(&self) -> bool {
        &&& self.next_id as int == self.order@.len()
        &&& forall|k: Seq<char>| #![trigger self.map@.dom().contains(k)] #![trigger self.order@.contains(k)] self.map@.dom().contains(k) <==> self.order@.contains(k)
        &&& forall|i: int| 0 <= i < self.order@.len() ==> self.map@.dom().contains(#[trigger] self.order@[i]) && self.map@[self.order@[i]] as int == i
    }
    pub open spec fn knows(&self, k: Seq<char>) -> bool { self.map@.dom().contains(k) }

//@extract method bigtools/src/utils/idmap.rs has_id "^impl IdMap$"
//@rule R16
//@optional
//@ret r
//@sig
    ensures
        [[L: says_whether_the_name_already_has_an_id]]
        r == self.knows(key@),
//@end

//@extract method bigtools/src/utils/idmap.rs get_id "^impl IdMap$"
//@rule R16
//@rule R5
//@sub /\*self\.map\.entry\((.*?)\)\.or_insert\(([^()]*)\)/ => *self.map.entry_or_insert(\1, \2) min=0
//@ret r
//@sig
    requires
        [[L: pre_well_formed]]
        old(self).wf(),
        [[L: pre_fewer_than_2_pow_32_names]]
        !old(self).knows(key@) ==> old(self).next_id < u32::MAX,
    ensures
        [[L: stays_well_formed]]
        final(self).wf(),
        [[L: known_name_keeps_its_id_and_nothing_changes]]
        old(self).knows(key@) ==> r == old(self).map@[key@] && final(self).map@ == old(self).map@
            && final(self).order@ == old(self).order@ && final(self).next_id == old(self).next_id,
        [[L: new_name_gets_the_next_id_and_is_appended_to_the_order]]
        !old(self).knows(key@) ==> r == old(self).next_id && final(self).order@ == old(self).order@.push(key@)
            && final(self).map@ == old(self).map@.insert(key@, r) && final(self).next_id == old(self).next_id + 1,
        [[L: returned_id_names_the_key]]
        0 <= (r as int) < final(self).order@.len() && final(self).order@[r as int] == key@,
        [[L: earlier_ids_never_change]]
        old(self).order@.is_prefix_of(final(self).order@),
//@at /return \*id;/ before
            proof {
                assert(self.order@.contains(key@));
                let i = choose|i: int| 0 <= i < self.order@.len() && self.order@[i] == key@;
                assert(self.map@[self.order@[i]] as int == i);
            }
//@at /entry_or_insert/ after
        self.order = Ghost(self.order@.push(key@));
        proof {
            let o0 = old(self).order@;
            let o1 = self.order@;
            assert(o1[o0.len() as int] == key@);
            [[L: stays_well_formed/map_knows_exactly_the_names_in_the_order]]
            assert forall|k: Seq<char>| #![trigger self.map@.dom().contains(k)] #![trigger o1.contains(k)] self.map@.dom().contains(k) <==> o1.contains(k) by {
                if o1.contains(k) {
                    let j = choose|j: int| 0 <= j < o1.len() && o1[j] == k;
                    if j < o0.len() { assert(o0[j] == k); assert(o0.contains(k)); }
                }
                if self.map@.dom().contains(k) && k != key@ {
                    assert(o0.contains(k));
                    let j = choose|j: int| 0 <= j < o0.len() && o0[j] == k;
                    assert(o1[j] == k);
                }
            }
            [[L: stays_well_formed/id_of_every_name_is_its_position_in_the_order]]
            assert forall|i: int| 0 <= i < o1.len() implies self.map@.dom().contains(#[trigger] o1[i]) && self.map@[o1[i]] as int == i by {
                if i < o0.len() { assert(o1[i] == o0[i]); assert(o0.contains(o0[i])); }
            }
        }
//@end
}

// =====================================================================================
// (c) channel set-up per chromosome
// =====================================================================================
/// zoom info `zi` and processor-side channel `zc` both carry `size` and are ends of the same channel
pub open spec fn zoom_pair(zi: TempZoomInfo, zc: (u32, Chan), size: u32, inmemory: bool) -> bool {
    &&& zi.resolution == size && zc.0 == size
    &&& zi.data_write_future.cid() == zc.1.cid() && zi.data.cid() == zc.1.cid() && zi.sections.cid() == zc.1.cid()
    &&& zi.data.inmemory() == inmemory
}
pub open spec fn zooms_paired(zis: Seq<TempZoomInfo>, zcs: Seq<(u32, Chan)>, sizes: Seq<u32>, inmemory: bool) -> bool {
    &&& zis.len() == sizes.len() && zcs.len() == sizes.len()
    &&& forall|k: int| 0 <= k < sizes.len() ==> zoom_pair(#[trigger] zis[k], zcs[k], sizes[k], inmemory)
}
pub open spec fn zoom_pair2(zi: InternalTempZoomInfo, zc: (u32, Chan), size: u32, inmemory: bool) -> bool {
    &&& zi.resolution == size && zc.0 == size
    &&& zi.data_write_future.cid() == zc.1.cid() && zi.data.cid() == zc.1.cid() && zi.sections.cid() == zc.1.cid()
    &&& zi.data.inmemory() == inmemory
}
pub open spec fn zooms_paired2(zis: Seq<InternalTempZoomInfo>, zcs: Seq<(u32, Chan)>, sizes: Seq<u32>, inmemory: bool) -> bool {
    &&& zis.len() == sizes.len() && zcs.len() == sizes.len()
    &&& forall|k: int| 0 <= k < sizes.len() ==> zoom_pair2(#[trigger] zis[k], zcs[k], sizes[k], inmemory)
}
/// the message's three data ends belong to the channel whose sending end is `ftx`
pub open spec fn data_ends(m0: SecRecv, m1: StageBuf<DataFile>, m2: WriteHandle, ftx: Chan, inmemory: bool) -> bool {
    m0.cid() == ftx.cid() && m1.cid() == ftx.cid() && m2.cid() == ftx.cid() && m1.inmemory() == inmemory
}

//@extract fn bigtools/src/bbi/bbiwrite.rs setup_chrom
//@rule R16
//@rule R7
//@sub /<W: Write \+ Seek \+ Send \+ 'static>/ => "" min=1
//@sub /tokio::task::JoinHandle<Result<\(usize, usize\), ProcessDataError>>/ => WriteHandle min=1
//@sub /TempFileBuffer<BufWriter<W>>/ => StageBuf<DataFile> min=1
//@sub /crossbeam_channel::Receiver<Section>/ => SecRecv min=1
//@sub /futures_mpsc::UnboundedSender</ => ChromTx< min=1
//@sub /BBIDataProcessoringInputSectionChannel/ => Chan min=2
//@ret r
//@sig
    ensures
        [[L: setup/exactly_one_message_to_the_writer_task]]
        one_more(old(send).sent(), final(send).sent()),
        [[L: setup/message_carries_the_receiving_ends_of_the_returned_section_channel]]
        data_ends(final(send).sent().last().0, final(send).sent().last().1, final(send).sent().last().2, r.1, options.inmemory),
        [[L: setup/one_zoom_channel_per_zoom_size_in_order_each_paired_with_its_size]]
        zooms_paired(final(send).sent().last().3@, r.0@, zoom_sizes@, options.inmemory),
        [[L: setup/channel_capacity_from_the_options]]
        r.1.capacity() == options.channel_size,
//@loop 1
                invariant
                    [[L: setup/loop/one_pair_per_size_so_far_in_order]]
                    zoom_infos@.len() == i__1, zooms_channels@.len() == i__1,
                    forall|k: int| 0 <= k < i__1 ==> zoom_pair(#[trigger] zoom_infos@[k], zooms_channels@[k], zoom_sizes@[k], options.inmemory),
//@end

//@extract closure bigtools/src/bbi/bbiwrite.rs write_vals_no_zoom setup_chrom
//@rule R16
//@header fn setup_chrom_no_zoom(send: &mut ChromTx<DataWithoutzooms>, options: &BBIWriteOptions, runtime: &Runtime) -> Chan
//@ret r
//@sig
    ensures
        [[L: setup_no_zoom/exactly_one_message_to_the_writer_task]]
        one_more(old(send).sent(), final(send).sent()),
        [[L: setup_no_zoom/message_carries_the_receiving_ends_of_the_returned_section_channel]]
        data_ends(final(send).sent().last().0, final(send).sent().last().1, final(send).sent().last().2, r, options.inmemory),
        [[L: setup_no_zoom/channel_capacity_from_the_options]]
        r.capacity() == options.channel_size,
//@end

// =====================================================================================
// (b) the three do_read closures
// =====================================================================================
/// what every accepted chromosome must see: the id map after the call
pub open spec fn id_given(before: IdMap, after: IdMap, name: Seq<char>, id: u32) -> bool {
    &&& after.wf()
    &&& before.order@.is_prefix_of(after.order@)
    &&& 0 <= (id as int) < after.order@.len() && after.order@[id as int] == name
    &&& before.knows(name) ==> after.order@ == before.order@ && id == before.map@[name]
    &&& !before.knows(name) ==> after.order@ == before.order@.push(name) && id == before.next_id
}

//@extract closure bigtools/src/bbi/bbiwrite.rs write_vals do_read
//@rule R16
//@header fn do_read_write_vals(chrom: String, chrom_sizes: &VMap, chrom_ids: &mut IdMap, mut send: &mut ChromTx<Data>, options: &BBIWriteOptions, runtime: &Runtime, zoom_sizes: &Vec<u32>) -> Result<Proc, ProcessDataError>
//@sub /format!\(\s*"[^"]*",\s*chrom\s*\)/ => fmt_unknown_chrom(&chrom) min=0
//@sub /crate::InternalProcessData\(/ => InternalProcessData( min=0
//@sub /P::create\(/ => Proc::create( min=0
//@ret r
//@sig
    requires
        [[L: vals/pre_id_map_well_formed]]
        old(chrom_ids).wf(),
        [[L: vals/pre_fewer_than_2_pow_32_chromosomes]]
        old(chrom_ids).next_id < u32::MAX,
    ensures
        [[L: vals/refused_exactly_when_the_chromosome_has_no_supplied_size_or_starts_a_second_run]]
        r is Err <==> (!chrom_sizes@.dom().contains(chrom@) || old(chrom_ids).knows(chrom@)),
        [[L: vals/a_chromosome_that_starts_a_second_run_is_refused]]
        old(chrom_ids).knows(chrom@) ==> r is Err,
        [[L: vals/refusal_of_a_chromosome_without_supplied_size_is_invalid_chromosome]]
        r matches Err(e) ==> (!chrom_sizes@.dom().contains(chrom@) ==> e is InvalidChromosome),
        [[L: vals/refusal_of_a_second_run_is_invalid_input]]
        r matches Err(e) ==> (chrom_sizes@.dom().contains(chrom@) ==> e is InvalidInput),
        [[L: vals/accepted_chromosome_is_new_and_gets_the_next_fresh_id]]
        r matches Ok(p) ==> !old(chrom_ids).knows(chrom@) && p.made_from().2 == old(chrom_ids).next_id
            && p.made_from().2 as int == old(chrom_ids).order@.len() && final(chrom_ids).order@ == old(chrom_ids).order@.push(chrom@),
        [[L: vals/refused_chromosome_consumes_no_id]]
        r is Err ==> final(chrom_ids).map@ == old(chrom_ids).map@ && final(chrom_ids).order@ == old(chrom_ids).order@
            && final(chrom_ids).next_id == old(chrom_ids).next_id,
        [[L: vals/refused_chromosome_sets_up_no_channel]]
        r is Err ==> final(send).sent() == old(send).sent(),
        [[L: vals/id_is_first_appearance_index_of_the_name]]
        r matches Ok(p) ==> id_given(*old(chrom_ids), *final(chrom_ids), chrom@, p.made_from().2),
        [[L: vals/length_is_the_supplied_size]]
        r matches Ok(p) ==> p.made_from().6 == chrom_sizes@[chrom@],
        [[L: vals/name_is_the_chromosome]]
        r matches Ok(p) ==> p.made_from().5@ == chrom@,
        [[L: vals/options_and_runtime_handed_on]]
        r matches Ok(p) ==> p.made_from().3 == *options && p.made_from().4 == runtime.h(),
        [[L: vals/exactly_one_message_to_the_writer_task]]
        r is Ok ==> one_more(old(send).sent(), final(send).sent()),
        [[L: vals/processor_sends_into_the_channel_the_writer_task_reads]]
        r matches Ok(p) ==> data_ends(final(send).sent().last().0, final(send).sent().last().1, final(send).sent().last().2, p.made_from().1, options.inmemory),
        [[L: vals/one_zoom_channel_per_zoom_size_in_order_each_paired_with_its_size]]
        r matches Ok(p) ==> zooms_paired(final(send).sent().last().3@, p.made_from().0@, zoom_sizes@, options.inmemory),
//@end

//@extract closure bigtools/src/bbi/bbiwrite.rs write_vals_no_zoom do_read
//@rule R16
//@header fn do_read_write_vals_no_zoom(chrom: String, chrom_sizes: &VMap, chrom_ids: &mut IdMap, send: &mut ChromTx<DataWithoutzooms>, options: &BBIWriteOptions, runtime: &Runtime) -> Result<ProcNZ, ProcessDataError>
//@sub /format!\(\s*"[^"]*",\s*chrom\s*\)/ => fmt_unknown_chrom(&chrom) min=0
//@sub /setup_chrom\(\)/ => setup_chrom_no_zoom(send, options, runtime) min=0
//@sub /P::create\(/ => ProcNZ::create( min=0
//@ret r
//@sig
    requires
        [[L: no_zoom/pre_id_map_well_formed]]
        old(chrom_ids).wf(),
        [[L: no_zoom/pre_fewer_than_2_pow_32_chromosomes]]
        old(chrom_ids).next_id < u32::MAX,
    ensures
        [[L: no_zoom/refused_exactly_when_the_chromosome_has_no_supplied_size_or_starts_a_second_run]]
        r is Err <==> (!chrom_sizes@.dom().contains(chrom@) || old(chrom_ids).knows(chrom@)),
        [[L: no_zoom/a_chromosome_that_starts_a_second_run_is_refused]]
        old(chrom_ids).knows(chrom@) ==> r is Err,
        [[L: no_zoom/refusal_of_a_chromosome_without_supplied_size_is_invalid_chromosome]]
        r matches Err(e) ==> (!chrom_sizes@.dom().contains(chrom@) ==> e is InvalidChromosome),
        [[L: no_zoom/refusal_of_a_second_run_is_invalid_input]]
        r matches Err(e) ==> (chrom_sizes@.dom().contains(chrom@) ==> e is InvalidInput),
        [[L: no_zoom/accepted_chromosome_is_new_and_gets_the_next_fresh_id]]
        r matches Ok(p) ==> !old(chrom_ids).knows(chrom@) && p.made_from().1 == old(chrom_ids).next_id
            && p.made_from().1 as int == old(chrom_ids).order@.len() && final(chrom_ids).order@ == old(chrom_ids).order@.push(chrom@),
        [[L: no_zoom/refused_chromosome_consumes_no_id]]
        r is Err ==> final(chrom_ids).map@ == old(chrom_ids).map@ && final(chrom_ids).order@ == old(chrom_ids).order@
            && final(chrom_ids).next_id == old(chrom_ids).next_id,
        [[L: no_zoom/refused_chromosome_sets_up_no_channel]]
        r is Err ==> final(send).sent() == old(send).sent(),
        [[L: no_zoom/id_is_first_appearance_index_of_the_name]]
        r matches Ok(p) ==> id_given(*old(chrom_ids), *final(chrom_ids), chrom@, p.made_from().1),
        [[L: no_zoom/length_is_the_supplied_size]]
        r matches Ok(p) ==> p.made_from().5 == chrom_sizes@[chrom@],
        [[L: no_zoom/name_is_the_chromosome]]
        r matches Ok(p) ==> p.made_from().4@ == chrom@,
        [[L: no_zoom/options_and_runtime_handed_on]]
        r matches Ok(p) ==> p.made_from().2 == *options && p.made_from().3 == runtime.h(),
        [[L: no_zoom/exactly_one_message_to_the_writer_task]]
        r is Ok ==> one_more(old(send).sent(), final(send).sent()),
        [[L: no_zoom/processor_sends_into_the_channel_the_writer_task_reads]]
        r matches Ok(p) ==> data_ends(final(send).sent().last().0, final(send).sent().last().1, final(send).sent().last().2, p.made_from().0, options.inmemory),
//@end

// -------------------------------------------------------------------------------------
// C01/C02 over ANY sequence of chromosome names: the driver below feeds names to the extracted `do_read` of
// write_vals the way `process_to_bbi` does (one call per chromosome run, stop at the first refusal), starting from
// the empty id map (`IdMap::default()`: derive(Default) = empty map, next_id 0 -- ASSUMED, modelled by the literal
// below).  Nothing is re-implemented; Verus checks the loop against do_read's contract for all name sequences.
// -------------------------------------------------------------------------------------
pub open spec fn names_of(v: Seq<String>) -> Seq<Seq<char>> { Seq::new(v.len(), |k: int| v[k]@) }
pub open spec fn appears_before(names: Seq<String>, k: int) -> bool { exists|j: int| 0 <= j < k && names[j]@ == names[k]@ }
fn driver_chromosome_table(names: &Vec<String>, chrom_sizes: &VMap, send: &mut ChromTx<Data>, options: &BBIWriteOptions, runtime: &Runtime, zoom_sizes: &Vec<u32>)
    -> (r: (IdMap, usize, Ghost<Seq<u32>>))
    requires
        names@.len() < u32::MAX,
    ensures
        [[L: table/stops_at_the_first_chromosome_without_a_supplied_size_or_that_starts_a_second_run]]
        r.1 <= names@.len(),
        forall|k: int| 0 <= k < r.1 ==> chrom_sizes@.dom().contains(#[trigger] names@[k]@),
        r.1 < names@.len() ==> (!chrom_sizes@.dom().contains(names@[r.1 as int]@) || appears_before(names@, r.1 as int)),
        [[L: table/lists_exactly_the_accepted_chromosomes_in_first_appearance_order]]
        r.0.wf(),
        r.0.order@ == names_of(names@.subrange(0, r.1 as int)),
        [[L: table/one_run_per_chromosome_id]]
        r.0.order@.len() == r.1 && r.0.next_id == r.1,
        forall|a: int, b: int| 0 <= a < b < r.1 ==> names@[a]@ != names@[b]@,
        [[L: table/every_processor_got_the_id_of_its_name_and_the_supplied_size]]
        r.2@.len() == r.1,
        forall|k: int| 0 <= k < r.1 ==> (#[trigger] r.2@[k]) as int == k && r.0.order@[k] == names@[k]@,
        [[L: table/one_message_per_accepted_chromosome_run]]
        final(send).sent().len() == old(send).sent().len() + r.1,
{
    let mut ids = IdMap { map: VMap::new(), next_id: 0, order: Ghost(Seq::empty()) };
    let mut k: usize = 0;
    let ghost mut given: Seq<u32> = Seq::empty();
    let ghost sent0 = send.sent();
    assert(names_of(names@.subrange(0, 0)) =~= Seq::<Seq<char>>::empty());
    while k < names.len()
        invariant
            k <= names@.len(), names@.len() < u32::MAX,
            ids.wf(), ids.next_id == k,
            forall|j: int| 0 <= j < k ==> chrom_sizes@.dom().contains(#[trigger] names@[j]@),
            ids.order@ == names_of(names@.subrange(0, k as int)),
            given.len() == k,
            forall|j: int| 0 <= j < k ==> (#[trigger] given[j]) as int == j,
            send.sent().len() == sent0.len() + k, sent0 == old(send).sent(),
        decreases
            [[L: table/termination]]
            names@.len() - k,
    {
        let ghost before = ids;
        let name = names[k].as_str().to_string();
        let res = do_read_write_vals(name, chrom_sizes, &mut ids, send, options, runtime, zoom_sizes);
        match res {
            Err(_) => {
                proof {
                    if before.knows(names@[k as int]@) {
                        assert(before.order@.contains(names@[k as int]@));
                        let j = choose|j: int| 0 <= j < before.order@.len() && before.order@[j] == names@[k as int]@;
                        assert(names@[j]@ == names@[k as int]@);
                    }
                    lemma_order_distinct(ids);
                    assert forall|a: int, b: int| 0 <= a < b < k implies names@[a]@ != names@[b]@ by {
                        assert(ids.order@[a] == names@.subrange(0, k as int)[a]@ && ids.order@[b] == names@.subrange(0, k as int)[b]@);
                    }
                }
                return (ids, k, Ghost(given));
            }
            Ok(p) => {
                proof {
                    assert(ids.order@ =~= names_of(names@.subrange(0, k as int + 1)));
                    given = given.push(p.made_from().2);
                }
            }
        }
        k = k + 1;
    }
    proof {
        lemma_order_distinct(ids);
        assert forall|a: int, b: int| 0 <= a < b < k implies names@[a]@ != names@[b]@ by {
            assert(ids.order@[a] == names@.subrange(0, k as int)[a]@ && ids.order@[b] == names@.subrange(0, k as int)[b]@);
        }
    }
    (ids, k, Ghost(given))
}
/// a well-formed id map lists every name once
pub proof fn lemma_order_distinct(m: IdMap)
    requires m.wf(),
    ensures forall|a: int, b: int| 0 <= a < b < m.order@.len() ==> m.order@[a] != m.order@[b],
{
    assert forall|a: int, b: int| 0 <= a < b < m.order@.len() implies m.order@[a] != m.order@[b] by {
        assert(m.map@[m.order@[a]] as int == a);
        assert(m.map@[m.order@[b]] as int == b);
    }
}

// Second pass (write_zoom_vals): the id is LOOKED UP in the map the first pass produced, never created.
// A chromosome without an id makes `.expect("Should not have seen a new chrom.")` PANIC (not an Err): it is the
// precondition `zoom_pass/pre_..` below; see NOTES.md.
//@extract closure bigtools/src/bbi/bbiwrite.rs write_zoom_vals do_read
//@rule R16
//@header fn do_read_write_zoom_vals(chrom: String, chrom_ids: &VMap, zooms: &Vec<u32>, options: &BBIWriteOptions, runtime: &Runtime) -> Result<ProcZ, ProcessDataError>
//@sub /for size in zooms\.iter\(\)\.copied\(\) \{/ => for i__1 in 0..zooms.len() { let size = zooms[i__1]; min=0
//@sub /P::create\(/ => ProcZ::create( min=0
//@ret r
//@sig
    requires
        [[L: zoom_pass/pre_the_chromosome_got_an_id_in_the_first_pass_else_panic]]
        chrom_ids@.dom().contains(chrom@),
    ensures
        [[L: zoom_pass/never_refuses]]
        r is Ok,
        [[L: zoom_pass/id_is_the_one_of_the_first_pass]]
        r matches Ok(p) ==> p.made_from().2 == chrom_ids@[chrom@],
        [[L: zoom_pass/one_zoom_channel_per_zoom_size_in_order_each_paired_with_its_size]]
        r matches Ok(p) ==> zooms_paired2(p.made_from().0@, p.made_from().1@, zooms@, options.inmemory),
        [[L: zoom_pass/options_and_runtime_handed_on]]
        r matches Ok(p) ==> p.made_from().3 == *options && p.made_from().4 == runtime.h(),
//@loop 1
                invariant
                    [[L: zoom_pass/loop/one_pair_per_size_so_far_in_order]]
                    zoom_infos@.len() == i__1, zooms_channels@.len() == i__1,
                    forall|k: int| 0 <= k < i__1 ==> zoom_pair2(#[trigger] zoom_infos@[k], zooms_channels@[k], zooms@[k], options.inmemory),
//@end

// =====================================================================================
// (d) the zoom size list of the single-pass writer (top of write_vals)
// =====================================================================================
/// level k of the automatic list: initial · 4^k  (linear recursion: no nonlinear arithmetic)
pub open spec fn lvl(initial: int, k: nat) -> int
    decreases k
{ if k == 0 { initial } else { 4 * lvl(initial, (k - 1) as nat) } }
/// the non-zero members of s, in order
pub open spec fn nz(s: Seq<u32>) -> Seq<u32>
    decreases s.len()
{ if s.len() == 0 { Seq::empty() } else if s.last() != 0 { nz(s.drop_last()).push(s.last()) } else { nz(s.drop_last()) } }
pub open spec fn strictly_increasing(s: Seq<u32>) -> bool { forall|i: int, j: int| 0 <= i < j < s.len() ==> s[i] < s[j] }
pub proof fn lemma_lvl_pos(initial: int, k: nat)
    requires initial >= 0,
    ensures lvl(initial, k) >= 0, initial > 0 ==> lvl(initial, k) > 0,
    decreases k
{ if k > 0 { lemma_lvl_pos(initial, (k - 1) as nat); } }
pub proof fn lemma_lvl_mono(initial: int, a: nat, b: nat)
    requires initial >= 0, a <= b,
    ensures lvl(initial, a) <= lvl(initial, b), initial > 0 && a < b ==> lvl(initial, a) < lvl(initial, b), initial > 0 ==> lvl(initial, a) > 0,
    decreases b
{
    lemma_lvl_pos(initial, a);
    if a < b { lemma_lvl_mono(initial, a, (b - 1) as nat); lemma_lvl_pos(initial, (b - 1) as nat); }
}
pub proof fn lemma_nz_push(s: Seq<u32>, x: u32)
    ensures nz(s.push(x)) == (if x != 0 { nz(s).push(x) } else { nz(s) }),
{ assert(s.push(x).drop_last() =~= s); }
pub proof fn lemma_nz_identity(s: Seq<u32>)
    requires forall|i: int| 0 <= i < s.len() ==> s[i] != 0,
    ensures nz(s) == s,
    decreases s.len()
{
    if s.len() > 0 { lemma_nz_identity(s.drop_last()); assert(s.drop_last().push(s.last()) =~= s); }
}
pub proof fn lemma_nz_all_zero(s: Seq<u32>)
    requires forall|i: int| 0 <= i < s.len() ==> s[i] == 0,
    ensures nz(s).len() == 0,
    decreases s.len()
{
    if s.len() > 0 { lemma_nz_all_zero(s.drop_last()); }
}
pub proof fn lemma_nz_members(s: Seq<u32>)
    ensures forall|i: int| 0 <= i < nz(s).len() ==> #[trigger] nz(s)[i] != 0,
    decreases s.len()
{
    if s.len() > 0 {
        lemma_nz_members(s.drop_last());
        let d = nz(s.drop_last());
        assert forall|i: int| 0 <= i < nz(s).len() implies #[trigger] nz(s)[i] != 0 by {
            if s.last() != 0 { if i < d.len() { assert(d.push(s.last())[i] == d[i]); } } else { assert(nz(s)[i] == d[i]); }
        }
    }
}

pub open spec fn non_decreasing(s: Seq<u32>) -> bool { forall|i: int, j: int| 0 <= i <= j < s.len() ==> s[i] <= s[j] }
/// dedup removes CONSECUTIVE repeats only
pub open spec fn no_adjacent_repeat(s: Seq<u32>) -> bool { forall|i: int| 0 <= i < s.len() - 1 ==> (#[trigger] s[i]) != s[i + 1] }
/// slice::sort_unstable on u32 -- ASSUMED std contract (no vstd spec): ascending, same members, same length.
/// The last clause is a consequence of the first three for integers (a sorted rearrangement of a sorted sequence is
/// that sequence); it is stated so that the automatic list needs no permutation reasoning.
#[verifier::external_body]
pub fn sort_unstable_u32(v: &mut Vec<u32>)
    ensures non_decreasing(final(v)@), final(v)@.to_set() == old(v)@.to_set(), final(v)@.len() == old(v)@.len(),
        non_decreasing(old(v)@) ==> final(v)@ == old(v)@,
{ v.sort_unstable() }
/// Vec::dedup on u32 -- ASSUMED std contract: removes exactly the elements equal to their predecessor: no adjacent
/// repeat is left, same members, the survivors keep their order (ascending stays ascending), nothing to remove => unchanged.
#[verifier::external_body]
pub fn dedup_u32(v: &mut Vec<u32>)
    ensures no_adjacent_repeat(final(v)@), final(v)@.to_set() == old(v)@.to_set(), final(v)@.len() <= old(v)@.len(),
        non_decreasing(old(v)@) ==> non_decreasing(final(v)@),
        no_adjacent_repeat(old(v)@) ==> final(v)@ == old(v)@,
{ v.dedup() }
pub proof fn lemma_strict(s: Seq<u32>)
    requires non_decreasing(s), no_adjacent_repeat(s),
    ensures strictly_increasing(s),
{
    assert forall|i: int, j: int| 0 <= i < j < s.len() implies s[i] < s[j] by {
        assert(s[i] <= s[j - 1]);
        assert(s[j - 1] != s[j] && s[j - 1] <= s[j]);
    }
}
pub proof fn lemma_nz_set(s: Seq<u32>)
    ensures forall|x: u32| #![trigger nz(s).contains(x)] nz(s).contains(x) <==> (x != 0 && s.contains(x)),
    decreases s.len()
{
    if s.len() > 0 {
        let d = s.drop_last();
        lemma_nz_set(d);
        assert forall|x: u32| #![trigger nz(s).contains(x)] nz(s).contains(x) <==> (x != 0 && s.contains(x)) by {
            if s.contains(x) {
                let j = choose|j: int| 0 <= j < s.len() && s[j] == x;
                if j < s.len() - 1 { assert(d[j] == x); assert(d.contains(x)); }
            }
            if d.contains(x) { let j = choose|j: int| 0 <= j < d.len() && d[j] == x; assert(s[j] == x); }
            assert(s[s.len() - 1] == s.last());
            if s.last() != 0 {
                let p = nz(d);
                assert(p.push(s.last())[p.len() as int] == s.last());
                if p.contains(x) { let a = choose|a: int| 0 <= a < p.len() && p[a] == x; assert(p.push(s.last())[a] == x); }
                if nz(s).contains(x) { let a = choose|a: int| 0 <= a < nz(s).len() && nz(s)[a] == x; if a < p.len() { assert(p[a] == x); } }
            }
        }
    }
}

// Carve-out: everything from the first `let zoom_sizes` statement up to (not including) `let zooms_map`.  Both
// iterator chains are DESUGARED by unit-local substitutions into the loops they stand for (Take<Successors>::next:
// count down, take the pending item, compute ITS successor eagerly, yield -- a `None` successor ends the list;
// Filter::next), with the closure bodies `z.checked_mul(4)` and `*z != 0` spliced in verbatim.
//@extract fn bigtools/src/bbi/bbiwrite.rs write_vals
//@rule R16
//@presub /\A.*?\n(    let (?:mut )?zoom_sizes(?:: Vec<u32>)? = match &options\.manual_zoom_sizes \{.*?)\n    let zooms_map\b.*\Z/ => fn single_pass_zoom_sizes(options: &BBIWriteOptions) -> Vec<u32> {\n\1\n    zoom_sizes\n} min=1 count=1
//@sub /std::iter::successors\((Some\([^()]*\)), \|z\| (.*?)\)\s*\.take\(([^()]*)\)\s*\.collect\(\)/ => { let mut out__: Vec<u32> = Vec::new(); let mut next__: Option<u32> = \1; let mut left__: usize = \3;\n            loop {\n                if left__ == 0 { break; } left__ = left__ - 1;\n                let item__: u32 = match next__ { Some(v__) => v__, None => { break; } };\n                next__ = { let z = &item__; \2 };\n                out__.push(item__);\n            }\n            out__ } min=0
//@sub /^    let (mut )?zoom_sizes(: Vec<u32>)? = zoom_sizes\.into_iter\(\)\.filter\(\|z\| (.*?)\)\.collect\(\);/ =>     let \1zoom_sizes\2 = { let src__ = zoom_sizes; let mut out__: Vec<u32> = Vec::new(); let mut j__: usize = 0;\n        while j__ < src__.len() {\n            let z = &src__[j__];\n            if \3 { out__.push(*z); }\n            j__ = j__ + 1;\n        }\n        out__ }; min=0
//@sub /(\w+)\.sort_unstable\(\);/ => sort_unstable_u32(&mut \1); min=0
//@sub /(\w+)\.sort\(\);/ => sort_unstable_u32(&mut \1); min=0
//@sub /(\w+)\.dedup\(\);/ => dedup_u32(&mut \1); min=0
//@ret r
//@sig
    ensures
        [[L: zoomlist/no_level_is_zero]]
        forall|k: int| 0 <= k < r@.len() ==> (#[trigger] r@[k]) != 0,
        [[L: zoomlist/levels_strictly_increasing_one_writer_slot_each]]
        strictly_increasing(r@),
        [[L: zoomlist/manual_list_is_the_set_of_its_nonzero_members]]
        options.manual_zoom_sizes matches Some(z) ==> forall|x: u32| #![trigger r@.contains(x)] r@.contains(x) <==> (x != 0 && z@.contains(x)),
        [[L: zoomlist/automatic_levels_are_initial_times_4_pow_k_for_exactly_the_k_below_max_zooms_that_fit_u32]]
        options.manual_zoom_sizes is None && options.initial_zoom_size > 0 ==> r@.len() <= options.max_zooms
            && (forall|k: int| 0 <= k < r@.len() ==> (#[trigger] r@[k]) as int == lvl(options.initial_zoom_size as int, k as nat))
            && (r@.len() == options.max_zooms || lvl(options.initial_zoom_size as int, r@.len()) > u32::MAX),
        [[L: zoomlist/automatic_zero_initial_size_gives_no_levels]]
        options.manual_zoom_sizes is None && options.initial_zoom_size == 0 ==> r@.len() == 0,
//@loop 1
                invariant_except_break
                    [[L: zoomlist/loop/one_level_per_countdown_step]]
                    left__ + out__@.len() == options.max_zooms,
                invariant
                    [[L: zoomlist/loop/next_candidate_is_initial_times_4_pow_n_or_does_not_fit]]
                    out__@.len() <= options.max_zooms,
                    match next__ { Some(v) => v as int == lvl(options.initial_zoom_size as int, out__@.len()), None => lvl(options.initial_zoom_size as int, out__@.len()) > u32::MAX },
                    [[L: zoomlist/loop/levels_so_far]]
                    forall|k: int| 0 <= k < out__@.len() ==> (#[trigger] out__@[k]) as int == lvl(options.initial_zoom_size as int, k as nat),
                ensures
                    [[L: zoomlist/loop/stops_only_after_max_zooms_levels_or_at_the_first_level_that_does_not_fit]]
                    out__@.len() == options.max_zooms || (next__ is None),
                decreases
                    [[L: zoomlist/loop/termination]]
                    left__,
//@at /let src__ = zoom_sizes;/ before
    let ghost raw__ = zoom_sizes@;
//@loop 2
            invariant
                [[L: zoomlist/filter/kept_so_far_are_the_nonzero_members_in_order]]
                j__ <= src__@.len(), src__@ == raw__,
                out__@ == nz(src__@.subrange(0, j__ as int)),
            decreases
                [[L: zoomlist/filter/termination]]
                src__@.len() - j__,
//@at /let z = &src__\[j__\];/ after
                proof {
                    assert(src__@.subrange(0, j__ as int + 1) =~= src__@.subrange(0, j__ as int).push(src__@[j__ as int]));
                    lemma_nz_push(src__@.subrange(0, j__ as int), src__@[j__ as int]);
                }
//@at /^\s*out__ \};/ after
    let ghost f__ = zoom_sizes@;
    proof {
        // what the filter hands to sort/dedup
        assert(raw__.subrange(0, raw__.len() as int) =~= raw__);
        assert(f__ == nz(raw__));
        lemma_nz_members(raw__);
        lemma_nz_set(raw__);
        if options.manual_zoom_sizes is None {
            let init = options.initial_zoom_size as int;
            if init > 0 {
                assert forall|i: int| 0 <= i < raw__.len() implies raw__[i] != 0 by { lemma_lvl_mono(init, i as nat, i as nat); }
                lemma_nz_identity(raw__);
                assert forall|i: int, j: int| 0 <= i < j < raw__.len() implies raw__[i] < raw__[j] by { lemma_lvl_mono(init, i as nat, j as nat); }
                assert(non_decreasing(f__));
                assert(no_adjacent_repeat(f__));
            } else {
                assert forall|i: int| 0 <= i < raw__.len() implies raw__[i] == 0 by { lemma_lvl_zero(i as nat); }
                lemma_nz_all_zero(raw__);
            }
        }
    }
//@at /^\s*zoom_sizes\s*$/ before
    proof {
        let fin = zoom_sizes@;
        // sorted then de-duplicated = strictly increasing; membership is preserved by both steps
        if non_decreasing(fin) && no_adjacent_repeat(fin) { lemma_strict(fin); }
        assert forall|x: u32| #![trigger fin.contains(x)] fin.contains(x) <==> f__.contains(x) by {
            assert(fin.to_set().contains(x) <==> f__.to_set().contains(x));
        }
        assert forall|k: int| 0 <= k < fin.len() implies (#[trigger] fin[k]) != 0 by {
            assert(fin.contains(fin[k]));
            assert(f__.contains(fin[k]));
        }
    }
//@end
pub proof fn lemma_lvl_zero(k: nat)
    ensures lvl(0, k) == 0,
    decreases k
{ if k > 0 { lemma_lvl_zero((k - 1) as nat); } }

} // verus!
fn main() {}
