// Life-cycle methods of the six per-chromosome processor structs that no other unit covers:
//   bigbedwrite.rs: BigBedFullProcess::destroy, BigBedNoZoomsProcess::destroy,
//                   BigBedZoomsProcess::{do_process, destroy}
//   bigwigwrite.rs: BigWig{Full,NoZooms,Zooms}Process::{do_process, destroy}
// (the bigBed Full/NoZooms `do_process` are in unit bb_batch; `create` uses iterator adaptors: out of scope)
//   C02/C06: the per-chromosome summary handed back by `destroy` is the accumulated one; the bigBed item
//        count is the number of `do_process` calls — ALWAYS, also for a chromosome with no covered base;
//        an untouched chromosome yields the all-zero summary.
//   C08/C07: the second-pass processors hand EVERY value (zero-length ones too) to `process_val_zoom`
//        with exactly its own (start, end, next) under the processor's own chrom id.
//   C13: an Err of a callee is returned, before any later work; the `debug_assert!`s of `destroy` hold
//        when the last `do_process` call of the chromosome had `next_val == None`.
// The callees `process_val` / `process_val_zoom` are signature-only here: their contracts are those of
// units bw_batch, bb_zoom, bw_zoom, restated as (a) an UNINTERPRETED relation `*_post` between
// exactly the arguments and the results ("whatever the callee guarantees") — so that a caller which
// skips the call, or passes other arguments, cannot establish it — and (b) the concrete
// chromosome-end clauses needed for `destroy`, under an uninterpreted `*_pre` (the callee unit's `pre`).
use vstd::prelude::*;
use vstd::std_specs::ops::*;
use vstd::std_specs::convert::FromSpec;
verus! {
// ---- shared float prelude -------------------------------------------------
// Rust float operators are total; Verus models their results as uninterpreted
// functions (`add_spec`, `mul_spec`, `from_spec`, ...).  The axioms below say
// only (1) the operators have no precondition and (2) the exec operator returns
// the value of its spec function (determinism).  Nothing numerical is assumed.
mod float_ax {
use vstd::prelude::*;
use vstd::std_specs::ops::*;
use vstd::std_specs::convert::FromSpec;
pub broadcast axiom fn ax_f64_mul_total(a: f64, b: f64) ensures #[trigger] a.mul_req(b);
pub broadcast axiom fn ax_f64_add_total(a: f64, b: f64) ensures #[trigger] a.add_req(b);
pub broadcast axiom fn ax_f64_sub_total(a: f64, b: f64) ensures #[trigger] a.sub_req(b);
pub broadcast axiom fn ax_f64_div_total(a: f64, b: f64) ensures #[trigger] a.div_req(b);
pub broadcast axiom fn ax_f32_add_total(a: f32, b: f32) ensures #[trigger] a.add_req(b);
pub broadcast axiom fn ax_f32_sub_total(a: f32, b: f32) ensures #[trigger] a.sub_req(b);
pub broadcast group float_total { ax_f64_mul_total, ax_f64_add_total, ax_f64_sub_total, ax_f64_div_total, ax_f32_add_total, ax_f32_sub_total }
pub axiom fn float_det()
    ensures
        <f64 as AddSpec<f64>>::obeys_add_spec(), <f64 as MulSpec<f64>>::obeys_mul_spec(),
        <f64 as SubSpec<f64>>::obeys_sub_spec(), <f64 as DivSpec<f64>>::obeys_div_spec(),
        <f32 as AddSpec<f32>>::obeys_add_spec(), <f32 as SubSpec<f32>>::obeys_sub_spec(),
        <f64 as FromSpec<u32>>::obeys_from_spec(), <f64 as FromSpec<f32>>::obeys_from_spec();
}
broadcast use float_ax::float_total;
pub uninterp spec fn fmin(a: f64, b: f64) -> f64;
pub uninterp spec fn fmax(a: f64, b: f64) -> f64;
pub assume_specification [f64::min] (a: f64, b: f64) -> (r: f64) ensures r == fmin(a, b);
pub assume_specification [f64::max] (a: f64, b: f64) -> (r: f64) ensures r == fmax(a, b);
// float constants (rule R12c): Verus has no model of core::f64 associated consts; each is an
// uninterpreted spec constant, distinct names so that swapping two of them is visible.
pub uninterp spec fn spec_f64_max() -> f64;
pub uninterp spec fn spec_f64_min() -> f64;
pub uninterp spec fn spec_f64_min_positive() -> f64;
pub uninterp spec fn spec_f64_nan() -> f64;
pub uninterp spec fn spec_f64_infinity() -> f64;
pub uninterp spec fn spec_f64_neg_infinity() -> f64;
pub uninterp spec fn spec_f64_epsilon() -> f64;
#[verifier::external_body] pub fn fconst_f64_max() -> (r: f64) ensures r == spec_f64_max() { f64::MAX }
#[verifier::external_body] pub fn fconst_f64_min() -> (r: f64) ensures r == spec_f64_min() { f64::MIN }
#[verifier::external_body] pub fn fconst_f64_min_positive() -> (r: f64) ensures r == spec_f64_min_positive() { f64::MIN_POSITIVE }
#[verifier::external_body] pub fn fconst_f64_nan() -> (r: f64) ensures r == spec_f64_nan() { f64::NAN }
#[verifier::external_body] pub fn fconst_f64_infinity() -> (r: f64) ensures r == spec_f64_infinity() { f64::INFINITY }
#[verifier::external_body] pub fn fconst_f64_neg_infinity() -> (r: f64) ensures r == spec_f64_neg_infinity() { f64::NEG_INFINITY }
#[verifier::external_body] pub fn fconst_f64_epsilon() -> (r: f64) ensures r == spec_f64_epsilon() { f64::EPSILON }

#[derive(Copy, Clone)]
pub struct Summary {
    pub total_items: u64,
    pub bases_covered: u64,
    pub min_val: f64,
    pub max_val: f64,
    pub sum: f64,
    pub sum_squares: f64,
}
#[derive(Copy, Clone)]
pub struct Value {
    pub start: u32,
    pub end: u32,
    pub value: f32,
}
#[derive(Copy, Clone)]
pub struct ZoomRecord {
    pub chrom: u32,
    pub start: u32,
    pub end: u32,
    pub summary: Summary,
}
// R11: `rest: String` -> `rest: Vec<u8>` (as units bb_enc / bb_batch; the text is never inspected here)
pub struct BedEntry {
    pub start: u32,
    pub end: u32,
    pub rest: Vec<u8>,
}
#[derive(Copy, Clone)]
pub enum InputSortType {
    ALL,
    START,
    // TODO
    //NONE,
}
pub struct BBIWriteOptions {
    pub compress: bool,
    pub items_per_slot: u32,
    pub block_size: u32,
    pub initial_zoom_size: u32,
    pub max_zooms: u32,
    pub manual_zoom_sizes: Option<Vec<u32>>,
    pub input_sort_type: InputSortType,
    pub channel_size: usize,
    pub inmemory: bool,
}
// thiserror attributes dropped; io::Error -> opaque IoErr
pub enum ProcessDataError {
    InvalidInput(String),
    InvalidChromosome(String),
    IoError(IoErr),
}
pub struct BBIDataProcessoredData(pub Summary);
pub struct NoZoomsInternalProcessedData(pub Summary, pub Vec<(u64, u64)>);
// R11: generic writer parameter dropped, `InternalTempZoomInfo<W>` (temp files + join handles) -> opaque TempZoom
pub struct ZoomsInternalProcessedData(
    pub Vec<TempZoom>,
);

// ---------------- shims (each one is a listed assumption) ----------------
#[verifier::external_body]
pub struct IoErr { _p: u8 }
/// tokio runtime handle: only passed on
#[verifier::external_body]
pub struct Handle { _p: u8 }
/// IndexList<Value>: the sweep line of units bb_sweep / bb_zoom; opaque here
#[verifier::external_body]
pub struct Overlap { _p: u8 }
/// section channels (BBIDataProcessoringInputSectionChannel): opaque here
#[verifier::external_body]
pub struct SectionSink { _p: u8 }
#[verifier::external_body]
pub struct ZoomSink { _p: u8 }
/// bbiwrite::InternalTempZoomInfo<W>: opaque, only handed back
#[verifier::external_body]
pub struct TempZoom { _p: u8 }

pub open spec fn zero_summary(n: u64) -> Summary {
    Summary { total_items: n, bases_covered: 0, min_val: 0.0f64, max_val: 0.0f64, sum: 0.0f64, sum_squares: 0.0f64 }
}

// =====================================================================================
pub mod bb {
use super::*;

pub struct ZoomItem {
pub size: u32,
pub live_info: Option<(ZoomRecord, u64)>,
pub overlap: Overlap,
pub records: Vec<ZoomRecord>,
pub channel: ZoomSink,
}
pub struct EntriesSection {
pub items: Vec<BedEntry>,
pub overlap: Overlap,
pub zoom_items: Vec<ZoomItem>,
}
pub struct BigBedFullProcess {
pub summary: Option<Summary>,
pub state_val: EntriesSection,
pub total_items: u64,

pub ftx: SectionSink,
pub chrom_id: u32,
pub options: BBIWriteOptions,
pub runtime: Handle,
pub chrom: String,
pub length: u32,
}
#[derive(Copy, Clone)]
pub struct ZoomCounts {
pub resolution: u64,
pub current_end: u64,
pub counts: u64,
}
pub struct BigBedNoZoomsProcess {
pub ftx: SectionSink,
pub chrom_id: u32,
pub options: BBIWriteOptions,
pub runtime: Handle,
pub chrom: String,
pub length: u32,

pub summary: Option<Summary>,
pub items: Vec<BedEntry>,
pub overlap: Overlap,
pub zoom_counts: Vec<ZoomCounts>,
pub total_items: u64,
}
pub struct BigBedZoomsProcess {
pub temp_zoom_items: Vec<TempZoom>,
pub chrom_id: u32,
pub options: BBIWriteOptions,
pub runtime: Handle,

pub zoom_items: Vec<ZoomItem>,
}

/// every zoom level has no open record and no pending records (what the two
/// `debug_assert!`s per level in `destroy` ask for)
pub open spec fn flushed(z: Seq<ZoomItem>) -> bool {
    forall|k: int| 0 <= k < z.len() ==> (#[trigger] z[k]).live_info.is_none() && z[k].records@.len() == 0
}
pub open spec fn opt_entry(o: Option<&BedEntry>) -> Option<BedEntry> {
    match o { Some(v) => Some(*v), None => None }
}
/// precondition of process_val_zoom: unit bb_zoom, label `pre`, for every level (with the level's ghost history)
pub uninterp spec fn pvz_pre(z0: Seq<ZoomItem>, options: BBIWriteOptions, item_start: u32, item_end: u32, next: Option<BedEntry>, chrom_id: u32) -> bool;
/// "whatever process_val_zoom guarantees" about exactly these arguments and results (unit bb_zoom)
pub uninterp spec fn pvz_post(z0: Seq<ZoomItem>, options: BBIWriteOptions, item_start: u32, item_end: u32, next: Option<BedEntry>, chrom_id: u32,
    z1: Seq<ZoomItem>, r: Result<(), ProcessDataError>) -> bool;

// signature cut from the repository, body dropped (unit bb_zoom verifies the per-level body)
#[verifier::external_body]
fn process_val_zoom(
    zoom_items: &mut Vec<ZoomItem>,
    options: &BBIWriteOptions,
    item_start: u32,
    item_end: u32,
    next_val: Option<&BedEntry>,
    runtime: &Handle,
    chrom_id: u32,
) -> (r: Result<(), ProcessDataError>)
    ensures
        pvz_post(old(zoom_items)@, *options, item_start, item_end, opt_entry(next_val), chrom_id, final(zoom_items)@, r),
        // bb_zoom/chrom_end_flushes_everything, for every level (the `for zoom_item in zoom_items.iter_mut()`
        // iteration is dropped there by R9: levels are independent, the Vec's length does not change)
        pvz_pre(old(zoom_items)@, *options, item_start, item_end, opt_entry(next_val), chrom_id) && r.is_ok() && next_val.is_none()
            ==> flushed(final(zoom_items)@),
{ unimplemented!() }

/// `zoom_counts.into_iter().map(|z| (z.resolution, z.counts)).collect()` (iterator adaptors are
/// outside Verus; same result computed by a verified loop)
pub open spec fn pairs_spec(z: Seq<ZoomCounts>) -> Seq<(u64, u64)> {
    Seq::new(z.len(), |k: int| (z[k].resolution, z[k].counts))
}
pub fn zoom_pairs(z: Vec<ZoomCounts>) -> (r: Vec<(u64, u64)>)
    ensures r@ == pairs_spec(z@)
{
    let mut out: Vec<(u64, u64)> = Vec::new();
    let mut i: usize = 0;
    while i < z.len()
        invariant i <= z.len(), out@ == pairs_spec(z@.subrange(0, i as int)),
        decreases z.len() - i,
    {
        out.push((z[i].resolution, z[i].counts));
        i = i + 1;
        assert(out@ =~= pairs_spec(z@.subrange(0, i as int)));
    }
    assert(z@.subrange(0, i as int) =~= z@);
    out
}

impl BigBedFullProcess {
fn destroy(self) -> (r: BBIDataProcessoredData)
    requires
        
        self.state_val.items@.len() == 0,
        flushed(self.state_val.zoom_items@),
    ensures
        
        r.0.total_items == self.total_items,
        
        self.summary.is_some() ==> r.0 == (Summary { total_items: self.total_items, ..self.summary.unwrap() }),
        
        self.summary.is_none() ==> r.0 == zero_summary(self.total_items),
{
        let BigBedFullProcess {
            summary,
            total_items,
            state_val,
            ..
        } = self;


        assert(state_val.items@.len() == 0); 
        assert((state_val.items.len() == 0));
        for i__1 in 0..state_val.zoom_items.len() 
            invariant
                
                flushed(state_val.zoom_items@),
{ let zoom_item = &state_val.zoom_items[i__1];

            assert(zoom_item.live_info.is_none()); 
            assert(zoom_item.records@.len() == 0); 
            assert(zoom_item.live_info.is_none());
            assert((zoom_item.records.len() == 0));
        }

        let mut summary_complete = match summary {
            None => Summary {
                total_items: 0,
                bases_covered: 0,
                min_val: 0.0,
                max_val: 0.0,
                sum: 0.0,
                sum_squares: 0.0,
            },
            Some(summary) => summary,
        };
        summary_complete.total_items = total_items;
        BBIDataProcessoredData(summary_complete)
    }
}

impl BigBedNoZoomsProcess {
fn destroy(self) -> (r: NoZoomsInternalProcessedData)
    requires
        
        self.items@.len() == 0,
    ensures
        
        r.0.total_items == self.total_items,
        
        self.summary.is_some() ==> r.0 == (Summary { total_items: self.total_items, ..self.summary.unwrap() }),
        
        self.summary.is_none() ==> r.0 == zero_summary(self.total_items),
        
        r.1@ == pairs_spec(self.zoom_counts@),
{
        let BigBedNoZoomsProcess {
            items,
            summary,
            zoom_counts,
            total_items,
            ..
        } = self;


        assert(items@.len() == 0); 
        assert((items.len() == 0));

        let mut summary = summary.unwrap_or(Summary {
            total_items: 0,
            bases_covered: 0,
            min_val: 0.0,
            max_val: 0.0,
            sum: 0.0,
            sum_squares: 0.0,
        });
        summary.total_items = total_items;

        let zoom_counts = zoom_pairs(zoom_counts);

        NoZoomsInternalProcessedData(summary, zoom_counts)
    }
}

impl BigBedZoomsProcess {
fn do_process(
        &mut self,
        current_val: BedEntry,
        next_val: Option<&BedEntry>,
    ) -> (r: Result<(), ProcessDataError>)
    ensures
        
        pvz_post(old(self).zoom_items@, old(self).options, current_val.start, current_val.end, opt_entry(next_val), old(self).chrom_id,
            final(self).zoom_items@, r),
        
        pvz_pre(old(self).zoom_items@, old(self).options, current_val.start, current_val.end, opt_entry(next_val), old(self).chrom_id)
            && r.is_ok() && next_val.is_none() ==> flushed(final(self).zoom_items@),
        
        final(self).chrom_id == old(self).chrom_id, final(self).options == old(self).options,
        final(self).temp_zoom_items == old(self).temp_zoom_items,
{
        let BigBedZoomsProcess {
            chrom_id,
            options,
            runtime,
            zoom_items,
            ..
        } = self;

        process_val_zoom(
            zoom_items,
            options,
            current_val.start,
            current_val.end,
            next_val,
            &runtime,
            *chrom_id,
        )?;

        Ok(())
    }

fn destroy(self) -> (r: ZoomsInternalProcessedData)
    requires
        
        flushed(self.zoom_items@),
    ensures
        
        r.0 == self.temp_zoom_items,
{
        let BigBedZoomsProcess { zoom_items, .. } = self;

        for i__1 in 0..zoom_items.len() 
            invariant
                
                flushed(zoom_items@),
{ let zoom_item = &zoom_items[i__1];

            assert(zoom_item.live_info.is_none()); 
            assert(zoom_item.records@.len() == 0); 
            assert(zoom_item.live_info.is_none());
            assert((zoom_item.records.len() == 0));
        }

        ZoomsInternalProcessedData(self.temp_zoom_items)
    }
}
} // mod bb

// =====================================================================================
pub mod bw {
use super::*;

pub struct ZoomItem {
    // How many bases this zoom item covers
pub size: u32,
    // The current zoom entry
pub live_info: Option<ZoomRecord>,
    // All zoom entries in the current section
pub records: Vec<ZoomRecord>,
pub channel: ZoomSink,
}
pub struct BigWigFullProcess {
pub summary: Summary,
pub items: Vec<Value>,
pub zoom_items: Vec<ZoomItem>,

pub ftx: SectionSink,
pub chrom_id: u32,
pub options: BBIWriteOptions,
pub runtime: Handle,
pub chrom: String,
pub length: u32,
}
#[derive(Copy, Clone)]
pub struct ZoomCounts {
pub resolution: u64,
pub current_end: u64,
pub counts: u64,
}
pub struct BigWigNoZoomsProcess {
pub ftx: SectionSink,
pub chrom_id: u32,
pub options: BBIWriteOptions,
pub runtime: Handle,
pub chrom: String,
pub length: u32,

pub summary: Summary,
pub items: Vec<Value>,
pub zoom_counts: Vec<ZoomCounts>,
}
pub struct BigWigZoomsProcess {
pub temp_zoom_items: Vec<TempZoom>,
pub chrom_id: u32,
pub options: BBIWriteOptions,
pub runtime: Handle,

pub zoom_items: Vec<ZoomItem>,
}
pub struct BigWigInvalidInput(pub String);
// the conversion behind `process_val(..).await?` (From<BigWigInvalidInput> for ProcessDataError)
pub fn bwii_into(value: BigWigInvalidInput) -> ProcessDataError
{
        ProcessDataError::InvalidInput(value.0)
    }

pub open spec fn flushed(z: Seq<ZoomItem>) -> bool {
    forall|k: int| 0 <= k < z.len() ==> (#[trigger] z[k]).live_info.is_none() && z[k].records@.len() == 0
}
pub open spec fn opt_value(o: Option<&Value>) -> Option<Value> {
    match o { Some(v) => Some(*v), None => None }
}
/// unit bw_batch, label `pre` (protocol + ghost history of the chromosome)
pub uninterp spec fn pv_pre(summary: Summary, items: Seq<Value>, ftx: SectionSink, current_val: Value, next: Option<Value>,
    chrom_length: u32, options: BBIWriteOptions, chrom_id: u32) -> bool;
/// "whatever process_val guarantees" about exactly these arguments and results (unit bw_batch); `ok` = it returned Ok
pub uninterp spec fn pv_post(summary0: Summary, items0: Seq<Value>, ftx0: SectionSink, current_val: Value, next: Option<Value>,
    chrom_length: u32, options: BBIWriteOptions, chrom_id: u32, summary1: Summary, items1: Seq<Value>, ftx1: SectionSink, ok: bool) -> bool;
/// unit bw_zoom, label `pre`, for every level
pub uninterp spec fn pvz_pre(z0: Seq<ZoomItem>, options: BBIWriteOptions, current_val: Value, next: Option<Value>, chrom_id: u32) -> bool;
/// "whatever process_val_zoom guarantees" (unit bw_zoom)
pub uninterp spec fn pvz_post(z0: Seq<ZoomItem>, options: BBIWriteOptions, current_val: Value, next: Option<Value>, chrom_id: u32, z1: Seq<ZoomItem>) -> bool;

#[verifier::external_body]
fn process_val(
    current_val: Value,
    next_val: Option<&Value>,
    chrom_length: u32,
    chrom: &String,
    summary: &mut Summary,
    items: &mut Vec<Value>,
    options: &BBIWriteOptions,
    runtime: &Handle,
    ftx: &mut SectionSink,
    chrom_id: u32,
) -> (r: Result<(), BigWigInvalidInput>)
    ensures
        pv_post(*old(summary), old(items)@, *old(ftx), current_val, opt_value(next_val), chrom_length, *options, chrom_id,
            *final(summary), final(items)@, *final(ftx), r.is_ok()),
        // bw_batch/chrom_end_leaves_nothing_pending
        pv_pre(*old(summary), old(items)@, *old(ftx), current_val, opt_value(next_val), chrom_length, *options, chrom_id)
            && r.is_ok() && next_val.is_none() ==> final(items)@.len() == 0,
{ unimplemented!() }
#[verifier::external_body]
fn process_val_zoom(
    zoom_items: &mut Vec<ZoomItem>,
    options: &BBIWriteOptions,
    current_val: Value,
    next_val: Option<&Value>,
    runtime: &Handle,
    chrom_id: u32,
)
    ensures
        pvz_post(old(zoom_items)@, *options, current_val, opt_value(next_val), chrom_id, final(zoom_items)@),
        // bw_zoom/chrom_end_flushes_everything, for every level
        pvz_pre(old(zoom_items)@, *options, current_val, opt_value(next_val), chrom_id) && next_val.is_none()
            ==> flushed(final(zoom_items)@),
{ unimplemented!() }

pub open spec fn pairs_spec(z: Seq<ZoomCounts>) -> Seq<(u64, u64)> {
    Seq::new(z.len(), |k: int| (z[k].resolution, z[k].counts))
}
pub fn zoom_pairs(z: Vec<ZoomCounts>) -> (r: Vec<(u64, u64)>)
    ensures r@ == pairs_spec(z@)
{
    let mut out: Vec<(u64, u64)> = Vec::new();
    let mut i: usize = 0;
    while i < z.len()
        invariant i <= z.len(), out@ == pairs_spec(z@.subrange(0, i as int)),
        decreases z.len() - i,
    {
        out.push((z[i].resolution, z[i].counts));
        i = i + 1;
        assert(out@ =~= pairs_spec(z@.subrange(0, i as int)));
    }
    assert(z@.subrange(0, i as int) =~= z@);
    out
}
/// what bigWig `destroy` hands back for an accumulated summary s
pub open spec fn bw_final_summary(s: Summary) -> Summary {
    if s.total_items == 0 { Summary { min_val: 0.0f64, max_val: 0.0f64, ..s } } else { s }
}
/// R9 by hand (as in bb_batch): stands for the `for zoom in zoom_counts { .. }` loop of
/// BigWigNoZoomsProcess::do_process; its body is verified below as `zoom_count_step`.
/// No contract: touches only `zoom_counts`.
#[verifier::external_body]
pub fn zoom_counts_all(zoom_counts: &mut Vec<ZoomCounts>, current_val: Value)
{ unimplemented!() }

impl BigWigFullProcess {
fn destroy(self) -> (r: BBIDataProcessoredData)
    requires
        
        self.items@.len() == 0,
        flushed(self.zoom_items@),
    ensures
        
        r.0.total_items == self.summary.total_items,
        
        r.0 == bw_final_summary(self.summary),
        
        self.summary.total_items == 0 && self.summary.bases_covered == 0 && self.summary.sum == 0.0f64 && self.summary.sum_squares == 0.0f64
            ==> r.0 == zero_summary(0),
{
        let BigWigFullProcess {
            mut summary,
            items,
            zoom_items,
            ..
        } = self;


        assert(items@.len() == 0); 
        assert((items.len() == 0));
        for i__1 in 0..zoom_items.len() 
            invariant
                
                flushed(zoom_items@),
{ let zoom_item = &zoom_items[i__1];

            assert(zoom_item.live_info.is_none()); 
            assert(zoom_item.records@.len() == 0); 
            assert(zoom_item.live_info.is_none());
            assert((zoom_item.records.len() == 0));
        }

        if summary.total_items == 0 {
            summary.min_val = 0.0;
            summary.max_val = 0.0;
        }
        BBIDataProcessoredData(summary)
    }

fn do_process(
        &mut self,
        current_val: Value,
        next_val: Option<&Value>,
    ) -> (r: Result<(), ProcessDataError>)
    ensures
        
        pv_post(old(self).summary, old(self).items@, old(self).ftx, current_val, opt_value(next_val), old(self).length, old(self).options, old(self).chrom_id,
            final(self).summary, final(self).items@, final(self).ftx, r.is_ok()),
        
        r.is_err() ==> final(self).zoom_items@ == old(self).zoom_items@,
        
        r.is_ok() ==> pvz_post(old(self).zoom_items@, old(self).options, current_val, opt_value(next_val), old(self).chrom_id, final(self).zoom_items@),
        
        pv_pre(old(self).summary, old(self).items@, old(self).ftx, current_val, opt_value(next_val), old(self).length, old(self).options, old(self).chrom_id)
            && pvz_pre(old(self).zoom_items@, old(self).options, current_val, opt_value(next_val), old(self).chrom_id)
            && r.is_ok() && next_val.is_none()
            ==> final(self).items@.len() == 0 && flushed(final(self).zoom_items@),
        
        final(self).chrom_id == old(self).chrom_id, final(self).length == old(self).length, final(self).options == old(self).options,
{
        let Self {
            summary,
            items,
            zoom_items,
            ftx,
            chrom_id,
            options,
            runtime,
            chrom,
            length,
        } = self;
        let chrom_id = *chrom_id;
        let length = *length;

        (match process_val(
            current_val,
            next_val,
            length,
            &chrom,
            summary,
            items,
            options,
            &runtime,
            ftx,
            chrom_id,
        ) { Ok(v__) => v__, Err(e__) => return Err(bwii_into(e__)) });

        process_val_zoom(
            zoom_items,
            options,
            current_val,
            next_val,
            &runtime,
            chrom_id,
        );

        Ok(())
    }
}

impl BigWigNoZoomsProcess {
fn destroy(self) -> (r: NoZoomsInternalProcessedData)
    requires
        
        self.items@.len() == 0,
    ensures
        
        r.0.total_items == self.summary.total_items,
        
        r.0 == bw_final_summary(self.summary),
        
        self.summary.total_items == 0 && self.summary.bases_covered == 0 && self.summary.sum == 0.0f64 && self.summary.sum_squares == 0.0f64
            ==> r.0 == zero_summary(0),
        
        r.1@ == pairs_spec(self.zoom_counts@),
{
        let BigWigNoZoomsProcess {
            items,
            mut summary,
            zoom_counts,
            ..
        } = self;


        assert(items@.len() == 0); 
        assert((items.len() == 0));

        if summary.total_items == 0 {
            summary.min_val = 0.0;
            summary.max_val = 0.0;
        }

        let zoom_counts = zoom_pairs(zoom_counts);

        NoZoomsInternalProcessedData(summary, zoom_counts)
    }

fn do_process(
        &mut self,
        current_val: Value,
        next_val: Option<&Value>,
    ) -> (r: Result<(), ProcessDataError>)
    ensures
        
        pv_post(old(self).summary, old(self).items@, old(self).ftx, current_val, opt_value(next_val), old(self).length, old(self).options, old(self).chrom_id,
            final(self).summary, final(self).items@, final(self).ftx, r.is_ok()),
        
        r.is_err() ==> final(self).zoom_counts@ == old(self).zoom_counts@,
        
        pv_pre(old(self).summary, old(self).items@, old(self).ftx, current_val, opt_value(next_val), old(self).length, old(self).options, old(self).chrom_id)
            && r.is_ok() && next_val.is_none() ==> final(self).items@.len() == 0,
        
        final(self).chrom_id == old(self).chrom_id, final(self).length == old(self).length, final(self).options == old(self).options,
{
        let BigWigNoZoomsProcess {
            ftx,
            chrom_id,
            options,
            runtime,
            chrom,
            length,
            summary,
            items,
            zoom_counts,
        } = self;

        (match process_val(
            current_val,
            next_val,
            *length,
            &chrom,
            summary,
            items,
            options,
            &runtime,
            ftx,
            *chrom_id,
        ) { Ok(v__) => v__, Err(e__) => return Err(bwii_into(e__)) });

        zoom_counts_all(zoom_counts, current_val);

        Ok(())
    }
}

impl BigWigZoomsProcess {
fn do_process(
        &mut self,
        current_val: Value,
        next_val: Option<&Value>,
    ) -> (r: Result<(), ProcessDataError>)
    ensures
        
        pvz_post(old(self).zoom_items@, old(self).options, current_val, opt_value(next_val), old(self).chrom_id, final(self).zoom_items@),
        
        r.is_ok(),
        
        pvz_pre(old(self).zoom_items@, old(self).options, current_val, opt_value(next_val), old(self).chrom_id) && next_val.is_none()
            ==> flushed(final(self).zoom_items@),
        
        final(self).chrom_id == old(self).chrom_id, final(self).options == old(self).options,
        final(self).temp_zoom_items == old(self).temp_zoom_items,
{
        let BigWigZoomsProcess {
            chrom_id,
            options,
            runtime,
            zoom_items,
            ..
        } = self;

        process_val_zoom(
            zoom_items,
            options,
            current_val,
            next_val,
            &runtime,
            *chrom_id,
        );

        Ok(())
    }

fn destroy(self) -> (r: ZoomsInternalProcessedData)
    requires
        
        flushed(self.zoom_items@),
    ensures
        
        r.0 == self.temp_zoom_items,
{
        let BigWigZoomsProcess { zoom_items, .. } = self;

        for i__1 in 0..zoom_items.len() 
            invariant
                
                flushed(zoom_items@),
{ let zoom_item = &zoom_items[i__1];

            assert(zoom_item.live_info.is_none()); 
            assert(zoom_item.records@.len() == 0); 
            assert(zoom_item.live_info.is_none());
            assert((zoom_item.records.len() == 0));
        }

        ZoomsInternalProcessedData(self.temp_zoom_items)
    }
}

// ---- zoom-count loop body of BigWigNoZoomsProcess::do_process (R9 outline by presub, as bb_batch (3)) ----
/// number of tiles of width `res` laid from `ce` until `end` is reached
pub open spec fn tiles(ce: int, end: int, res: int) -> int
    decreases (if end > ce { end - ce } else { 0 })
{
    if res > 0 && end > ce { 1 + tiles(ce + res, end, res) } else { 0 }
}
proof fn lemma_tiles_bound(ce: int, end: int, res: int)
    requires res > 0,
    ensures 0 <= tiles(ce, end, res) <= (if end > ce { end - ce } else { 0 }),
    decreases (if end > ce { end - ce } else { 0 })
{
    if end > ce { lemma_tiles_bound(ce + res, end, res); }
}
proof fn lemma_tiles_step(ce: int, end: int, res: int)
    requires res > 0, end > ce,
    ensures tiles(ce, end, res) == 1 + tiles(ce + res, end, res),
        ce + tiles(ce, end, res) * res == (ce + res) + tiles(ce + res, end, res) * res,
{
    let t = tiles(ce + res, end, res);
    assert((1 + t) * res == res + t * res) by (nonlinear_arith);
}

fn zoom_count_step(zoom: &mut ZoomCounts, current_val: Value)
    requires
        
        0 < old(zoom).resolution <= u64::MAX / 4,
        old(zoom).counts <= u64::MAX - 0x1_0000_0001,
    ensures
        
        final(zoom).resolution == old(zoom).resolution,
        
        final(zoom).current_end >= current_val.end,
        
        ({
            let res = old(zoom).resolution as int;
            let fresh = current_val.start as int >= old(zoom).current_end as int;
            let ce1 = if fresh { current_val.start as int + res } else { old(zoom).current_end as int };
            let k = tiles(ce1, current_val.end as int, res);
            &&& final(zoom).counts as int == old(zoom).counts as int + (if fresh { 1int } else { 0int }) + k
            &&& final(zoom).current_end as int == ce1 + k * res
            &&& 0 <= k <= current_val.end
        }),
{
            if current_val.start as u64 >= zoom.current_end {
                zoom.counts = zoom.counts + (1);
                zoom.current_end = current_val.start as u64 + zoom.resolution;
            }

            let ghost ce1 = zoom.current_end as int;
            let ghost c1 = zoom.counts as int;
            let ghost res = zoom.resolution as int;
            proof { lemma_tiles_bound(ce1, current_val.end as int, res); }
            while current_val.end as u64 > zoom.current_end 
                invariant
                    
                    zoom.resolution == old(zoom).resolution, res == zoom.resolution as int,
                    0 < res <= u64::MAX / 4,
                    c1 <= old(zoom).counts + 1,
                    old(zoom).counts <= u64::MAX - 0x1_0000_0001,
                    
                    zoom.counts as int + tiles(zoom.current_end as int, current_val.end as int, res) == c1 + tiles(ce1, current_val.end as int, res),
                    zoom.current_end as int + tiles(zoom.current_end as int, current_val.end as int, res) * res == ce1 + tiles(ce1, current_val.end as int, res) * res,
                    0 <= tiles(ce1, current_val.end as int, res) <= current_val.end,
                    tiles(zoom.current_end as int, current_val.end as int, res) >= 0,
                decreases
                    
                    (if current_val.end as int > zoom.current_end as int { current_val.end as int - zoom.current_end as int } else { 0int }),
{
                zoom.counts = zoom.counts + (1);

                proof {
                    lemma_tiles_step(zoom.current_end as int, current_val.end as int, res); 
                    lemma_tiles_bound(zoom.current_end as int + res, current_val.end as int, res);
                }
                zoom.current_end = zoom.current_end + (zoom.resolution);
            }
}
} // mod bw

} // verus!
fn main() {}

