//@unit info
//@serves C10
//@backend verus
// bbiread::read_zoom_headers and the fixed-header part of bbiread::read_info.
// C10: a well-formed file is read correctly in either byte order: the (file type, byte order) pair
// is the one whose magic encoding the file starts with, every header field is the integer stored
// at its published offset in that byte order, the zoom directory is decoded entry by entry, and a
// file that starts with none of the four magic encodings is refused with UnknownMagic.
use vstd::prelude::*;
use vstd::std_specs::ops::*;
use vstd::std_specs::convert::FromSpec;
verus! {
//@include ../_shared/floats.rs
//@include ../_shared/bytes.rs

/// shim for byteordered::Endianness (external crate, a plain 2-variant enum)
#[derive(Clone, Copy)]
pub enum Endianness { Big, Little }
pub open spec fn is_big(e: Endianness) -> bool { e is Big }

//@extract const bigtools/src/bbi.rs BIGWIG_MAGIC
//@rule R8
//@end
//@extract const bigtools/src/bbi.rs BIGBED_MAGIC
//@rule R8
//@end
//@extract enum bigtools/src/bbi.rs BBIFile
//@rule R8
//@end
//@extract struct bigtools/src/bbi.rs ZoomHeader
//@rule R8
//@end
//@extract struct bigtools/src/bbi/bbiread.rs BBIHeader
//@rule R8
//@end
// thiserror derive: `#[error(..)]` display strings dropped, `#[from] io::Error` -> IoError; the
// From impl that `#[from]` generates is written out below (it wraps, nothing else).
//@extract enum bigtools/src/bbi/bbiread.rs BBIFileReadInfoError
//@rule R8
//@sub /#\[error\([^\n]*\)\]\n/ => "" min=3
//@sub /#\[from\] io::Error/ => IoError min=1
//@end
impl vstd::std_specs::convert::FromSpecImpl<IoError> for BBIFileReadInfoError {
    open spec fn obeys_from_spec() -> bool { true }
    open spec fn from_spec(e: IoError) -> BBIFileReadInfoError { BBIFileReadInfoError::IoError(e) }
}
impl From<IoError> for BBIFileReadInfoError {
    fn from(e: IoError) -> (r: BBIFileReadInfoError) { BBIFileReadInfoError::IoError(e) }
}

// ---- host byte order: ASSUMED little-endian (x86-64 / aarch64), as for NativeEndian in the writers ----
/// the u32 whose little-endian bytes are the big-endian bytes of x
pub open spec fn bswap32(x: u32) -> u32 { dbe32(le32(x), 0) as u32 }
pub assume_specification [u32::to_le] (x: u32) -> (r: u32) ensures r == x;
pub assume_specification [u32::to_be] (x: u32) -> (r: u32) ensures r == bswap32(x);

// ---- reader shim: `R: SeekableRead` / `BBIFileRead::raw_reader()` (Read + Seek over the file) ----
#[verifier::external_body]
pub struct VRead { _p: u8 }
impl VRead {
    pub uninterp spec fn content(&self) -> Seq<u8>;
    pub uninterp spec fn pos(&self) -> int;
    /// ghost: some call on this reader has returned Err (Verus does not carry the value of a `?`-converted
    /// error, so "no I/O error happened" is stated through this flag)
    pub uninterp spec fn failed(&self) -> bool;
    /// `let mut b = BytesMut::zeroed(n); file.read_exact(&mut b)?;` : Ok only if n bytes were available;
    /// then the buffer holds exactly content[pos..pos+n].  May fail for any other reason too.
    #[verifier::external_body]
    pub fn read_cur(&mut self, n: usize) -> (r: Result<Cur, IoError>)
        requires 0 <= old(self).pos()
        ensures
            final(self).content() == old(self).content(),
            final(self).failed() == (old(self).failed() || r is Err),
            r is Ok ==> old(self).pos() + n <= old(self).content().len()
                && r->Ok_0.rem() == old(self).content().subrange(old(self).pos(), old(self).pos() + n)
                && final(self).pos() == old(self).pos() + n,
    { unimplemented!() }
}

// ---- format spec (published layout) ----
/// zoom-directory entry i (24 bytes): reductionLevel u32, reserved u32, dataOffset u64, indexOffset u64
pub open spec fn zh_at(big: bool, s: Seq<u8>, i: int) -> ZoomHeader {
    ZoomHeader {
        reduction_level: d32(big, s, 24 * i) as u32,
        data_offset: d64(big, s, 24 * i + 8) as u64,
        index_offset: d64(big, s, 24 * i + 16) as u64,
        index_tree_offset: None,
    }
}
pub open spec fn zoom_dir_dec(big: bool, s: Seq<u8>, n: int) -> Seq<ZoomHeader>
    decreases n
{
    if n <= 0 { Seq::empty() } else { zoom_dir_dec(big, s, n - 1).push(zh_at(big, s, n - 1)) }
}
pub proof fn lemma_zoom_dir_dec(big: bool, s: Seq<u8>, n: int)
    requires 0 <= n,
    ensures zoom_dir_dec(big, s, n).len() == n,
        forall|i: int| 0 <= i < n ==> #[trigger] zoom_dir_dec(big, s, n)[i] == zh_at(big, s, i),
    decreases n
{
    if n > 0 { lemma_zoom_dir_dec(big, s, n - 1); }
}
pub open spec fn magic_of(t: BBIFile) -> u32 { match t { BBIFile::BigWig => BIGWIG_MAGIC, BBIFile::BigBed => BIGBED_MAGIC } }
/// the file starts (at m) with none of the four magic encodings
pub open spec fn no_known_magic(m: Seq<u8>) -> bool {
    m != be32(BIGWIG_MAGIC) && m != le32(BIGWIG_MAGIC) && m != be32(BIGBED_MAGIC) && m != le32(BIGBED_MAGIC)
}
/// the fixed header fields, each decoded at its published offset (relative to the header start) in byte order `big`
pub open spec fn header_at(big: bool, e: Endianness, s: Seq<u8>) -> BBIHeader {
    BBIHeader {
        endianness: e,
        version: d16(big, s, 4) as u16,
        zoom_levels: d16(big, s, 6) as u16,
        chromosome_tree_offset: d64(big, s, 8) as u64,
        full_data_offset: d64(big, s, 16) as u64,
        full_index_offset: d64(big, s, 24) as u64,
        full_index_tree_offset: None,
        field_count: d16(big, s, 32) as u16,
        defined_field_count: d16(big, s, 34) as u16,
        auto_sql_offset: d64(big, s, 36) as u64,
        total_summary_offset: d64(big, s, 44) as u64,
        uncompress_buf_size: d32(big, s, 52) as u32,
    }
}

// ---- lemmas ----
/// decoding is injective: the 4 bytes at s[k..] are the big-endian encoding of the value they decode to
pub proof fn lemma_be32_of_dbe32(s: Seq<u8>, k: int)
    requires 0 <= k, k + 4 <= s.len(),
    ensures s.subrange(k, k + 4) == be32(dbe32(s, k) as u32), 0 <= dbe32(s, k) <= u32::MAX,
{
    let a = s[k] as int; let b = s[k + 1] as int; let c = s[k + 2] as int; let d = s[k + 3] as int;
    let x = dbe32(s, k);
    assert(x == 256 * (65536 * a + 256 * b + c) + d);
    assert(x % 256 == d && x / 256 == 65536 * a + 256 * b + c);
    assert(x == 65536 * (256 * a + b) + (256 * c + d));
    assert(x / 65536 == 256 * a + b);
    assert(x == 16777216 * a + (65536 * b + 256 * c + d));
    assert(x / 16777216 == a);
    assert((65536 * a + 256 * b + c) % 256 == c);
    assert((256 * a + b) % 256 == b);
    reveal(byte_of);
    assert(s.subrange(k, k + 4) =~= be32(x as u32));
}
/// the four magic encodings, byte by byte (0x888FFC26 bigWig, 0x8789F2EB bigBed)
pub proof fn lemma_magic_consts()
    ensures
        be32(BIGWIG_MAGIC) == seq![0x88u8, 0x8F, 0xFC, 0x26], le32(BIGWIG_MAGIC) == seq![0x26u8, 0xFC, 0x8F, 0x88],
        be32(BIGBED_MAGIC) == seq![0x87u8, 0x89, 0xF2, 0xEB], le32(BIGBED_MAGIC) == seq![0xEBu8, 0xF2, 0x89, 0x87],
        bswap32(BIGWIG_MAGIC) == 0x26FC_8F88u32, bswap32(BIGBED_MAGIC) == 0xEBF2_8987u32,
{
    reveal(byte_of);
    assert(be32(BIGWIG_MAGIC) =~= seq![0x88u8, 0x8F, 0xFC, 0x26]);
    assert(le32(BIGWIG_MAGIC) =~= seq![0x26u8, 0xFC, 0x8F, 0x88]);
    assert(be32(BIGBED_MAGIC) =~= seq![0x87u8, 0x89, 0xF2, 0xEB]);
    assert(le32(BIGBED_MAGIC) =~= seq![0xEBu8, 0xF2, 0x89, 0x87]);
}
/// what the value of the first four bytes, read big-endian, says about those bytes
pub proof fn lemma_magic_table(m: Seq<u8>)
    requires m.len() == 4,
    ensures
        dbe32(m, 0) == BIGWIG_MAGIC <==> m == be32(BIGWIG_MAGIC),
        dbe32(m, 0) == bswap32(BIGWIG_MAGIC) <==> m == le32(BIGWIG_MAGIC),
        dbe32(m, 0) == BIGBED_MAGIC <==> m == be32(BIGBED_MAGIC),
        dbe32(m, 0) == bswap32(BIGBED_MAGIC) <==> m == le32(BIGBED_MAGIC),
{
    lemma_magic_consts();
    lemma_be32_of_dbe32(m, 0);
    assert(m.subrange(0, 4) =~= m);
    // m == [a,b,c,d]  <==>  its four bytes are a,b,c,d
    assert(m =~= seq![m[0], m[1], m[2], m[3]]);
    if dbe32(m, 0) == BIGWIG_MAGIC { assert(m == be32(BIGWIG_MAGIC)); }
    if dbe32(m, 0) == BIGBED_MAGIC { assert(m == be32(BIGBED_MAGIC)); }
    if dbe32(m, 0) == 0x26FC_8F88 { reveal(byte_of); assert(be32(0x26FC_8F88u32) =~= le32(BIGWIG_MAGIC)); }
    if dbe32(m, 0) == 0xEBF2_8987 { reveal(byte_of); assert(be32(0xEBF2_8987u32) =~= le32(BIGBED_MAGIC)); }
}

//@extract fn bigtools/src/bbi/bbiread.rs read_zoom_headers
//@rule R16
//@rule R8
//@sub /<R: SeekableRead>\(\s*file: &mut R,/ => (file: &mut VRead, min=1
//@sub /io::Result<Vec<ZoomHeader>>/ => Result<Vec<ZoomHeader>, IoError> min=1
//@sub /let mut header_data = BytesMut::zeroed\(([^;]*)\);\s*file\.read_exact\(&mut header_data\)\?;/ => let mut header_data = file.read_cur(\1)?; min=1
//@sub /for _ in 0\.\.header\.zoom_levels/ => for k__ in 0..header.zoom_levels min=2
//@ret r
//@sig
    requires
        [[L: pre_reader_position]]
        0 <= old(file).pos(),
    ensures
        [[L: file_not_modified]]
        final(file).content() == old(file).content(),
        [[L: error_iff_the_read_failed]]
        final(file).failed() == (old(file).failed() || r is Err),
        [[L: short_directory_is_an_error]]
        old(file).pos() + 24 * header.zoom_levels > old(file).content().len() ==> r is Err,
        [[L: consumes_24_bytes_per_level]]
        r is Ok ==> final(file).pos() == old(file).pos() + 24 * header.zoom_levels,
        [[L: entries_decoded_at_published_offsets]]
        r is Ok ==> r->Ok_0@ == zoom_dir_dec(is_big(header.endianness),
            old(file).content().subrange(old(file).pos(), old(file).pos() + 24 * header.zoom_levels), header.zoom_levels as int),
        [[L: one_entry_per_level]]
        r is Ok ==> r->Ok_0@.len() == header.zoom_levels
            && forall|i: int| 0 <= i < header.zoom_levels ==> #[trigger] r->Ok_0@[i] == zh_at(is_big(header.endianness),
                old(file).content().subrange(old(file).pos(), old(file).pos() + 24 * header.zoom_levels), i),
//@at /let mut zoom_headers = vec!\[\];/ before
    let ghost dir = old(file).content().subrange(old(file).pos(), old(file).pos() + 24 * header.zoom_levels);
//@loop 1
                invariant
                    [[L: loop_be/cursor_at_entry_boundary]]
                    header_data.rem() == dir.subrange(24 * k__ as int, dir.len() as int), dir.len() == 24 * header.zoom_levels,
                    [[L: loop_be/prefix_decoded]]
                    zoom_headers@ == zoom_dir_dec(true, dir, k__ as int),
//@loop 2
                invariant
                    [[L: loop_le/cursor_at_entry_boundary]]
                    header_data.rem() == dir.subrange(24 * k__ as int, dir.len() as int), dir.len() == 24 * header.zoom_levels,
                    [[L: loop_le/prefix_decoded]]
                    zoom_headers@ == zoom_dir_dec(false, dir, k__ as int),
//@at /zoom_headers\.push\(ZoomHeader \{/ nth=1 before
                proof {
                    [[L: loop_be/entry_is_24_bytes]]
                    assert(header_data.rem() =~= dir.subrange(24 * (k__ + 1), dir.len() as int));
                    [[L: loop_be/fields_at_published_offsets]]
                    assert(reduction_level == zh_at(true, dir, k__ as int).reduction_level && data_offset == zh_at(true, dir, k__ as int).data_offset
                        && index_offset == zh_at(true, dir, k__ as int).index_offset);
                }
//@at /zoom_headers\.push\(ZoomHeader \{/ nth=2 before
                proof {
                    [[L: loop_le/entry_is_24_bytes]]
                    assert(header_data.rem() =~= dir.subrange(24 * (k__ + 1), dir.len() as int));
                    [[L: loop_le/fields_at_published_offsets]]
                    assert(reduction_level == zh_at(false, dir, k__ as int).reduction_level && data_offset == zh_at(false, dir, k__ as int).data_offset
                        && index_offset == zh_at(false, dir, k__ as int).index_offset);
                }
//@at /Ok\(zoom_headers\)/ before
    proof { lemma_zoom_dir_dec(is_big(header.endianness), dir, header.zoom_levels as int); }
//@end

// read_info, CUT after `let zoom_headers = read_zoom_headers(file, &header)?;`: everything from the seek to the
// chromosome tree to the end (chromosome-tree header, read_chrom_tree_block, BBIFileInfo construction) is
// replaced by returning (filetype, header, zoom_headers).
//@extract fn bigtools/src/bbi/bbiread.rs read_info
//@rule R16
//@rule R8
//@presub /file\.seek\(SeekFrom::Start\(header\.chromosome_tree_offset\)\)\?;.*Ok\(info\)/ => Ok((filetype, header, zoom_headers)) min=1
//@sub /<R: BBIFileRead>\(file: &mut R\)/ => (file: &mut VRead) min=1
//@sub /let mut file = file\.raw_reader\(\);\n/ => "" min=1
//@sub /Result<BBIFileInfo, BBIFileReadInfoError>/ => Result<(BBIFile, BBIHeader, Vec<ZoomHeader>), BBIFileReadInfoError> min=1
//@sub /let mut header_data = BytesMut::zeroed\(([^;]*)\);\s*file\.read_exact\(&mut header_data\)\?;/ => let mut header_data = file.read_cur(\1)?; min=1
//@ret r
//@sig
    requires
        [[L: pre_reader_position]]
        0 <= old(file).pos(),
    ensures
        [[L: file_not_modified]]
        final(file).content() == old(file).content(),
        [[L: magic_selects_type_and_byte_order]]
        r is Ok ==> old(file).pos() + 64 <= old(file).content().len()
            && old(file).content().subrange(old(file).pos(), old(file).pos() + 4) == e32(is_big(r->Ok_0.1.endianness), magic_of(r->Ok_0.0)),
        [[L: magic_table_rows]]
        r is Ok ==> ({
            let m = old(file).content().subrange(old(file).pos(), old(file).pos() + 4);
            let t = r->Ok_0.0; let e = r->Ok_0.1.endianness;
            &&& (m == be32(BIGWIG_MAGIC) ==> t is BigWig && e is Big)
            &&& (m == le32(BIGWIG_MAGIC) ==> t is BigWig && e is Little)
            &&& (m == be32(BIGBED_MAGIC) ==> t is BigBed && e is Big)
            &&& (m == le32(BIGBED_MAGIC) ==> t is BigBed && e is Little)
        }),
        [[L: unknown_magic_is_refused]]
        no_known_magic(old(file).content().subrange(old(file).pos(), old(file).pos() + 4)) ==> r is Err,
        [[L: refusal_is_unknown_magic_unless_io_failed]]
        !old(file).failed() && !final(file).failed() && r is Err ==> r->Err_0 is UnknownMagic
            && old(file).pos() + 64 <= old(file).content().len()
            && no_known_magic(old(file).content().subrange(old(file).pos(), old(file).pos() + 4)),
        [[L: io_failure_is_reported]]
        !old(file).failed() && final(file).failed() ==> r is Err,
        [[L: header_fields_at_published_offsets]]
        r is Ok ==> r->Ok_0.1 == header_at(is_big(r->Ok_0.1.endianness), r->Ok_0.1.endianness,
            old(file).content().subrange(old(file).pos(), old(file).pos() + 64)),
        [[L: zoom_directory_follows_header]]
        r is Ok ==> r->Ok_0.2@ == zoom_dir_dec(is_big(r->Ok_0.1.endianness),
            old(file).content().subrange(old(file).pos() + 64, old(file).pos() + 64 + 24 * r->Ok_0.1.zoom_levels), r->Ok_0.1.zoom_levels as int),
        [[L: position_after_directory]]
        r is Ok ==> final(file).pos() == old(file).pos() + 64 + 24 * r->Ok_0.1.zoom_levels,
//@at /^\s*let magic = / before
    let ghost h = old(file).content().subrange(old(file).pos(), old(file).pos() + 64);
    let ghost m4 = old(file).content().subrange(old(file).pos(), old(file).pos() + 4);
    proof {
        [[L: body/header_is_the_64_bytes_at_the_reader_position]]
        assert(header_data.rem() == h);
        assert(m4 =~= h.subrange(0, 4));
        lemma_magic_table(m4);
        lemma_magic_consts();
        assert(dbe32(h, 0) == dbe32(m4, 0));
    }
//@at /let header = BBIHeader \{/ before
    proof {
        [[L: body/magic_decoded_per_table]]
        assert(m4 == e32(is_big(endianness), magic_of(filetype)));
        [[L: body/fields_decoded_in_selected_order]]
        assert(version == d16(is_big(endianness), h, 4) && zoom_levels == d16(is_big(endianness), h, 6)
            && chromosome_tree_offset == d64(is_big(endianness), h, 8) && full_data_offset == d64(is_big(endianness), h, 16)
            && full_index_offset == d64(is_big(endianness), h, 24) && field_count == d16(is_big(endianness), h, 32)
            && defined_field_count == d16(is_big(endianness), h, 34) && auto_sql_offset == d64(is_big(endianness), h, 36)
            && total_summary_offset == d64(is_big(endianness), h, 44) && uncompress_buf_size == d32(is_big(endianness), h, 52));
    }
//@end

} // verus!
fn main() {}
