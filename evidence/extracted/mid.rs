// bbiwrite::write_mid -- the stage between the data blocks and the zoom levels: it measures the data, writes the
// chromosome tree and the full-data R-tree index and reports the three offsets the header will carry.
//   C09: "header fields, offsets and counts are mutually consistent": chromosomeTreeOffset IS where the chromosome
//   tree starts, fullIndexOffset IS where the R-tree index starts (right behind the chromosome tree), the data size is
//   what lies between the first data byte and the chromosome tree, the section count is the one of the index that was
//   written; the sections handed to the index builder are the raw sections rebased from `pre_data` (closure: unit
//   sec_offsets).  The callees are logged shims here: write_chrom_tree (unit chrom_tree), get_rtreeindex (units
//   rt_tree / rt_spans / rt_build), write_rtreeindex (unit rt_layout).  Unit mutual consumes this function by its
//   signature; what mutual assumes about the returned tuple is proved here.
use vstd::prelude::*;
verus! {

pub struct IoErr {}
pub enum ProcessDataError { InvalidInput(IoErr), InvalidChromosome(IoErr), IoError(IoErr) }
impl vstd::std_specs::convert::FromSpecImpl<IoErr> for ProcessDataError {
    open spec fn obeys_from_spec() -> bool { true }
    open spec fn from_spec(e: IoErr) -> ProcessDataError { ProcessDataError::IoError(e) }
}
impl From<IoErr> for ProcessDataError { fn from(e: IoErr) -> (r: ProcessDataError) ensures r == ProcessDataError::IoError(e) { ProcessDataError::IoError(e) } }

/// what is appended to the output file, as a log of events in order (the byte images are the callees' business)
pub enum Ev { ChromTree { at: int, len: int }, Index { at: int, len: int, tree: int } }
/// `BufWriter<W>`: append-only output positioned at its end; `tell()` = bytes written so far
#[verifier::external_body]
pub struct FileW { _p: u8 }
impl FileW {
    pub uninterp spec fn len(&self) -> int;
    pub uninterp spec fn log(&self) -> Seq<Ev>;
    #[verifier::external_body]
    pub fn tell(&mut self) -> (r: Result<u64, IoErr>)
        ensures final(self).len() == old(self).len(), final(self).log() == old(self).log(), r matches Ok(p) ==> p as int == old(self).len(),
    { unimplemented!() }
}
#[verifier::external_body] pub struct ChromSizes { _p: u8 }
#[verifier::external_body] pub struct ChromIds { _p: u8 }
#[verifier::external_body] pub struct BBIWriteOptions { _p: u8 }
/// a stream of sections (raw: offsets relative to the data start; rebased: file offsets)
#[verifier::external_body] pub struct Sections { _p: u8 }
impl Sections {
    /// identity of the underlying raw stream, and the base its offsets were rebased from (None: still raw)
    pub uninterp spec fn raw_id(&self) -> int;
    pub uninterp spec fn base(&self) -> Option<u64>;
}
/// `raw_sections_iter.map(|mut section| { section.offset = current_offset; current_offset += section.size; section })`
/// with `current_offset` starting at `start` (closure body: unit sec_offsets, `rebase_write_mid`)
#[verifier::external_body]
pub fn rebase_from(raw: Sections, start: u64) -> (r: Sections)
    ensures r.raw_id() == raw.raw_id(), r.base() == Some(start),
{ unimplemented!() }
#[verifier::external_body] pub struct Tree { _p: u8 }
impl Tree { pub uninterp spec fn id(&self) -> int; pub uninterp spec fn from_raw(&self) -> int; pub uninterp spec fn from_base(&self) -> Option<u64>; pub uninterp spec fn count(&self) -> u64; }
/// write_chrom_tree (unit chrom_tree): appends the tree image at the current end of the file
#[verifier::external_body]
pub fn write_chrom_tree(file: &mut FileW, chrom_sizes: ChromSizes, chrom_ids: &ChromIds) -> (r: Result<(), IoErr>)
    ensures r is Ok ==> final(file).len() > old(file).len()
        && final(file).log() == old(file).log().push(Ev::ChromTree { at: old(file).len(), len: final(file).len() - old(file).len() }),
{ unimplemented!() }
/// get_rtreeindex (units rt_tree, rt_spans, rt_build): (nodes, levels, total_sections) of THIS section stream
#[verifier::external_body]
pub fn get_rtreeindex(sections: Sections, options: &BBIWriteOptions) -> (r: (Tree, usize, u64))
    ensures r.0.from_raw() == sections.raw_id(), r.0.from_base() == sections.base(), r.2 == r.0.count(),
{ unimplemented!() }
/// write_rtreeindex (unit rt_layout): appends the index image of THIS tree at the current end of the file
#[verifier::external_body]
pub fn write_rtreeindex(file: &mut FileW, nodes: Tree, levels: usize, section_count: u64, options: &BBIWriteOptions) -> (r: Result<(), IoErr>)
    ensures r is Ok ==> final(file).len() > old(file).len()
        && final(file).log() == old(file).log().push(Ev::Index { at: old(file).len(), len: final(file).len() - old(file).len(), tree: nodes.id() }),
{ unimplemented!() }
pub uninterp spec fn tree_of(raw: int, base: u64) -> int;
pub uninterp spec fn count_of(raw: int, base: u64) -> u64;
pub open spec fn ct_at(e: Ev) -> int { match e { Ev::ChromTree { at, .. } => at, _ => -1 } }
pub open spec fn ct_end(e: Ev) -> int { match e { Ev::ChromTree { at, len } => at + len, _ => -1 } }
pub open spec fn ix_at(e: Ev) -> int { match e { Ev::Index { at, .. } => at, _ => -1 } }
pub open spec fn ix_tree(e: Ev) -> int { match e { Ev::Index { tree, .. } => tree, _ => -1 } }
pub broadcast axiom fn ax_tree_identity(t: Tree)
    ensures t.from_base() is Some ==> #[trigger] t.id() == tree_of(t.from_raw(), t.from_base()->Some_0) && t.count() == count_of(t.from_raw(), t.from_base()->Some_0);

pub fn write_mid(
    file: &mut FileW,
    pre_data: u64,
    raw_sections_iter: Sections,
    chrom_sizes: ChromSizes,
    chrom_ids: &ChromIds,
    options: &BBIWriteOptions,
) -> (r: Result<(u64, u64, u64, u64), ProcessDataError>)
    requires
        
        pre_data as int <= old(file).len(), old(file).len() < 0x7fff_ffff_ffff_ffff,
    ensures
        
        r matches Ok(o) ==> o.0 as int == old(file).len() - pre_data,
        
        r is Ok ==> final(file).log().len() == old(file).log().len() + 2
            && final(file).log().subrange(0, old(file).log().len() as int) == old(file).log(),
        
        r matches Ok(o) ==> o.1 as int == old(file).len() && ct_at(final(file).log()[old(file).log().len() as int]) == o.1 as int,
        
        r matches Ok(o) ==> ix_at(final(file).log()[old(file).log().len() as int + 1]) == o.2 as int
            && ct_end(final(file).log()[old(file).log().len() as int]) == o.2 as int,
        
        r is Ok ==> ix_tree(final(file).log()[old(file).log().len() as int + 1]) == tree_of(raw_sections_iter.raw_id(), pre_data),
        
        r matches Ok(o) ==> o.3 == count_of(raw_sections_iter.raw_id(), pre_data),
{
    broadcast use ax_tree_identity;

    let data_size = file.tell()? - pre_data;
    let sections_iter = rebase_from(raw_sections_iter, pre_data);

    // This deviates slighly from the layout of bigBeds generated from kent tools (but are 100%)
    // compatible. In kent tools, the chrom tree is written *before* the data.
    // However, in order to do this, the data must be read *twice*, which we don't want. Luckily,
    // the chrom tree offset is stored to be seeked to before read, so
    // it doesn't matter where in the file these are placed. The one caveat to this is in any
    // caching (most commonly over-the-network): if the caching "chunk" size is large enough to
    // cover either/both the autosql and chrom tree with the start of the file, then this may
    // cause two separate "chunks" (and therefore, e.g., network requests), compared to one.

    // Since the chrom tree is read before the index, we put this before the full data index
    // Therefore, there is a higher likelihood that the udc file will only need one read for
    // chrom tree + full data index.
    let chrom_index_start = file.tell()?;
    write_chrom_tree(file, chrom_sizes, &chrom_ids)?;

    let index_start = file.tell()?;
    let (nodes, levels, total_sections) = get_rtreeindex(sections_iter, &options);
    write_rtreeindex(file, nodes, levels, total_sections, &options)?;

    Ok((data_size, chrom_index_start, index_start, total_sections))
}

} // verus!
fn main() {}

