#!/bin/bash
# run every registered quick check on the unchanged tree; print one line per property; exit 1 if any is not OK
cd /verif; bad=0
for p in $(python3 -c "import json;print(' '.join(c['property_id'] for c in json.load(open('MANIFEST.json'))['checks']))"); do
  out=$(./check $p 2>&1 | grep -v KNOWN | grep "^OK\|^VIOL\|^UNDEC" | head -1 | cut -c1-150); echo "$out"; case "$out" in OK*) ;; *) bad=1;; esac
done
exit $bad
