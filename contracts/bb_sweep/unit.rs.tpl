//@unit bb_sweep
//@serves C06
//@backend verus
use vstd::prelude::*;
use vstd::std_specs::ops::*;
use vstd::std_specs::convert::FromSpec;
verus! {
//@include ../_shared/floats.rs

//@extract struct bigtools/src/bbi.rs Summary
//@rule R8
//@end
//@extract struct bigtools/src/bbi.rs Value
//@rule R8
//@end
//@include ../_shared/vlist.rs

//@extract closure bigtools/src/bbi/bigbedwrite.rs process_val add_interval_to_summary
//@header fn add_interval_to_summary(overlap: &mut VList, summary: &mut Option<Summary>, item_start: u32, item_end: u32, next_start_opt: Option<u32>)
//@rule R5 min=3
//@rule R6 min=2
//@rule R12f min=2
//@end

} // verus!
fn main() {}
