// every function in its own Z3 process: the shared lemma_codec32 (div/mod under reveal(byte_of)) is
// unstable when it shares a solver context with this unit's recursive spec functions (rlimit at 10 s)
// bigwigread::get_block_values: one (uncompressed) bigWig data block -> the values of chromosome
// `chrom` overlapping [start, end), clipped, in stored order.  Section types 1 (bedGraph),
// 2 (variable step), 3 (fixed step), both byte orders (symbolic `endianness`).
// C03: per-block statement (exact strict-overlap filter + clip + order, nothing else).
// C10: decode of any well-formed section bytes.  C01: lemma bw_roundtrip joins the reader's
// format vocabulary (raw_items) with the writer's (fmt_bw_section, copied from unit bw_enc).
use vstd::prelude::*;
use vstd::std_specs::ops::*;
use vstd::std_specs::convert::FromSpec;
verus! {
// ---- shared float prelude -------------------------------------------------
// Rust float operators are total; Verus models their results as uninterpreted
// functions (`add_spec`, `mul_spec`, `from_spec`, ...).  The axioms below say
// only (1) the operators have no precondition and (2) the exec operator returns
// the value of its spec function (determinism).  Nothing numerical is assumed.
mod float_ax {
use vstd::prelude::*;
use vstd::std_specs::ops::*;
use vstd::std_specs::convert::FromSpec;
pub broadcast axiom fn ax_f64_mul_total(a: f64, b: f64) ensures #[trigger] a.mul_req(b);
pub broadcast axiom fn ax_f64_add_total(a: f64, b: f64) ensures #[trigger] a.add_req(b);
pub broadcast axiom fn ax_f64_sub_total(a: f64, b: f64) ensures #[trigger] a.sub_req(b);
pub broadcast axiom fn ax_f64_div_total(a: f64, b: f64) ensures #[trigger] a.div_req(b);
pub broadcast axiom fn ax_f32_add_total(a: f32, b: f32) ensures #[trigger] a.add_req(b);
pub broadcast axiom fn ax_f32_sub_total(a: f32, b: f32) ensures #[trigger] a.sub_req(b);
pub broadcast group float_total { ax_f64_mul_total, ax_f64_add_total, ax_f64_sub_total, ax_f64_div_total, ax_f32_add_total, ax_f32_sub_total }
pub axiom fn float_det()
    ensures
        <f64 as AddSpec<f64>>::obeys_add_spec(), <f64 as MulSpec<f64>>::obeys_mul_spec(),
        <f64 as SubSpec<f64>>::obeys_sub_spec(), <f64 as DivSpec<f64>>::obeys_div_spec(),
        <f32 as AddSpec<f32>>::obeys_add_spec(), <f32 as SubSpec<f32>>::obeys_sub_spec(),
        <f64 as FromSpec<u32>>::obeys_from_spec(), <f64 as FromSpec<f32>>::obeys_from_spec();
}
broadcast use float_ax::float_total;
pub uninterp spec fn fmin(a: f64, b: f64) -> f64;
pub uninterp spec fn fmax(a: f64, b: f64) -> f64;
pub assume_specification [f64::min] (a: f64, b: f64) -> (r: f64) ensures r == fmin(a, b);
pub assume_specification [f64::max] (a: f64, b: f64) -> (r: f64) ensures r == fmax(a, b);
// float constants (rule R12c): Verus has no model of core::f64 associated consts; each is an
// uninterpreted spec constant, distinct names so that swapping two of them is visible.
pub uninterp spec fn spec_f64_max() -> f64;
pub uninterp spec fn spec_f64_min() -> f64;
pub uninterp spec fn spec_f64_min_positive() -> f64;
pub uninterp spec fn spec_f64_nan() -> f64;
pub uninterp spec fn spec_f64_infinity() -> f64;
pub uninterp spec fn spec_f64_neg_infinity() -> f64;
pub uninterp spec fn spec_f64_epsilon() -> f64;
#[verifier::external_body] pub fn fconst_f64_max() -> (r: f64) ensures r == spec_f64_max() { f64::MAX }
#[verifier::external_body] pub fn fconst_f64_min() -> (r: f64) ensures r == spec_f64_min() { f64::MIN }
#[verifier::external_body] pub fn fconst_f64_min_positive() -> (r: f64) ensures r == spec_f64_min_positive() { f64::MIN_POSITIVE }
#[verifier::external_body] pub fn fconst_f64_nan() -> (r: f64) ensures r == spec_f64_nan() { f64::NAN }
#[verifier::external_body] pub fn fconst_f64_infinity() -> (r: f64) ensures r == spec_f64_infinity() { f64::INFINITY }
#[verifier::external_body] pub fn fconst_f64_neg_infinity() -> (r: f64) ensures r == spec_f64_neg_infinity() { f64::NEG_INFINITY }
#[verifier::external_body] pub fn fconst_f64_epsilon() -> (r: f64) ensures r == spec_f64_epsilon() { f64::EPSILON }
// ---- shared byte-level prelude ---------------------------------------------
// Format vocabulary written from the published BBI layout (Kent et al. 2010),
// as arithmetic on byte values - not as calls to from_le_bytes/to_le_bytes.
/// k-th base-256 digit of x (opaque: the div/mod arithmetic is only unfolded inside the codec lemmas)
#[verifier::opaque]
pub open spec fn byte_of(x: int, k: int) -> u8 {
    if k == 0 { (x % 256) as u8 } else if k == 1 { (x / 256 % 256) as u8 } else if k == 2 { (x / 65536 % 256) as u8 }
    else if k == 3 { (x / 16777216 % 256) as u8 } else if k == 4 { (x / 4294967296 % 256) as u8 }
    else if k == 5 { (x / 1099511627776 % 256) as u8 } else if k == 6 { (x / 281474976710656 % 256) as u8 }
    else { (x / 72057594037927936 % 256) as u8 }
}
pub open spec fn le16(x: u16) -> Seq<u8> { seq![byte_of(x as int, 0), byte_of(x as int, 1)] }
pub open spec fn le32(x: u32) -> Seq<u8> { seq![byte_of(x as int, 0), byte_of(x as int, 1), byte_of(x as int, 2), byte_of(x as int, 3)] }
pub open spec fn le64(x: u64) -> Seq<u8> {
    seq![byte_of(x as int, 0), byte_of(x as int, 1), byte_of(x as int, 2), byte_of(x as int, 3),
         byte_of(x as int, 4), byte_of(x as int, 5), byte_of(x as int, 6), byte_of(x as int, 7)]
}
pub open spec fn be16(x: u16) -> Seq<u8> { seq![byte_of(x as int, 1), byte_of(x as int, 0)] }
pub open spec fn be32(x: u32) -> Seq<u8> { seq![byte_of(x as int, 3), byte_of(x as int, 2), byte_of(x as int, 1), byte_of(x as int, 0)] }
pub open spec fn be64(x: u64) -> Seq<u8> {
    seq![byte_of(x as int, 7), byte_of(x as int, 6), byte_of(x as int, 5), byte_of(x as int, 4),
         byte_of(x as int, 3), byte_of(x as int, 2), byte_of(x as int, 1), byte_of(x as int, 0)]
}
// decode: value of the little-/big-endian integer stored at s[i..]
pub open spec fn dle16(s: Seq<u8>, i: int) -> int { s[i] as int + 256 * (s[i + 1] as int) }
pub open spec fn dle32(s: Seq<u8>, i: int) -> int {
    s[i] as int + 256 * (s[i + 1] as int) + 65536 * (s[i + 2] as int) + 16777216 * (s[i + 3] as int)
}
pub open spec fn dle64(s: Seq<u8>, i: int) -> int { dle32(s, i) + 4294967296 * dle32(s, i + 4) }
pub open spec fn dbe16(s: Seq<u8>, i: int) -> int { 256 * (s[i] as int) + s[i + 1] as int }
pub open spec fn dbe32(s: Seq<u8>, i: int) -> int {
    16777216 * (s[i] as int) + 65536 * (s[i + 1] as int) + 256 * (s[i + 2] as int) + s[i + 3] as int
}
pub open spec fn dbe64(s: Seq<u8>, i: int) -> int { 4294967296 * dbe32(s, i) + dbe32(s, i + 4) }
/// integer at s[i..] in byte order `big`
pub open spec fn d16(big: bool, s: Seq<u8>, i: int) -> int { if big { dbe16(s, i) } else { dle16(s, i) } }
pub open spec fn d32(big: bool, s: Seq<u8>, i: int) -> int { if big { dbe32(s, i) } else { dle32(s, i) } }
pub open spec fn d64(big: bool, s: Seq<u8>, i: int) -> int { if big { dbe64(s, i) } else { dle64(s, i) } }
pub open spec fn e16(big: bool, x: u16) -> Seq<u8> { if big { be16(x) } else { le16(x) } }
pub open spec fn e32(big: bool, x: u32) -> Seq<u8> { if big { be32(x) } else { le32(x) } }
pub open spec fn e64(big: bool, x: u64) -> Seq<u8> { if big { be64(x) } else { le64(x) } }

// Floats on disk: IEEE bit patterns.  `to_bits`/`from_bits` are uninterpreted; the only
// assumed fact is that they are inverse (true of Rust's f32::to_bits/from_bits bit-for-bit).
pub uninterp spec fn f32_bits(x: f32) -> u32;
pub uninterp spec fn f32_of_bits(b: u32) -> f32;
pub uninterp spec fn f64_bits(x: f64) -> u64;
pub uninterp spec fn f64_of_bits(b: u64) -> f64;
pub broadcast axiom fn ax_f32_bits_inv(x: f32) ensures #[trigger] f32_of_bits(f32_bits(x)) == x;
pub broadcast axiom fn ax_f64_bits_inv(x: f64) ensures #[trigger] f64_of_bits(f64_bits(x)) == x;

#[verifier::external_body]
#[derive(Debug)]
pub struct IoError { _p: u8 }

#[verifier::external_body]
pub fn vpanic() -> !
    requires false
{ panic!() }

// ---- Sink: append-only in-memory writer (`Vec<u8>` used through byteorder::WriteBytesExt / io::Write).
// Assumed contracts: NativeEndian == LittleEndian (x86-64 / aarch64 targets); writes to a Vec never
// fail, the io::Result plumbing is kept so that `?` in the code typechecks.
pub struct Sink { pub bytes: Vec<u8> }
impl Sink {
    pub open spec fn view(&self) -> Seq<u8> { self.bytes@ }
    #[verifier::external_body]
    pub fn with_capacity(n: usize) -> (r: Sink) ensures r@.len() == 0 { Sink { bytes: Vec::with_capacity(n) } }
    pub fn len(&self) -> (r: usize) ensures r == self@.len() { self.bytes.len() }
    #[verifier::external_body]
    pub fn put_u8(&mut self, v: u8) -> (r: Result<(), IoError>)
        ensures r.is_ok(), final(self)@ == old(self)@.push(v) { unimplemented!() }
    #[verifier::external_body]
    pub fn put_u16(&mut self, v: u16) -> (r: Result<(), IoError>)
        ensures r.is_ok(), final(self)@ == old(self)@ + le16(v) { unimplemented!() }
    #[verifier::external_body]
    pub fn put_u32(&mut self, v: u32) -> (r: Result<(), IoError>)
        ensures r.is_ok(), final(self)@ == old(self)@ + le32(v) { unimplemented!() }
    #[verifier::external_body]
    pub fn put_u64(&mut self, v: u64) -> (r: Result<(), IoError>)
        ensures r.is_ok(), final(self)@ == old(self)@ + le64(v) { unimplemented!() }
    #[verifier::external_body]
    pub fn put_f32(&mut self, v: f32) -> (r: Result<(), IoError>)
        ensures r.is_ok(), final(self)@ == old(self)@ + le32(f32_bits(v)) { unimplemented!() }
    #[verifier::external_body]
    pub fn put_f64(&mut self, v: f64) -> (r: Result<(), IoError>)
        ensures r.is_ok(), final(self)@ == old(self)@ + le64(f64_bits(v)) { unimplemented!() }
    #[verifier::external_body]
    pub fn put_bytes(&mut self, b: &[u8]) -> (r: Result<(), IoError>)
        ensures r.is_ok(), final(self)@ == old(self)@ + b@ { unimplemented!() }
}

// ---- FSink: seekable destination (`BufWriter<W: Write + Seek>`).  Ghost image `data()` and
// position `pos()`.  A put at `pos` overwrites/extends the image; any operation may fail, in
// which case nothing is promised about the image (callers must propagate the error).
#[verifier::external_body]
pub struct FSink { _p: u8 }
pub open spec fn splice(d: Seq<u8>, at: int, b: Seq<u8>) -> Seq<u8>
    recommends 0 <= at <= d.len()
{
    if at + b.len() >= d.len() { d.subrange(0, at) + b } else { d.subrange(0, at) + b + d.subrange(at + b.len(), d.len() as int) }
}
impl FSink {
    pub uninterp spec fn data(&self) -> Seq<u8>;
    pub uninterp spec fn pos(&self) -> int;
    pub open spec fn wf(&self) -> bool { 0 <= self.pos() <= self.data().len() }
    #[verifier::external_body]
    pub fn tell(&mut self) -> (r: Result<u64, IoError>)
        requires old(self).wf(), old(self).pos() <= u64::MAX
        ensures final(self).data() == old(self).data(), final(self).pos() == old(self).pos(), r.is_ok() ==> r.unwrap() == old(self).pos()
    { unimplemented!() }
    #[verifier::external_body]
    pub fn seek_start(&mut self, p: u64) -> (r: Result<u64, IoError>)
        requires old(self).wf(), p <= old(self).data().len()
        ensures final(self).data() == old(self).data(), r.is_ok() ==> (final(self).pos() == p && r.unwrap() == p), final(self).wf()
    { unimplemented!() }
    #[verifier::external_body]
    pub fn seek_end0(&mut self) -> (r: Result<u64, IoError>)
        requires old(self).wf()
        ensures final(self).data() == old(self).data(), r.is_ok() ==> (final(self).pos() == old(self).data().len() && r.unwrap() == old(self).data().len()), final(self).wf()
    { unimplemented!() }
    #[verifier::external_body]
    pub fn put(&mut self, b: &[u8]) -> (r: Result<(), IoError>)
        requires old(self).wf()
        ensures r.is_ok() ==> (final(self).data() == splice(old(self).data(), old(self).pos(), b@) && final(self).pos() == old(self).pos() + b@.len()), final(self).wf()
    { unimplemented!() }
    #[verifier::external_body]
    pub fn put_u8(&mut self, v: u8) -> (r: Result<(), IoError>)
        requires old(self).wf()
        ensures r.is_ok() ==> (final(self).data() == splice(old(self).data(), old(self).pos(), seq![v]) && final(self).pos() == old(self).pos() + 1), final(self).wf()
    { unimplemented!() }
    #[verifier::external_body]
    pub fn put_u16(&mut self, v: u16) -> (r: Result<(), IoError>)
        requires old(self).wf()
        ensures r.is_ok() ==> (final(self).data() == splice(old(self).data(), old(self).pos(), le16(v)) && final(self).pos() == old(self).pos() + 2), final(self).wf()
    { unimplemented!() }
    #[verifier::external_body]
    pub fn put_u32(&mut self, v: u32) -> (r: Result<(), IoError>)
        requires old(self).wf()
        ensures r.is_ok() ==> (final(self).data() == splice(old(self).data(), old(self).pos(), le32(v)) && final(self).pos() == old(self).pos() + 4), final(self).wf()
    { unimplemented!() }
    #[verifier::external_body]
    pub fn put_u64(&mut self, v: u64) -> (r: Result<(), IoError>)
        requires old(self).wf()
        ensures r.is_ok() ==> (final(self).data() == splice(old(self).data(), old(self).pos(), le64(v)) && final(self).pos() == old(self).pos() + 8), final(self).wf()
    { unimplemented!() }
    #[verifier::external_body]
    pub fn put_f64(&mut self, v: f64) -> (r: Result<(), IoError>)
        requires old(self).wf()
        ensures r.is_ok() ==> (final(self).data() == splice(old(self).data(), old(self).pos(), le64(f64_bits(v))) && final(self).pos() == old(self).pos() + 8), final(self).wf()
    { unimplemented!() }
}

// ---- Cur: consuming reader over a byte buffer (`bytes::BytesMut` used through `bytes::Buf`).
// `rem()` = bytes not yet consumed.  The `requires` are the real panics of the `bytes` crate
// (reading past the end / split_to past the end).
#[verifier::external_body]
pub struct Cur { _p: u8 }
impl Cur {
    pub uninterp spec fn rem(&self) -> Seq<u8>;
    #[verifier::external_body]
    pub fn from_vec(v: &Vec<u8>) -> (r: Cur) ensures r.rem() == v@ { unimplemented!() }
    #[verifier::external_body]
    pub fn len(&self) -> (r: usize) ensures r == self.rem().len() { unimplemented!() }
    #[verifier::external_body]
    pub fn split_to(&mut self, n: usize) -> (r: Cur)
        requires n <= old(self).rem().len()
        ensures r.rem() == old(self).rem().subrange(0, n as int), final(self).rem() == old(self).rem().subrange(n as int, old(self).rem().len() as int)
    { unimplemented!() }
    #[verifier::external_body]
    pub fn advance(&mut self, n: usize)
        requires n <= old(self).rem().len()
        ensures final(self).rem() == old(self).rem().subrange(n as int, old(self).rem().len() as int)
    { unimplemented!() }
    #[verifier::external_body]
    pub fn get_u8(&mut self) -> (r: u8)
        requires old(self).rem().len() >= 1
        ensures r == old(self).rem()[0], final(self).rem() == old(self).rem().subrange(1, old(self).rem().len() as int)
    { unimplemented!() }
    #[verifier::external_body]
    pub fn get_u16(&mut self) -> (r: u16)
        requires old(self).rem().len() >= 2
        ensures r == dbe16(old(self).rem(), 0), final(self).rem() == old(self).rem().subrange(2, old(self).rem().len() as int)
    { unimplemented!() }
    #[verifier::external_body]
    pub fn get_u16_le(&mut self) -> (r: u16)
        requires old(self).rem().len() >= 2
        ensures r == dle16(old(self).rem(), 0), final(self).rem() == old(self).rem().subrange(2, old(self).rem().len() as int)
    { unimplemented!() }
    #[verifier::external_body]
    pub fn get_u32(&mut self) -> (r: u32)
        requires old(self).rem().len() >= 4
        ensures r == dbe32(old(self).rem(), 0), final(self).rem() == old(self).rem().subrange(4, old(self).rem().len() as int)
    { unimplemented!() }
    #[verifier::external_body]
    pub fn get_u32_le(&mut self) -> (r: u32)
        requires old(self).rem().len() >= 4
        ensures r == dle32(old(self).rem(), 0), final(self).rem() == old(self).rem().subrange(4, old(self).rem().len() as int)
    { unimplemented!() }
    #[verifier::external_body]
    pub fn get_u64(&mut self) -> (r: u64)
        requires old(self).rem().len() >= 8
        ensures r == dbe64(old(self).rem(), 0), final(self).rem() == old(self).rem().subrange(8, old(self).rem().len() as int)
    { unimplemented!() }
    #[verifier::external_body]
    pub fn get_u64_le(&mut self) -> (r: u64)
        requires old(self).rem().len() >= 8
        ensures r == dle64(old(self).rem(), 0), final(self).rem() == old(self).rem().subrange(8, old(self).rem().len() as int)
    { unimplemented!() }
    #[verifier::external_body]
    pub fn get_f32(&mut self) -> (r: f32)
        requires old(self).rem().len() >= 4
        ensures r == f32_of_bits(dbe32(old(self).rem(), 0) as u32), final(self).rem() == old(self).rem().subrange(4, old(self).rem().len() as int)
    { unimplemented!() }
    #[verifier::external_body]
    pub fn get_f32_le(&mut self) -> (r: f32)
        requires old(self).rem().len() >= 4
        ensures r == f32_of_bits(dle32(old(self).rem(), 0) as u32), final(self).rem() == old(self).rem().subrange(4, old(self).rem().len() as int)
    { unimplemented!() }
}
// `uN::from_{le,be}_bytes([..])` (rule R4) with arithmetic contracts
#[verifier::external_body]
pub fn u32_from_le(b: [u8; 4]) -> (r: u32) ensures r == dle32(b@, 0) { u32::from_le_bytes(b) }
#[verifier::external_body]
pub fn u32_from_be(b: [u8; 4]) -> (r: u32) ensures r == dbe32(b@, 0) { u32::from_be_bytes(b) }
#[verifier::external_body]
pub fn u64_from_le(b: [u8; 8]) -> (r: u64) ensures r == dle64(b@, 0) { u64::from_le_bytes(b) }
#[verifier::external_body]
pub fn u64_from_be(b: [u8; 8]) -> (r: u64) ensures r == dbe64(b@, 0) { u64::from_be_bytes(b) }
#[verifier::external_body]
pub fn f32_from_le(b: [u8; 4]) -> (r: f32) ensures r == f32_of_bits(dle32(b@, 0) as u32) { f32::from_le_bytes(b) }
#[verifier::external_body]
pub fn f32_from_be(b: [u8; 4]) -> (r: f32) ensures r == f32_of_bits(dbe32(b@, 0) as u32) { f32::from_be_bytes(b) }
// ---- codec inverse lemmas (include after bytes.rs when needed) ----
/// base-256 digits of a u16 / u32 recombine to the value (bit-vector proof: stable in any context)
#[verifier::spinoff_prover]
pub proof fn lemma_digits16(x: u16)
    ensures byte_of(x as int, 0) as int + 256 * (byte_of(x as int, 1) as int) == x,
{
    reveal(byte_of);
    let a: u16 = x % 256; let b: u16 = x / 256 % 256;
    assert(a + 256 * b == x && a < 256 && b < 256) by (bit_vector) requires a == x % 256, b == x / 256 % 256;
}
#[verifier::spinoff_prover]
pub proof fn lemma_digits32(x: u32)
    ensures byte_of(x as int, 0) as int + 256 * (byte_of(x as int, 1) as int) + 65536 * (byte_of(x as int, 2) as int) + 16777216 * (byte_of(x as int, 3) as int) == x,
{
    reveal(byte_of);
    let a: u32 = x % 256; let b: u32 = x / 256 % 256; let c: u32 = x / 65536 % 256; let d: u32 = x / 16777216 % 256;
    assert(a + 256 * b + 65536 * c + 16777216 * d == x && a < 256 && b < 256 && c < 256 && d < 256) by (bit_vector)
        requires a == x % 256, b == x / 256 % 256, c == x / 65536 % 256, d == x / 16777216 % 256;
}
#[verifier::spinoff_prover]
pub proof fn lemma_codec16(big: bool, x: u16) ensures e16(big, x).len() == 2, d16(big, e16(big, x), 0) == x { lemma_digits16(x); }
#[verifier::spinoff_prover]
pub proof fn lemma_codec32(big: bool, x: u32) ensures e32(big, x).len() == 4, d32(big, e32(big, x), 0) == x { lemma_digits32(x); }
#[verifier::spinoff_prover]
pub proof fn lemma_split64(x: u64)
    ensures ({
        let lo = (x % 4294967296) as u32; let hi = (x / 4294967296) as u32;
        &&& byte_of(x as int, 0) == byte_of(lo as int, 0) && byte_of(x as int, 1) == byte_of(lo as int, 1)
        &&& byte_of(x as int, 2) == byte_of(lo as int, 2) && byte_of(x as int, 3) == byte_of(lo as int, 3)
        &&& byte_of(x as int, 4) == byte_of(hi as int, 0) && byte_of(x as int, 5) == byte_of(hi as int, 1)
        &&& byte_of(x as int, 6) == byte_of(hi as int, 2) && byte_of(x as int, 7) == byte_of(hi as int, 3)
        &&& x as int == lo as int + 4294967296 * (hi as int)
    })
{
    reveal(byte_of);
    assert(x % 256 == (x % 4294967296) % 256) by (bit_vector);
    assert(x / 256 % 256 == (x % 4294967296) / 256 % 256) by (bit_vector);
    assert(x / 65536 % 256 == (x % 4294967296) / 65536 % 256) by (bit_vector);
    assert(x / 16777216 % 256 == (x % 4294967296) / 16777216 % 256) by (bit_vector);
    assert(x / 4294967296 % 256 == (x / 4294967296) % 256) by (bit_vector);
    assert(x / 1099511627776 % 256 == (x / 4294967296) / 256 % 256) by (bit_vector);
    assert(x / 281474976710656 % 256 == (x / 4294967296) / 65536 % 256) by (bit_vector);
    assert(x / 72057594037927936 % 256 == (x / 4294967296) / 16777216 % 256) by (bit_vector);
    assert(x == (x % 4294967296) + 4294967296 * (x / 4294967296)) by (bit_vector);
    assert(x / 4294967296 <= 4294967295) by (bit_vector);
    assert(x % 4294967296 <= 4294967295) by (bit_vector);
}
pub proof fn lemma_codec64(big: bool, x: u64) ensures e64(big, x).len() == 8, d64(big, e64(big, x), 0) == x
{
    let lo = (x % 4294967296) as u32; let hi = (x / 4294967296) as u32;
    lemma_split64(x);
    lemma_codec32(big, lo); lemma_codec32(big, hi);
}
/// decoding inside a larger buffer: if the 4 bytes at s[k..k+4] are e32(big, x) then d32 reads x
pub proof fn lemma_d32_embedded(big: bool, s: Seq<u8>, k: int, x: u32)
    requires 0 <= k, k + 4 <= s.len(), s.subrange(k, k + 4) == e32(big, x),
    ensures d32(big, s, k) == x
{
    lemma_codec32(big, x);
    let t = s.subrange(k, k + 4);
    assert(t[0] == s[k] && t[1] == s[k + 1] && t[2] == s[k + 2] && t[3] == s[k + 3]);
}
pub proof fn lemma_d16_embedded(big: bool, s: Seq<u8>, k: int, x: u16)
    requires 0 <= k, k + 2 <= s.len(), s.subrange(k, k + 2) == e16(big, x),
    ensures d16(big, s, k) == x
{
    lemma_codec16(big, x);
    let t = s.subrange(k, k + 2);
    assert(t[0] == s[k] && t[1] == s[k + 1]);
}
pub proof fn lemma_d64_embedded(big: bool, s: Seq<u8>, k: int, x: u64)
    requires 0 <= k, k + 8 <= s.len(), s.subrange(k, k + 8) == e64(big, x),
    ensures d64(big, s, k) == x
{
    lemma_codec64(big, x);
    let t = s.subrange(k, k + 8);
    assert(t[0] == s[k] && t[1] == s[k + 1] && t[2] == s[k + 2] && t[3] == s[k + 3]
        && t[4] == s[k + 4] && t[5] == s[k + 5] && t[6] == s[k + 6] && t[7] == s[k + 7]);
}

#[derive(Copy, Clone)]
pub struct Value {
    pub start: u32,
    pub end: u32,
    pub value: f32,
}
#[derive(Copy, Clone)]
pub struct Block {
    pub offset: u64,
    pub size: u64,
}

// byteordered::Endianness cannot be extracted (other crate): own 2-variant enum, same variant names
#[derive(Clone, Copy)]
pub enum Endianness { Big, Little }
pub open spec fn is_big(e: Endianness) -> bool { e is Big }

// BBIReadError (thiserror enum holding io::Error / String) -> opaque shim; only "an error value is
// returned here" is kept, the message text is dropped
#[verifier::external_body]
pub struct BBIReadError { _p: u8 }
impl BBIReadError {
    #[verifier::external_body]
    pub fn invalid_file() -> (r: BBIReadError) { unimplemented!() }
}

// `bytes[a..a + 12].try_into().unwrap()` typed &[u8; 12] on BytesMut: slice of the unconsumed
// bytes copied into an array.  requires = the real panic of the slice index (a + 12 > len).
#[verifier::external_body]
pub fn arr12(c: &Cur, a: usize) -> (r: [u8; 12])
    requires a + 12 <= c.rem().len()
    ensures r@ == c.rem().subrange(a as int, a + 12)
{ unimplemented!() }
// the same expression with any other bounds / array length: `bytes[a..b]` panics unless a <= b <= len, and
// `<&[u8; N]>::try_from(slice).unwrap()` panics unless the slice has exactly N bytes
#[verifier::external_body]
pub fn arr_from_to<const N: usize>(c: &Cur, a: usize, b: usize) -> (r: [u8; N])
    requires a <= b <= c.rem().len(), b - a == N
    ensures r@ == c.rem().subrange(a as int, b as int)
{ unimplemented!() }
fn max_u32(a: u32, b: u32) -> (r: u32) ensures r == if a >= b { a } else { b } { if a >= b { a } else { b } }
fn min_u32(a: u32, b: u32) -> (r: u32) ensures r == if a <= b { a } else { b } { if a <= b { a } else { b } }

// ---------------- reader-side format vocabulary (published bigWig section layout) ----------------
// 24-byte section header, in byte order `big`
pub open spec fn hdr_chrom(big: bool, d: Seq<u8>) -> int { d32(big, d, 0) }
pub open spec fn hdr_start(big: bool, d: Seq<u8>) -> int { d32(big, d, 4) }
pub open spec fn hdr_end(big: bool, d: Seq<u8>) -> int { d32(big, d, 8) }
pub open spec fn hdr_step(big: bool, d: Seq<u8>) -> int { d32(big, d, 12) }
pub open spec fn hdr_span(big: bool, d: Seq<u8>) -> int { d32(big, d, 16) }
pub open spec fn hdr_type(d: Seq<u8>) -> int { d[20] as int }
pub open spec fn hdr_count(big: bool, d: Seq<u8>) -> int { d16(big, d, 22) }

/// i-th stored item of a bedGraph section (type 1): 12 bytes start, end, value
pub open spec fn raw1(big: bool, d: Seq<u8>, i: int) -> Value {
    Value { start: d32(big, d, 24 + 12 * i) as u32, end: d32(big, d, 24 + 12 * i + 4) as u32,
            value: f32_of_bits(d32(big, d, 24 + 12 * i + 8) as u32) }
}
/// i-th stored item of a variable-step section (type 2): 8 bytes start, value; end = start + span
pub open spec fn raw2(big: bool, d: Seq<u8>, i: int) -> Value {
    Value { start: d32(big, d, 24 + 8 * i) as u32, end: (d32(big, d, 24 + 8 * i) + hdr_span(big, d)) as u32,
            value: f32_of_bits(d32(big, d, 24 + 8 * i + 4) as u32) }
}
/// start of the i-th item of a fixed-step section (type 3)
pub open spec fn fixed_start(big: bool, d: Seq<u8>, i: int) -> int { hdr_start(big, d) + i * hdr_step(big, d) }
/// i-th stored item of a fixed-step section (type 3): 4 bytes value; start = chromStart + i*step
pub open spec fn raw3(big: bool, d: Seq<u8>, i: int) -> Value {
    Value { start: fixed_start(big, d, i) as u32, end: (fixed_start(big, d, i) + hdr_span(big, d)) as u32,
            value: f32_of_bits(d32(big, d, 24 + 4 * i) as u32) }
}
pub open spec fn raw_item(big: bool, d: Seq<u8>, i: int) -> Value {
    if hdr_type(d) == 1 { raw1(big, d, i) } else if hdr_type(d) == 2 { raw2(big, d, i) } else { raw3(big, d, i) }
}
/// the items a section stores, in stored order
pub open spec fn raw_items(big: bool, d: Seq<u8>) -> Seq<Value> {
    Seq::new(hdr_count(big, d) as nat, |i: int| raw_item(big, d, i))
}
/// well-formed item area: enough bytes for the advertised count; no coordinate exceeds u32
pub open spec fn wf_items(big: bool, d: Seq<u8>) -> bool {
    let n = hdr_count(big, d);
    &&& hdr_type(d) == 1 ==> 24 + 12 * n <= d.len()
    &&& hdr_type(d) == 2 ==> 24 + 8 * n <= d.len()
            && forall|i: int| 0 <= i < n ==> (#[trigger] d32(big, d, 24 + 8 * i)) + hdr_span(big, d) <= u32::MAX
    &&& hdr_type(d) == 3 ==> 24 + 4 * n <= d.len()
            && forall|i: int| 0 <= i <= n ==> (#[trigger] fixed_start(big, d, i)) <= u32::MAX
            && forall|i: int| 0 <= i < n ==> (#[trigger] fixed_start(big, d, i)) + hdr_span(big, d) <= u32::MAX
}

// ---------------- C03 per-block statement ----------------
/// strict overlap with the query range [s, e)
pub open spec fn keep(v: Value, s: u32, e: u32) -> bool { s < e && v.end > s && v.start < e }   // an empty range overlaps nothing
/// clipped to [max(v.start, s), min(v.end, e)); value bits untouched
pub open spec fn clip(v: Value, s: u32, e: u32) -> Value {
    Value { start: if v.start >= s { v.start } else { s }, end: if v.end <= e { v.end } else { e }, value: v.value }
}
/// exactly the overlapping items, clipped, in stored order, nothing else
pub open spec fn filter_clip(raw: Seq<Value>, s: u32, e: u32) -> Seq<Value>
    decreases raw.len()
{
    if raw.len() == 0 { Seq::empty() }
    else if keep(raw.last(), s, e) { filter_clip(raw.drop_last(), s, e).push(clip(raw.last(), s, e)) }
    else { filter_clip(raw.drop_last(), s, e) }
}
pub proof fn lemma_fc_step(raw: Seq<Value>, i: int, s: u32, e: u32)
    requires 0 <= i < raw.len()
    ensures filter_clip(raw.subrange(0, i + 1), s, e) ==
        (if keep(raw[i], s, e) { filter_clip(raw.subrange(0, i), s, e).push(clip(raw[i], s, e)) } else { filter_clip(raw.subrange(0, i), s, e) })
{
    assert(raw.subrange(0, i + 1).drop_last() =~= raw.subrange(0, i));
    assert(raw.subrange(0, i + 1).last() == raw[i]);
}
// ---------------- C03 corollaries of the exact statement ----------------
/// stored order is ascending and non-overlapping (what the writer guarantees, C01 / bw_batch)
pub open spec fn ascending(a: Seq<Value>) -> bool {
    &&& forall|i: int| 0 <= i < a.len() ==> (#[trigger] a[i]).start <= a[i].end
    &&& forall|i: int, j: int| 0 <= i < j < a.len() ==> (#[trigger] a[i]).end <= (#[trigger] a[j]).start
}
/// "each clipped to the range, in ascending order": every returned value lies inside [s, e), is a
/// well-ordered interval, and the result is ascending / non-overlapping whenever the stored items are
/// (`m`: any bound on the stored ends; only used to carry the induction)
pub proof fn lemma_fc_inside_and_ascending(raw: Seq<Value>, s: u32, e: u32, m: int)
    requires
        ascending(raw), s <= e,
        forall|i: int| 0 <= i < raw.len() ==> (#[trigger] raw[i]).end <= m,
    ensures
        
        filter_clip(raw, s, e).len() <= raw.len(),
        
        forall|j: int| 0 <= j < filter_clip(raw, s, e).len() ==>
            s <= (#[trigger] filter_clip(raw, s, e)[j]).start && filter_clip(raw, s, e)[j].end <= e && filter_clip(raw, s, e)[j].end <= m,
        
        ascending(filter_clip(raw, s, e)),
    decreases raw.len()
{
    if raw.len() > 0 {
        let p = raw.drop_last(); let l = raw.last();
        assert(l == raw[raw.len() - 1]);
        assert forall|i: int| 0 <= i < p.len() implies (#[trigger] p[i]).start <= p[i].end && p[i].end <= l.start by { assert(p[i] == raw[i]); }
        assert forall|i: int, j: int| 0 <= i < j < p.len() implies (#[trigger] p[i]).end <= (#[trigger] p[j]).start by { assert(p[i] == raw[i]); assert(p[j] == raw[j]); }
        lemma_fc_inside_and_ascending(p, s, e, l.start as int);
        let fp = filter_clip(p, s, e);
        if keep(l, s, e) {
            let f = fp.push(clip(l, s, e));
            assert(filter_clip(raw, s, e) == f);
            assert forall|j: int| 0 <= j < f.len() implies s <= (#[trigger] f[j]).start && f[j].end <= e && f[j].end <= m && f[j].start <= f[j].end by {
                if j < fp.len() { assert(f[j] == fp[j]); }
            }
            assert forall|i: int, j: int| 0 <= i < j < f.len() implies (#[trigger] f[i]).end <= (#[trigger] f[j]).start by {
                assert(f[i] == fp[i]);
                if j < fp.len() { assert(f[j] == fp[j]); }
            }
        } else {
            assert(filter_clip(raw, s, e) == fp);
        }
    }
}
pub proof fn lemma_step_mul(k: int, step: int)
    ensures (k + 1) * step == k * step + step
{
    assert((k + 1) * step == k * step + step) by (nonlinear_arith);
}

// BEGIN fmt_bw_section (textually identical copy of the block in bw_enc/unit.rs.tpl)
/// 24-byte section header: chromId, chromStart, chromEnd, itemStep = 0, itemSpan = 0,
/// type = 1 (bedGraph), reserved = 0, itemCount (u16)
pub open spec fn bw_header(chrom: u32, start: u32, end: u32, n: u16) -> Seq<u8> {
    (Seq::<u8>::empty() + le32(chrom) + le32(start) + le32(end) + le32(0u32) + le32(0u32)).push(1u8).push(0u8) + le16(n)
}
/// one 12-byte bedGraph item appended to `b` (left-associated, the order a sequential writer produces)
pub open spec fn put_bw_item(b: Seq<u8>, v: Value) -> Seq<u8> {
    b + le32(v.start) + le32(v.end) + le32(f32_bits(v.value))
}
pub open spec fn fmt_bw_items(hdr: Seq<u8>, items: Seq<Value>) -> Seq<u8>
    decreases items.len()
{
    if items.len() == 0 { hdr } else { put_bw_item(fmt_bw_items(hdr, items.drop_last()), items.last()) }
}
pub open spec fn fmt_bw_section(chrom: u32, items: Seq<Value>) -> Seq<u8> {
    fmt_bw_items(bw_header(chrom, items[0].start, items.last().end, items.len() as u16), items)
}
// END fmt_bw_section

// ---------------- C01: writer layout read back by the reader's vocabulary ----------------
/// what unit bw_enc requires of a batch (copied from bw_enc: `batch_ok`)
pub open spec fn batch_ok(items: Seq<Value>) -> bool {
    &&& 1 <= items.len() <= 65535
    &&& forall|i: int| 0 <= i < items.len() ==> (#[trigger] items[i]).start <= items[i].end
    &&& forall|i: int, j: int| 0 <= i < j < items.len() ==> (#[trigger] items[i]).end <= (#[trigger] items[j]).start
}
pub proof fn lemma_fmt_len(hdr: Seq<u8>, items: Seq<Value>)
    ensures fmt_bw_items(hdr, items).len() == hdr.len() + 12 * items.len()
    decreases items.len()
{
    if items.len() > 0 { lemma_fmt_len(hdr, items.drop_last()); }
}
/// the header is a prefix of the section
pub proof fn lemma_fmt_prefix(hdr: Seq<u8>, items: Seq<Value>, k: int)
    requires 0 <= k < hdr.len()
    ensures fmt_bw_items(hdr, items).len() >= hdr.len(), fmt_bw_items(hdr, items)[k] == hdr[k]
    decreases items.len()
{
    lemma_fmt_len(hdr, items);
    if items.len() > 0 { lemma_fmt_len(hdr, items.drop_last()); lemma_fmt_prefix(hdr, items.drop_last(), k); }
}
/// the 12 bytes of item i sit at hdr.len() + 12*i
pub proof fn lemma_fmt_item_at(hdr: Seq<u8>, items: Seq<Value>, i: int)
    requires 0 <= i < items.len()
    ensures ({
        let f = fmt_bw_items(hdr, items); let o = hdr.len() + 12 * i;
        &&& f.len() == hdr.len() + 12 * items.len()
        &&& f.subrange(o, o + 4) == le32(items[i].start)
        &&& f.subrange(o + 4, o + 8) == le32(items[i].end)
        &&& f.subrange(o + 8, o + 12) == le32(f32_bits(items[i].value))
    })
    decreases items.len()
{
    let f = fmt_bw_items(hdr, items); let o = hdr.len() + 12 * i;
    let p = fmt_bw_items(hdr, items.drop_last());
    lemma_fmt_len(hdr, items); lemma_fmt_len(hdr, items.drop_last());
    if i == items.len() - 1 {
        assert(f.subrange(o, o + 4) =~= le32(items[i].start));
        assert(f.subrange(o + 4, o + 8) =~= le32(items[i].end));
        assert(f.subrange(o + 8, o + 12) =~= le32(f32_bits(items[i].value)));
    } else {
        lemma_fmt_item_at(hdr, items.drop_last(), i);
        assert(items.drop_last()[i] == items[i]);
        assert(f.subrange(o, o + 4) =~= p.subrange(o, o + 4));
        assert(f.subrange(o + 4, o + 8) =~= p.subrange(o + 4, o + 8));
        assert(f.subrange(o + 8, o + 12) =~= p.subrange(o + 8, o + 12));
    }
}
/// the 24 header bytes decode (little-endian) to the fields the writer put there
pub proof fn lemma_header_fields(c: u32, s: u32, e: u32, n: u16)
    ensures ({
        let h = bw_header(c, s, e, n);
        &&& h.len() == 24
        &&& d32(false, h, 0) == c && d32(false, h, 4) == s && d32(false, h, 8) == e
        &&& d32(false, h, 12) == 0 && d32(false, h, 16) == 0
        &&& h[20] == 1 && h[21] == 0 && d16(false, h, 22) == n
    })
{
    let h = bw_header(c, s, e, n);
    assert(h.len() == 24);
    assert(h.subrange(0, 4) =~= le32(c)); lemma_d32_embedded(false, h, 0, c);
    assert(h.subrange(4, 8) =~= le32(s)); lemma_d32_embedded(false, h, 4, s);
    assert(h.subrange(8, 12) =~= le32(e)); lemma_d32_embedded(false, h, 8, e);
    assert(h.subrange(12, 16) =~= le32(0u32)); lemma_d32_embedded(false, h, 12, 0u32);
    assert(h.subrange(16, 20) =~= le32(0u32)); lemma_d32_embedded(false, h, 16, 0u32);
    assert(h.subrange(22, 24) =~= le16(n)); lemma_d16_embedded(false, h, 22, n);
}
/// a full-span query keeps everything: no item is filtered out or altered
pub proof fn lemma_fc_identity(items: Seq<Value>, len: u32)
    requires forall|i: int| 0 <= i < items.len() ==> (#[trigger] items[i]).end > 0 && items[i].start < len && items[i].end <= len
    ensures filter_clip(items, 0, len) == items
    decreases items.len()
{
    if items.len() > 0 {
        let p = items.drop_last();
        assert forall|i: int| 0 <= i < p.len() implies (#[trigger] p[i]).end > 0 && p[i].start < len && p[i].end <= len by { assert(p[i] == items[i]); }
        lemma_fc_identity(p, len);
        let l = items.last();
        assert(l == items[items.len() - 1]);
        assert(clip(l, 0, len) == l);
        assert(p.push(l) =~= items);
    } else {
        assert(items =~= Seq::<Value>::empty());
    }
}
/// C01 codec inverse, per section: the bytes unit bw_enc produces for a batch (uncompressed, or
/// after the assumed zlib inverse) decode -- little-endian, through the reader-side vocabulary
/// that get_block_values is proved against -- to exactly the batch.
pub proof fn bw_roundtrip(c: u32, items: Seq<Value>, len: u32)
    requires
        batch_ok(items),
    ensures ({
        let data = fmt_bw_section(c, items);
        
        &&& data.len() == 24 + 12 * items.len()
        
        &&& hdr_chrom(false, data) == c && hdr_start(false, data) == items[0].start && hdr_end(false, data) == items.last().end
        &&& hdr_step(false, data) == 0 && hdr_span(false, data) == 0 && hdr_type(data) == 1 && data[21] == 0
        &&& hdr_count(false, data) == items.len()
        
        &&& wf_items(false, data)
        
        &&& raw_items(false, data) == items
        
        &&& (forall|i: int| 0 <= i < items.len() ==> (#[trigger] items[i]).end > 0 && items[i].start < len && items[i].end <= len)
                ==> filter_clip(raw_items(false, data), 0, len) == items
    }),
{
    let n16 = items.len() as u16;
    let hdr = bw_header(c, items[0].start, items.last().end, n16);
    let data = fmt_bw_section(c, items);
    assert(data == fmt_bw_items(hdr, items));
    lemma_header_fields(c, items[0].start, items.last().end, n16);
    lemma_fmt_len(hdr, items);
    assert forall|k: int| 0 <= k < 24 implies data[k] == hdr[k] by { lemma_fmt_prefix(hdr, items, k); }
    assert(n16 == items.len());
    let raw = raw_items(false, data);
    assert(raw.len() == items.len());
    assert forall|i: int| 0 <= i < items.len() implies raw[i] == items[i] by {
        lemma_fmt_item_at(hdr, items, i);
        let o = 24 + 12 * i;
        lemma_d32_embedded(false, data, o, items[i].start);
        lemma_d32_embedded(false, data, o + 4, items[i].end);
        lemma_d32_embedded(false, data, o + 8, f32_bits(items[i].value));
        assert(raw[i] == raw1(false, data, i));
        ax_f32_bits_inv(items[i].value);
    }
    assert(raw =~= items);
    if forall|i: int| 0 <= i < items.len() ==> (#[trigger] items[i]).end > 0 && items[i].start < len && items[i].end <= len {
        lemma_fc_identity(items, len);
    }
}

fn get_block_values(
    endianness: Endianness,
    data: Vec<u8>,
    block: Block,
    known_offset: &mut u64,
    chrom: u32,
    start: u32,
    end: u32,
) -> (r: Result<Option<Vec<Value>>, BBIReadError>)
    requires
        
        data@.len() >= 24,
        
        hdr_chrom(is_big(endianness), data@) == chrom ==> wf_items(is_big(endianness), data@),
        
        block.offset + block.size <= u64::MAX,
    ensures
        
        hdr_chrom(is_big(endianness), data@) != chrom ==> r matches Ok(None),
        
        hdr_chrom(is_big(endianness), data@) == chrom && !(1 <= hdr_type(data@) <= 3) ==> r is Err,
        
        hdr_chrom(is_big(endianness), data@) == chrom && 1 <= hdr_type(data@) <= 3 ==>
            (r matches Ok(Some(v)) && v@ == filter_clip(raw_items(is_big(endianness), data@), start, end)),
        
        (r matches Ok(Some(_))) ==> *final(known_offset) == block.offset + block.size,
        
        !(r matches Ok(Some(_))) ==> *final(known_offset) == *old(known_offset),
{
    let mut bytes = Cur::from_vec(&data);


    let ghost big = is_big(endianness);
    let ghost d = data@;
    let ghost raw = raw_items(big, d);
    let mut bytes_header = bytes.split_to(24);

    let (chrom_id, chrom_start, item_step, item_span, section_type, item_count) =
        match endianness {
            Endianness::Big => {
                let chrom_id = bytes_header.get_u32();
                let chrom_start = bytes_header.get_u32();
                let _chrom_end = bytes_header.get_u32();
                let item_step = bytes_header.get_u32();
                let item_span = bytes_header.get_u32();
                let section_type = bytes_header.get_u8();
                let _reserved = bytes_header.get_u8();
                let item_count = bytes_header.get_u16();
                (
                    chrom_id,
                    chrom_start,
                    item_step,
                    item_span,
                    section_type,
                    item_count,
                )
            }
            Endianness::Little => {
                let chrom_id = bytes_header.get_u32_le();
                let chrom_start = bytes_header.get_u32_le();
                let _chrom_end = bytes_header.get_u32_le();
                let item_step = bytes_header.get_u32_le();
                let item_span = bytes_header.get_u32_le();
                let section_type = bytes_header.get_u8();
                let _reserved = bytes_header.get_u8();
                let item_count = bytes_header.get_u16_le();
                (
                    chrom_id,
                    chrom_start,
                    item_step,
                    item_span,
                    section_type,
                    item_count,
                )
            }
        };


    proof {
        assert(chrom_id == hdr_chrom(big, d)); 
        assert(chrom_start == hdr_start(big, d)); 
        assert(item_step == hdr_step(big, d)); 
        assert(item_span == hdr_span(big, d)); 
        assert(section_type == hdr_type(d)); 
        assert(item_count == hdr_count(big, d)); 
        assert(bytes.rem() == d.subrange(24, d.len() as int));
    }
    let mut values: Vec<Value> = Vec::with_capacity(item_count as usize);

    if chrom_id != chrom {
        return Ok(None);
    }

    match section_type {
        1 => {
            assert(bytes.rem().len() >=(item_count as usize) * 12);
            for i in 0..(item_count as usize) 
                invariant
                    
                    big == is_big(endianness), d == data@, raw == raw_items(big, d), d.len() >= 24,
                    hdr_type(d) == 1, item_count == hdr_count(big, d), 24 + 12 * item_count <= d.len(),
                    bytes.rem() == d.subrange(24, d.len() as int),
                    
                    values@ == filter_clip(raw.subrange(0, i as int), start, end),
{
                let istart = i * 12;
                let block_item_data: [u8; 12] = arr12(&bytes, istart);
                // bedgraph
                let (chrom_start, chrom_end, value) = match endianness {
                    Endianness::Big => {
                        let chrom_start = u32_from_be([
                            block_item_data[0],
                            block_item_data[1],
                            block_item_data[2],
                            block_item_data[3],
                        ]);
                        let chrom_end = u32_from_be([
                            block_item_data[4],
                            block_item_data[5],
                            block_item_data[6],
                            block_item_data[7],
                        ]);
                        let value = f32_from_be([
                            block_item_data[8],
                            block_item_data[9],
                            block_item_data[10],
                            block_item_data[11],
                        ]);
                        (chrom_start, chrom_end, value)
                    }
                    Endianness::Little => {
                        let chrom_start = u32_from_le([
                            block_item_data[0],
                            block_item_data[1],
                            block_item_data[2],
                            block_item_data[3],
                        ]);
                        let chrom_end = u32_from_le([
                            block_item_data[4],
                            block_item_data[5],
                            block_item_data[6],
                            block_item_data[7],
                        ]);
                        let value = f32_from_le([
                            block_item_data[8],
                            block_item_data[9],
                            block_item_data[10],
                            block_item_data[11],
                        ]);
                        (chrom_start, chrom_end, value)
                    }
                };

                proof {
                    let b = block_item_data@;
                    
                    assert(b[0] == d[24 + 12 * i] && b[1] == d[24 + 12 * i + 1] && b[2] == d[24 + 12 * i + 2] && b[3] == d[24 + 12 * i + 3]);
                    assert(b[4] == d[24 + 12 * i + 4] && b[5] == d[24 + 12 * i + 5] && b[6] == d[24 + 12 * i + 6] && b[7] == d[24 + 12 * i + 7]);
                    assert(b[8] == d[24 + 12 * i + 8] && b[9] == d[24 + 12 * i + 9] && b[10] == d[24 + 12 * i + 10] && b[11] == d[24 + 12 * i + 11]);
                    assert(raw[i as int] == raw1(big, d, i as int));
                    assert(chrom_start == raw[i as int].start && chrom_end == raw[i as int].end && value == raw[i as int].value); 
                    lemma_fc_step(raw, i as int, start, end);
                }
                let mut value = Value {
                    start: chrom_start,
                    end: chrom_end,
                    value,
                };
                if start < end && value.end > start && value.start < end {
                    value.start = max_u32(value.start, start);
                    value.end = min_u32(value.end, end);
                    values.push(value)
                }
            }
        }
        2 => {
            for k in 0..item_count 
                invariant
                    
                    big == is_big(endianness), d == data@, raw == raw_items(big, d), d.len() >= 24,
                    hdr_type(d) == 2, item_count == hdr_count(big, d), item_span == hdr_span(big, d),
                    wf_items(big, d),
                    
                    bytes.rem() == d.subrange(24 + 8 * k, d.len() as int),
                    
                    values@ == filter_clip(raw.subrange(0, k as int), start, end),
{
                // variable step
                let (chrom_start, value) = match endianness {
                    Endianness::Big => {
                        let chrom_start = bytes.get_u32();
                        let value = bytes.get_f32();
                        (chrom_start, value)
                    }
                    Endianness::Little => {
                        let chrom_start = bytes.get_u32_le();
                        let value = bytes.get_f32_le();
                        (chrom_start, value)
                    }
                };

                proof {
                    assert(raw[k as int] == raw2(big, d, k as int));
                    assert(chrom_start == d32(big, d, 24 + 8 * k)); 
                    assert(value == raw[k as int].value); 
                    assert(bytes.rem() == d.subrange(24 + 8 * (k + 1), d.len() as int));
                }
                let chrom_end = chrom_start + item_span;

                proof {
                    assert(chrom_start == raw[k as int].start && chrom_end == raw[k as int].end && value == raw[k as int].value); 
                    lemma_fc_step(raw, k as int, start, end);
                }
                let mut value = Value {
                    start: chrom_start,
                    end: chrom_end,
                    value,
                };
                if start < end && value.end > start && value.start < end {
                    value.start = max_u32(value.start, start);
                    value.end = min_u32(value.end, end);
                    values.push(value)
                }
            }
        }
        3 => {
            let mut curr_start = chrom_start;
            for k in 0..item_count 
                invariant
                    
                    big == is_big(endianness), d == data@, raw == raw_items(big, d), d.len() >= 24,
                    hdr_type(d) == 3, item_count == hdr_count(big, d), item_span == hdr_span(big, d),
                    item_step == hdr_step(big, d),
                    wf_items(big, d),
                    
                    bytes.rem() == d.subrange(24 + 4 * k, d.len() as int),
                    
                    curr_start == fixed_start(big, d, k as int),
                    
                    values@ == filter_clip(raw.subrange(0, k as int), start, end),
{
                // fixed step
                let value = match endianness {
                    Endianness::Big => {
                        let value = bytes.get_f32();
                        value
                    }
                    Endianness::Little => {
                        let value = bytes.get_f32_le();
                        value
                    }
                };

                proof {
                    assert(raw[k as int] == raw3(big, d, k as int));
                    assert(value == raw[k as int].value); 
                    assert(bytes.rem() == d.subrange(24 + 4 * (k + 1), d.len() as int));
                    lemma_step_mul(k as int, hdr_step(big, d));
                    assert(fixed_start(big, d, k + 1) == fixed_start(big, d, k as int) + hdr_step(big, d));
                }
                let chrom_start = curr_start;
                curr_start += item_step;
                let chrom_end = chrom_start + item_span;

                proof {
                    assert(chrom_start == raw[k as int].start && chrom_end == raw[k as int].end && value == raw[k as int].value); 
                    lemma_fc_step(raw, k as int, start, end);
                }
                let mut value = Value {
                    start: chrom_start,
                    end: chrom_end,
                    value,
                };
                if start < end && value.end > start && value.start < end {
                    value.start = max_u32(value.start, start);
                    value.end = min_u32(value.end, end);
                    values.push(value)
                }
            }
        }
        _ => {
            return Err(BBIReadError::invalid_file())
        }
    }


    proof {
        assert(raw.subrange(0, raw.len() as int) =~= raw);
    }
    *known_offset = block.offset + block.size;
    Ok(Some(values))
}

} // verus!
fn main() {}

