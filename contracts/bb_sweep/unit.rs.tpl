//@unit bb_sweep
//@serves C06
//@backend verus
// bigBed coverage sweep: the closure `add_interval_to_summary` inside bigbedwrite::process_val
// (R10 lift).  The property (C06, bigBed half): the summary is taken over the per-base coverage
// depth of all entries, each covered base counted once however many entries overlap it.
// Ghost state: `ents` = entries already processed on this chromosome, `d0` = integer depth of
// every pending segment (the code stores it as f32).
use vstd::prelude::*;
use vstd::std_specs::ops::*;
use vstd::std_specs::convert::FromSpec;
verus! {
//@include ../_shared/floats.rs

//@extract struct bigtools/src/bbi.rs Summary
//@rule R8
//@end
//@extract struct bigtools/src/bbi.rs Value
//@rule R8
//@end
//@include ../_shared/vlist.rs
//@include sweep_spec.rs

// verified stand-ins for the `.map(|x| ..)` closures on Option<&Value> (R11 substitutions below)
fn last_end_of(l: &VList) -> (r: Option<u32>)
    ensures r.is_some() == (l@.len() > 0), r.is_some() ==> r.unwrap() == l@.last().end,
{ match l.get_last() { Some(o) => Some(o.end), None => None } }
fn first_starts_before(l: &VList, x: u32) -> (r: bool)
    ensures r == (l@.len() > 0 && l@[0].start < x),
{ match l.get_first() { Some(f) => f.start < x, None => false } }

// ---------------- what a flushed piece does to the summary (C06 "bases, min, max, sum, sum of squares") ----
spec fn sbases(s: Option<Summary>) -> int { match s { Some(x) => x.bases_covered as int, None => 0 } }
spec fn piece_val(pc: Piece) -> f64 { f64::from_spec(f32_of_nat(pc.d)) }
spec fn apply_piece(s: Option<Summary>, pc: Piece) -> Option<Summary> {
    let w = f64::from_spec((pc.e - pc.s) as u32);
    let x = piece_val(pc);
    match s {
        None => Some(Summary { total_items: 0, bases_covered: (pc.e - pc.s) as u64, min_val: x, max_val: x,
                               sum: w.mul_spec(x), sum_squares: w.mul_spec(x).mul_spec(x) }),
        Some(t) => Some(Summary { total_items: t.total_items, bases_covered: (t.bases_covered + (pc.e - pc.s)) as u64,
                               min_val: fmin(t.min_val, x), max_val: fmax(t.max_val, x),
                               sum: t.sum.add_spec(w.mul_spec(x)), sum_squares: t.sum_squares.add_spec(w.mul_spec(x).mul_spec(x)) }),
    }
}
spec fn fold_pieces(s: Option<Summary>, ps: Seq<Piece>) -> Option<Summary>
    decreases ps.len()
{
    if ps.len() == 0 { s } else { apply_piece(fold_pieces(s, ps.drop_last()), ps.last()) }
}
/// the bound up to which the pending coverage is final: the next entry's start, and after the LAST entry of the
/// chromosome everything (no base lies at or right of u32::MAX: ends are u32)
spec fn bound_of(next_start_opt: Option<u32>) -> u32 {
    if next_start_opt.is_some() { next_start_opt.unwrap() } else { u32::MAX }
}
/// where the flushed pieces end
spec fn flushed_to(ps: Seq<Piece>, a: int) -> int { if ps.len() > 0 { ps.last().e } else { a } }

//@extract closure bigtools/src/bbi/bigbedwrite.rs process_val add_interval_to_summary
//@rule R16
//@header fn add_interval_to_summary(overlap: &mut VList, summary: &mut Option<Summary>, item_start: u32, item_end: u32, next_start_opt: Option<u32>, Ghost(ents): Ghost<Seq<(u32, u32)>>, Ghost(d0): Ghost<Seq<nat>>) -> (out: Ghost<(Seq<nat>, Seq<Piece>)>)
//@rule R5 min=4
//@rule R6 min=2
//@sub /overlap\s*\.get_first\(\)\s*\.map\(\|f\| f\.start (==|!=|>=|<=|>|<) item_start\)\s*\.unwrap_or\((true|false)\)/ => OPT_OR_\2(overlap@.len() > 0, overlap@[0].start \1 item_start)
//@sub /overlap\s*\.get_last\(\)\s*\.map\(\|o\| o\.end (==|!=|>=|<=|>|<) item_start\)\s*\.unwrap_or\((true|false)\)/ => OPT_OR_\2(overlap@.len() > 0, overlap@.last().end \1 item_start)
//@sub /OPT_OR_true\(([^,]*), ([^()]*(?:\(\))?[^()]*)\)/ => (\1 ==> \2) min=0
//@sub /OPT_OR_false\(([^,]*), ([^()]*(?:\(\))?[^()]*)\)/ => (\1 && \2) min=0
//@sub /overlap\.get_last\(\)\.map\(\|o\| o\.end\)/ => last_end_of(overlap)
//@sub /overlap\s*\.get_first\(\)\s*\.map\(\|f\| f\.start (==|!=|>=|<=|>|<) next_start\)\s*\.unwrap_or\((true|false)\)/ => FIRST_START{\1}{\2}(overlap, next_start)
//@sub /FIRST_START\{<\}\{false\}\(overlap, next_start\)/ => first_starts_before(overlap, next_start) min=0
//@sub /FIRST_START\{([^}]*)\}\{(\w+)\}\(overlap, next_start\)/ => (match overlap.get_first() { Some(f) => f.start \1 next_start, None => \2 }) min=0
//@sub /u32::max_value\(\)/ => u32::MAX min=0
//@sig
    requires
        [[L: pre]]
        item_start <= item_end, item_start < u32::MAX,
        next_start_opt.is_some() ==> item_start <= next_start_opt.unwrap(),
        ents.len() < 0xff_ffff,
        segs_ok(old(overlap)@, d0, item_start as int, ents),
        sbases(*old(summary)) == cnt(ents, 0, item_start as int),
    ensures
        [[L: sweep_invariant]]
        segs_ok(final(overlap)@, out@.0, bound_of(next_start_opt) as int, ents.push((item_start, item_end))),
        [[L: pending_continues_flushed]]
        segs_ok(final(overlap)@, out@.0, flushed_to(out@.1, item_start as int), ents.push((item_start, item_end))),
        item_start <= flushed_to(out@.1, item_start as int) <= bound_of(next_start_opt),
        final(overlap)@.len() > 0 ==> flushed_to(out@.1, item_start as int) == bound_of(next_start_opt),
        [[L: flushed_pieces_tile_and_have_exact_depth]]
        pieces_ok(out@.1, item_start as int, flushed_to(out@.1, item_start as int), ents.push((item_start, item_end))),
        [[L: flushed_pieces_nonempty]]
        forall|q: int| 0 <= q < out@.1.len() ==> (#[trigger] out@.1[q]).s < out@.1[q].e,
        [[L: summary_is_fold_of_flushed_pieces]]
        *final(summary) == fold_pieces(*old(summary), out@.1),
        [[L: bases_covered_exact]]
        sbases(*final(summary)) == cnt(ents.push((item_start, item_end)), 0, bound_of(next_start_opt) as int),
        [[L: tail_reaches_max_end]]
        final(overlap)@.len() > 0 ==> final(overlap)@.last().end == imax(hi_of(old(overlap)@, item_start as int), item_end as int),
        final(overlap)@.len() == 0 ==> imax(hi_of(old(overlap)@, item_start as int), item_end as int) <= bound_of(next_start_opt),
        [[L: chrom_end_flushes_everything]]
        next_start_opt.is_none() ==> final(overlap)@.len() == 0,
//@open
            let ghost ents2 = ents.push((item_start, item_end));
            let ghost hi0 = hi_of(overlap@, item_start as int);
            let ghost mut d = d0;
            let ghost mut k: int = 0;
            proof { float_ax::float_det(); }
//@loop 1
                invariant_except_break
                    [[L: loop1/increment_invariant]]
                    sweep_inv(overlap@, d, k, item_start, item_end, ents),
                    hi_of(overlap@, item_start as int) == hi0,
                    [[L: loop1/index_is_position_k]]
                    index.some() ==> overlap.has(index) && overlap.pos(index) == k && k < overlap@.len(),
                    !index.some() ==> k == overlap@.len(),
                invariant
                    [[L: loop1/frame]]
                    item_start <= item_end, ents.len() < 0xff_ffff,
                    *summary == *old(summary),
                ensures
                    [[L: loop1/exit]]
                    sweep_done(overlap@, d, k, item_start, item_end, ents),
                    hi_of(overlap@, item_start as int) == hi0,
                decreases
                    [[L: loop1/termination]]
                    overlap@.len() - k,
//@at /match overlap\.get_mut\(index\) \{/ before
                proof { float_ax::float_det(); }
                let ghost l_in = overlap@;
//@at /^\s*break;\s*$/ before
                            proof { [[L: loop1/split_keeps_depths_exact]]
                                let nv = Value { start: l_in[k].start, end: item_end, value: l_in[k].value.add_spec(1.0f32) };
                                let tl = Value { start: item_end, end: l_in[k].end, value: nv.value.sub_spec(1.0f32) };
                                assert(overlap@ == l_in.update(k, nv).insert(k + 1, tl));
                                lemma_sweep_split(l_in, d, k, item_start, item_end, ents, nv, tl);
                                d = d.update(k, d[k] + 1).insert(k + 1, d[k]);
                                k = k + 1;
                            }
//@at /index = overlap\.next_index\(index\);/ after
                        proof { [[L: loop1/increment_keeps_depths_exact]]
                            let nv = Value { start: l_in[k].start, end: l_in[k].end, value: l_in[k].value.add_spec(1.0f32) };
                            assert(overlap@ == l_in.update(k, nv));
                            lemma_sweep_nosplit(l_in, d, k, item_start, item_end, ents, nv);
                            d = d.update(k, d[k] + 1);
                            k = k + 1;
                        }
//@at /overlap@\.last\(\)\.end >= item_start\)\);/ before
            proof { [[L: after_increment_exact_on_old_span]]
                lemma_sweep_finish(overlap@, d, k, item_start, item_end, ents);
                if overlap@.len() > 0 { let _ = overlap@[overlap@.len() - 1]; }
            }
            let ghost l_mid = overlap@;
//@at /let next_start = next_start_opt\.unwrap_or/ before
            proof { [[L: tail_extends_to_item_end]]
                if l_mid.len() > 0 && l_mid.last().end >= item_end {
                    lemma_tail_keep(l_mid, d, item_start, item_end, ents);
                } else {
                    let v = Value { start: hi_of(l_mid, item_start as int) as u32, end: item_end, value: 1.0f32 };
                    lemma_tail_push(l_mid, d, item_start, item_end, ents, v);
                    assert(overlap@ == l_mid.push(v));
                    d = d.push(1nat);
                }
                assert(segs_ok(overlap@, d, item_start as int, ents2));
                assert(hi_of(overlap@, item_start as int) == imax(hi0, item_end as int));
            }
            let ghost hi1 = imax(hi0, item_end as int);
//@at /let next_start = next_start_opt\.unwrap_or/ after
            let ghost mut ps: Seq<Piece> = Seq::empty();
            let ghost mut lo: int = item_start as int;
            proof {
                lemma_cnt_push_left(ents, (item_start, item_end), 0, item_start as int);
            }
//@loop 2
                invariant
                    [[L: flush/frame]]
                    ents2 == ents.push((item_start, item_end)),
                    hi1 == imax(hi0, item_end as int),
                    [[L: flush/position]]
                    item_start <= lo <= next_start,
                    lo == flushed_to(ps, item_start as int),
                    [[L: flush/sweep_invariant]]
                    segs_ok(overlap@, d, lo, ents2),
                    hi_of(overlap@, lo) == hi1,
                    [[L: flush/pieces_tile_and_have_exact_depth]]
                    pieces_ok(ps, item_start as int, lo, ents2),
                    [[L: flush/applied_pieces_nonempty]]
                    forall|q: int| 0 <= q < ps.len() ==> (#[trigger] ps[q]).s < ps[q].e,
                    [[L: flush/summary_is_fold_of_pieces]]
                    *summary == fold_pieces(*old(summary), ps),
                    [[L: flush/bases_covered_exact]]
                    sbases(*summary) == cnt(ents2, 0, lo),
                decreases
                    [[L: flush/termination]]
                    overlap@.len(),
                    (if overlap@.len() > 0 && overlap@[0].start < next_start { 1int } else { 0int }),
//@at /let mut removed = overlap\.remove_first\(\)\.unwrap\(\);/ before
                proof { float_ax::float_det(); }
                let ghost l_in = overlap@;
                let ghost sum_in = *summary;
//@at /^\s*\};\s*$/ after
                let ghost d_first = d[0];
                let ghost lo2: int = if l_in[0].end <= next_start { l_in[0].end as int } else { next_start as int };
                let ghost pc = Piece { s: lo, e: lo2, d: d_first };
                proof { [[L: flush/step_removes_exact_piece]]
                    let _ = l_in[0];
                    assert(seg_depth(l_in[0], d[0], ents2));
                    if l_in[0].end <= next_start {
                        lemma_flush_whole(l_in, d, lo, ents2);
                        d = d.subrange(1, d.len() as int);
                    } else {
                        lemma_flush_part(l_in, d, lo, ents2, next_start, removed);
                    }
                    assert(piece_depth(pc, ents2));
                    lemma_cnt_step(ents2, lo, lo2);
                    lemma_cnt_bound(ents2, 0, lo);
                    assert(len == (pc.e - pc.s) as u32); [[L: flush/piece_length_is_flushed_span]]
                    assert(val == piece_val(pc)); [[L: flush/piece_value_is_depth]]
                    lo = lo2;
                }
//@at /match summary \{/ before
                proof { [[L: flush/piece_applied_to_summary]]
                    lemma_pieces_push(ps, item_start as int, pc.s, pc, ents2);
                    assert(ps.push(pc).drop_last() =~= ps);
                    ps = ps.push(pc);
                }
//@close
            proof { [[L: exit]]
                if overlap@.len() > 0 { let _ = overlap@[0]; } else { lemma_cnt_zero_ext(ents2, lo, next_start as int); }
            }
            Ghost((d, ps))
//@end

} // verus!
fn main() {}
