//@unit procs
//@serves C02 C06 C08 C13
//@backend verus
// Life-cycle methods of the six per-chromosome processor structs that no other unit covers:
//   bigbedwrite.rs: BigBedFullProcess::destroy, BigBedNoZoomsProcess::destroy,
//                   BigBedZoomsProcess::{do_process, destroy}
//   bigwigwrite.rs: BigWig{Full,NoZooms,Zooms}Process::{do_process, destroy}
// (the bigBed Full/NoZooms `do_process` are in unit bb_batch; `create` uses iterator adaptors: out of scope)
//   C02/C06: the per-chromosome summary handed back by `destroy` is the accumulated one; the bigBed item
//        count is the number of `do_process` calls — ALWAYS, also for a chromosome with no covered base;
//        an untouched chromosome yields the all-zero summary.
//   C08/C07: the second-pass processors hand EVERY value (zero-length ones too) to `process_val_zoom`
//        with exactly its own (start, end, next) under the processor's own chrom id.
//   C13: an Err of a callee is returned, before any later work; the `debug_assert!`s of `destroy` hold
//        when the last `do_process` call of the chromosome had `next_val == None`.
// The callees `process_val` / `process_val_zoom` are signature-only here: their contracts are those of
// units bw_batch, bb_zoom, bw_zoom, restated as (a) an UNINTERPRETED relation `*_post` between
// exactly the arguments and the results ("whatever the callee guarantees") — so that a caller which
// skips the call, or passes other arguments, cannot establish it — and (b) the concrete
// chromosome-end clauses needed for `destroy`, under an uninterpreted `*_pre` (the callee unit's `pre`).
use vstd::prelude::*;
use vstd::std_specs::ops::*;
use vstd::std_specs::convert::FromSpec;
verus! {
//@include ../_shared/floats.rs

//@extract struct bigtools/src/bbi.rs Summary
//@rule R8
//@end
//@extract struct bigtools/src/bbi.rs Value
//@rule R8
//@end
//@extract struct bigtools/src/bbi.rs ZoomRecord
//@rule R8
//@end
// R11: `rest: String` -> `rest: Vec<u8>` (as units bb_enc / bb_batch; the text is never inspected here)
//@extract struct bigtools/src/bbi.rs BedEntry
//@rule R8
//@sub /#\[derive\(Clone\)\]\n/ => ""
//@sub /rest: String/ => rest: Vec<u8>
//@end
//@extract enum bigtools/src/bbi/bbiwrite.rs InputSortType
//@rule R8
//@end
//@extract struct bigtools/src/bbi/bbiwrite.rs BBIWriteOptions
//@rule R8
//@sub /#\[derive\(Clone\)\]\n/ => ""
//@end
// thiserror attributes dropped; io::Error -> opaque IoErr
//@extract enum bigtools/src/bbi/bbiwrite.rs ProcessDataError
//@rule R8
//@sub /[ \t]*#\[error\([^\n]*\)\]\n/ => "" min=3
//@sub /#\[from\] io::Error/ => IoErr
//@end
//@extract struct bigtools/src/bbi/bbiwrite.rs BBIDataProcessoredData
//@rule R8
//@end
//@extract struct bigtools/src/bbi/bbiwrite.rs NoZoomsInternalProcessedData
//@rule R8
//@end
// R11: generic writer parameter dropped, `InternalTempZoomInfo<W>` (temp files + join handles) -> opaque TempZoom
//@extract struct bigtools/src/bbi/bbiwrite.rs ZoomsInternalProcessedData
//@rule R8
//@sub /<W: Write \+ Seek \+ Send \+ 'static>/ => "" min=1
//@sub /InternalTempZoomInfo<W>/ => TempZoom min=1
//@end

// ---------------- shims (each one is a listed assumption) ----------------
#[verifier::external_body]
pub struct IoErr { _p: u8 }
/// tokio runtime handle: only passed on
#[verifier::external_body]
pub struct Handle { _p: u8 }
/// IndexList<Value>: the sweep line of units bb_sweep / bb_zoom; opaque here
#[verifier::external_body]
pub struct Overlap { _p: u8 }
/// section channels (BBIDataProcessoringInputSectionChannel): opaque here
#[verifier::external_body]
pub struct SectionSink { _p: u8 }
#[verifier::external_body]
pub struct ZoomSink { _p: u8 }
/// bbiwrite::InternalTempZoomInfo<W>: opaque, only handed back
#[verifier::external_body]
pub struct TempZoom { _p: u8 }

pub open spec fn zero_summary(n: u64) -> Summary {
    Summary { total_items: n, bases_covered: 0, min_val: 0.0f64, max_val: 0.0f64, sum: 0.0f64, sum_squares: 0.0f64 }
}

// =====================================================================================
pub mod bb {
use super::*;

//@extract struct bigtools/src/bbi/bigbedwrite.rs ZoomItem
//@rule R8
//@sub /IndexList<Value>/ => Overlap min=1
//@sub /BBIDataProcessoringInputSectionChannel/ => ZoomSink min=1
//@sub /^struct/ => pub struct
//@sub /^    (\w+):/ => pub \1: min=0
//@end
//@extract struct bigtools/src/bbi/bigbedwrite.rs EntriesSection
//@rule R8
//@sub /IndexList<Value>/ => Overlap min=1
//@sub /^struct/ => pub struct
//@sub /^    (\w+):/ => pub \1: min=0
//@end
//@extract struct bigtools/src/bbi/bigbedwrite.rs BigBedFullProcess
//@rule R8
//@sub /BBIDataProcessoringInputSectionChannel/ => SectionSink min=1
//@sub /^    (\w+):/ => pub \1: min=0
//@end
//@extract struct bigtools/src/bbi/bigbedwrite.rs ZoomCounts
//@rule R8
//@sub /^struct/ => pub struct
//@sub /^    (\w+):/ => pub \1: min=0
//@end
//@extract struct bigtools/src/bbi/bigbedwrite.rs BigBedNoZoomsProcess
//@rule R8
//@sub /IndexList<Value>/ => Overlap min=1
//@sub /BBIDataProcessoringInputSectionChannel/ => SectionSink min=1
//@sub /^struct/ => pub struct
//@sub /^    (\w+):/ => pub \1: min=0
//@end
//@extract struct bigtools/src/bbi/bigbedwrite.rs BigBedZoomsProcess
//@rule R8
//@sub /<W: Write \+ Seek \+ Send \+ 'static>/ => "" min=1
//@sub /InternalTempZoomInfo<W>/ => TempZoom min=1
//@sub /^struct/ => pub struct
//@sub /^    (\w+):/ => pub \1: min=0
//@end

/// every zoom level has no open record and no pending records (what the two
/// `debug_assert!`s per level in `destroy` ask for)
pub open spec fn flushed(z: Seq<ZoomItem>) -> bool {
    forall|k: int| 0 <= k < z.len() ==> (#[trigger] z[k]).live_info.is_none() && z[k].records@.len() == 0
}
pub open spec fn opt_entry(o: Option<&BedEntry>) -> Option<BedEntry> {
    match o { Some(v) => Some(*v), None => None }
}
/// precondition of process_val_zoom: unit bb_zoom, label `pre`, for every level (with the level's ghost history)
pub uninterp spec fn pvz_pre(z0: Seq<ZoomItem>, options: BBIWriteOptions, item_start: u32, item_end: u32, next: Option<BedEntry>, chrom_id: u32) -> bool;
/// "whatever process_val_zoom guarantees" about exactly these arguments and results (unit bb_zoom)
pub uninterp spec fn pvz_post(z0: Seq<ZoomItem>, options: BBIWriteOptions, item_start: u32, item_end: u32, next: Option<BedEntry>, chrom_id: u32,
    z1: Seq<ZoomItem>, r: Result<(), ProcessDataError>) -> bool;

// signature cut from the repository, body dropped (unit bb_zoom verifies the per-level body)
//@extract fn bigtools/src/bbi/bigbedwrite.rs process_val_zoom
//@rule R16
//@rule R1 min=1
//@skipbody
//@ret r
//@sig
    ensures
        pvz_post(old(zoom_items)@, *options, item_start, item_end, opt_entry(next_val), chrom_id, final(zoom_items)@, r),
        // bb_zoom/chrom_end_flushes_everything, for every level (the `for zoom_item in zoom_items.iter_mut()`
        // iteration is dropped there by R9: levels are independent, the Vec's length does not change)
        pvz_pre(old(zoom_items)@, *options, item_start, item_end, opt_entry(next_val), chrom_id) && r.is_ok() && next_val.is_none()
            ==> flushed(final(zoom_items)@),
//@end

/// `zoom_counts.into_iter().map(|z| (z.resolution, z.counts)).collect()` (iterator adaptors are
/// outside Verus; same result computed by a verified loop)
pub open spec fn pairs_spec(z: Seq<ZoomCounts>) -> Seq<(u64, u64)> {
    Seq::new(z.len(), |k: int| (z[k].resolution, z[k].counts))
}
pub fn zoom_pairs(z: Vec<ZoomCounts>) -> (r: Vec<(u64, u64)>)
    ensures r@ == pairs_spec(z@)
{
    let mut out: Vec<(u64, u64)> = Vec::new();
    let mut i: usize = 0;
    while i < z.len()
        invariant i <= z.len(), out@ == pairs_spec(z@.subrange(0, i as int)),
        decreases z.len() - i,
    {
        out.push((z[i].resolution, z[i].counts));
        i = i + 1;
        assert(out@ =~= pairs_spec(z@.subrange(0, i as int)));
    }
    assert(z@.subrange(0, i as int) =~= z@);
    out
}

impl BigBedFullProcess {
//@extract method bigtools/src/bbi/bigbedwrite.rs destroy "BBIDataProcessorCreate for BigBedFullProcess"
//@rule R16
//@rule R6
//@rule R7
//@rule R12c
//@sub /([A-Za-z_][\w\.]*)\.is_empty\(\)/ => (\1.len() == 0) min=0
//@sub /let Self \{/ => let BigBedFullProcess { min=0
//@ret r
//@sig
    requires
        [[L: bb_full/pre_last_call_was_chrom_end]]
        self.state_val.items@.len() == 0,
        flushed(self.state_val.zoom_items@),
    ensures
        [[L: bb_full/item_count_is_number_of_do_process_calls_always]]
        r.0.total_items == self.total_items,
        [[L: bb_full/summary_is_the_accumulated_one]]
        self.summary.is_some() ==> r.0 == (Summary { total_items: self.total_items, ..self.summary.unwrap() }),
        [[L: bb_full/untouched_chromosome_is_all_zero]]
        self.summary.is_none() ==> r.0 == zero_summary(self.total_items),
//@at /assert\(\(?state_val\.items/ before
        assert(state_val.items@.len() == 0); [[L: bb_full/debug_assert_items_empty]]
//@loop 1
            invariant
                [[L: bb_full/loop/levels_flushed]]
                flushed(state_val.zoom_items@),
//@at /assert\(zoom_item\.live_info\.is_none\(\)\)/ before
            assert(zoom_item.live_info.is_none()); [[L: bb_full/debug_assert_no_open_zoom_record]]
            assert(zoom_item.records@.len() == 0); [[L: bb_full/debug_assert_no_pending_zoom_records]]
//@end
}

impl BigBedNoZoomsProcess {
//@extract method bigtools/src/bbi/bigbedwrite.rs destroy "BBIDataProcessorCreate for BigBedNoZoomsProcess"
//@rule R16
//@rule R6
//@rule R12c
//@sub /([A-Za-z_][\w\.]*)\.is_empty\(\)/ => (\1.len() == 0) min=0
//@sub /zoom_counts\s*\.into_iter\(\)\s*\.map\(\|z\| \(z\.resolution, z\.counts\)\)\s*\.collect\(\)/ => zoom_pairs(zoom_counts) min=1
//@sub /-> Self::Out/ => -> NoZoomsInternalProcessedData min=1
//@ret r
//@sig
    requires
        [[L: bb_nozooms/pre_last_call_was_chrom_end]]
        self.items@.len() == 0,
    ensures
        [[L: bb_nozooms/item_count_is_number_of_do_process_calls_always]]
        r.0.total_items == self.total_items,
        [[L: bb_nozooms/summary_is_the_accumulated_one]]
        self.summary.is_some() ==> r.0 == (Summary { total_items: self.total_items, ..self.summary.unwrap() }),
        [[L: bb_nozooms/untouched_chromosome_is_all_zero]]
        self.summary.is_none() ==> r.0 == zero_summary(self.total_items),
        [[L: bb_nozooms/zoom_counts_handed_back_per_resolution]]
        r.1@ == pairs_spec(self.zoom_counts@),
//@at /assert\(\(?items/ before
        assert(items@.len() == 0); [[L: bb_nozooms/debug_assert_items_empty]]
//@end
}

impl BigBedZoomsProcess {
//@extract method bigtools/src/bbi/bigbedwrite.rs do_process "BBIDataProcessor for BigBedZoomsProcess"
//@rule R16
//@rule R1
//@sub /Self::Value/ => BedEntry min=2
//@ret r
//@sig
    ensures
        [[L: bb_zooms/every_value_reaches_process_val_zoom_with_its_own_span_next_and_chrom]]
        pvz_post(old(self).zoom_items@, old(self).options, current_val.start, current_val.end, opt_entry(next_val), old(self).chrom_id,
            final(self).zoom_items@, r),
        [[L: bb_zooms/chrom_end_flushes_every_level]]
        pvz_pre(old(self).zoom_items@, old(self).options, current_val.start, current_val.end, opt_entry(next_val), old(self).chrom_id)
            && r.is_ok() && next_val.is_none() ==> flushed(final(self).zoom_items@),
        [[L: bb_zooms/frame]]
        final(self).chrom_id == old(self).chrom_id, final(self).options == old(self).options,
        final(self).temp_zoom_items == old(self).temp_zoom_items,
//@end

//@extract method bigtools/src/bbi/bigbedwrite.rs destroy "BBIDataProcessorCreate for BigBedZoomsProcess"
//@rule R16
//@rule R6
//@rule R7
//@sub /([A-Za-z_][\w\.]*)\.is_empty\(\)/ => (\1.len() == 0) min=0
//@sub /-> Self::Out/ => -> ZoomsInternalProcessedData min=1
//@ret r
//@sig
    requires
        [[L: bb_zooms/pre_last_call_was_chrom_end]]
        flushed(self.zoom_items@),
    ensures
        [[L: bb_zooms/temp_files_handed_back_unchanged]]
        r.0 == self.temp_zoom_items,
//@loop 1
            invariant
                [[L: bb_zooms/loop/levels_flushed]]
                flushed(zoom_items@),
//@at /assert\(zoom_item\.live_info\.is_none\(\)\)/ before
            assert(zoom_item.live_info.is_none()); [[L: bb_zooms/debug_assert_no_open_zoom_record]]
            assert(zoom_item.records@.len() == 0); [[L: bb_zooms/debug_assert_no_pending_zoom_records]]
//@end
}
} // mod bb

// =====================================================================================
pub mod bw {
use super::*;

//@extract struct bigtools/src/bbi/bigwigwrite.rs ZoomItem
//@rule R8
//@sub /BBIDataProcessoringInputSectionChannel/ => ZoomSink min=1
//@sub /^struct/ => pub struct
//@sub /^    (\w+):/ => pub \1: min=0
//@end
//@extract struct bigtools/src/bbi/bigwigwrite.rs BigWigFullProcess
//@rule R8
//@sub /BBIDataProcessoringInputSectionChannel/ => SectionSink min=1
//@sub /^    (\w+):/ => pub \1: min=0
//@end
//@extract struct bigtools/src/bbi/bigwigwrite.rs ZoomCounts
//@rule R8
//@sub /^struct/ => pub struct
//@sub /^    (\w+):/ => pub \1: min=0
//@end
//@extract struct bigtools/src/bbi/bigwigwrite.rs BigWigNoZoomsProcess
//@rule R8
//@sub /BBIDataProcessoringInputSectionChannel/ => SectionSink min=1
//@sub /^struct/ => pub struct
//@sub /^    (\w+):/ => pub \1: min=0
//@end
//@extract struct bigtools/src/bbi/bigwigwrite.rs BigWigZoomsProcess
//@rule R8
//@sub /<W: Write \+ Seek \+ Send \+ 'static>/ => "" min=1
//@sub /InternalTempZoomInfo<W>/ => TempZoom min=1
//@sub /^struct/ => pub struct
//@sub /^    (\w+):/ => pub \1: min=0
//@end
//@extract struct bigtools/src/bbi/bigwigwrite.rs BigWigInvalidInput
//@rule R8
//@sub /^struct BigWigInvalidInput\(String\)/ => pub struct BigWigInvalidInput(pub String)
//@end
// the conversion behind `process_val(..).await?` (From<BigWigInvalidInput> for ProcessDataError)
//@extract method bigtools/src/bbi/bigwigwrite.rs from "From<BigWigInvalidInput> for ProcessDataError"
//@rule R16
//@sub /fn from\(value: BigWigInvalidInput\) -> Self/ => pub fn bwii_into(value: BigWigInvalidInput) -> ProcessDataError min=1
//@end

pub open spec fn flushed(z: Seq<ZoomItem>) -> bool {
    forall|k: int| 0 <= k < z.len() ==> (#[trigger] z[k]).live_info.is_none() && z[k].records@.len() == 0
}
pub open spec fn opt_value(o: Option<&Value>) -> Option<Value> {
    match o { Some(v) => Some(*v), None => None }
}
/// unit bw_batch, label `pre` (protocol + ghost history of the chromosome)
pub uninterp spec fn pv_pre(summary: Summary, items: Seq<Value>, ftx: SectionSink, current_val: Value, next: Option<Value>,
    chrom_length: u32, options: BBIWriteOptions, chrom_id: u32) -> bool;
/// "whatever process_val guarantees" about exactly these arguments and results (unit bw_batch); `ok` = it returned Ok
pub uninterp spec fn pv_post(summary0: Summary, items0: Seq<Value>, ftx0: SectionSink, current_val: Value, next: Option<Value>,
    chrom_length: u32, options: BBIWriteOptions, chrom_id: u32, summary1: Summary, items1: Seq<Value>, ftx1: SectionSink, ok: bool) -> bool;
/// unit bw_zoom, label `pre`, for every level
pub uninterp spec fn pvz_pre(z0: Seq<ZoomItem>, options: BBIWriteOptions, current_val: Value, next: Option<Value>, chrom_id: u32) -> bool;
/// "whatever process_val_zoom guarantees" (unit bw_zoom)
pub uninterp spec fn pvz_post(z0: Seq<ZoomItem>, options: BBIWriteOptions, current_val: Value, next: Option<Value>, chrom_id: u32, z1: Seq<ZoomItem>) -> bool;

//@extract fn bigtools/src/bbi/bigwigwrite.rs process_val
//@rule R16
//@rule R1 min=1
//@sub /BBIDataProcessoringInputSectionChannel/ => SectionSink min=1
//@skipbody
//@ret r
//@sig
    ensures
        pv_post(*old(summary), old(items)@, *old(ftx), current_val, opt_value(next_val), chrom_length, *options, chrom_id,
            *final(summary), final(items)@, *final(ftx), r.is_ok()),
        // bw_batch/chrom_end_leaves_nothing_pending
        pv_pre(*old(summary), old(items)@, *old(ftx), current_val, opt_value(next_val), chrom_length, *options, chrom_id)
            && r.is_ok() && next_val.is_none() ==> final(items)@.len() == 0,
//@end
//@extract fn bigtools/src/bbi/bigwigwrite.rs process_val_zoom
//@rule R16
//@rule R1 min=1
//@skipbody
//@sig
    ensures
        pvz_post(old(zoom_items)@, *options, current_val, opt_value(next_val), chrom_id, final(zoom_items)@),
        // bw_zoom/chrom_end_flushes_everything, for every level
        pvz_pre(old(zoom_items)@, *options, current_val, opt_value(next_val), chrom_id) && next_val.is_none()
            ==> flushed(final(zoom_items)@),
//@end

pub open spec fn pairs_spec(z: Seq<ZoomCounts>) -> Seq<(u64, u64)> {
    Seq::new(z.len(), |k: int| (z[k].resolution, z[k].counts))
}
pub fn zoom_pairs(z: Vec<ZoomCounts>) -> (r: Vec<(u64, u64)>)
    ensures r@ == pairs_spec(z@)
{
    let mut out: Vec<(u64, u64)> = Vec::new();
    let mut i: usize = 0;
    while i < z.len()
        invariant i <= z.len(), out@ == pairs_spec(z@.subrange(0, i as int)),
        decreases z.len() - i,
    {
        out.push((z[i].resolution, z[i].counts));
        i = i + 1;
        assert(out@ =~= pairs_spec(z@.subrange(0, i as int)));
    }
    assert(z@.subrange(0, i as int) =~= z@);
    out
}
/// what bigWig `destroy` hands back for an accumulated summary s
pub open spec fn bw_final_summary(s: Summary) -> Summary {
    if s.total_items == 0 { Summary { min_val: 0.0f64, max_val: 0.0f64, ..s } } else { s }
}
/// R9 by hand (as in bb_batch): stands for the `for zoom in zoom_counts { .. }` loop of
/// BigWigNoZoomsProcess::do_process; its body is verified below as `zoom_count_step`.
/// No contract: touches only `zoom_counts`.
#[verifier::external_body]
pub fn zoom_counts_all(zoom_counts: &mut Vec<ZoomCounts>, current_val: Value)
{ unimplemented!() }

impl BigWigFullProcess {
//@extract method bigtools/src/bbi/bigwigwrite.rs destroy "BBIDataProcessorCreate for BigWigFullProcess"
//@rule R16
//@rule R6
//@rule R7
//@rule R12c
//@sub /([A-Za-z_][\w\.]*)\.is_empty\(\)/ => (\1.len() == 0) min=0
//@sub /let Self \{/ => let BigWigFullProcess { min=0
//@ret r
//@sig
    requires
        [[L: bw_full/pre_last_call_was_chrom_end]]
        self.items@.len() == 0,
        flushed(self.zoom_items@),
    ensures
        [[L: bw_full/item_count_is_the_summarys_own]]
        r.0.total_items == self.summary.total_items,
        [[L: bw_full/summary_is_the_accumulated_one]]
        r.0 == bw_final_summary(self.summary),
        [[L: bw_full/untouched_chromosome_is_all_zero]]
        self.summary.total_items == 0 && self.summary.bases_covered == 0 && self.summary.sum == 0.0f64 && self.summary.sum_squares == 0.0f64
            ==> r.0 == zero_summary(0),
//@at /assert\(\(?items/ before
        assert(items@.len() == 0); [[L: bw_full/debug_assert_items_empty]]
//@loop 1
            invariant
                [[L: bw_full/loop/levels_flushed]]
                flushed(zoom_items@),
//@at /assert\(zoom_item\.live_info\.is_none\(\)\)/ before
            assert(zoom_item.live_info.is_none()); [[L: bw_full/debug_assert_no_open_zoom_record]]
            assert(zoom_item.records@.len() == 0); [[L: bw_full/debug_assert_no_pending_zoom_records]]
//@end

//@extract method bigtools/src/bbi/bigwigwrite.rs do_process "BBIDataProcessor for BigWigFullProcess"
//@rule R16
//@rule R1
//@sub /([\w\.]+\([^;]*?\))\s*\?;/ => (match \1 { Ok(v__) => v__, Err(e__) => return Err(bwii_into(e__)) }); min=0
//@ret r
//@sig
    ensures
        [[L: bw_full/process_val_gets_own_state_and_exact_arguments_and_its_error_is_returned]]
        pv_post(old(self).summary, old(self).items@, old(self).ftx, current_val, opt_value(next_val), old(self).length, old(self).options, old(self).chrom_id,
            final(self).summary, final(self).items@, final(self).ftx, r.is_ok()),
        [[L: bw_full/refused_value_does_no_zoom_work]]
        r.is_err() ==> final(self).zoom_items@ == old(self).zoom_items@,
        [[L: bw_full/every_accepted_value_reaches_process_val_zoom_unchanged]]
        r.is_ok() ==> pvz_post(old(self).zoom_items@, old(self).options, current_val, opt_value(next_val), old(self).chrom_id, final(self).zoom_items@),
        [[L: bw_full/chrom_end_leaves_nothing_pending]]
        pv_pre(old(self).summary, old(self).items@, old(self).ftx, current_val, opt_value(next_val), old(self).length, old(self).options, old(self).chrom_id)
            && pvz_pre(old(self).zoom_items@, old(self).options, current_val, opt_value(next_val), old(self).chrom_id)
            && r.is_ok() && next_val.is_none()
            ==> final(self).items@.len() == 0 && flushed(final(self).zoom_items@),
        [[L: bw_full/frame]]
        final(self).chrom_id == old(self).chrom_id, final(self).length == old(self).length, final(self).options == old(self).options,
//@end
}

impl BigWigNoZoomsProcess {
//@extract method bigtools/src/bbi/bigwigwrite.rs destroy "BBIDataProcessorCreate for BigWigNoZoomsProcess"
//@rule R16
//@rule R6
//@rule R12c
//@sub /([A-Za-z_][\w\.]*)\.is_empty\(\)/ => (\1.len() == 0) min=0
//@sub /zoom_counts\s*\.into_iter\(\)\s*\.map\(\|z\| \(z\.resolution, z\.counts\)\)\s*\.collect\(\)/ => zoom_pairs(zoom_counts) min=1
//@sub /-> Self::Out/ => -> NoZoomsInternalProcessedData min=1
//@ret r
//@sig
    requires
        [[L: bw_nozooms/pre_last_call_was_chrom_end]]
        self.items@.len() == 0,
    ensures
        [[L: bw_nozooms/item_count_is_the_summarys_own]]
        r.0.total_items == self.summary.total_items,
        [[L: bw_nozooms/summary_is_the_accumulated_one]]
        r.0 == bw_final_summary(self.summary),
        [[L: bw_nozooms/untouched_chromosome_is_all_zero]]
        self.summary.total_items == 0 && self.summary.bases_covered == 0 && self.summary.sum == 0.0f64 && self.summary.sum_squares == 0.0f64
            ==> r.0 == zero_summary(0),
        [[L: bw_nozooms/zoom_counts_handed_back_per_resolution]]
        r.1@ == pairs_spec(self.zoom_counts@),
//@at /assert\(\(?items/ before
        assert(items@.len() == 0); [[L: bw_nozooms/debug_assert_items_empty]]
//@end

//@extract method bigtools/src/bbi/bigwigwrite.rs do_process "BBIDataProcessor for BigWigNoZoomsProcess"
//@rule R16
//@presub /for zoom in zoom_counts \{.*?\n        \}\n/ => zoom_counts_all(zoom_counts, current_val);\n min=1 count=1
//@rule R1
//@sub /Self::Value/ => Value min=2
//@sub /([\w\.]+\([^;]*?\))\s*\?;/ => (match \1 { Ok(v__) => v__, Err(e__) => return Err(bwii_into(e__)) }); min=0
//@ret r
//@sig
    ensures
        [[L: bw_nozooms/process_val_gets_own_state_and_exact_arguments_and_its_error_is_returned]]
        pv_post(old(self).summary, old(self).items@, old(self).ftx, current_val, opt_value(next_val), old(self).length, old(self).options, old(self).chrom_id,
            final(self).summary, final(self).items@, final(self).ftx, r.is_ok()),
        [[L: bw_nozooms/refused_value_is_not_counted_for_zooms]]
        r.is_err() ==> final(self).zoom_counts@ == old(self).zoom_counts@,
        [[L: bw_nozooms/chrom_end_leaves_nothing_pending]]
        pv_pre(old(self).summary, old(self).items@, old(self).ftx, current_val, opt_value(next_val), old(self).length, old(self).options, old(self).chrom_id)
            && r.is_ok() && next_val.is_none() ==> final(self).items@.len() == 0,
        [[L: bw_nozooms/frame]]
        final(self).chrom_id == old(self).chrom_id, final(self).length == old(self).length, final(self).options == old(self).options,
//@end
}

impl BigWigZoomsProcess {
//@extract method bigtools/src/bbi/bigwigwrite.rs do_process "BBIDataProcessor for BigWigZoomsProcess"
//@rule R16
//@rule R1
//@sub /Self::Value/ => Value min=2
//@ret r
//@sig
    ensures
        [[L: bw_zooms/every_value_reaches_process_val_zoom_unchanged_with_next_and_own_chrom]]
        pvz_post(old(self).zoom_items@, old(self).options, current_val, opt_value(next_val), old(self).chrom_id, final(self).zoom_items@),
        [[L: bw_zooms/never_fails]]
        r.is_ok(),
        [[L: bw_zooms/chrom_end_flushes_every_level]]
        pvz_pre(old(self).zoom_items@, old(self).options, current_val, opt_value(next_val), old(self).chrom_id) && next_val.is_none()
            ==> flushed(final(self).zoom_items@),
        [[L: bw_zooms/frame]]
        final(self).chrom_id == old(self).chrom_id, final(self).options == old(self).options,
        final(self).temp_zoom_items == old(self).temp_zoom_items,
//@end

//@extract method bigtools/src/bbi/bigwigwrite.rs destroy "BBIDataProcessorCreate for BigWigZoomsProcess"
//@rule R16
//@rule R6
//@rule R7
//@sub /([A-Za-z_][\w\.]*)\.is_empty\(\)/ => (\1.len() == 0) min=0
//@sub /-> Self::Out/ => -> ZoomsInternalProcessedData min=1
//@ret r
//@sig
    requires
        [[L: bw_zooms/pre_last_call_was_chrom_end]]
        flushed(self.zoom_items@),
    ensures
        [[L: bw_zooms/temp_files_handed_back_unchanged]]
        r.0 == self.temp_zoom_items,
//@loop 1
            invariant
                [[L: bw_zooms/loop/levels_flushed]]
                flushed(zoom_items@),
//@at /assert\(zoom_item\.live_info\.is_none\(\)\)/ before
            assert(zoom_item.live_info.is_none()); [[L: bw_zooms/debug_assert_no_open_zoom_record]]
            assert(zoom_item.records@.len() == 0); [[L: bw_zooms/debug_assert_no_pending_zoom_records]]
//@end
}

// ---- zoom-count loop body of BigWigNoZoomsProcess::do_process (R9 outline by presub, as bb_batch (3)) ----
/// number of tiles of width `res` laid from `ce` until `end` is reached
pub open spec fn tiles(ce: int, end: int, res: int) -> int
    decreases (if end > ce { end - ce } else { 0 })
{
    if res > 0 && end > ce { 1 + tiles(ce + res, end, res) } else { 0 }
}
proof fn lemma_tiles_bound(ce: int, end: int, res: int)
    requires res > 0,
    ensures 0 <= tiles(ce, end, res) <= (if end > ce { end - ce } else { 0 }),
    decreases (if end > ce { end - ce } else { 0 })
{
    if end > ce { lemma_tiles_bound(ce + res, end, res); }
}
proof fn lemma_tiles_step(ce: int, end: int, res: int)
    requires res > 0, end > ce,
    ensures tiles(ce, end, res) == 1 + tiles(ce + res, end, res),
        ce + tiles(ce, end, res) * res == (ce + res) + tiles(ce + res, end, res) * res,
{
    let t = tiles(ce + res, end, res);
    assert((1 + t) * res == res + t * res) by (nonlinear_arith);
}

//@extract method bigtools/src/bbi/bigwigwrite.rs do_process "BBIDataProcessor for BigWigNoZoomsProcess"
//@rule R16
//@presub /\A.*?for zoom in zoom_counts \{(.*?)\n        \}\n.*\Z/ => fn zoom_count_step(zoom: &mut ZoomCounts, current_val: Value) {\1\n} min=1 count=1
//@rule R5
//@sig
    requires
        [[L: bw_zoomcount/pre]]
        0 < old(zoom).resolution <= u64::MAX / 4,
        old(zoom).counts <= u64::MAX - 0x1_0000_0001,
    ensures
        [[L: bw_zoomcount/resolution_unchanged]]
        final(zoom).resolution == old(zoom).resolution,
        [[L: bw_zoomcount/covers_value_end]]
        final(zoom).current_end >= current_val.end,
        [[L: bw_zoomcount/counts_tiles_exactly]]
        ({
            let res = old(zoom).resolution as int;
            let fresh = current_val.start as int >= old(zoom).current_end as int;
            let ce1 = if fresh { current_val.start as int + res } else { old(zoom).current_end as int };
            let k = tiles(ce1, current_val.end as int, res);
            &&& final(zoom).counts as int == old(zoom).counts as int + (if fresh { 1int } else { 0int }) + k
            &&& final(zoom).current_end as int == ce1 + k * res
            &&& 0 <= k <= current_val.end
        }),
//@at /while current_val\.end as u64 >=? zoom\.current_end/ before
            let ghost ce1 = zoom.current_end as int;
            let ghost c1 = zoom.counts as int;
            let ghost res = zoom.resolution as int;
            proof { lemma_tiles_bound(ce1, current_val.end as int, res); }
//@loop 1
                invariant
                    [[L: bw_zoomcount/loop/frame]]
                    zoom.resolution == old(zoom).resolution, res == zoom.resolution as int,
                    0 < res <= u64::MAX / 4,
                    c1 <= old(zoom).counts + 1,
                    old(zoom).counts <= u64::MAX - 0x1_0000_0001,
                    [[L: bw_zoomcount/loop/tiles_accounting]]
                    zoom.counts as int + tiles(zoom.current_end as int, current_val.end as int, res) == c1 + tiles(ce1, current_val.end as int, res),
                    zoom.current_end as int + tiles(zoom.current_end as int, current_val.end as int, res) * res == ce1 + tiles(ce1, current_val.end as int, res) * res,
                    0 <= tiles(ce1, current_val.end as int, res) <= current_val.end,
                    tiles(zoom.current_end as int, current_val.end as int, res) >= 0,
                decreases
                    [[L: bw_zoomcount/loop/termination]]
                    (if current_val.end as int > zoom.current_end as int { current_val.end as int - zoom.current_end as int } else { 0int }),
//@at /zoom\.current_end = zoom\.current_end \+ \(zoom\.resolution\);/ before
                proof {
                    lemma_tiles_step(zoom.current_end as int, current_val.end as int, res); [[L: bw_zoomcount/loop/one_more_tile_needed]]
                    lemma_tiles_bound(zoom.current_end as int + res, current_val.end as int, res);
                }
//@end
} // mod bw

} // verus!
fn main() {}
