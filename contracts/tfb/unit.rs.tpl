//@unit tfb
//@serves C12
//@backend verus
// Staging buffer utils/file/tempfilebuffer.rs: TempFileBufferWriter::{update, write, flush, drop},
// TempFileBuffer::{switch, is_real_file_ready, len, await_real_file, expect_closed_write}.
// Property C12: the destination ends up holding exactly the bytes written, each once and in order,
// wherever the redirection (`switch`) lands relative to the writes and to the producer's drop, for
// in-memory and temp-file staging; the reported staged length equals the number of bytes written.
//
// Model (see NOTES.md): the two shared cells (`real_file`, `closed`) are handles (`Mailbox`, `Closed`)
// onto ghost tokens (`MbTok`, `ClTok`) that carry the cell contents.  Every access to a cell goes
// through one shim call that needs `&mut` on the token, so a verified method is a whole, sequential
// operation on the shared state.  Blocking, wake-ups and deadlock-freedom are NOT modelled.
use vstd::prelude::*;
verus! {

// =====================================================================================
// shims (R11 / R13): assumed contracts, kept as weak as is true of the real thing
// =====================================================================================
#[verifier::external_body]
pub struct IoError { _p: u8 }
pub type IoResult<T> = Result<T, IoError>;

pub enum SeekFrom { Start(u64), End(i64), Current(i64) }

/// std::io::Write seen through a ghost `bytes()`: everything the sink has accepted so far.
/// Nothing is said about the sink after an `Err`.
pub trait Write: Sized {
    spec fn bytes(&self) -> Seq<u8>;
    fn write(&mut self, buf: &[u8]) -> (r: IoResult<usize>)
        ensures
            r matches Ok(n) ==> n <= buf@.len() && final(self).bytes() == old(self).bytes() + buf@.subrange(0, n as int),
    ;
    fn write_all(&mut self, buf: &[u8]) -> (r: IoResult<()>)
        ensures
            r is Ok ==> final(self).bytes() == old(self).bytes() + buf@,
    ;
    fn flush(&mut self) -> (r: IoResult<()>)
        ensures
            final(self).bytes() == old(self).bytes(),
    ;
}
/// `impl Write for Vec<u8>` of std (append everything, never fails) -- verified against the trait contract.
impl Write for Vec<u8> {
    open spec fn bytes(&self) -> Seq<u8> { self@ }
    fn write(&mut self, buf: &[u8]) -> (r: IoResult<usize>)
        ensures r == Ok::<usize, IoError>(buf@.len() as usize),
    {
        self.extend_from_slice(buf);
        proof { assert(buf@.subrange(0, buf@.len() as int) =~= buf@); }
        Ok(buf.len())
    }
    fn write_all(&mut self, buf: &[u8]) -> (r: IoResult<()>) { self.extend_from_slice(buf); Ok(()) }
    fn flush(&mut self) -> (r: IoResult<()>) { Ok(()) }
}
/// `.unwrap()` on an I/O result: panics on `Err` (that is the code's documented behaviour on the
/// consumer side), so if it returns the result was `Ok`.  The panic on I/O error is not an obligation.
#[verifier::external_body]
fn io_ok<T>(r: IoResult<T>) -> (v: T)
    ensures r == Ok::<T, IoError>(v),
{ r.unwrap() }

/// std::fs::File used as an anonymous temp file: ghost `content()` and cursor `pos()`.
#[verifier::external_body]
pub struct VTemp { _p: u8 }
impl VTemp {
    pub uninterp spec fn content(&self) -> Seq<u8>;
    pub uninterp spec fn pos(&self) -> int;
    /// tempfile::tempfile()
    #[verifier::external_body]
    pub fn create() -> (r: IoResult<VTemp>)
        ensures r matches Ok(f) ==> f.content().len() == 0 && f.pos() == 0,
    { unimplemented!() }
    /// File::write with the cursor at the end appends a prefix of buf (other cursor positions: unspecified)
    #[verifier::external_body]
    pub fn write(&mut self, buf: &[u8]) -> (r: IoResult<usize>)
        ensures
            r matches Ok(n) ==> n <= buf@.len() && (old(self).pos() == old(self).content().len() ==>
                final(self).content() == old(self).content() + buf@.subrange(0, n as int)
                && final(self).pos() == old(self).pos() + n),
    { unimplemented!() }
    /// File::seek: never changes the content; Ok(p) => p is the new cursor
    #[verifier::external_body]
    pub fn seek(&mut self, to: SeekFrom) -> (r: IoResult<u64>)
        ensures
            final(self).content() == old(self).content(),
            r matches Ok(p) ==> p as int == final(self).pos() && (match to {
                SeekFrom::Start(n) => final(self).pos() == n as int,
                SeekFrom::Current(d) => final(self).pos() == old(self).pos() + d as int,
                SeekFrom::End(d) => final(self).pos() == old(self).content().len() + d as int,
            }),
    { unimplemented!() }
    #[verifier::external_body]
    pub fn flush(&mut self) -> (r: IoResult<()>)
        ensures final(self).content() == old(self).content(), final(self).pos() == old(self).pos(),
    { unimplemented!() }
}
/// io::copy(&mut file, &mut dest): Ok => dest got everything from the file's cursor to its end, in order.
#[verifier::external_body]
fn copy_temp<W: Write>(f: &mut VTemp, d: &mut W) -> (r: IoResult<u64>)
    ensures
        final(f).content() == old(f).content(),
        r matches Ok(n) ==> (0 <= old(f).pos() <= old(f).content().len() ==>
            final(d).bytes() == old(d).bytes() + old(f).content().subrange(old(f).pos(), old(f).content().len() as int)
            && n as int == old(f).content().len() - old(f).pos()
            && final(f).pos() == old(f).content().len()),
{ unimplemented!() }
/// std::mem::replace, verified via mem::swap
fn mem_replace<T>(dest: &mut T, src: T) -> (r: T)
    ensures *final(dest) == src, r == *old(dest),
{ let mut s = src; std::mem::swap(dest, &mut s); s }

// ---- Arc<AtomicCell<Option<R>>>: handle + ghost token; ONE linearizable operation `swap` ----
#[verifier::external_body]
#[verifier::reject_recursive_types(R)]
pub struct Mailbox<R> { _p: core::marker::PhantomData<R> }
/// ghost state of the mailbox cell `id()`: what it holds and how often it has been accessed
#[verifier::external_body]
#[verifier::reject_recursive_types(R)]
pub tracked struct MbTok<R> { _p: core::marker::PhantomData<R> }
impl<R> MbTok<R> {
    pub uninterp spec fn id(&self) -> int;
    pub uninterp spec fn held(&self) -> Option<R>;
    pub uninterp spec fn ops(&self) -> nat;
}
impl<R> Mailbox<R> {
    pub uninterp spec fn id(&self) -> int;
    /// AtomicCell::swap
    #[verifier::external_body]
    pub fn swap1(&self, Tracked(t): Tracked<&mut MbTok<R>>, v: Option<R>) -> (r: Option<R>)
        requires
            old(t).id() == self.id(),
        ensures
            final(t).id() == old(t).id(),
            r == old(t).held(),
            final(t).held() == v,
            final(t).ops() == old(t).ops() + 1,
    { unimplemented!() }
}
// ---- Arc<(Mutex<Option<BufferState<R>>>, Condvar)>: handle + ghost token ----
#[verifier::external_body]
#[verifier::reject_recursive_types(R)]
pub struct Closed<R> { _p: core::marker::PhantomData<R> }
#[verifier::external_body]
#[verifier::reject_recursive_types(R)]
pub tracked struct ClTok<R> { _p: core::marker::PhantomData<R> }
impl<R> ClTok<R> {
    pub uninterp spec fn id(&self) -> int;
    /// `None` until the producer's drop publishes its final state
    pub uninterp spec fn val(&self) -> Option<BufferState<R>>;
    pub uninterp spec fn locks(&self) -> nat;
}
impl<R> Closed<R> {
    pub uninterp spec fn id(&self) -> int;
    /// lock.lock().unwrap(): exclusive access to the cell's contents for the rest of the method
    #[verifier::external_body]
    pub fn lock<'a>(&self, Tracked(t): Tracked<&'a mut ClTok<R>>) -> (g: &'a mut Option<BufferState<R>>)
        requires
            old(t).id() == self.id(),
        ensures
            *g == old(t).val(),
            final(t).val() == *final(g),
            final(t).id() == old(t).id(),
            final(t).locks() == old(t).locks() + 1,
    { unimplemented!() }
    /// R13: lock + `while closed.is_none() { closed = cvar.wait(closed).unwrap(); }`.  The loop exits
    /// only once the cell is `Some`; the precondition says we verify the code for exactly that
    /// situation.  Whether it is ever reached (wake-up, no deadlock) is NOT modelled.
    #[verifier::external_body]
    pub fn wait_closed<'a>(&self, Tracked(t): Tracked<&'a mut ClTok<R>>) -> (g: &'a mut Option<BufferState<R>>)
        requires
            old(t).id() == self.id(),
            old(t).val() is Some,
        ensures
            *g == old(t).val(),
            final(t).val() == *final(g),
            final(t).id() == old(t).id(),
            final(t).locks() == old(t).locks() + 1,
    { unimplemented!() }
}
/// R6: panic!/unreachable! -- must be proved unreachable
fn vpanic() -> !
    requires false,
{ loop decreases 0int { } }

// =====================================================================================
// the repository's types
// =====================================================================================
//@extract enum bigtools/src/utils/file/tempfilebuffer.rs BufferState
//@sub /^enum BufferState/ => pub enum BufferState
//@sub /Temp\(File\)/ => Temp(VTemp)
//@end

//@extract struct bigtools/src/utils/file/tempfilebuffer.rs TempFileBuffer
//@rule R8
//@sub /pub struct/ => #[verifier::reject_recursive_types(R)]\npub struct
//@sub /Arc<\(Mutex<Option<BufferState<R>>>, Condvar\)>/ => Closed<R>
//@sub /Arc<AtomicCell<Option<R>>>/ => Mailbox<R>
//@end

//@extract struct bigtools/src/utils/file/tempfilebuffer.rs TempFileBufferWriter
//@rule R8
//@sub /pub struct/ => #[verifier::reject_recursive_types(R)]\npub struct
//@sub /Arc<\(Mutex<Option<BufferState<R>>>, Condvar\)>/ => Closed<R>
//@sub /Arc<AtomicCell<Option<R>>>/ => Mailbox<R>
//@end

// =====================================================================================
// specification vocabulary (written from the property)
// =====================================================================================
/// ghost protocol state: `sw` = switch has been called; `d0` = destination contents at that moment;
/// `w` = all bytes accepted by `write` so far, in order.
pub ghost struct G { pub sw: bool, pub d0: Seq<u8>, pub w: Seq<u8> }

/// a staging state holds exactly `w` (temp file: content == w and the cursor is at the end)
pub open spec fn staging_ok<R>(st: BufferState<R>, w: Seq<u8>) -> bool {
    match st {
        BufferState::NotStarted => w.len() == 0,
        BufferState::InMemory(v) => v@ =~= w,
        BufferState::Temp(f) => f.content() =~= w && f.pos() == w.len(),
        BufferState::Real(_) => false,
    }
}
/// Invariant I over (producer state or published final state `st`, mailbox contents `held`, ghost g):
///  * staging: holds exactly g.w; the mailbox holds the destination iff switched, untouched (== d0);
///  * Real(d): d.bytes == d0 ++ w, switched, mailbox empty.
/// So the destination is in at most one place and no byte is duplicated or lost.
pub open spec fn proto<R: Write>(st: BufferState<R>, held: Option<R>, g: G) -> bool {
    match st {
        BufferState::Real(d) => g.sw && held is None && d.bytes() =~= g.d0 + g.w,
        _ => staging_ok(st, g.w) && (g.sw <==> held is Some) && (held matches Some(d) ==> d.bytes() =~= g.d0),
    }
}
/// same variant, same bytes, same cursor
pub open spec fn same_contents<R: Write>(a: BufferState<R>, b: BufferState<R>) -> bool {
    match (a, b) {
        (BufferState::NotStarted, BufferState::NotStarted) => true,
        (BufferState::InMemory(x), BufferState::InMemory(y)) => x@ =~= y@,
        (BufferState::Temp(f), BufferState::Temp(h)) => f.content() =~= h.content() && f.pos() == h.pos(),
        (BufferState::Real(d), BufferState::Real(e)) => d.bytes() =~= e.bytes(),
        _ => false,
    }
}
pub proof fn lemma_same_contents_keeps_proto<R: Write>(a: BufferState<R>, b: BufferState<R>, held: Option<R>, g: G)
    requires same_contents(a, b), proto(a, held, g),
    ensures proto(b, held, g),
{
}
pub open spec fn g_written(g: G, more: Seq<u8>) -> G { G { sw: g.sw, d0: g.d0, w: g.w + more } }
pub open spec fn g_switched(g: G, d0: Seq<u8>) -> G { G { sw: true, d0: d0, w: g.w } }

// =====================================================================================
// producer half
// =====================================================================================
impl<R: Write> TempFileBufferWriter<R> {

//@extract method bigtools/src/utils/file/tempfilebuffer.rs update "^impl<R: Write \+ Send \+ 'static> TempFileBufferWriter<R>$"
//@ret r
//@sub /fn update\(&mut self\) -> io::Result<\(\)>/ => fn update(&mut self, Tracked(mb): Tracked<&mut MbTok<R>>, Ghost(g): Ghost<G>) -> IoResult<()>
//@sub /self\.real_file\.swap\(/ => self.real_file.swap1(Tracked(mb),  min=3 count=3
//@sub /tempfile::tempfile\(\)/ => VTemp::create() min=1 count=1
//@sub /io::SeekFrom::/ => SeekFrom:: min=1 count=1
//@sub /io::copy\(/ => copy_temp( min=1 count=1
//@sig
    requires
        [[L: pre]]
        old(mb).id() == old(self).real_file.id(),
        proto(old(self).buffer_state, old(mb).held(), g),
    ensures
        [[L: frame]]
        final(self).closed == old(self).closed, final(self).real_file == old(self).real_file,
        final(self).inmemory == old(self).inmemory, final(mb).id() == old(mb).id(),
        [[L: polls_mailbox_at_most_once]]
        final(mb).ops() == old(mb).ops() + (if old(self).buffer_state is Real { 0nat } else { 1nat }),
        [[L: invariant_kept]]
        r is Ok ==> proto(final(self).buffer_state, final(mb).held(), g),
        [[L: mailbox_emptied]]
        r is Ok ==> final(mb).held() is None,
        [[L: started]]
        r is Ok ==> !(final(self).buffer_state is NotStarted),
        [[L: all_staged_bytes_migrated_in_order]]
        r is Ok && g.sw ==> (final(self).buffer_state matches BufferState::Real(d) && d.bytes() =~= g.d0 + g.w),
        [[L: staging_kind]]
        r is Ok && !g.sw && old(self).buffer_state is NotStarted ==>
            (if old(self).inmemory { final(self).buffer_state is InMemory } else { final(self).buffer_state is Temp }),
        r is Ok && !g.sw && !(old(self).buffer_state is NotStarted) ==> final(self).buffer_state == old(self).buffer_state,
//@end

//@extract method bigtools/src/utils/file/tempfilebuffer.rs write "Write for TempFileBufferWriter<R>$"
//@ret r
//@rule R6 min=1
//@sub /fn write\(&mut self, buf: &\[u8\]\) -> io::Result<usize>/ => fn write(&mut self, buf: &[u8], Tracked(mb): Tracked<&mut MbTok<R>>, Ghost(g): Ghost<G>) -> IoResult<usize>
//@sub /self\.update\(\)\?;/ => self.update(Tracked(mb), Ghost(g))?; min=1 count=1
//@sig
    requires
        [[L: pre]]
        old(mb).id() == old(self).real_file.id(),
        proto(old(self).buffer_state, old(mb).held(), g),
    ensures
        [[L: frame]]
        final(self).closed == old(self).closed, final(self).real_file == old(self).real_file,
        final(self).inmemory == old(self).inmemory, final(mb).id() == old(mb).id(),
        [[L: polls_mailbox_at_most_once]]
        final(mb).ops() <= old(mb).ops() + 1,
        [[L: accepted_prefix]]
        r matches Ok(n) ==> n <= buf@.len(),
        [[L: written_grows_by_accepted_prefix_invariant_kept]]
        r matches Ok(n) ==> proto(final(self).buffer_state, final(mb).held(), g_written(g, buf@.subrange(0, n as int))),
        [[L: after_switch_bytes_go_to_destination]]
        r matches Ok(n) ==> final(mb).held() is None && !(final(self).buffer_state is NotStarted)
            && (g.sw ==> final(self).buffer_state is Real),
//@loop 1
            invariant
                [[L: loop/after_update]]
                proto(self.buffer_state, mb.held(), g),
                mb.held() is None,
                !(self.buffer_state is NotStarted),
                g.sw ==> self.buffer_state is Real,
                self.closed == old(self).closed, self.real_file == old(self).real_file,
                self.inmemory == old(self).inmemory, mb.id() == old(mb).id(),
                mb.ops() <= old(mb).ops() + 1,
            decreases
                [[L: loop/termination]]
                0int,
//@end

//@extract method bigtools/src/utils/file/tempfilebuffer.rs flush "Write for TempFileBufferWriter<R>$"
//@ret r
//@sub /fn flush\(&mut self\) -> io::Result<\(\)>/ => fn flush(&mut self) -> IoResult<()>
//@sig
    ensures
        [[L: frame]]
        final(self).closed == old(self).closed, final(self).real_file == old(self).real_file,
        final(self).inmemory == old(self).inmemory,
        [[L: contents_unchanged]]
        same_contents(old(self).buffer_state, final(self).buffer_state),
//@end

//@extract method bigtools/src/utils/file/tempfilebuffer.rs drop "^impl<R> Drop for TempFileBufferWriter<R>$"
//@presub /let &\(ref lock, ref cvar\) = &\*self\.closed;\s*let mut closed = lock\.lock\(\)\.unwrap\(\);/ => let closed = self.closed.lock(Tracked(cl)); min=1 count=1
//@sub /fn drop\(&mut self\)/ => fn drop(&mut self, Tracked(cl): Tracked<&mut ClTok<R>>)
//@sub /std::mem::replace\(/ => mem_replace( min=1 count=1
//@sub /\n\s*cvar\.notify_one\(\);/ => "" min=1 count=1
//@sub /\n\s*drop\(closed\);/ => "" min=1 count=1
//@sig
    requires
        [[L: pre]]
        old(cl).id() == old(self).closed.id(),
    ensures
        [[L: frame]]
        final(self).closed == old(self).closed, final(self).real_file == old(self).real_file,
        final(self).inmemory == old(self).inmemory, final(cl).id() == old(cl).id(),
        [[L: publishes_final_state_nothing_lost]]
        final(cl).val() == Some(old(self).buffer_state),
        [[L: publishes_once]]
        final(cl).locks() == old(cl).locks() + 1,
        [[L: writer_left_empty]]
        final(self).buffer_state is NotStarted,
//@end

} // impl TempFileBufferWriter

// =====================================================================================
// consumer half
// =====================================================================================
impl<R: Write> TempFileBuffer<R> {

//@extract method bigtools/src/utils/file/tempfilebuffer.rs switch "^impl<R: Write \+ Send \+ 'static> TempFileBuffer<R>$"
//@rule R6 min=1
//@sub /fn switch\(&mut self, new_file: R\)/ => fn switch(&mut self, new_file: R, Tracked(mb): Tracked<&mut MbTok<R>>, Ghost(st): Ghost<BufferState<R>>, Ghost(g): Ghost<G>)
//@sub /self\.real_file\.swap\(/ => self.real_file.swap1(Tracked(mb),  min=1 count=1
//@sig
    requires
        [[L: pre_invariant_and_switch_called_at_most_once]]
        old(mb).id() == old(self).real_file.id(),
        proto(st, old(mb).held(), g),
        !g.sw,
    ensures
        [[L: frame]]
        *final(self) == *old(self), final(mb).id() == old(mb).id(),
        [[L: one_mailbox_access]]
        final(mb).ops() == old(mb).ops() + 1,
        [[L: destination_handed_over_untouched]]
        final(mb).held() == Some(new_file),
        [[L: invariant_kept_now_switched]]
        proto(st, final(mb).held(), g_switched(g, new_file.bytes())),
//@end

//@extract method bigtools/src/utils/file/tempfilebuffer.rs is_real_file_ready "^impl<R: Write \+ Send \+ 'static> TempFileBuffer<R>$"
//@ret r
//@presub /let &\(ref lock, _\) = &\*self\.closed;\s*let closed = lock\.lock\(\)\.unwrap\(\);/ => let closed = self.closed.lock(Tracked(cl)); min=1 count=1
//@sub /fn is_real_file_ready\(&self\)/ => fn is_real_file_ready(&self, Tracked(cl): Tracked<&mut ClTok<R>>)
//@sig
    requires
        [[L: pre]]
        old(cl).id() == self.closed.id(),
    ensures
        [[L: true_iff_producer_has_published]]
        r == (old(cl).val() is Some),
        [[L: frame]]
        final(cl).val() == old(cl).val(), final(cl).id() == old(cl).id(), final(cl).locks() == old(cl).locks() + 1,
//@end

//@extract method bigtools/src/utils/file/tempfilebuffer.rs len "^impl<R: Write \+ Send \+ 'static> TempFileBuffer<R>$"
//@ret r
//@rule R6 min=1
//@presub /let &\(ref lock, ref cvar\) = &\*self\.closed;\s*let mut closed = lock\.lock\(\)\.unwrap\(\);\s*while closed\.is_none\(\) \{\s*closed = cvar\.wait\(closed\)\.unwrap\(\);\s*\}/ => let mut closed = self.closed.wait_closed(Tracked(cl)); min=1 count=1
//@sub /fn len\(&self\) -> io::Result<u64>/ => fn len(&self, Tracked(cl): Tracked<&mut ClTok<R>>, Ghost(w): Ghost<Seq<u8>>) -> IoResult<u64>
//@sub /io::SeekFrom::/ => SeekFrom:: min=1 count=1
//@sig
    requires
        [[L: pre_published_and_not_switched]]
        old(cl).id() == self.closed.id(),
        old(cl).val() matches Some(st) && !(st is Real) && staging_ok(st, w),
    ensures
        [[L: reported_length_is_bytes_written]]
        r matches Ok(n) ==> n as int == w.len(),
        [[L: state_kept]]
        r is Ok ==> (final(cl).val() matches Some(st2) && same_contents(old(cl).val().unwrap(), st2)),
        [[L: frame]]
        final(cl).id() == old(cl).id(), final(cl).locks() == old(cl).locks() + 1,
//@end

//@extract method bigtools/src/utils/file/tempfilebuffer.rs await_real_file "^impl<R: Write \+ Send \+ 'static> TempFileBuffer<R>$"
//@ret d
//@rule R6 min=2
//@presub /let &\(ref lock, ref cvar\) = &\*self\.closed;\s*let mut closed = lock\.lock\(\)\.unwrap\(\);\s*while closed\.is_none\(\) \{\s*closed = cvar\.wait\(closed\)\.unwrap\(\);\s*\}/ => let mut closed = self.closed.wait_closed(Tracked(cl)); min=1 count=1
//@sub /fn await_real_file\(self\)/ => fn await_real_file(self, Tracked(mb): Tracked<&mut MbTok<R>>, Tracked(cl): Tracked<&mut ClTok<R>>, Ghost(g): Ghost<G>)
//@sub /self\.real_file\.swap\(/ => self.real_file.swap1(Tracked(mb),  min=1 count=1
//@sub /io::SeekFrom::/ => SeekFrom:: min=1 count=1
//@sub /io::copy\(/ => copy_temp( min=1 count=1
//@sub /(real_file\.write_all\(&data\)|closed_file\.seek\(SeekFrom::Start\(0\)\)|copy_temp\(&mut closed_file, &mut real_file\))\.unwrap\(\);/ => io_ok(\1); min=3 count=3
//@sig
    requires
        [[L: pre_published_invariant_and_switched]]
        old(mb).id() == self.real_file.id(),
        old(cl).id() == self.closed.id(),
        old(cl).val() matches Some(st) && proto(st, old(mb).held(), g),
        g.sw,
    ensures
        [[L: destination_holds_d0_then_all_written_bytes_once_in_order]]
        d.bytes() =~= g.d0 + g.w,
        [[L: cells_emptied]]
        final(mb).held() is None, final(cl).val() is None,
        [[L: frame]]
        final(mb).id() == old(mb).id(), final(cl).id() == old(cl).id(),
        final(mb).ops() == old(mb).ops() + 1, final(cl).locks() == old(cl).locks() + 1,
//@end

//@extract method bigtools/src/utils/file/tempfilebuffer.rs expect_closed_write "^impl<R: Write \+ Send \+ 'static> TempFileBuffer<R>$"
//@ret r
//@rule R6 min=2
//@rule R14 min=3
//@presub /let &\(ref lock, ref cvar\) = &\*self\.closed;\s*let mut closed = lock\.lock\(\)\.unwrap\(\);\s*while closed\.is_none\(\) \{\s*closed = cvar\.wait\(closed\)\.unwrap\(\);\s*\}/ => let mut closed = self.closed.wait_closed(Tracked(cl)); min=1 count=1
//@sub /mut real_: &mut O\) -> io::Result<\(\)>/ => mut real_: &mut O, Tracked(mb): Tracked<&mut MbTok<R>>, Tracked(cl): Tracked<&mut ClTok<R>>, Ghost(g): Ghost<G>) -> IoResult<()>
//@sub /self\.real_file\.swap\(/ => self.real_file.swap1(Tracked(mb),  min=1 count=1
//@sub /io::SeekFrom::/ => SeekFrom:: min=1 count=1
//@sub /io::copy\(&mut closed_file, &mut real_\)/ => copy_temp(&mut closed_file, real_) min=1 count=1
//@sig
    requires
        [[L: pre_published_invariant_and_never_switched]]
        old(mb).id() == self.real_file.id(),
        old(cl).id() == self.closed.id(),
        old(cl).val() matches Some(st) && proto(st, old(mb).held(), g),
        !g.sw,
    ensures
        [[L: out_gets_exactly_the_written_bytes_once_in_order]]
        r is Ok ==> final(real_).bytes() =~= old(real_).bytes() + g.w,
        [[L: cells_emptied]]
        final(mb).held() is None, final(cl).val() is None,
        [[L: frame]]
        final(mb).id() == old(mb).id(), final(cl).id() == old(cl).id(),
        final(mb).ops() == old(mb).ops() + 1, final(cl).locks() == old(cl).locks() + 1,
//@end

} // impl TempFileBuffer

} // verus!
fn main() {}
