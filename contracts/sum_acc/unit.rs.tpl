//@unit sum_acc
//@serves C06
//@backend verus
// Cross-chromosome accumulation of the total summary: the `advance` closures of
// bbiwrite::write_vals and bbiwrite::write_vals_no_zoom (R10 closure lift).
// C06: "... across all chromosomes": the file summary is the field-wise combination of the
// per-chromosome summaries: counts add exactly, sums add, min/max combine; the first
// chromosome initialises.
use vstd::prelude::*;
use vstd::std_specs::ops::*;
use vstd::std_specs::convert::FromSpec;
verus! {
//@include ../_shared/floats.rs

//@extract struct bigtools/src/bbi.rs Summary
//@rule R8
//@end

pub struct BBIDataProcessoredData(pub Summary);

/// the combination the property asks for (floats shape-pinned over uninterpreted operators)
pub open spec fn combine(a: Summary, b: Summary) -> Summary {
    Summary {
        total_items: (a.total_items + b.total_items) as u64,
        bases_covered: (a.bases_covered + b.bases_covered) as u64,
        // C06: statistics over the covered bases: a chromosome that covers nothing has no min/max to contribute,
        // and the first chromosome that covers something provides them unchanged
        min_val: if b.bases_covered > 0 { if a.bases_covered == 0 { b.min_val } else { fmin(a.min_val, b.min_val) } } else { a.min_val },
        max_val: if b.bases_covered > 0 { if a.bases_covered == 0 { b.max_val } else { fmax(a.max_val, b.max_val) } } else { a.max_val },
        sum: a.sum.add_spec(b.sum),
        sum_squares: a.sum_squares.add_spec(b.sum_squares),
    }
}

//@extract closure bigtools/src/bbi/bbiwrite.rs write_vals advance
//@rule R16
//@header fn advance_write_vals(summary: &mut Option<Summary>, data: BBIDataProcessoredData)
//@rule R5 min=4
//@presub /let data = p\.destroy\(\);\n/ => "" min=1
//@sub /match &mut summary \{/ => match summary {
//@sub /None => summary = Some\(chrom_summary\),/ => None => { *summary = Some(chrom_summary); }
//@sig
    requires
        [[L: write_vals/pre_counts_fit]]
        old(summary).is_some() ==> old(summary).unwrap().total_items + data.0.total_items <= u64::MAX
            && old(summary).unwrap().bases_covered + data.0.bases_covered <= u64::MAX,
    ensures
        [[L: write_vals/first_chromosome_initialises]]
        old(summary).is_none() ==> *final(summary) == Some(data.0),
        [[L: write_vals/later_chromosomes_combine_fieldwise]]
        old(summary).is_some() ==> *final(summary) == Some(combine(old(summary).unwrap(), data.0)),
//@open
    proof { float_ax::float_det(); }
//@end

//@extract closure bigtools/src/bbi/bbiwrite.rs write_vals_no_zoom advance
//@rule R16
//@header fn advance_write_vals_no_zoom(summary: &mut Option<Summary>, chrom_summary: Summary)
//@rule R5 min=4
//@presub /let data = p\.destroy\(\);\s*let NoZoomsInternalProcessedData\(chrom_summary, zoom_counts\) = data;\n/ => "" min=1
//@presub /let zoom_count_map = BTreeMap::from_iter\(zoom_counts\.into_iter\(\)\);\s*for zoom_count in total_zoom_counts\.iter_mut\(\) \{\s*let chrom_zoom_count = zoom_count_map\.get\(&zoom_count\.0\)\.copied\(\)\.unwrap_or\(1\);\s*\*zoom_count\.1 \+= chrom_zoom_count;\s*\}/ => "" min=1
//@sub /match &mut summary \{/ => match summary {
//@sub /None => summary = Some\(chrom_summary\),/ => None => { *summary = Some(chrom_summary); }
//@sig
    requires
        [[L: no_zoom/pre_counts_fit]]
        old(summary).is_some() ==> old(summary).unwrap().total_items + chrom_summary.total_items <= u64::MAX
            && old(summary).unwrap().bases_covered + chrom_summary.bases_covered <= u64::MAX,
    ensures
        [[L: no_zoom/first_chromosome_initialises]]
        old(summary).is_none() ==> *final(summary) == Some(chrom_summary),
        [[L: no_zoom/later_chromosomes_combine_fieldwise]]
        old(summary).is_some() ==> *final(summary) == Some(combine(old(summary).unwrap(), chrom_summary)),
//@open
    proof { float_ax::float_det(); }
//@end

} // verus!
fn main() {}
