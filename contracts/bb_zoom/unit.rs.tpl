//@unit bb_zoom
//@serves C08
//@backend verus
// bigBed zoom levels: bigbedwrite::process_val_zoom, body of the per-level `for` (R9 outline).
// Two layers, proved in place with nested loop invariants:
//  (i)  the coverage sweep (same as unit bb_sweep): pending depth segments stay exact, the flushed
//       segments leave in order, contiguous, each with its exact depth;
//  (ii) for every flushed segment the bigWig tiling loop (same vocabulary as unit bw_zoom) with
//       history := flushed depth segments: records ordered, disjoint, 0 < len <= size, one chromosome,
//       bases_covered == cov(history, start, end), sum of bases_covered == total flushed length,
//       batches of 1..=items_per_slot, nothing pending at the end of the chromosome, termination.
use vstd::prelude::*;
use vstd::std_specs::ops::*;
use vstd::std_specs::convert::FromSpec;
verus! {
//@include ../_shared/floats.rs

//@extract struct bigtools/src/bbi.rs Summary
//@rule R8
//@end
//@extract struct bigtools/src/bbi.rs ZoomRecord
//@rule R8
//@end
//@extract struct bigtools/src/bbi.rs Value
//@rule R8
//@end
//@extract enum bigtools/src/bbi/bbiwrite.rs InputSortType
//@rule R8
//@end
//@extract struct bigtools/src/bbi/bbiwrite.rs BBIWriteOptions
//@rule R8
//@sub /#\[derive\(Clone\)\]\n/ => ""
//@end
//@include ../_shared/vlist.rs
//@include ../bb_sweep/sweep_spec.rs

// R2 shim (same as bw_zoom): the spawn(encode_zoom_section(..)) + channel send hand-off.  Assumed:
// the batch is appended, in order, to the level's record stream.  `requires` = the callee's own
// precondition (encode_zoom_section indexes items[0]).
#[verifier::external_body]
pub struct ZoomSink { _p: u8 }
impl ZoomSink {
    pub uninterp spec fn log(&self) -> Seq<ZoomRecord>;
    pub uninterp spec fn batches(&self) -> Seq<int>;
    #[verifier::external_body]
    fn emit_encode_zoom_section(&mut self, compress: bool, items: Vec<ZoomRecord>)
        requires
            items@.len() > 0,
        ensures
            final(self).log() == old(self).log() + items@,
            final(self).batches() == old(self).batches().push(items@.len() as int),
    { unimplemented!() }
}
fn take_vec(v: &mut Vec<ZoomRecord>) -> (r: Vec<ZoomRecord>)
    ensures r@ == old(v)@, final(v)@.len() == 0
{ let mut n = Vec::new(); std::mem::swap(v, &mut n); n }
fn max_u32(a: u32, b: u32) -> (r: u32) ensures r == if a >= b { a } else { b } { if a >= b { a } else { b } }
fn min_u32(a: u32, b: u32) -> (r: u32) ensures r == if a <= b { a } else { b } { if a <= b { a } else { b } }

//@extract struct bigtools/src/bbi/bigbedwrite.rs ZoomItem
//@rule R8
//@sub /BBIDataProcessoringInputSectionChannel/ => ZoomSink
//@sub /IndexList<Value>/ => VList
//@end

// verified stand-ins for closures Verus cannot take (R11 substitutions below)
fn first_starts_before(l: &VList, x: u32) -> (r: bool)
    ensures r == (l@.len() > 0 && l@[0].start < x),
{ match l.get_first() { Some(f) => f.start < x, None => false } }
/// `.map(|(mut zoom_item, total_items)| { zoom_item.summary.total_items = total_items; zoom_item }).unwrap()`
fn close_live(x: Option<(ZoomRecord, u64)>) -> (r: ZoomRecord)
    requires x.is_some(),
    ensures r == closed_rec(x.unwrap().0, x.unwrap().1),
{
    match x { Some((mut zoom_item, total_items)) => { zoom_item.summary.total_items = total_items; zoom_item } None => unreached() }
}

//@include tiling_spec.rs

// ---------------- link between the layers ----------------
/// the flushed piece as the value the tiling loop sees
spec fn piece_value(pc: Piece) -> Value { Value { start: pc.s as u32, end: pc.e as u32, value: f32_of_nat(pc.d) } }
spec fn vals_of(ps: Seq<Piece>) -> Seq<Value> { ps.map_values(|pc: Piece| piece_value(pc)) }
spec fn flushed_to(ps: Seq<Piece>, a: int) -> int { if ps.len() > 0 { ps.last().e } else { a } }
proof fn lemma_first_end_le_hi(l: Seq<Value>, d: Seq<nat>, lo: int, n: nat)
    requires shape_ok(l, d, lo, n), l.len() > 0,
    ensures l[0].end <= hi_of(l, lo), lo <= l[0].end,
{
    let _ = l[0];
    if l.len() > 1 { lemma_sorted(l, d, lo, n, 0, l.len() - 1); let _ = l[l.len() - 1]; }
}

/// all flushed pieces of this chromosome so far: exact depth, left of m
spec fn pieces_final(hps: Seq<Piece>, ents: Seq<(u32, u32)>, m: int) -> bool {
    forall|q: int| 0 <= q < hps.len() ==> piece_depth(#[trigger] hps[q], ents) && hps[q].e <= m
}
/// entries are start-sorted: a new entry starting at or right of m cannot change the depth of what was flushed
proof fn lemma_old_pieces_stay_exact(hps: Seq<Piece>, ents: Seq<(u32, u32)>, e: (u32, u32), m: int)
    requires pieces_final(hps, ents, m), m <= e.0,
    ensures pieces_final(hps, ents.push(e), m),
{
    assert forall|q: int| 0 <= q < hps.len() implies piece_depth(#[trigger] hps[q], ents.push(e)) && hps[q].e <= m by {
        assert(piece_depth(hps[q], ents));
        assert forall|p: int| hps[q].s <= p < hps[q].e implies #[trigger] depth(ents.push(e), p) == hps[q].d by {
            lemma_depth_push(ents, e, p);
            assert(depth(ents, p) == hps[q].d);
        }
    }
}
proof fn lemma_pieces_final_push(hps: Seq<Piece>, ents: Seq<(u32, u32)>, m: int, pc: Piece, m2: int)
    requires pieces_final(hps, ents, m), piece_depth(pc, ents), m <= m2, pc.e <= m2,
    ensures pieces_final(hps.push(pc), ents, m2),
{
    assert forall|q: int| 0 <= q < hps.push(pc).len() implies piece_depth(#[trigger] hps.push(pc)[q], ents) && hps.push(pc)[q].e <= m2 by {
        if q < hps.len() { assert(hps.push(pc)[q] == hps[q]); }
    }
}
proof fn lemma_pieces_final_mono(hps: Seq<Piece>, ents: Seq<(u32, u32)>, m: int, m2: int)
    requires pieces_final(hps, ents, m), m <= m2,
    ensures pieces_final(hps, ents, m2),
{
    assert forall|q: int| 0 <= q < hps.len() implies piece_depth(#[trigger] hps[q], ents) && hps[q].e <= m2 by {
        assert(piece_depth(hps[q], ents) && hps[q].e <= m);
    }
}
/// the bound up to which the pending coverage is final: the next entry's start; after the LAST entry of the chromosome
/// everything (ends are u32)
spec fn zbound_of(next_val: Option<u32>) -> u32 { if next_val.is_some() { next_val.unwrap() } else { u32::MAX } }
proof fn lemma_tot_push(h: Seq<Value>, v: Value)
    ensures tot(h.push(v)) == tot(h) + (v.end - v.start),
{
    assert(h.push(v).drop_last() =~= h);
}

//@extract loopbody bigtools/src/bbi/bigbedwrite.rs process_val_zoom 1
//@rule R16
//@header fn process_val_zoom__level(zoom_item: &mut ZoomItem, options: &BBIWriteOptions, item_start: u32, item_end: u32, next_val: Option<u32>, chrom_id: u32, Ghost(ents): Ghost<Seq<(u32, u32)>>, Ghost(d0): Ghost<Seq<nat>>, Ghost(hps): Ghost<Seq<Piece>>, Ghost(hist): Ghost<Seq<Value>>, Ghost(prev_end): Ghost<int>) -> (out: Ghost<(Seq<nat>, Seq<Piece>)>)
//@rule R2 min=2
//@rule R1
//@rule R5 min=5
//@rule R6 min=3
//@rule R12 min=3
//@sub /let overlap = &mut zoom_item\.overlap;/ => ""
//@sub /(?<![\w.`])overlap\b(?!`)/ => zoom_item.overlap min=10
//@sub /zoom_item\.overlap\s*\.get_last\(\)\s*\.map\(\|o\| o\.end (==|!=|>=|<=|>|<) item_start\)\s*\.unwrap_or\((true|false)\)/ => OPT_OR_\2(zoom_item.overlap@.len() > 0, zoom_item.overlap@.last().end \1 item_start)
//@sub /OPT_OR_true\(([^,]*), ([^()]*(?:\(\))?[^()]*)\)/ => (\1 ==> \2) min=0
//@sub /OPT_OR_false\(([^,]*), ([^()]*(?:\(\))?[^()]*)\)/ => (\1 && \2) min=0
//@sub /zoom_item\.overlap\s*\.get_first\(\)\s*\.map\(\|f\| f\.start (==|!=|>=|<=|>|<) next_start\)\s*\.unwrap_or\((true|false)\)/ => FIRST_START{\1}{\2}(&zoom_item.overlap, next_start)
//@sub /FIRST_START\{<\}\{false\}\(&zoom_item\.overlap, next_start\)/ => first_starts_before(&zoom_item.overlap, next_start) min=0
//@sub /FIRST_START\{([^}]*)\}\{(\w+)\}\(&zoom_item\.overlap, next_start\)/ => (match zoom_item.overlap.get_first() { Some(f) => f.start \1 next_start, None => \2 }) min=0
//@sub /next_val\.map\(\|v\| v\.start\)\.unwrap_or\(/ => next_val.unwrap_or( min=0
//@sub /next_val\.map_or\(\s*([\w.:]+(?:\(\))?)\s*,\s*\|v\| v\.start\s*\)/ => next_val.unwrap_or(\1) min=0
//@sub /\bu32::max_value\(\)/ => u32::MAX min=0
//@sub /zoom_item\s*\.live_info\s*\.take\(\)\s*\.map\(\|\(mut zoom_item, total_items\)\| \{\s*zoom_item\.summary\.total_items = total_items;\s*zoom_item\s*\}\)\s*\.unwrap\(\),\s*\);/ => close_live(zoom_item.live_info.take()));
//@sub /!zoom_item\.records\.is_empty\(\)/ => (zoom_item.records.len() != 0) min=0
//@sig
    requires
        [[L: pre]]
        item_start <= item_end, item_start < u32::MAX,
        next_val.is_some() ==> item_start <= next_val.unwrap(),
        ents.len() < 0xff_ffff,
        options.items_per_slot >= 1,
        old(zoom_item).records@.len() < options.items_per_slot,
        hist.len() + old(zoom_item).overlap@.len() < 0xffff_ffff_ffff,
        imax(hi_of(old(zoom_item).overlap@, item_start as int), item_end as int) + old(zoom_item).size <= u32::MAX,
        segs_ok(old(zoom_item).overlap@, d0, item_start as int, ents),
        hist_ok(hist), before(hist, prev_end), prev_end <= item_start,
        hist == vals_of(hps), pieces_final(hps, ents, prev_end),
        tot(hist) == cnt(ents, 0, item_start as int),
        zoom_ok(*old(zoom_item), hist, prev_end, prev_end, chrom_id, options.items_per_slot as int, hist.len() as int),
    ensures
        [[L: sweep_invariant]]
        segs_ok(final(zoom_item).overlap@, out@.0, zbound_of(next_val) as int, ents.push((item_start, item_end))),
        [[L: pending_continues_flushed]]
        segs_ok(final(zoom_item).overlap@, out@.0, flushed_to(out@.1, item_start as int), ents.push((item_start, item_end))),
        item_start <= flushed_to(out@.1, item_start as int) <= zbound_of(next_val),
        final(zoom_item).overlap@.len() > 0 ==> flushed_to(out@.1, item_start as int) == zbound_of(next_val),
        [[L: flushed_segments_tile_and_have_exact_depth]]
        pieces_ok(out@.1, item_start as int, flushed_to(out@.1, item_start as int), ents.push((item_start, item_end))),
        [[L: flushed_history_ordered]]
        hist_ok((hist + vals_of(out@.1))) && before((hist + vals_of(out@.1)), flushed_to(out@.1, item_start as int)),
        [[L: history_segments_have_final_depth]]
        (hist + vals_of(out@.1)) == vals_of(hps + out@.1) && pieces_final(hps + out@.1, ents.push((item_start, item_end)), flushed_to(out@.1, item_start as int)),
        [[L: history_total_is_number_of_covered_bases]]
        tot((hist + vals_of(out@.1))) == cnt(ents.push((item_start, item_end)), 0, zbound_of(next_val) as int),
        [[L: tiling_invariant]]
        zoom_ok(*final(zoom_item), (hist + vals_of(out@.1)), flushed_to(out@.1, item_start as int), flushed_to(out@.1, item_start as int), chrom_id, options.items_per_slot as int, (hist + vals_of(out@.1)).len() as int),
        [[L: size_unchanged]]
        final(zoom_item).size == old(zoom_item).size,
        [[L: batch_not_full_at_exit]]
        final(zoom_item).records@.len() < options.items_per_slot,
        [[L: chrom_end_flushes_everything]]
        next_val.is_none() ==> final(zoom_item).live_info.is_none() && final(zoom_item).records@.len() == 0 && final(zoom_item).overlap@.len() == 0,
        [[L: stream_only_grows]]
        old(zoom_item).channel.log().is_prefix_of(final(zoom_item).channel.log()),
        [[L: tail_reaches_max_end]]
        final(zoom_item).overlap@.len() > 0 ==> final(zoom_item).overlap@.last().end == imax(hi_of(old(zoom_item).overlap@, item_start as int), item_end as int),
        final(zoom_item).overlap@.len() == 0 ==> imax(hi_of(old(zoom_item).overlap@, item_start as int), item_end as int) <= zbound_of(next_val),
//@open
        let ghost ents2 = ents.push((item_start, item_end));
        let ghost hi0 = hi_of(zoom_item.overlap@, item_start as int);
        let ghost ips = options.items_per_slot as int;
        let ghost log0 = zoom_item.channel.log();
        let ghost mut d = d0;
        let ghost mut k: int = 0;
        proof { float_ax::float_det(); }
//@loop 1
            invariant_except_break
                [[L: loop1/increment_invariant]]
                sweep_inv(zoom_item.overlap@, d, k, item_start, item_end, ents),
                hi_of(zoom_item.overlap@, item_start as int) == hi0,
                [[L: loop1/index_is_position_k]]
                index.some() ==> zoom_item.overlap.has(index) && zoom_item.overlap.pos(index) == k && k < zoom_item.overlap@.len(),
                !index.some() ==> k == zoom_item.overlap@.len(),
                zoom_item.overlap@.len() == old(zoom_item).overlap@.len(),
            invariant
                [[L: loop1/frame]]
                item_start <= item_end, ents.len() < 0xff_ffff,
                zoom_item.size == old(zoom_item).size, zoom_item.live_info == old(zoom_item).live_info,
                zoom_item.records == old(zoom_item).records, zoom_item.channel == old(zoom_item).channel,
            ensures
                [[L: loop1/exit]]
                zoom_item.overlap@.len() <= old(zoom_item).overlap@.len() + 1,
                sweep_done(zoom_item.overlap@, d, k, item_start, item_end, ents),
                hi_of(zoom_item.overlap@, item_start as int) == hi0,
            decreases
                [[L: loop1/termination]]
                zoom_item.overlap@.len() - k,
//@at /match zoom_item\.overlap\.get_mut\(index\) \{/ before
            proof { float_ax::float_det(); }
            let ghost l_in = zoom_item.overlap@;
//@at /^\s*break;\s*$/ nth=1 before
                        proof { [[L: loop1/split_keeps_depths_exact]]
                            let nv = Value { start: l_in[k].start, end: item_end, value: l_in[k].value.add_spec(1.0f32) };
                            let tl = Value { start: item_end, end: l_in[k].end, value: nv.value.sub_spec(1.0f32) };
                            assert(zoom_item.overlap@ == l_in.update(k, nv).insert(k + 1, tl));
                            lemma_sweep_split(l_in, d, k, item_start, item_end, ents, nv, tl);
                            d = d.update(k, d[k] + 1).insert(k + 1, d[k]);
                            k = k + 1;
                        }
//@at /index = zoom_item\.overlap\.next_index\(index\);/ after
                    proof { [[L: loop1/increment_keeps_depths_exact]]
                        let nv = Value { start: l_in[k].start, end: l_in[k].end, value: l_in[k].value.add_spec(1.0f32) };
                        assert(zoom_item.overlap@ == l_in.update(k, nv));
                        lemma_sweep_nosplit(l_in, d, k, item_start, item_end, ents, nv);
                        d = d.update(k, d[k] + 1);
                        k = k + 1;
                    }
//@at /zoom_item\.overlap@\.last\(\)\.end >= item_start\)\);/ before
        proof { [[L: after_increment_exact_on_old_span]]
            lemma_sweep_finish(zoom_item.overlap@, d, k, item_start, item_end, ents);
            if zoom_item.overlap@.len() > 0 { let _ = zoom_item.overlap@[zoom_item.overlap@.len() - 1]; }
        }
        let ghost l_mid = zoom_item.overlap@;
//@at /let next_start = next_val\.unwrap_or/ before
        proof { [[L: tail_extends_to_item_end]]
            if l_mid.len() > 0 && l_mid.last().end >= item_end {
                lemma_tail_keep(l_mid, d, item_start, item_end, ents);
            } else {
                let v = Value { start: hi_of(l_mid, item_start as int) as u32, end: item_end, value: 1.0f32 };
                lemma_tail_push(l_mid, d, item_start, item_end, ents, v);
                assert(zoom_item.overlap@ == l_mid.push(v));
                d = d.push(1nat);
            }
            assert(segs_ok(zoom_item.overlap@, d, item_start as int, ents2));
            assert(hi_of(zoom_item.overlap@, item_start as int) == imax(hi0, item_end as int));
            assert(zoom_item.overlap@.len() > 0);
        }
        let ghost hi1 = imax(hi0, item_end as int);
        let ghost len1 = zoom_item.overlap@.len();
//@at /let next_start = next_val\.unwrap_or/ after
        let ghost mut ps: Seq<Piece> = Seq::empty();
        let ghost mut hcur: Seq<Value> = hist;
        let ghost mut lo: int = item_start as int;
        proof { [[L: flush/entry]]
            lemma_start_value(closed_of(*zoom_item), live_of(*zoom_item), hist, prev_end, item_start as int, zoom_item.size as int, chrom_id);
            lemma_before_mono(hist, prev_end, item_start as int);
            assert(hist + vals_of(ps) =~= hist);
            let _ = zoom_item.overlap@[0];
            lemma_old_pieces_stay_exact(hps, ents, (item_start, item_end), prev_end);
            lemma_pieces_final_mono(hps, ents2, prev_end, item_start as int);
            lemma_cnt_push_left(ents, (item_start, item_end), 0, item_start as int);
            assert(hps + ps =~= hps);
        }
//@loop 2
            invariant
                [[L: flush/frame]]
                ents2 == ents.push((item_start, item_end)),
                next_start == (if next_val.is_some() { next_val.unwrap() } else { u32::MAX }),
                hi1 == imax(hi0, item_end as int), hi1 + zoom_item.size <= u32::MAX,
                ips == options.items_per_slot as int, ips >= 1,
                zoom_item.size == old(zoom_item).size,
                log0 == old(zoom_item).channel.log(),
                [[L: flush/position]]
                item_start <= lo <= next_start,
                lo == flushed_to(ps, item_start as int),
                ps.len() == 0 ==> zoom_item.overlap@.len() > 0 && lo == item_start,
                [[L: flush/sweep_invariant]]
                segs_ok(zoom_item.overlap@, d, lo, ents2),
                hi_of(zoom_item.overlap@, lo) == hi1,
                [[L: flush/segments_tile_and_have_exact_depth]]
                pieces_ok(ps, item_start as int, lo, ents2),
                [[L: flush/history_is_flushed_segments]]
                hcur == hist + vals_of(ps),
                hist_ok(hcur), before(hcur, lo),
                hcur.len() + zoom_item.overlap@.len() <= hist.len() + len1 + (if zoom_item.overlap@.len() > 0 && zoom_item.overlap@[0].start < next_start { 0int } else { 1int }),
                hist.len() + len1 < 0xffff_ffff_ffff + 2,
                [[L: flush/history_segments_have_final_depth]]
                hcur == vals_of(hps + ps), pieces_final(hps + ps, ents2, lo),
                [[L: flush/history_total_is_number_of_covered_bases]]
                tot(hcur) == cnt(ents2, 0, lo),
                [[L: flush/tiling_invariant]]
                zoom_ok(*zoom_item, hcur, lo, lo, chrom_id, ips, hcur.len() as int),
                [[L: flush/batch_not_full]]
                zoom_item.records@.len() < ips,
                [[L: flush/stream_only_grows]]
                log0.is_prefix_of(zoom_item.channel.log()),
                [[L: flush/chrom_end_nothing_pending]]
                ps.len() > 0 && next_val.is_none() ==> zoom_item.live_info.is_none() && zoom_item.records@.len() == 0,
            decreases
                [[L: flush/termination]]
                zoom_item.overlap@.len(),
                (if zoom_item.overlap@.len() > 0 && zoom_item.overlap@[0].start < next_start { 1int } else { 0int }),
//@at /let mut removed = zoom_item\.overlap\.remove_first\(\)\.unwrap\(\);/ before
            proof { float_ax::float_det(); }
            let ghost l_in = zoom_item.overlap@;
//@at /^\s*\};\s*$/ after
            let ghost d_first = d[0];
            let ghost lo2: int = if l_in[0].end <= next_start { l_in[0].end as int } else { next_start as int };
            let ghost pc = Piece { s: lo, e: lo2, d: d_first };
            let ghost v = piece_value(pc);
            let ghost ps_in = ps;
            let ghost hc_in = hcur;
            let ghost d_in = d;
            proof { [[L: flush/step_removes_exact_segment]]
                let _ = l_in[0];
                assert(seg_depth(l_in[0], d[0], ents2));
                lemma_first_end_le_hi(l_in, d, lo, ents2.len());
                if l_in[0].end <= next_start {
                    lemma_flush_whole(l_in, d, lo, ents2);
                    d = d.subrange(1, d.len() as int);
                } else {
                    lemma_flush_part(l_in, d, lo, ents2, next_start, removed);
                }
                assert(piece_depth(pc, ents2));
                assert(removed_start == lo && removed_end == lo2);
                assert(v.start == removed_start && v.end == removed_end);
                assert(val == f64::from_spec(v.value)); [[L: flush/segment_value_is_depth]]
                lemma_hist_push(hcur, v);
            }
            let ghost d_out = d;
            let ghost l_out = zoom_item.overlap@;
            let ghost cs = lo;
//@loop 3
                invariant_except_break
                    [[L: loop3/add_start_in_segment]]
                    removed_start <= add_start <= removed_end,
                    [[L: loop3/frame]]
                    hcur == hc_in, ps == ps_in, lo == cs,
                    [[L: loop3/batch_bound]]
                    zoom_item.records@.len() < ips,
                    [[L: loop3/tiling_invariant]]
                    zoom_ok(*zoom_item, hc_in, cs, add_start as int, chrom_id, ips, hc_in.len() as int + (if add_start == removed_end { 1int } else { 0int })),
                invariant
                    [[L: loop3/constants]]
                    cs == removed_start as int, lo2 == removed_end as int, cs <= lo2, ips == options.items_per_slot as int, ips >= 1,
                    v == piece_value(pc), pc == (Piece { s: cs, e: lo2, d: d_first }), v.start == removed_start, v.end == removed_end,
                    val == f64::from_spec(v.value),
                    ends_by(hc_in, cs), hist_ok(hc_in), before(hc_in, cs), hc_in.len() < 0xffff_ffff_ffff + 4,
                    pieces_ok(ps_in, item_start as int, cs, ents2), pc.d >= 1, piece_depth(pc, ents2),
                    hc_in == hist + vals_of(ps_in),
                    hc_in == vals_of(hps + ps_in), pieces_final(hps + ps_in, ents2, cs), tot(hc_in) == cnt(ents2, 0, cs),
                    zoom_item.size == old(zoom_item).size,
                    removed_end as int + zoom_item.size as int <= u32::MAX as int,
                    log0 == old(zoom_item).channel.log(),
                    zoom_item.overlap@ == l_out, d == d_out,
                    [[L: loop3/stream_only_grows]]
                    log0.is_prefix_of(zoom_item.channel.log()),
                ensures
                    [[L: loop3/exit]]
                    add_start == removed_end,
                    zoom_item.records@.len() < ips,
                    lo == lo2, ps == ps_in.push(pc), hcur == hc_in.push(v),
                    hcur == hist + vals_of(ps),
                    hcur == vals_of(hps + ps), pieces_final(hps + ps, ents2, lo), tot(hcur) == cnt(ents2, 0, lo),
                    hist_ok(hcur), before(hcur, lo),
                    pieces_ok(ps, item_start as int, lo, ents2),
                    zoom_ok(*zoom_item, hcur, lo, lo, chrom_id, ips, hcur.len() as int),
                    next_val.is_none() ==> zoom_item.live_info.is_none() && zoom_item.records@.len() == 0,
                decreases
                    [[L: loop3/termination]]
                    (removed_end - add_start) as int,
                    (if zoom_item.live_info.is_some() { 1int } else { 0int }),
//@at /if let Some\(\(mut zoom2, total_items\)\) = zoom_item\.live_info\.take\(\) \{/ before
                        let ghost c_b0 = closed_of(*zoom_item);
                        let ghost lv0 = zoom_item.live_info;
//@at /zoom_item\.records\.push\(zoom2\);/ after
                            proof { [[L: loop3/chrom_end_closes_open_record]]
                                assert(zoom2 == closed_rec(lv0.unwrap().0, lv0.unwrap().1));
                                assert(closed_of(*zoom_item) =~= c_b0.push(zoom2));
                                lemma_close_live(c_b0, lv0.unwrap().0, hc_in, cs, add_start as int, zoom_item.size, chrom_id, hc_in.len() as int + 1);
                                lemma_closed_rec(c_b0, lv0.unwrap().0, lv0.unwrap().1, hc_in, cs, add_start as int, zoom_item.size as int, chrom_id);
                            }
//@at /let items = take_vec\(&mut zoom_item\.records\);/ nth=1 before
                            let ghost c_before = closed_of(*zoom_item);
//@at /zoom_item\.channel\.emit_encode_zoom_section/ nth=1 after
                            proof { [[L: loop3/chrom_end_batch_keeps_stream]]
                                assert(closed_of(*zoom_item) =~= c_before);
                            }
//@at /^\s*break;\s*$/ nth=2 before
                    proof { [[L: loop3/segment_folded_into_history]]
                        lemma_finish_value(closed_of(*zoom_item), live_of(*zoom_item), hc_in, v, zoom_item.size as int, chrom_id);
                        lemma_pieces_push(ps_in, item_start as int, cs, pc, ents2);
                        hcur = hc_in.push(v);
                        ps = ps_in.push(pc);
                        lo = lo2;
                        assert(vals_of(ps) =~= vals_of(ps_in).push(v));
                        assert(hist + vals_of(ps) =~= (hist + vals_of(ps_in)).push(v));
                        lemma_pieces_final_push(hps + ps_in, ents2, cs, pc, lo2);
                        assert((hps + ps_in).push(pc) =~= hps + ps);
                        assert(vals_of(hps + ps) =~= vals_of(hps + ps_in).push(v));
                        lemma_tot_push(hc_in, v);
                        lemma_cnt_step(ents2, cs, lo2);
                    }
//@at /let \(zoom2, _\) = zoom_item\.live_info\.get_or_insert\(\(/ before
                proof { float_ax::float_det(); }
                let ghost c_mid = closed_of(*zoom_item);
                let ghost live0 = live_of(*zoom_item);
//@at /if add_end >=? add_start \{/ before
                let ghost sum0 = zoom2.summary.sum;
                let ghost ssq0 = zoom2.summary.sum_squares;
                let ghost min0 = zoom2.summary.min_val;
                let ghost max0 = zoom2.summary.max_val;
                let ghost items0 = zoom2.summary.total_items;
                proof {
                    assert(live0.is_none() ==> min0 == val && max0 == val); [[L: loop3/shape/fresh_record_min_is_value]]
                }
//@at /zoom2\.summary\.sum_squares = zoom2\.summary\.sum_squares [-+*]/ after
                    proof {
                        // float fields: shape pinned over uninterpreted float operators; weight = added bases, value = segment depth
                        let w = f64::from_spec((add_end - add_start) as u32);
                        let x = f64::from_spec(f32_of_nat(d_first));
                        assert(add_end > add_start); [[L: loop3/shape/update_adds_bases]]
                        assert(zoom2.summary.sum == sum0.add_spec(w.mul_spec(x))); [[L: loop3/shape/sum_weighted_by_added_bases]]
                        assert(zoom2.summary.sum_squares == ssq0.add_spec(w.mul_spec(x).mul_spec(x))); [[L: loop3/shape/sum_squares]]
                        assert(zoom2.summary.min_val == fmin(min0, x)); [[L: loop3/shape/min]]
                        assert(zoom2.summary.max_val == fmax(max0, x)); [[L: loop3/shape/max]]
                        assert(zoom2.summary.total_items == items0 + 1); [[L: loop3/shape/items]]
                    }
//@at /if add_end == next_end \{/ before
                let ghost l1 = live_of(*zoom_item).unwrap();
                let ghost n1 = zoom_item.live_info.unwrap().1;
                proof { [[L: loop3/step_matches_tiling_relation]]
                    assert(closed_of(*zoom_item) =~= c_mid);
                    lemma_step(c_mid, live0, l1, hc_in, cs, add_start as int, add_end as int, removed_end as int, zoom_item.size, chrom_id, hc_in.len() as int);
                }
//@at /close_live\(zoom_item\.live_info\.take\(\)\)\);/ after
                    proof { [[L: loop3/full_record_closed]]
                        assert(closed_of(*zoom_item) =~= c_mid.push(closed_rec(l1, n1)));
                        lemma_closed_rec(c_mid, l1, n1, hc_in, cs, imax(add_end as int, cs), zoom_item.size as int, chrom_id);
                    }
//@at /let items = take_vec\(&mut zoom_item\.records\);/ nth=2 before
                    let ghost c_before2 = closed_of(*zoom_item);
//@at /zoom_item\.channel\.emit_encode_zoom_section/ nth=2 after
                    proof { [[L: loop3/full_batch_keeps_stream]]
                        assert(closed_of(*zoom_item) =~= c_before2);
                    }
//@close
        proof { [[L: exit]]
            if zoom_item.overlap@.len() > 0 { let _ = zoom_item.overlap@[0]; } else { lemma_cnt_zero_ext(ents2, lo, next_start as int); }
        }
        Ghost((d, ps))
//@end

} // verus!
fn main() {}
