// bbiwrite::calculate_offsets, write_tree, write_rtreeindex: the writer of the on-disk R-tree
// (cirTree) index, level-order layout.  C05/C09: the bytes appended are the published 48-byte cirTree
// header followed by the nodes of level `levels`, ..., level 0, every node in the published node
// layout, and EVERY CHILD POINTER EQUALS THE ABSOLUTE FILE POSITION OF THE CHILD'S NODE HEADER --
// for every number of levels, every fan-out <= 65535, partly filled last nodes on every level.
// The code computes pointers as `childnode_offset + idx * full_node_size`; the format spec (spec.rs)
// computes them from the REAL sizes of the nodes that precede the child.  They agree because of
// the fullness clause of `wf` (every node that is not the last of its level has exactly
// block_size children) -- an explicit precondition here; it is what get_rtreeindex's chunking
// produces, but get_rtreeindex is NOT verified by this unit.
// Files: spec.rs (sizes, wf, format spec), lemmas.rs (fullness => sizes, lengths), stored.rs (the image
// read back by position), decode.rs (the image read back by an independent little-endian reader that
// follows the stored pointers) -- the last is the top-level statement of write_rtreeindex.
use vstd::prelude::*;
use vstd::std_specs::convert::FromSpec;
verus! {
// ---- shared byte-level prelude ---------------------------------------------
// Format vocabulary written from the published BBI layout (Kent et al. 2010),
// as arithmetic on byte values - not as calls to from_le_bytes/to_le_bytes.
/// k-th base-256 digit of x (opaque: the div/mod arithmetic is only unfolded inside the codec lemmas)
#[verifier::opaque]
pub open spec fn byte_of(x: int, k: int) -> u8 {
    if k == 0 { (x % 256) as u8 } else if k == 1 { (x / 256 % 256) as u8 } else if k == 2 { (x / 65536 % 256) as u8 }
    else if k == 3 { (x / 16777216 % 256) as u8 } else if k == 4 { (x / 4294967296 % 256) as u8 }
    else if k == 5 { (x / 1099511627776 % 256) as u8 } else if k == 6 { (x / 281474976710656 % 256) as u8 }
    else { (x / 72057594037927936 % 256) as u8 }
}
pub open spec fn le16(x: u16) -> Seq<u8> { seq![byte_of(x as int, 0), byte_of(x as int, 1)] }
pub open spec fn le32(x: u32) -> Seq<u8> { seq![byte_of(x as int, 0), byte_of(x as int, 1), byte_of(x as int, 2), byte_of(x as int, 3)] }
pub open spec fn le64(x: u64) -> Seq<u8> {
    seq![byte_of(x as int, 0), byte_of(x as int, 1), byte_of(x as int, 2), byte_of(x as int, 3),
         byte_of(x as int, 4), byte_of(x as int, 5), byte_of(x as int, 6), byte_of(x as int, 7)]
}
pub open spec fn be16(x: u16) -> Seq<u8> { seq![byte_of(x as int, 1), byte_of(x as int, 0)] }
pub open spec fn be32(x: u32) -> Seq<u8> { seq![byte_of(x as int, 3), byte_of(x as int, 2), byte_of(x as int, 1), byte_of(x as int, 0)] }
pub open spec fn be64(x: u64) -> Seq<u8> {
    seq![byte_of(x as int, 7), byte_of(x as int, 6), byte_of(x as int, 5), byte_of(x as int, 4),
         byte_of(x as int, 3), byte_of(x as int, 2), byte_of(x as int, 1), byte_of(x as int, 0)]
}
// decode: value of the little-/big-endian integer stored at s[i..]
pub open spec fn dle16(s: Seq<u8>, i: int) -> int { s[i] as int + 256 * (s[i + 1] as int) }
pub open spec fn dle32(s: Seq<u8>, i: int) -> int {
    s[i] as int + 256 * (s[i + 1] as int) + 65536 * (s[i + 2] as int) + 16777216 * (s[i + 3] as int)
}
pub open spec fn dle64(s: Seq<u8>, i: int) -> int { dle32(s, i) + 4294967296 * dle32(s, i + 4) }
pub open spec fn dbe16(s: Seq<u8>, i: int) -> int { 256 * (s[i] as int) + s[i + 1] as int }
pub open spec fn dbe32(s: Seq<u8>, i: int) -> int {
    16777216 * (s[i] as int) + 65536 * (s[i + 1] as int) + 256 * (s[i + 2] as int) + s[i + 3] as int
}
pub open spec fn dbe64(s: Seq<u8>, i: int) -> int { 4294967296 * dbe32(s, i) + dbe32(s, i + 4) }
/// integer at s[i..] in byte order `big`
pub open spec fn d16(big: bool, s: Seq<u8>, i: int) -> int { if big { dbe16(s, i) } else { dle16(s, i) } }
pub open spec fn d32(big: bool, s: Seq<u8>, i: int) -> int { if big { dbe32(s, i) } else { dle32(s, i) } }
pub open spec fn d64(big: bool, s: Seq<u8>, i: int) -> int { if big { dbe64(s, i) } else { dle64(s, i) } }
pub open spec fn e16(big: bool, x: u16) -> Seq<u8> { if big { be16(x) } else { le16(x) } }
pub open spec fn e32(big: bool, x: u32) -> Seq<u8> { if big { be32(x) } else { le32(x) } }
pub open spec fn e64(big: bool, x: u64) -> Seq<u8> { if big { be64(x) } else { le64(x) } }

// Floats on disk: IEEE bit patterns.  `to_bits`/`from_bits` are uninterpreted; the only
// assumed fact is that they are inverse (true of Rust's f32::to_bits/from_bits bit-for-bit).
pub uninterp spec fn f32_bits(x: f32) -> u32;
pub uninterp spec fn f32_of_bits(b: u32) -> f32;
pub uninterp spec fn f64_bits(x: f64) -> u64;
pub uninterp spec fn f64_of_bits(b: u64) -> f64;
pub broadcast axiom fn ax_f32_bits_inv(x: f32) ensures #[trigger] f32_of_bits(f32_bits(x)) == x;
pub broadcast axiom fn ax_f64_bits_inv(x: f64) ensures #[trigger] f64_of_bits(f64_bits(x)) == x;

#[verifier::external_body]
#[derive(Debug)]
pub struct IoError { _p: u8 }

#[verifier::external_body]
pub fn vpanic() -> !
    requires false
{ panic!() }

// ---- Sink: append-only in-memory writer (`Vec<u8>` used through byteorder::WriteBytesExt / io::Write).
// Assumed contracts: NativeEndian == LittleEndian (x86-64 / aarch64 targets); writes to a Vec never
// fail, the io::Result plumbing is kept so that `?` in the code typechecks.
pub struct Sink { pub bytes: Vec<u8> }
impl Sink {
    pub open spec fn view(&self) -> Seq<u8> { self.bytes@ }
    #[verifier::external_body]
    pub fn with_capacity(n: usize) -> (r: Sink) ensures r@.len() == 0 { Sink { bytes: Vec::with_capacity(n) } }
    pub fn len(&self) -> (r: usize) ensures r == self@.len() { self.bytes.len() }
    #[verifier::external_body]
    pub fn put_u8(&mut self, v: u8) -> (r: Result<(), IoError>)
        ensures r.is_ok(), final(self)@ == old(self)@.push(v) { unimplemented!() }
    #[verifier::external_body]
    pub fn put_u16(&mut self, v: u16) -> (r: Result<(), IoError>)
        ensures r.is_ok(), final(self)@ == old(self)@ + le16(v) { unimplemented!() }
    #[verifier::external_body]
    pub fn put_u32(&mut self, v: u32) -> (r: Result<(), IoError>)
        ensures r.is_ok(), final(self)@ == old(self)@ + le32(v) { unimplemented!() }
    #[verifier::external_body]
    pub fn put_u64(&mut self, v: u64) -> (r: Result<(), IoError>)
        ensures r.is_ok(), final(self)@ == old(self)@ + le64(v) { unimplemented!() }
    #[verifier::external_body]
    pub fn put_f32(&mut self, v: f32) -> (r: Result<(), IoError>)
        ensures r.is_ok(), final(self)@ == old(self)@ + le32(f32_bits(v)) { unimplemented!() }
    #[verifier::external_body]
    pub fn put_f64(&mut self, v: f64) -> (r: Result<(), IoError>)
        ensures r.is_ok(), final(self)@ == old(self)@ + le64(f64_bits(v)) { unimplemented!() }
    #[verifier::external_body]
    pub fn put_bytes(&mut self, b: &[u8]) -> (r: Result<(), IoError>)
        ensures r.is_ok(), final(self)@ == old(self)@ + b@ { unimplemented!() }
}

// ---- FSink: seekable destination (`BufWriter<W: Write + Seek>`).  Ghost image `data()` and
// position `pos()`.  A put at `pos` overwrites/extends the image; any operation may fail, in
// which case nothing is promised about the image (callers must propagate the error).
#[verifier::external_body]
pub struct FSink { _p: u8 }
pub open spec fn splice(d: Seq<u8>, at: int, b: Seq<u8>) -> Seq<u8>
    recommends 0 <= at <= d.len()
{
    if at + b.len() >= d.len() { d.subrange(0, at) + b } else { d.subrange(0, at) + b + d.subrange(at + b.len(), d.len() as int) }
}
impl FSink {
    pub uninterp spec fn data(&self) -> Seq<u8>;
    pub uninterp spec fn pos(&self) -> int;
    pub open spec fn wf(&self) -> bool { 0 <= self.pos() <= self.data().len() }
    #[verifier::external_body]
    pub fn tell(&mut self) -> (r: Result<u64, IoError>)
        requires old(self).wf(), old(self).pos() <= u64::MAX
        ensures final(self).data() == old(self).data(), final(self).pos() == old(self).pos(), r.is_ok() ==> r.unwrap() == old(self).pos()
    { unimplemented!() }
    #[verifier::external_body]
    pub fn seek_start(&mut self, p: u64) -> (r: Result<u64, IoError>)
        requires old(self).wf(), p <= old(self).data().len()
        ensures final(self).data() == old(self).data(), r.is_ok() ==> (final(self).pos() == p && r.unwrap() == p), final(self).wf()
    { unimplemented!() }
    #[verifier::external_body]
    pub fn seek_end0(&mut self) -> (r: Result<u64, IoError>)
        requires old(self).wf()
        ensures final(self).data() == old(self).data(), r.is_ok() ==> (final(self).pos() == old(self).data().len() && r.unwrap() == old(self).data().len()), final(self).wf()
    { unimplemented!() }
    #[verifier::external_body]
    pub fn put(&mut self, b: &[u8]) -> (r: Result<(), IoError>)
        requires old(self).wf()
        ensures r.is_ok() ==> (final(self).data() == splice(old(self).data(), old(self).pos(), b@) && final(self).pos() == old(self).pos() + b@.len()), final(self).wf()
    { unimplemented!() }
    #[verifier::external_body]
    pub fn put_u8(&mut self, v: u8) -> (r: Result<(), IoError>)
        requires old(self).wf()
        ensures r.is_ok() ==> (final(self).data() == splice(old(self).data(), old(self).pos(), seq![v]) && final(self).pos() == old(self).pos() + 1), final(self).wf()
    { unimplemented!() }
    #[verifier::external_body]
    pub fn put_u16(&mut self, v: u16) -> (r: Result<(), IoError>)
        requires old(self).wf()
        ensures r.is_ok() ==> (final(self).data() == splice(old(self).data(), old(self).pos(), le16(v)) && final(self).pos() == old(self).pos() + 2), final(self).wf()
    { unimplemented!() }
    #[verifier::external_body]
    pub fn put_u32(&mut self, v: u32) -> (r: Result<(), IoError>)
        requires old(self).wf()
        ensures r.is_ok() ==> (final(self).data() == splice(old(self).data(), old(self).pos(), le32(v)) && final(self).pos() == old(self).pos() + 4), final(self).wf()
    { unimplemented!() }
    #[verifier::external_body]
    pub fn put_u64(&mut self, v: u64) -> (r: Result<(), IoError>)
        requires old(self).wf()
        ensures r.is_ok() ==> (final(self).data() == splice(old(self).data(), old(self).pos(), le64(v)) && final(self).pos() == old(self).pos() + 8), final(self).wf()
    { unimplemented!() }
    #[verifier::external_body]
    pub fn put_f64(&mut self, v: f64) -> (r: Result<(), IoError>)
        requires old(self).wf()
        ensures r.is_ok() ==> (final(self).data() == splice(old(self).data(), old(self).pos(), le64(f64_bits(v))) && final(self).pos() == old(self).pos() + 8), final(self).wf()
    { unimplemented!() }
}

// ---- Cur: consuming reader over a byte buffer (`bytes::BytesMut` used through `bytes::Buf`).
// `rem()` = bytes not yet consumed.  The `requires` are the real panics of the `bytes` crate
// (reading past the end / split_to past the end).
#[verifier::external_body]
pub struct Cur { _p: u8 }
impl Cur {
    pub uninterp spec fn rem(&self) -> Seq<u8>;
    #[verifier::external_body]
    pub fn from_vec(v: &Vec<u8>) -> (r: Cur) ensures r.rem() == v@ { unimplemented!() }
    #[verifier::external_body]
    pub fn len(&self) -> (r: usize) ensures r == self.rem().len() { unimplemented!() }
    #[verifier::external_body]
    pub fn split_to(&mut self, n: usize) -> (r: Cur)
        requires n <= old(self).rem().len()
        ensures r.rem() == old(self).rem().subrange(0, n as int), final(self).rem() == old(self).rem().subrange(n as int, old(self).rem().len() as int)
    { unimplemented!() }
    #[verifier::external_body]
    pub fn advance(&mut self, n: usize)
        requires n <= old(self).rem().len()
        ensures final(self).rem() == old(self).rem().subrange(n as int, old(self).rem().len() as int)
    { unimplemented!() }
    #[verifier::external_body]
    pub fn get_u8(&mut self) -> (r: u8)
        requires old(self).rem().len() >= 1
        ensures r == old(self).rem()[0], final(self).rem() == old(self).rem().subrange(1, old(self).rem().len() as int)
    { unimplemented!() }
    #[verifier::external_body]
    pub fn get_u16(&mut self) -> (r: u16)
        requires old(self).rem().len() >= 2
        ensures r == dbe16(old(self).rem(), 0), final(self).rem() == old(self).rem().subrange(2, old(self).rem().len() as int)
    { unimplemented!() }
    #[verifier::external_body]
    pub fn get_u16_le(&mut self) -> (r: u16)
        requires old(self).rem().len() >= 2
        ensures r == dle16(old(self).rem(), 0), final(self).rem() == old(self).rem().subrange(2, old(self).rem().len() as int)
    { unimplemented!() }
    #[verifier::external_body]
    pub fn get_u32(&mut self) -> (r: u32)
        requires old(self).rem().len() >= 4
        ensures r == dbe32(old(self).rem(), 0), final(self).rem() == old(self).rem().subrange(4, old(self).rem().len() as int)
    { unimplemented!() }
    #[verifier::external_body]
    pub fn get_u32_le(&mut self) -> (r: u32)
        requires old(self).rem().len() >= 4
        ensures r == dle32(old(self).rem(), 0), final(self).rem() == old(self).rem().subrange(4, old(self).rem().len() as int)
    { unimplemented!() }
    #[verifier::external_body]
    pub fn get_u64(&mut self) -> (r: u64)
        requires old(self).rem().len() >= 8
        ensures r == dbe64(old(self).rem(), 0), final(self).rem() == old(self).rem().subrange(8, old(self).rem().len() as int)
    { unimplemented!() }
    #[verifier::external_body]
    pub fn get_u64_le(&mut self) -> (r: u64)
        requires old(self).rem().len() >= 8
        ensures r == dle64(old(self).rem(), 0), final(self).rem() == old(self).rem().subrange(8, old(self).rem().len() as int)
    { unimplemented!() }
    #[verifier::external_body]
    pub fn get_f32(&mut self) -> (r: f32)
        requires old(self).rem().len() >= 4
        ensures r == f32_of_bits(dbe32(old(self).rem(), 0) as u32), final(self).rem() == old(self).rem().subrange(4, old(self).rem().len() as int)
    { unimplemented!() }
    #[verifier::external_body]
    pub fn get_f32_le(&mut self) -> (r: f32)
        requires old(self).rem().len() >= 4
        ensures r == f32_of_bits(dle32(old(self).rem(), 0) as u32), final(self).rem() == old(self).rem().subrange(4, old(self).rem().len() as int)
    { unimplemented!() }
}
// `uN::from_{le,be}_bytes([..])` (rule R4) with arithmetic contracts
#[verifier::external_body]
pub fn u32_from_le(b: [u8; 4]) -> (r: u32) ensures r == dle32(b@, 0) { u32::from_le_bytes(b) }
#[verifier::external_body]
pub fn u32_from_be(b: [u8; 4]) -> (r: u32) ensures r == dbe32(b@, 0) { u32::from_be_bytes(b) }
#[verifier::external_body]
pub fn u64_from_le(b: [u8; 8]) -> (r: u64) ensures r == dle64(b@, 0) { u64::from_le_bytes(b) }
#[verifier::external_body]
pub fn u64_from_be(b: [u8; 8]) -> (r: u64) ensures r == dbe64(b@, 0) { u64::from_be_bytes(b) }
#[verifier::external_body]
pub fn f32_from_le(b: [u8; 4]) -> (r: f32) ensures r == f32_of_bits(dle32(b@, 0) as u32) { f32::from_le_bytes(b) }
#[verifier::external_body]
pub fn f32_from_be(b: [u8; 4]) -> (r: f32) ensures r == f32_of_bits(dbe32(b@, 0) as u32) { f32::from_be_bytes(b) }

#[derive(Copy, Clone)]
pub struct Section {
    pub chrom: u32,
    pub start: u32,
    pub end: u32,
    pub offset: u64,
    pub size: u64,
}
pub struct RTreeNode {
    start_chrom_idx: u32,
    start_base: u32,
    end_chrom_idx: u32,
    end_base: u32,
    children: RTreeChildren,
}
pub enum RTreeChildren {
    DataSections(Vec<Section>),
    Nodes(Vec<RTreeNode>),
}
#[derive(Copy, Clone)]
pub enum InputSortType {
    ALL,
    START,
    // TODO
    //NONE,
}
pub struct BBIWriteOptions {
    pub compress: bool,
    pub items_per_slot: u32,
    pub block_size: u32,
    pub initial_zoom_size: u32,
    pub max_zooms: u32,
    pub manual_zoom_sizes: Option<Vec<u32>>,
    pub input_sort_type: InputSortType,
    pub channel_size: usize,
    pub inmemory: bool,
}
const NODEHEADER_SIZE: u64 = 1 + 1 + 2;
const NON_LEAFNODE_SIZE: u64 = 4 + 4 + 4 + 4 + 8;
const LEAFNODE_SIZE: u64 = 4 + 4 + 4 + 4 + 8 + 8;
pub const CIR_TREE_MAGIC: u32 = 0x2468_ACE0;

// ================= specification vocabulary (unit rt_layout) =================
// Written from the published cirTree layout (Kent et al. 2010, supplementary table 14-17) and from
// the property statement; shares no arithmetic with the code: positions are sums of REAL node sizes.
// Levels: leaves (DataSections) are level 0, the root is level `levels`.

/// ASink: the destination `W: Write + Seek` of write_tree / write_rtreeindex (BufWriter<File> in the callers),
/// as an append-only, FALLIBLE byte image (unit-local; the shared `Sink` never fails, so it would not notice a
/// dropped `?`).  ASSUMED (R3/R11): NativeEndian == LittleEndian; a successful write appends exactly the
/// little-endian encoding; a failed write promises nothing about the image; `tell()` (-> pos, rule R3): the image
/// is the whole file from offset 0 and the stream is positioned at its end (the writers only ever append before
/// calling write_rtreeindex), so the position is the length of what has been written.
#[verifier::external_body]
pub struct ASink { _p: u8 }
impl ASink {
    pub uninterp spec fn view(&self) -> Seq<u8>;
    #[verifier::external_body]
    pub fn put_u8(&mut self, v: u8) -> (r: Result<(), IoError>)
        ensures r is Ok ==> final(self)@ == old(self)@.push(v) { unimplemented!() }
    #[verifier::external_body]
    pub fn put_u16(&mut self, v: u16) -> (r: Result<(), IoError>)
        ensures r is Ok ==> final(self)@ == old(self)@ + le16(v) { unimplemented!() }
    #[verifier::external_body]
    pub fn put_u32(&mut self, v: u32) -> (r: Result<(), IoError>)
        ensures r is Ok ==> final(self)@ == old(self)@ + le32(v) { unimplemented!() }
    #[verifier::external_body]
    pub fn put_u64(&mut self, v: u64) -> (r: Result<(), IoError>)
        ensures r is Ok ==> final(self)@ == old(self)@ + le64(v) { unimplemented!() }
    #[verifier::external_body]
    pub fn pos(&mut self) -> (r: Result<u64, IoError>)
        ensures final(self)@ == old(self)@, r matches Ok(p) ==> p as int == old(self)@.len()
    { unimplemented!() }
}

// ---------------- sizes ----------------
/// real byte size of one node: 4-byte header + 32 bytes per leaf item / 24 bytes per non-leaf item
spec fn node_size(t: RTreeChildren) -> int {
    match t {
        RTreeChildren::DataSections(v) => 4 + 32 * (v@.len() as int),
        RTreeChildren::Nodes(v) => 4 + 24 * (v@.len() as int),
    }
}
/// byte size of a node of level `lvl` that has all `b` items
spec fn full(lvl: int, b: int) -> int { if lvl <= 0 { 4 + 32 * b } else { 4 + 24 * b } }

/// total byte size of the nodes of level `dest` in the subtree `t` whose root is at level `cur`
spec fn sz(t: RTreeChildren, cur: int, dest: int) -> int
    decreases cur, 0int
{
    if cur == dest { node_size(t) }
    else if cur > dest && cur > 0 {
        match t {
            RTreeChildren::Nodes(v) => sz_kids(v@, cur - 1, dest, v@.len() as int),
            RTreeChildren::DataSections(_) => 0,
        }
    } else { 0 }
}
/// ... summed over the subtrees of the first n children `s[0..n]` (children are at level kl)
spec fn sz_kids(s: Seq<RTreeNode>, kl: int, dest: int, n: int) -> int
    decreases kl, n + 1
{
    if n <= 0 || kl < 0 || n > s.len() { 0 } else { sz_kids(s, kl, dest, n - 1) + sz(s[n - 1].children, kl, dest) }
}
/// total size of levels L..=levels (the nodes written before level L-1 starts)
spec fn above(t: RTreeChildren, levels: int, l: int) -> int
    decreases levels + 1 - l
{
    if l > levels { 0 } else { above(t, levels, l + 1) + sz(t, levels, l) }
}

// ---------------- well-formedness (the precondition; what get_rtreeindex's chunking produces) ----------------
/// a node holds at most b items, and exactly b unless it is the last node of its level
spec fn len_ok(n: int, b: int, last: bool) -> bool { n <= b && (!last ==> n == b) }
/// uniform depth (DataSections exactly at level 0), 1..=b children per non-leaf node, 0..=b items per leaf,
/// fullness of every node that is not on the right spine (`last` = this node is the last of its level)
spec fn wf(t: RTreeChildren, lvl: int, b: int, last: bool) -> bool
    decreases lvl, 0int
{
    match t {
        RTreeChildren::DataSections(v) => lvl == 0 && len_ok(v@.len() as int, b, last),
        RTreeChildren::Nodes(v) => lvl > 0 && v@.len() >= 1 && len_ok(v@.len() as int, b, last) && kids_wf(v@, lvl - 1, b, last),
    }
}
spec fn kids_wf(s: Seq<RTreeNode>, kl: int, b: int, plast: bool) -> bool
    decreases kl, 1int
{
    kl >= 0 && forall|i: int| 0 <= i < s.len() ==> wf((#[trigger] s[i]).children, kl, b, plast && i == s.len() - 1)
}
/// uniform depth only (enough for calculate_offsets)
spec fn depth_ok(t: RTreeChildren, lvl: int) -> bool
    decreases lvl
{
    match t {
        RTreeChildren::DataSections(v) => lvl == 0,
        RTreeChildren::Nodes(v) => lvl > 0 && forall|i: int| 0 <= i < v@.len() ==> depth_ok((#[trigger] v@[i]).children, lvl - 1),
    }
}

// ---------------- node layout ----------------
/// node header: isLeaf, reserved, count (u16)
spec fn put_hdr(b: Seq<u8>, leaf: bool, count: int) -> Seq<u8> {
    b.push(if leaf { 1u8 } else { 0u8 }).push(0u8) + le16(count as u16)
}
/// leaf item: startChromIx, startBase, endChromIx, endBase, dataOffset, dataSize
spec fn put_leaf_item(b: Seq<u8>, s: Section) -> Seq<u8> {
    b + le32(s.chrom) + le32(s.start) + le32(s.chrom) + le32(s.end) + le64(s.offset) + le64(s.size)
}
spec fn put_leaf_items(b: Seq<u8>, v: Seq<Section>, n: int) -> Seq<u8>
    decreases n
{
    if n <= 0 { b } else { put_leaf_item(put_leaf_items(b, v, n - 1), v[n - 1]) }
}
/// non-leaf item: startChromIx, startBase, endChromIx, endBase, dataOffset (= position of the child node)
spec fn put_nl_item(b: Seq<u8>, c: RTreeNode, ptr: int) -> Seq<u8> {
    b + le32(c.start_chrom_idx) + le32(c.start_base) + le32(c.end_chrom_idx) + le32(c.end_base) + le64(ptr as u64)
}
/// items of a non-leaf node whose first child is stored at `kidpos`: child n-1 is stored after the
/// REAL sizes of children 0..n-1 (children are at level kl)
spec fn put_nl_items(b: Seq<u8>, s: Seq<RTreeNode>, kl: int, kidpos: int, n: int) -> Seq<u8>
    decreases n
{
    if n <= 0 { b } else { put_nl_item(put_nl_items(b, s, kl, kidpos, n - 1), s[n - 1], kidpos + sz_kids(s, kl, kl, n - 1)) }
}
/// one node of level `lvl`; `kidpos` = absolute position of its first child (ignored by leaves)
spec fn put_node(b: Seq<u8>, t: RTreeChildren, lvl: int, kidpos: int) -> Seq<u8> {
    match t {
        RTreeChildren::DataSections(v) => put_leaf_items(put_hdr(b, true, v@.len() as int), v@, v@.len() as int),
        RTreeChildren::Nodes(v) => put_nl_items(put_hdr(b, false, v@.len() as int), v@, lvl - 1, kidpos, v@.len() as int),
    }
}
/// all nodes of level `dest` of the subtree `t` (root at level `cur`), left to right, appended to b.
/// `kidpos` = absolute position of the first node of level dest-1 of this subtree; the level dest-1 nodes
/// of the subtree are stored contiguously from there, so the children of a later node of level dest start
/// after the real sizes of all level dest-1 nodes under earlier siblings.
spec fn fmt_level(b: Seq<u8>, t: RTreeChildren, cur: int, dest: int, kidpos: int) -> Seq<u8>
    decreases cur, 0int
{
    if cur == dest { put_node(b, t, dest, kidpos) }
    else if cur > dest && cur > 0 {
        match t {
            RTreeChildren::Nodes(v) => fmt_kids(b, v@, cur - 1, dest, kidpos, v@.len() as int),
            RTreeChildren::DataSections(_) => b,
        }
    } else { b }
}
spec fn fmt_kids(b: Seq<u8>, s: Seq<RTreeNode>, kl: int, dest: int, kidpos: int, n: int) -> Seq<u8>
    decreases kl, n + 1
{
    if n <= 0 || kl < 0 || n > s.len() { b }
    else { fmt_level(fmt_kids(b, s, kl, dest, kidpos, n - 1), s[n - 1].children, kl, dest, kidpos + sz_kids(s, kl, dest - 1, n - 1)) }
}
/// leaves have no pointers: level 0 is formatted with kidpos 0
spec fn kp(dest: int, childoff: int) -> int { if dest <= 0 { 0 } else { childoff } }

/// levels `levels`, levels-1, ..., l appended to b in this order; p0 = absolute position of the root node.
/// Level L is formatted with kidpos = p0 + (sizes of levels L..=levels) = where level L-1 starts.
spec fn fmt_down(b: Seq<u8>, t: RTreeChildren, levels: int, l: int, p0: int) -> Seq<u8>
    decreases levels + 1 - l
{
    if l > levels { b } else { fmt_level(fmt_down(b, t, levels, l + 1, p0), t, levels, l, kp(l, p0 + above(t, levels, l))) }
}

// ---------------- cirTree header ----------------
/// lexicographic order on (chrom, base)
spec fn pos_le(a: (u32, u32), b: (u32, u32)) -> bool { a.0 < b.0 || (a.0 == b.0 && a.1 <= b.1) }
spec fn pos_max(a: (u32, u32), b: (u32, u32)) -> (u32, u32) { if pos_le(a, b) { b } else { a } }
spec fn sec_end(s: Section) -> (u32, u32) { (s.chrom, s.end) }
spec fn node_end(n: RTreeNode) -> (u32, u32) { (n.end_chrom_idx, n.end_base) }
/// largest (chrom, end) of the first n sections; (0,0) -- the least position -- if there is none
spec fn max_end_secs(v: Seq<Section>, n: int) -> (u32, u32)
    decreases n
{
    if n <= 0 { (0u32, 0u32) } else { pos_max(max_end_secs(v, n - 1), sec_end(v[n - 1])) }
}
spec fn max_end_nodes(v: Seq<RTreeNode>, n: int) -> (u32, u32)
    decreases n
{
    if n <= 0 { (0u32, 0u32) } else { pos_max(max_end_nodes(v, n - 1), node_end(v[n - 1])) }
}
/// bounds advertised in the header: start of the first item of the root, largest end over the root's items
spec fn root_start(t: RTreeChildren) -> (u32, u32) {
    match t {
        RTreeChildren::DataSections(v) => if v@.len() == 0 { (0u32, 0u32) } else { (v@[0].chrom, v@[0].start) },
        RTreeChildren::Nodes(v) => (v@[0].start_chrom_idx, v@[0].start_base),
    }
}
spec fn root_end(t: RTreeChildren) -> (u32, u32) {
    match t {
        RTreeChildren::DataSections(v) => max_end_secs(v@, v@.len() as int),
        RTreeChildren::Nodes(v) => max_end_nodes(v@, v@.len() as int),
    }
}
/// 48-byte cirTree header: magic, blockSize, itemCount, startChromIx, startBase, endChromIx, endBase,
/// endFileOffset, itemsPerSlot, reserved
spec fn fmt_cir_header(b: Seq<u8>, block_size: u32, item_count: u64, st: (u32, u32), en: (u32, u32), end_of_data: u64, items_per_slot: u32) -> Seq<u8> {
    b + le32(0x2468ACE0u32) + le32(block_size) + le64(item_count) + le32(st.0) + le32(st.1) + le32(en.0) + le32(en.1)
    + le64(end_of_data) + le32(items_per_slot) + le32(0u32)
}
/// the whole index appended to a file image b0
spec fn fmt_index(b0: Seq<u8>, t: RTreeChildren, levels: int, block_size: u32, item_count: u64, items_per_slot: u32) -> Seq<u8> {
    fmt_down(fmt_cir_header(b0, block_size, item_count, root_start(t), root_end(t), b0.len() as u64, items_per_slot),
             t, levels, 0, b0.len() as int + 48)
}

// ---------------- what the code's return values are (auxiliary, code-shaped) ----------------
/// value returned by write_tree: "size of the children region assuming full nodes"
spec fn rv(t: RTreeChildren, cur: int, dest: int, b: int) -> int
    decreases cur, 0int
{
    if cur == dest {
        match t {
            RTreeChildren::DataSections(v) => 4 + 32 * (v@.len() as int),
            RTreeChildren::Nodes(v) => (v@.len() as int) * full(dest - 1, b),
        }
    } else if cur > dest && cur > 0 {
        match t {
            RTreeChildren::Nodes(v) => rv_kids(v@, cur - 1, dest, b, v@.len() as int),
            RTreeChildren::DataSections(_) => 0,
        }
    } else { 0 }
}
spec fn rv_kids(s: Seq<RTreeNode>, kl: int, dest: int, b: int, n: int) -> int
    decreases kl, n + 1
{
    if n <= 0 || kl < 0 || n > s.len() { 0 } else { rv_kids(s, kl, dest, b, n - 1) + rv(s[n - 1].children, kl, dest, b) }
}
/// contribution of a node's own header/items to its own level (k == lv-1), nothing to the levels below
spec fn hdr_part(k: int, lv: int, n: int) -> int { if k == lv - 1 { 4 + 24 * n } else { 0 } }
// ================= lemmas over the ghost tree (unit rt_layout) =================
proof fn lemma_mul_step(n: int, f: int)
    ensures (n - 1) * f + f == n * f, 0 * f == 0,
{
    assert((n - 1) * f + f == n * f) by (nonlinear_arith);
}
proof fn lemma_mul_mono(a: int, b: int, f: int)
    requires 0 <= a <= b, 0 <= f,
    ensures 0 <= a * f <= b * f,
{
    assert(0 <= a * f <= b * f) by (nonlinear_arith) requires 0 <= a <= b, 0 <= f;
}
/// a tree that is well-formed as a non-last subtree is well-formed as a last one
proof fn lemma_wf_mono(t: RTreeChildren, lvl: int, b: int)
    requires wf(t, lvl, b, false),
    ensures wf(t, lvl, b, true),
    decreases lvl,
{
    match t {
        RTreeChildren::DataSections(v) => {}
        RTreeChildren::Nodes(v) => {
            let s = v@;
            assert forall|i: int| 0 <= i < s.len() implies wf((#[trigger] s[i]).children, lvl - 1, b, true && i == s.len() - 1) by {
                assert(wf(s[i].children, lvl - 1, b, false && i == s.len() - 1));
                if i == s.len() - 1 { lemma_wf_mono(s[i].children, lvl - 1, b); }
            }
        }
    }
}
proof fn lemma_wf_depth(t: RTreeChildren, lvl: int, b: int, last: bool)
    requires wf(t, lvl, b, last),
    ensures depth_ok(t, lvl),
    decreases lvl,
{
    match t {
        RTreeChildren::DataSections(v) => {}
        RTreeChildren::Nodes(v) => {
            let s = v@;
            assert forall|i: int| 0 <= i < s.len() implies depth_ok((#[trigger] s[i]).children, lvl - 1) by {
                lemma_wf_depth(s[i].children, lvl - 1, b, last && i == s.len() - 1);
            }
        }
    }
}
/// child i of a well-formed non-leaf node, seen as a possibly-last subtree
proof fn lemma_kid_wf(s: Seq<RTreeNode>, kl: int, b: int, plast: bool, i: int)
    requires kids_wf(s, kl, b, plast), 0 <= i < s.len(),
    ensures
        wf(s[i].children, kl, b, true),
        (i < s.len() - 1 || !plast) ==> wf(s[i].children, kl, b, false),
{
    assert(wf(s[i].children, kl, b, plast && i == s.len() - 1));
    if !(plast && i == s.len() - 1) { lemma_wf_mono(s[i].children, kl, b); }
}
// ---- sizes are non-negative and monotone in the number of children ----
proof fn lemma_sz_nonneg(t: RTreeChildren, cur: int, dest: int)
    ensures sz(t, cur, dest) >= 0,
    decreases cur, 0int,
{
    if cur != dest && cur > dest && cur > 0 {
        match t {
            RTreeChildren::Nodes(v) => { lemma_szk_nonneg(v@, cur - 1, dest, v@.len() as int); }
            RTreeChildren::DataSections(_) => {}
        }
    }
}
proof fn lemma_szk_nonneg(s: Seq<RTreeNode>, kl: int, dest: int, n: int)
    ensures sz_kids(s, kl, dest, n) >= 0,
    decreases kl, n + 1,
{
    if !(n <= 0 || kl < 0 || n > s.len()) {
        lemma_szk_nonneg(s, kl, dest, n - 1);
        lemma_sz_nonneg(s[n - 1].children, kl, dest);
    }
}
proof fn lemma_szk_mono(s: Seq<RTreeNode>, kl: int, dest: int, n: int, m: int)
    requires 0 <= n <= m <= s.len(),
    ensures 0 <= sz_kids(s, kl, dest, n) <= sz_kids(s, kl, dest, m),
    decreases m - n,
{
    lemma_szk_nonneg(s, kl, dest, n);
    if n < m {
        lemma_szk_mono(s, kl, dest, n, m - 1);
        if kl >= 0 { lemma_sz_nonneg(s[m - 1].children, kl, dest); }
    }
}
/// there are no nodes below level 0
proof fn lemma_sz_neg(t: RTreeChildren, cur: int, dest: int)
    requires dest < 0 <= cur,
    ensures sz(t, cur, dest) == 0,
    decreases cur, 0int,
{
    if cur > 0 {
        match t {
            RTreeChildren::Nodes(v) => { lemma_szk_neg(v@, cur - 1, dest, v@.len() as int); }
            RTreeChildren::DataSections(_) => {}
        }
    }
}
proof fn lemma_szk_neg(s: Seq<RTreeNode>, kl: int, dest: int, n: int)
    requires dest < 0,
    ensures sz_kids(s, kl, dest, n) == 0,
    decreases kl, n + 1,
{
    if !(n <= 0 || kl < 0 || n > s.len()) {
        lemma_szk_neg(s, kl, dest, n - 1);
        lemma_sz_neg(s[n - 1].children, kl, dest);
    }
}
/// there are no nodes of a level above the root of the subtree
proof fn lemma_szk_above(s: Seq<RTreeNode>, kl: int, dest: int, n: int)
    requires dest > kl,
    ensures sz_kids(s, kl, dest, n) == 0,
    decreases n,
{
    if !(n <= 0 || kl < 0 || n > s.len()) {
        lemma_szk_above(s, kl, dest, n - 1);
        assert(sz(s[n - 1].children, kl, dest) == 0);
    }
}
// ---- fullness => sizes ----
/// a well-formed node is at most a full node, and exactly a full node unless it is the last of its level
proof fn lemma_node_size(t: RTreeChildren, lvl: int, b: int, last: bool)
    requires wf(t, lvl, b, last), b >= 0,
    ensures
        4 <= node_size(t) <= full(lvl, b),
        !last ==> node_size(t) == full(lvl, b),
        sz(t, lvl, lvl) == node_size(t),
{
}
/// children 0..n of a well-formed node: all but possibly the last one are full nodes
proof fn lemma_kids_size(s: Seq<RTreeNode>, kl: int, b: int, plast: bool, n: int)
    requires kids_wf(s, kl, b, plast), 0 <= n <= s.len(), b >= 0,
    ensures
        sz_kids(s, kl, kl, n) <= n * full(kl, b),
        n * full(kl, b) <= sz_kids(s, kl, kl, n) + full(kl, b),
        (n < s.len() || !plast) ==> sz_kids(s, kl, kl, n) == n * full(kl, b),
    decreases n,
{
    lemma_mul_step(n, full(kl, b));
    if n > 0 {
        lemma_kids_size(s, kl, b, plast, n - 1);
        assert(wf(s[n - 1].children, kl, b, plast && n - 1 == s.len() - 1));
        lemma_node_size(s[n - 1].children, kl, b, plast && n - 1 == s.len() - 1);
    }
}
/// Lemma A: the value write_tree returns for a subtree (children * full node size, summed) is the real byte
/// size of the subtree's nodes one level below `dest` -- exactly for a non-last subtree, up to one full node
/// of slack for a last one; at dest == 0 it is the real size of the leaves.
proof fn lemma_rv(t: RTreeChildren, cur: int, dest: int, b: int, last: bool)
    requires wf(t, cur, b, last), 0 <= dest <= cur, b >= 0,
    ensures
        dest == 0 ==> rv(t, cur, dest, b) == sz(t, cur, 0),
        dest >= 1 ==> sz(t, cur, dest - 1) <= rv(t, cur, dest, b) <= sz(t, cur, dest - 1) + full(dest - 1, b),
        dest >= 1 && !last ==> rv(t, cur, dest, b) == sz(t, cur, dest - 1),
        rv(t, cur, dest, b) >= 0,
    decreases cur, 0int,
{
    lemma_sz_nonneg(t, cur, dest - 1);
    lemma_sz_nonneg(t, cur, 0);
    match t {
        RTreeChildren::DataSections(v) => {}
        RTreeChildren::Nodes(v) => {
            if cur == dest {
                lemma_kids_size(v@, cur - 1, b, last, v@.len() as int);
            } else {
                lemma_rv_kids(v@, cur - 1, dest, b, last, v@.len() as int);
            }
        }
    }
}
proof fn lemma_rv_kids(s: Seq<RTreeNode>, kl: int, dest: int, b: int, plast: bool, n: int)
    requires kids_wf(s, kl, b, plast), 0 <= n <= s.len(), 0 <= dest <= kl, b >= 0,
    ensures
        dest == 0 ==> rv_kids(s, kl, dest, b, n) == sz_kids(s, kl, 0, n),
        dest >= 1 ==> sz_kids(s, kl, dest - 1, n) <= rv_kids(s, kl, dest, b, n) <= sz_kids(s, kl, dest - 1, n) + full(dest - 1, b),
        dest >= 1 && (n < s.len() || !plast) ==> rv_kids(s, kl, dest, b, n) == sz_kids(s, kl, dest - 1, n),
        rv_kids(s, kl, dest, b, n) >= 0,
    decreases kl, n + 1,
{
    if n > 0 {
        lemma_rv_kids(s, kl, dest, b, plast, n - 1);
        assert(wf(s[n - 1].children, kl, b, plast && n - 1 == s.len() - 1));
        lemma_rv(s[n - 1].children, kl, dest, b, plast && n - 1 == s.len() - 1);
    }
}
proof fn lemma_rvk_mono(s: Seq<RTreeNode>, kl: int, dest: int, b: int, plast: bool, n: int, m: int)
    requires kids_wf(s, kl, b, plast), 0 <= n <= m <= s.len(), 0 <= dest <= kl, b >= 0,
    ensures 0 <= rv_kids(s, kl, dest, b, n) <= rv_kids(s, kl, dest, b, m),
    decreases m - n,
{
    lemma_rv_kids(s, kl, dest, b, plast, n);
    if n < m {
        lemma_rvk_mono(s, kl, dest, b, plast, n, m - 1);
        assert(wf(s[m - 1].children, kl, b, plast && m - 1 == s.len() - 1));
        lemma_rv(s[m - 1].children, kl, dest, b, plast && m - 1 == s.len() - 1);
    }
}
/// what write_tree needs when it descends into child i (loop 1): the child offset it passes is where the
/// child subtree's nodes of level dest-1 really start, and nothing overflows
proof fn lemma_descend(s: Seq<RTreeNode>, kl: int, dest: int, b: int, plast: bool, i: int, childoff: int)
    requires kids_wf(s, kl, b, plast), 0 <= i < s.len(), 0 <= dest <= kl, b >= 0,
    ensures
        wf(s[i].children, kl, b, true),
        kp(dest, childoff + rv_kids(s, kl, dest, b, i)) == kp(dest, childoff) + sz_kids(s, kl, dest - 1, i),
        rv_kids(s, kl, dest, b, i) >= 0,
        rv(s[i].children, kl, dest, b) >= 0,
        rv_kids(s, kl, dest, b, i) + rv(s[i].children, kl, dest, b) == rv_kids(s, kl, dest, b, i + 1),
        rv_kids(s, kl, dest, b, i + 1) <= rv_kids(s, kl, dest, b, s.len() as int),
{
    lemma_kid_wf(s, kl, b, plast, i);
    lemma_rv_kids(s, kl, dest, b, plast, i);
    lemma_rv(s[i].children, kl, dest, b, true);
    lemma_rvk_mono(s, kl, dest, b, plast, i + 1, s.len() as int);
    if dest <= 0 { lemma_szk_neg(s, kl, dest - 1, i); }
}
/// what write_tree needs when it writes the pointer of child idx (loop 3)
proof fn lemma_pointer(s: Seq<RTreeNode>, kl: int, b: int, plast: bool, idx: int)
    requires kids_wf(s, kl, b, plast), 0 <= idx < s.len(), 0 <= b <= 65535, s.len() <= b,
    ensures
        sz_kids(s, kl, kl, idx) == idx * full(kl, b),
        0 <= idx * full(kl, b) <= s.len() * full(kl, b),
        s.len() * full(kl, b) <= 65535 * 2097124,
        full(kl, b) * idx == idx * full(kl, b),
        full(kl, b) * s.len() == s.len() * full(kl, b),
{
    assert(full(kl, b) * idx == idx * full(kl, b)) by (nonlinear_arith);
    assert(full(kl, b) * s.len() == s.len() * full(kl, b)) by (nonlinear_arith);
    lemma_kids_size(s, kl, b, plast, idx);
    lemma_mul_mono(idx, s.len() as int, full(kl, b));
    lemma_mul_mono(s.len() as int, 65535, full(kl, b));
    assert(full(kl, b) <= 2097124);
    assert(65535 * full(kl, b) <= 65535 * 2097124);
}
// ---- lengths of the format spec ----
proof fn lemma_leaf_items_len(b: Seq<u8>, v: Seq<Section>, n: int)
    requires 0 <= n,
    ensures put_leaf_items(b, v, n).len() == b.len() + 32 * n,
    decreases n,
{
    if n > 0 { lemma_leaf_items_len(b, v, n - 1); }
}
proof fn lemma_nl_items_len(b: Seq<u8>, s: Seq<RTreeNode>, kl: int, kidpos: int, n: int)
    requires 0 <= n,
    ensures put_nl_items(b, s, kl, kidpos, n).len() == b.len() + 24 * n,
    decreases n,
{
    if n > 0 { lemma_nl_items_len(b, s, kl, kidpos, n - 1); }
}
proof fn lemma_node_len(b: Seq<u8>, t: RTreeChildren, lvl: int, kidpos: int)
    ensures put_node(b, t, lvl, kidpos).len() == b.len() + node_size(t),
{
    match t {
        RTreeChildren::DataSections(v) => { lemma_leaf_items_len(put_hdr(b, true, v@.len() as int), v@, v@.len() as int); }
        RTreeChildren::Nodes(v) => { lemma_nl_items_len(put_hdr(b, false, v@.len() as int), v@, lvl - 1, kidpos, v@.len() as int); }
    }
}
/// level `dest` of a subtree occupies exactly sz(t, cur, dest) bytes
proof fn lemma_level_len(b: Seq<u8>, t: RTreeChildren, cur: int, dest: int, kidpos: int)
    ensures fmt_level(b, t, cur, dest, kidpos).len() == b.len() + sz(t, cur, dest),
    decreases cur, 0int,
{
    if cur == dest { lemma_node_len(b, t, dest, kidpos); }
    else if cur > dest && cur > 0 {
        match t {
            RTreeChildren::Nodes(v) => { lemma_kids_len(b, v@, cur - 1, dest, kidpos, v@.len() as int); }
            RTreeChildren::DataSections(_) => {}
        }
    }
}
proof fn lemma_kids_len(b: Seq<u8>, s: Seq<RTreeNode>, kl: int, dest: int, kidpos: int, n: int)
    ensures fmt_kids(b, s, kl, dest, kidpos, n).len() == b.len() + sz_kids(s, kl, dest, n),
    decreases kl, n + 1,
{
    if !(n <= 0 || kl < 0 || n > s.len()) {
        lemma_kids_len(b, s, kl, dest, kidpos, n - 1);
        lemma_level_len(fmt_kids(b, s, kl, dest, kidpos, n - 1), s[n - 1].children, kl, dest, kidpos + sz_kids(s, kl, dest - 1, n - 1));
    }
}
/// the size clauses of write_tree's contract follow from its return value being rv
proof fn lemma_post(b0: Seq<u8>, t: RTreeChildren, cur: int, dest: int, b: int, kidpos: int)
    requires wf(t, cur, b, true), 0 <= dest <= cur, b >= 0,
    ensures
        fmt_level(b0, t, cur, dest, kidpos).len() == b0.len() + sz(t, cur, dest),
        dest == 0 ==> rv(t, cur, dest, b) == sz(t, cur, 0),
        dest >= 1 && wf(t, cur, b, false) ==> rv(t, cur, dest, b) == sz(t, cur, dest - 1),
{
    lemma_level_len(b0, t, cur, dest, kidpos);
    lemma_rv(t, cur, dest, b, true);
    if wf(t, cur, b, false) { lemma_rv(t, cur, dest, b, false); }
}
// ---- the level-order image ----
/// sizes of levels: every level is part of the total; the total of the upper levels grows downwards
proof fn lemma_above_bounds(t: RTreeChildren, levels: int, l: int)
    requires 0 <= l,
    ensures
        0 <= above(t, levels, l) <= above(t, levels, 0),
        l <= levels ==> 0 <= sz(t, levels, l) && above(t, levels, l) == above(t, levels, l + 1) + sz(t, levels, l),
        l > levels ==> above(t, levels, l) == 0,
        l <= levels ==> sz(t, levels, l) <= above(t, levels, 0),
    decreases l,
{
    lemma_sz_nonneg(t, levels, l);
    lemma_above_nonneg(t, levels, l);
    lemma_above_nonneg(t, levels, l + 1);
    if l > 0 {
        lemma_above_bounds(t, levels, l - 1);
    }
}
proof fn lemma_above_nonneg(t: RTreeChildren, levels: int, l: int)
    ensures 0 <= above(t, levels, l),
    decreases levels + 1 - l,
{
    if l <= levels { lemma_above_nonneg(t, levels, l + 1); lemma_sz_nonneg(t, levels, l); }
}
/// Levels are contiguous: after levels `levels`..=l have been appended to an image of length p0, the image
/// ends at p0 + above(l) -- exactly the `kidpos` that level l was formatted with, i.e. level l-1 starts
/// where the pointers of level l say it does.
proof fn lemma_down_len(b: Seq<u8>, t: RTreeChildren, levels: int, l: int, p0: int)
    ensures fmt_down(b, t, levels, l, p0).len() == b.len() + above(t, levels, l),
    decreases levels + 1 - l,
{
    if l <= levels {
        lemma_down_len(b, t, levels, l + 1, p0);
        lemma_level_len(fmt_down(b, t, levels, l + 1, p0), t, levels, l, kp(l, p0 + above(t, levels, l)));
    }
}
// ---- the advertised end bound is the lexicographic maximum ----
proof fn lemma_max_end_secs(v: Seq<Section>, n: int)
    requires 0 <= n <= v.len(),
    ensures
        
        forall|i: int| 0 <= i < n ==> pos_le(sec_end(#[trigger] v[i]), max_end_secs(v, n)),
        
        n == 0 ==> max_end_secs(v, n) == (0u32, 0u32),
        n > 0 ==> exists|i: int| 0 <= i < n && sec_end(#[trigger] v[i]) == max_end_secs(v, n),
    decreases n,
{
    if n > 0 {
        lemma_max_end_secs(v, n - 1);
        let m = max_end_secs(v, n - 1);
        let e = sec_end(v[n - 1]);
        assert forall|i: int| 0 <= i < n implies pos_le(sec_end(#[trigger] v[i]), max_end_secs(v, n)) by {
            if i < n - 1 { assert(pos_le(sec_end(v[i]), m)); }
        }
        if pos_le(m, e) {
            assert(sec_end(v[n - 1]) == max_end_secs(v, n));
        } else if n - 1 > 0 {
            let j = choose|j: int| 0 <= j < n - 1 && sec_end(#[trigger] v[j]) == m;
            assert(sec_end(v[j]) == max_end_secs(v, n));
        }
    }
}
proof fn lemma_max_end_nodes(v: Seq<RTreeNode>, n: int)
    requires 0 <= n <= v.len(),
    ensures
        
        forall|i: int| 0 <= i < n ==> pos_le(node_end(#[trigger] v[i]), max_end_nodes(v, n)),
        
        n > 0 ==> exists|i: int| 0 <= i < n && node_end(#[trigger] v[i]) == max_end_nodes(v, n),
    decreases n,
{
    if n > 0 {
        lemma_max_end_nodes(v, n - 1);
        let m = max_end_nodes(v, n - 1);
        let e = node_end(v[n - 1]);
        assert forall|i: int| 0 <= i < n implies pos_le(node_end(#[trigger] v[i]), max_end_nodes(v, n)) by {
            if i < n - 1 { assert(pos_le(node_end(v[i]), m)); }
        }
        if pos_le(m, e) {
            assert(node_end(v[n - 1]) == max_end_nodes(v, n));
        } else if n - 1 > 0 {
            let j = choose|j: int| 0 <= j < n - 1 && node_end(#[trigger] v[j]) == m;
            assert(node_end(v[j]) == max_end_nodes(v, n));
        }
    }
}
// ================= the image read back by position (unit rt_layout) =================
// `stored(img, t, cur, st)`: the subtree t (root at level cur) can be found in the byte image img by
// following positions: st[L] is the absolute position of the subtree's first node of level L; the node
// itself is at st[cur] in the published node layout, its i-th child pointer is
// st[cur-1] + (real sizes of children 0..i) -- and THAT is where child i is stored (kid_st(..)[cur-1]).
// This is pointer correctness stated on the image, with no reference to how the bytes were produced.
spec fn seg(img: Seq<u8>, p: int, n: int) -> Seq<u8> { img.subrange(p, p + n) }
/// the node t (level lvl, first child at kidpos) occupies img[p .. p + node_size(t)]
spec fn node_bytes_at(img: Seq<u8>, p: int, t: RTreeChildren, lvl: int, kidpos: int) -> bool {
    0 <= p && p + node_size(t) <= img.len() && seg(img, p, node_size(t)) == put_node(Seq::<u8>::empty(), t, lvl, kidpos)
}
/// positions of the first nodes of levels 0..=kl of the subtree of child i: after the level-L nodes of
/// the subtrees of children 0..i
spec fn kid_st(st: Seq<int>, s: Seq<RTreeNode>, kl: int, i: int) -> Seq<int> {
    Seq::new((kl + 1) as nat, |l: int| st[l] + sz_kids(s, kl, l, i))
}
spec fn stored(img: Seq<u8>, t: RTreeChildren, cur: int, st: Seq<int>) -> bool
    decreases cur, 0int
{
    &&& cur >= 0
    &&& st.len() == cur + 1
    &&& node_bytes_at(img, st[cur], t, cur, if cur >= 1 { st[cur - 1] } else { 0 })
    &&& match t {
        RTreeChildren::DataSections(_) => cur == 0,
        RTreeChildren::Nodes(v) => cur >= 1 && forall|i: int| 0 <= i < v@.len() ==> stored(img, (#[trigger] v@[i]).children, cur - 1, kid_st(st, v@, cur - 1, i)),
    }
}
/// positions of the levels in the whole index: level L starts after the header and all higher levels
spec fn top_st(t: RTreeChildren, levels: int, p0: int) -> Seq<int> {
    Seq::new((levels + 1) as nat, |l: int| p0 + above(t, levels, l + 1))
}

// ---- (A) the format functions append to their first argument ----
spec fn lv(t: RTreeChildren, cur: int, dest: int, kidpos: int) -> Seq<u8> { fmt_level(Seq::<u8>::empty(), t, cur, dest, kidpos) }
proof fn lemma_leaf_items_app(b: Seq<u8>, v: Seq<Section>, n: int)
    ensures put_leaf_items(b, v, n) == b + put_leaf_items(Seq::<u8>::empty(), v, n),
    decreases n,
{
    let e = Seq::<u8>::empty();
    if n > 0 {
        lemma_leaf_items_app(b, v, n - 1);
        let p = put_leaf_items(e, v, n - 1);
        assert(put_leaf_item(b + p, v[n - 1]) =~= b + put_leaf_item(p, v[n - 1]));
    } else {
        assert(b =~= b + e);
    }
}
proof fn lemma_nl_items_app(b: Seq<u8>, s: Seq<RTreeNode>, kl: int, kidpos: int, n: int)
    ensures put_nl_items(b, s, kl, kidpos, n) == b + put_nl_items(Seq::<u8>::empty(), s, kl, kidpos, n),
    decreases n,
{
    let e = Seq::<u8>::empty();
    if n > 0 {
        lemma_nl_items_app(b, s, kl, kidpos, n - 1);
        let p = put_nl_items(e, s, kl, kidpos, n - 1);
        let ptr = kidpos + sz_kids(s, kl, kl, n - 1);
        assert(put_nl_item(b + p, s[n - 1], ptr) =~= b + put_nl_item(p, s[n - 1], ptr));
    } else {
        assert(b =~= b + e);
    }
}
proof fn lemma_node_app(b: Seq<u8>, t: RTreeChildren, lvl: int, kidpos: int)
    ensures put_node(b, t, lvl, kidpos) == b + put_node(Seq::<u8>::empty(), t, lvl, kidpos),
{
    let e = Seq::<u8>::empty();
    match t {
        RTreeChildren::DataSections(v) => {
            let n = v@.len() as int;
            lemma_leaf_items_app(put_hdr(b, true, n), v@, n);
            lemma_leaf_items_app(put_hdr(e, true, n), v@, n);
            assert(put_hdr(b, true, n) =~= b + put_hdr(e, true, n));
            let x = put_leaf_items(e, v@, n);
            assert((b + put_hdr(e, true, n)) + x =~= b + (put_hdr(e, true, n) + x));
        }
        RTreeChildren::Nodes(v) => {
            let n = v@.len() as int;
            lemma_nl_items_app(put_hdr(b, false, n), v@, lvl - 1, kidpos, n);
            lemma_nl_items_app(put_hdr(e, false, n), v@, lvl - 1, kidpos, n);
            assert(put_hdr(b, false, n) =~= b + put_hdr(e, false, n));
            let x = put_nl_items(e, v@, lvl - 1, kidpos, n);
            assert((b + put_hdr(e, false, n)) + x =~= b + (put_hdr(e, false, n) + x));
        }
    }
}
proof fn lemma_level_app(b: Seq<u8>, t: RTreeChildren, cur: int, dest: int, kidpos: int)
    ensures fmt_level(b, t, cur, dest, kidpos) == b + lv(t, cur, dest, kidpos),
    decreases cur, 0int,
{
    let e = Seq::<u8>::empty();
    if cur == dest { lemma_node_app(b, t, dest, kidpos); }
    else if cur > dest && cur > 0 {
        match t {
            RTreeChildren::Nodes(v) => { lemma_kids_app(b, v@, cur - 1, dest, kidpos, v@.len() as int); }
            RTreeChildren::DataSections(_) => { assert(b =~= b + e); }
        }
    } else { assert(b =~= b + e); }
}
proof fn lemma_kids_app(b: Seq<u8>, s: Seq<RTreeNode>, kl: int, dest: int, kidpos: int, n: int)
    ensures fmt_kids(b, s, kl, dest, kidpos, n) == b + fmt_kids(Seq::<u8>::empty(), s, kl, dest, kidpos, n),
    decreases kl, n + 1,
{
    let e = Seq::<u8>::empty();
    if !(n <= 0 || kl < 0 || n > s.len()) {
        let k = kidpos + sz_kids(s, kl, dest - 1, n - 1);
        let c = s[n - 1].children;
        lemma_kids_app(b, s, kl, dest, kidpos, n - 1);
        let p = fmt_kids(e, s, kl, dest, kidpos, n - 1);
        lemma_level_app(b + p, c, kl, dest, k);
        lemma_level_app(p, c, kl, dest, k);
        assert((b + p) + lv(c, kl, dest, k) =~= b + (p + lv(c, kl, dest, k)));
    } else {
        assert(b =~= b + e);
    }
}
// ---- (D) the level-L bytes of a node's subtree are the level-L bytes of its children's subtrees, in order ----
proof fn lemma_kids_split(s: Seq<RTreeNode>, kl: int, dest: int, kidpos: int, n: int, i: int)
    requires 0 <= i < n <= s.len(), kl >= 0,
    ensures
        0 <= sz_kids(s, kl, dest, i) <= sz_kids(s, kl, dest, i + 1) <= sz_kids(s, kl, dest, n),
        sz_kids(s, kl, dest, i + 1) == sz_kids(s, kl, dest, i) + sz(s[i].children, kl, dest),
        fmt_kids(Seq::<u8>::empty(), s, kl, dest, kidpos, n).len() == sz_kids(s, kl, dest, n),
        seg(fmt_kids(Seq::<u8>::empty(), s, kl, dest, kidpos, n), sz_kids(s, kl, dest, i), sz(s[i].children, kl, dest))
            == lv(s[i].children, kl, dest, kidpos + sz_kids(s, kl, dest - 1, i)),
    decreases n,
{
    let e = Seq::<u8>::empty();
    let k = kidpos + sz_kids(s, kl, dest - 1, n - 1);
    let c = s[n - 1].children;
    let p = fmt_kids(e, s, kl, dest, kidpos, n - 1);
    lemma_kids_len(e, s, kl, dest, kidpos, n);
    lemma_kids_len(e, s, kl, dest, kidpos, n - 1);
    lemma_level_app(p, c, kl, dest, k);
    lemma_level_len(p, c, kl, dest, k);
    lemma_szk_mono(s, kl, dest, i, i + 1);
    lemma_szk_mono(s, kl, dest, i + 1, n);
    let whole = fmt_kids(e, s, kl, dest, kidpos, n);
    assert(whole == p + lv(c, kl, dest, k));
    if i == n - 1 {
        assert(seg(whole, p.len() as int, lv(c, kl, dest, k).len() as int) =~= lv(c, kl, dest, k));
    } else {
        lemma_kids_split(s, kl, dest, kidpos, n - 1, i);
        assert(seg(whole, sz_kids(s, kl, dest, i), sz(s[i].children, kl, dest)) =~= seg(p, sz_kids(s, kl, dest, i), sz(s[i].children, kl, dest)));
    }
}
// ---- (C) from "every level of the subtree is in the image at st[L]" to `stored` ----
/// level L of subtree t is in img at st[L], formatted with the position of level L-1 of the subtree
spec fn level_in(img: Seq<u8>, t: RTreeChildren, cur: int, st: Seq<int>, l: int) -> bool {
    &&& 0 <= st[l]
    &&& st[l] + sz(t, cur, l) <= img.len()
    &&& seg(img, st[l], sz(t, cur, l)) == lv(t, cur, l, kp(l, if l >= 1 { st[l - 1] } else { 0 }))
}
spec fn levels_in(img: Seq<u8>, t: RTreeChildren, cur: int, st: Seq<int>) -> bool {
    st.len() == cur + 1 && forall|l: int| 0 <= l <= cur ==> level_in(img, t, cur, st, l)
}
proof fn lemma_kid_levels_in(img: Seq<u8>, s: Seq<RTreeNode>, kl: int, st: Seq<int>, t: RTreeChildren, i: int)
    requires
        kl >= 0, 0 <= i < s.len(),
        t matches RTreeChildren::Nodes(v) && v@ == s,
        levels_in(img, t, kl + 1, st),
    ensures
        levels_in(img, s[i].children, kl, kid_st(st, s, kl, i)),
{
    let e = Seq::<u8>::empty();
    let kst = kid_st(st, s, kl, i);
    let c = s[i].children;
    assert forall|l: int| 0 <= l <= kl implies level_in(img, c, kl, kst, l) by {
        assert(level_in(img, t, kl + 1, st, l));
        let kk = kp(l, if l >= 1 { st[l - 1] } else { 0 });
        // level l of t is the concatenation over the children
        assert(lv(t, kl + 1, l, kk) == fmt_kids(e, s, kl, l, kk, s.len() as int));
        assert(sz(t, kl + 1, l) == sz_kids(s, kl, l, s.len() as int));
        lemma_kids_split(s, kl, l, kk, s.len() as int, i);
        let whole = seg(img, st[l], sz(t, kl + 1, l));
        let a = sz_kids(s, kl, l, i);
        let n = sz(c, kl, l);
        assert(seg(whole, a, n) =~= seg(img, st[l] + a, n));
        assert(kst[l] == st[l] + a);
        if l >= 1 {
            assert(kst[l - 1] == st[l - 1] + sz_kids(s, kl, l - 1, i));
        } else {
            lemma_szk_neg(s, kl, l - 1, i);
        }
    }
}
proof fn lemma_levels_in_stored(img: Seq<u8>, t: RTreeChildren, cur: int, st: Seq<int>)
    requires depth_ok(t, cur), cur >= 0, levels_in(img, t, cur, st),
    ensures stored(img, t, cur, st),
    decreases cur,
{
    assert(level_in(img, t, cur, st, cur));
    match t {
        RTreeChildren::DataSections(_) => {}
        RTreeChildren::Nodes(v) => {
            let s = v@;
            assert forall|i: int| 0 <= i < s.len() implies stored(img, (#[trigger] s[i]).children, cur - 1, kid_st(st, s, cur - 1, i)) by {
                lemma_kid_levels_in(img, s, cur - 1, st, t, i);
                lemma_levels_in_stored(img, s[i].children, cur - 1, kid_st(st, s, cur - 1, i));
            }
        }
    }
}
// ---- (B) the whole index image contains every level at top_st ----
proof fn lemma_down_has_level(b: Seq<u8>, t: RTreeChildren, levels: int, l: int, p0: int, ll: int)
    requires b.len() == p0, 0 <= l <= ll <= levels,
    ensures
        fmt_down(b, t, levels, l, p0).len() == p0 + above(t, levels, l),
        p0 + above(t, levels, ll + 1) + sz(t, levels, ll) <= p0 + above(t, levels, l),
        0 <= above(t, levels, ll + 1),
        seg(fmt_down(b, t, levels, l, p0), p0 + above(t, levels, ll + 1), sz(t, levels, ll))
            == lv(t, levels, ll, kp(ll, p0 + above(t, levels, ll))),
    decreases ll - l,
{
    let k = kp(l, p0 + above(t, levels, l));
    let prev = fmt_down(b, t, levels, l + 1, p0);
    lemma_down_len(b, t, levels, l, p0);
    lemma_down_len(b, t, levels, l + 1, p0);
    lemma_level_app(prev, t, levels, l, k);
    lemma_level_len(prev, t, levels, l, k);
    lemma_above_bounds(t, levels, l);
    lemma_above_bounds(t, levels, ll);
    lemma_above_bounds(t, levels, ll + 1);
    let whole = fmt_down(b, t, levels, l, p0);
    assert(whole == prev + lv(t, levels, l, k));
    if l == ll {
        assert(seg(whole, prev.len() as int, lv(t, levels, l, k).len() as int) =~= lv(t, levels, l, k));
    } else {
        lemma_down_has_level(b, t, levels, l + 1, p0, ll);
        assert(seg(whole, p0 + above(t, levels, ll + 1), sz(t, levels, ll)) =~= seg(prev, p0 + above(t, levels, ll + 1), sz(t, levels, ll)));
    }
}
/// THE layout theorem: in the image of the whole index every node is where its parent's pointer says.
proof fn lemma_index_stored(b0: Seq<u8>, t: RTreeChildren, levels: int, block_size: u32, item_count: u64, items_per_slot: u32)
    requires depth_ok(t, levels), levels >= 0,
    ensures
        
        stored(fmt_index(b0, t, levels, block_size, item_count, items_per_slot), t, levels, top_st(t, levels, b0.len() as int + 48)),
        
        top_st(t, levels, b0.len() as int + 48)[levels] == b0.len() + 48,
        
        b0.is_prefix_of(fmt_index(b0, t, levels, block_size, item_count, items_per_slot)),
{
    let p0 = b0.len() as int + 48;
    let hdr = fmt_cir_header(b0, block_size, item_count, root_start(t), root_end(t), b0.len() as u64, items_per_slot);
    let img = fmt_index(b0, t, levels, block_size, item_count, items_per_slot);
    let st = top_st(t, levels, p0);
    assert(hdr.len() == p0);
    assert forall|l: int| 0 <= l <= levels implies level_in(img, t, levels, st, l) by {
        lemma_down_has_level(hdr, t, levels, 0, p0, l);
        assert(st[l] == p0 + above(t, levels, l + 1));
        if l >= 1 { assert(st[l - 1] == p0 + above(t, levels, l)); }
    }
    lemma_levels_in_stored(img, t, levels, st);
    lemma_above_bounds(t, levels, levels + 1);
    lemma_down_prefix(hdr, t, levels, 0, p0);
    assert(b0.is_prefix_of(hdr)) by { assert(hdr.subrange(0, b0.len() as int) =~= b0); }
}
proof fn lemma_down_prefix(b: Seq<u8>, t: RTreeChildren, levels: int, l: int, p0: int)
    ensures b.is_prefix_of(fmt_down(b, t, levels, l, p0)),
    decreases levels + 1 - l,
{
    if l <= levels {
        let prev = fmt_down(b, t, levels, l + 1, p0);
        lemma_down_prefix(b, t, levels, l + 1, p0);
        lemma_level_app(prev, t, levels, l, kp(l, p0 + above(t, levels, l)));
    }
}
// ================= an independent reader's view of the image (unit rt_layout) =================
// `decodes(img, p, t, lvl)`: reading img with the arithmetic little-endian decoders dle16/dle32/dle64 of the
// shared prelude (no encoder function involved): at p there is a node header (isLeaf, reserved, count) and
// `count` items holding exactly the fields of t's items; for a non-leaf node, following the STORED
// dataOffset of item i leads to a position where child i decodes in the same way.
spec fn rd_leaf_item(img: Seq<u8>, q: int, x: Section) -> bool {
    &&& dle32(img, q) == x.chrom && dle32(img, q + 4) == x.start
    &&& dle32(img, q + 8) == x.chrom && dle32(img, q + 12) == x.end
    &&& dle64(img, q + 16) == x.offset && dle64(img, q + 24) == x.size
}
spec fn rd_nl_item(img: Seq<u8>, q: int, c: RTreeNode) -> bool {
    &&& dle32(img, q) == c.start_chrom_idx && dle32(img, q + 4) == c.start_base
    &&& dle32(img, q + 8) == c.end_chrom_idx && dle32(img, q + 12) == c.end_base
}
spec fn decodes(img: Seq<u8>, p: int, t: RTreeChildren, lvl: int) -> bool
    decreases lvl
{
    &&& 0 <= p && p + node_size(t) <= img.len()
    &&& match t {
        RTreeChildren::DataSections(v) => {
            &&& lvl == 0
            &&& img[p] == 1 && img[p + 1] == 0 && dle16(img, p + 2) == v@.len()
            &&& forall|i: int| 0 <= i < v@.len() ==> rd_leaf_item(img, p + 4 + 32 * i, #[trigger] v@[i])
        }
        RTreeChildren::Nodes(v) => {
            &&& lvl >= 1
            &&& img[p] == 0 && img[p + 1] == 0 && dle16(img, p + 2) == v@.len()
            &&& forall|i: int| 0 <= i < v@.len() ==> rd_nl_item(img, p + 4 + 24 * i, #[trigger] v@[i])
                    && decodes(img, dle64(img, p + 4 + 24 * i + 16), v@[i].children, lvl - 1)
        }
    }
}
/// the 48-byte header as a reader sees it
spec fn rd_header(img: Seq<u8>, h: int, block_size: u32, item_count: u64, st: (u32, u32), en: (u32, u32), end_of_data: u64, items_per_slot: u32) -> bool {
    &&& dle32(img, h) == 0x2468ACE0 && dle32(img, h + 4) == block_size && dle64(img, h + 8) == item_count
    &&& dle32(img, h + 16) == st.0 && dle32(img, h + 20) == st.1 && dle32(img, h + 24) == en.0 && dle32(img, h + 28) == en.1
    &&& dle64(img, h + 32) == end_of_data && dle32(img, h + 40) == items_per_slot && dle32(img, h + 44) == 0
}

// ---- little-endian codec inverses (unit-local, by bit-vector reasoning) and field readers over an embedded encoding ----
proof fn lemma_le16_inv(x: u16) ensures dle16(le16(x), 0) == x
{
    reveal(byte_of);
    assert(x % 256 < 256 && x / 256 % 256 < 256) by (bit_vector);
    assert(x == (x % 256) + 256 * (x / 256 % 256)) by (bit_vector);
}
proof fn lemma_le32_inv(x: u32) ensures dle32(le32(x), 0) == x
{
    reveal(byte_of);
    assert(x % 256 < 256 && x / 256 % 256 < 256 && x / 65536 % 256 < 256 && x / 16777216 % 256 < 256) by (bit_vector);
    assert(x == (x % 256) + 256 * (x / 256 % 256) + 65536 * (x / 65536 % 256) + 16777216 * (x / 16777216 % 256)) by (bit_vector);
}
proof fn lemma_le64_inv(x: u64) ensures dle64(le64(x), 0) == x
{
    reveal(byte_of);
    assert(x % 256 < 256 && x / 256 % 256 < 256 && x / 65536 % 256 < 256 && x / 16777216 % 256 < 256
        && x / 4294967296 % 256 < 256 && x / 1099511627776 % 256 < 256 && x / 281474976710656 % 256 < 256 && x / 72057594037927936 % 256 < 256) by (bit_vector);
    assert(x == (x % 256) + 256 * (x / 256 % 256) + 65536 * (x / 65536 % 256) + 16777216 * (x / 16777216 % 256)
        + 4294967296 * ((x / 4294967296 % 256) + 256 * (x / 1099511627776 % 256) + 65536 * (x / 281474976710656 % 256) + 16777216 * (x / 72057594037927936 % 256))) by (bit_vector);
}
proof fn lemma_rd32(img: Seq<u8>, q: int, it: Seq<u8>, off: int, x: u32)
    requires 0 <= q, 0 <= off, off + 4 <= it.len(), q + it.len() <= img.len(), seg(img, q, it.len() as int) == it, it.subrange(off, off + 4) == le32(x),
    ensures dle32(img, q + off) == x,
{
    let t = img.subrange(q + off, q + off + 4);
    assert(t =~= seg(img, q, it.len() as int).subrange(off, off + 4));
    lemma_le32_inv(x);
    assert(t[0] == img[q + off] && t[1] == img[q + off + 1] && t[2] == img[q + off + 2] && t[3] == img[q + off + 3]);
}
proof fn lemma_rd64(img: Seq<u8>, q: int, it: Seq<u8>, off: int, x: u64)
    requires 0 <= q, 0 <= off, off + 8 <= it.len(), q + it.len() <= img.len(), seg(img, q, it.len() as int) == it, it.subrange(off, off + 8) == le64(x),
    ensures dle64(img, q + off) == x,
{
    let t = img.subrange(q + off, q + off + 8);
    assert(t =~= seg(img, q, it.len() as int).subrange(off, off + 8));
    lemma_le64_inv(x);
    assert(t[0] == img[q + off] && t[1] == img[q + off + 1] && t[2] == img[q + off + 2] && t[3] == img[q + off + 3]
        && t[4] == img[q + off + 4] && t[5] == img[q + off + 5] && t[6] == img[q + off + 6] && t[7] == img[q + off + 7]);
}
proof fn lemma_rd16(img: Seq<u8>, q: int, it: Seq<u8>, off: int, x: u16)
    requires 0 <= q, 0 <= off, off + 2 <= it.len(), q + it.len() <= img.len(), seg(img, q, it.len() as int) == it, it.subrange(off, off + 2) == le16(x),
    ensures dle16(img, q + off) == x,
{
    let t = img.subrange(q + off, q + off + 2);
    assert(t =~= seg(img, q, it.len() as int).subrange(off, off + 2));
    lemma_le16_inv(x);
    assert(t[0] == img[q + off] && t[1] == img[q + off + 1]);
}
proof fn lemma_leaf_item_decodes(img: Seq<u8>, q: int, x: Section)
    requires 0 <= q, q + 32 <= img.len(), seg(img, q, 32) == put_leaf_item(Seq::<u8>::empty(), x),
    ensures rd_leaf_item(img, q, x),
{
    let it = put_leaf_item(Seq::<u8>::empty(), x);
    assert(it.len() == 32);
    assert(it.subrange(0, 4) =~= le32(x.chrom));
    assert(it.subrange(4, 8) =~= le32(x.start));
    assert(it.subrange(8, 12) =~= le32(x.chrom));
    assert(it.subrange(12, 16) =~= le32(x.end));
    assert(it.subrange(16, 24) =~= le64(x.offset));
    assert(it.subrange(24, 32) =~= le64(x.size));
    lemma_rd32(img, q, it, 0, x.chrom); lemma_rd32(img, q, it, 4, x.start);
    lemma_rd32(img, q, it, 8, x.chrom); lemma_rd32(img, q, it, 12, x.end);
    lemma_rd64(img, q, it, 16, x.offset); lemma_rd64(img, q, it, 24, x.size);
}
proof fn lemma_nl_item_decodes(img: Seq<u8>, q: int, c: RTreeNode, ptr: int)
    requires 0 <= q, q + 24 <= img.len(), 0 <= ptr <= u64::MAX, seg(img, q, 24) == put_nl_item(Seq::<u8>::empty(), c, ptr),
    ensures rd_nl_item(img, q, c), dle64(img, q + 16) == ptr,
{
    let it = put_nl_item(Seq::<u8>::empty(), c, ptr);
    assert(it.len() == 24);
    assert(it.subrange(0, 4) =~= le32(c.start_chrom_idx));
    assert(it.subrange(4, 8) =~= le32(c.start_base));
    assert(it.subrange(8, 12) =~= le32(c.end_chrom_idx));
    assert(it.subrange(12, 16) =~= le32(c.end_base));
    assert(it.subrange(16, 24) =~= le64(ptr as u64));
    lemma_rd32(img, q, it, 0, c.start_chrom_idx); lemma_rd32(img, q, it, 4, c.start_base);
    lemma_rd32(img, q, it, 8, c.end_chrom_idx); lemma_rd32(img, q, it, 12, c.end_base);
    lemma_rd64(img, q, it, 16, ptr as u64);
}
// ---- item i of a node sits at offset 32*i / 24*i of the item area ----
proof fn lemma_leaf_item_at(v: Seq<Section>, n: int, i: int)
    requires 0 <= i < n,
    ensures
        put_leaf_items(Seq::<u8>::empty(), v, n).len() == 32 * n,
        seg(put_leaf_items(Seq::<u8>::empty(), v, n), 32 * i, 32) == put_leaf_item(Seq::<u8>::empty(), v[i]),
    decreases n,
{
    let e = Seq::<u8>::empty();
    let p = put_leaf_items(e, v, n - 1);
    let whole = put_leaf_items(e, v, n);
    lemma_leaf_items_len(e, v, n);
    lemma_leaf_items_len(e, v, n - 1);
    assert(whole =~= p + put_leaf_item(e, v[n - 1]));
    if i == n - 1 {
        assert(seg(whole, 32 * i, 32) =~= put_leaf_item(e, v[n - 1]));
    } else {
        lemma_leaf_item_at(v, n - 1, i);
        assert(seg(whole, 32 * i, 32) =~= seg(p, 32 * i, 32));
    }
}
proof fn lemma_nl_item_at(s: Seq<RTreeNode>, kl: int, kidpos: int, n: int, i: int)
    requires 0 <= i < n,
    ensures
        put_nl_items(Seq::<u8>::empty(), s, kl, kidpos, n).len() == 24 * n,
        seg(put_nl_items(Seq::<u8>::empty(), s, kl, kidpos, n), 24 * i, 24) == put_nl_item(Seq::<u8>::empty(), s[i], kidpos + sz_kids(s, kl, kl, i)),
    decreases n,
{
    let e = Seq::<u8>::empty();
    let p = put_nl_items(e, s, kl, kidpos, n - 1);
    let whole = put_nl_items(e, s, kl, kidpos, n);
    let ptr = kidpos + sz_kids(s, kl, kl, n - 1);
    lemma_nl_items_len(e, s, kl, kidpos, n);
    lemma_nl_items_len(e, s, kl, kidpos, n - 1);
    assert(whole =~= p + put_nl_item(e, s[n - 1], ptr));
    if i == n - 1 {
        assert(seg(whole, 24 * i, 24) =~= put_nl_item(e, s[n - 1], ptr));
    } else {
        lemma_nl_item_at(s, kl, kidpos, n - 1, i);
        assert(seg(whole, 24 * i, 24) =~= seg(p, 24 * i, 24));
    }
}
/// header of a stored node as a reader sees it
proof fn lemma_node_hdr_decodes(img: Seq<u8>, p: int, t: RTreeChildren, lvl: int, kidpos: int, n: int, leaf: bool, items: Seq<u8>)
    requires
        node_bytes_at(img, p, t, lvl, kidpos), 0 <= n <= 65535,
        put_node(Seq::<u8>::empty(), t, lvl, kidpos) == put_hdr(Seq::<u8>::empty(), leaf, n) + items,
    ensures
        img[p] == (if leaf { 1u8 } else { 0u8 }), img[p + 1] == 0, dle16(img, p + 2) == n,
        forall|a: int, w: int| 0 <= a && 0 <= w && a + w <= items.len() ==> #[trigger] seg(img, p + 4 + a, w) == seg(items, a, w),
{
    let e = Seq::<u8>::empty();
    let nb = put_node(e, t, lvl, kidpos);
    let h = put_hdr(e, leaf, n);
    assert(h.len() == 4);
    assert(nb.len() == node_size(t)) by { lemma_node_len(e, t, lvl, kidpos); }
    assert(seg(img, p, node_size(t))[0] == nb[0]);
    assert(seg(img, p, node_size(t))[1] == nb[1]);
    assert(nb.subrange(2, 4) =~= le16(n as u16));
    lemma_rd16(img, p, nb, 2, n as u16);
    assert forall|a: int, w: int| 0 <= a && 0 <= w && a + w <= items.len() implies #[trigger] seg(img, p + 4 + a, w) == seg(items, a, w) by {
        assert(seg(img, p + 4 + a, w) =~= seg(img, p, node_size(t)).subrange(4 + a, 4 + a + w));
        assert(nb.subrange(4 + a, 4 + a + w) =~= seg(items, a, w));
    }
}
/// from positions to a reader: a stored well-formed subtree decodes at its root position
proof fn lemma_stored_decodes(img: Seq<u8>, t: RTreeChildren, cur: int, st: Seq<int>, b: int)
    requires stored(img, t, cur, st), wf(t, cur, b, true), b <= 65535, img.len() <= u64::MAX,
    ensures decodes(img, st[cur], t, cur),
    decreases cur,
{
    let e = Seq::<u8>::empty();
    let p = st[cur];
    let kidpos = if cur >= 1 { st[cur - 1] } else { 0 };
    match t {
        RTreeChildren::DataSections(v) => {
            let n = v@.len() as int;
            let items = put_leaf_items(e, v@, n);
            lemma_leaf_items_app(put_hdr(e, true, n), v@, n);
            lemma_leaf_items_len(e, v@, n);
            lemma_node_hdr_decodes(img, p, t, cur, kidpos, n, true, items);
            assert forall|i: int| 0 <= i < n implies rd_leaf_item(img, p + 4 + 32 * i, #[trigger] v@[i]) by {
                lemma_leaf_item_at(v@, n, i);
                assert(seg(img, p + 4 + 32 * i, 32) == seg(items, 32 * i, 32));
                lemma_leaf_item_decodes(img, p + 4 + 32 * i, v@[i]);
            }
        }
        RTreeChildren::Nodes(v) => {
            let s = v@;
            let n = s.len() as int;
            let kl = cur - 1;
            let items = put_nl_items(e, s, kl, kidpos, n);
            lemma_nl_items_app(put_hdr(e, false, n), s, kl, kidpos, n);
            lemma_nl_items_len(e, s, kl, kidpos, n);
            lemma_node_hdr_decodes(img, p, t, cur, kidpos, n, false, items);
            assert forall|i: int| 0 <= i < n implies rd_nl_item(img, p + 4 + 24 * i, #[trigger] s[i])
                    && decodes(img, dle64(img, p + 4 + 24 * i + 16), s[i].children, cur - 1) by {
                let kst = kid_st(st, s, kl, i);
                let ptr = kidpos + sz_kids(s, kl, kl, i);
                assert(stored(img, s[i].children, kl, kst));
                assert(kst[kl] == ptr);
                lemma_kid_wf(s, kl, b, true, i);
                lemma_stored_decodes(img, s[i].children, kl, kst, b);
                lemma_nl_item_at(s, kl, kidpos, n, i);
                assert(seg(img, p + 4 + 24 * i, 24) == seg(items, 24 * i, 24));
                lemma_nl_item_decodes(img, p + 4 + 24 * i, s[i], ptr);
            }
        }
    }
}
proof fn lemma_header_decodes(b0: Seq<u8>, rest: Seq<u8>, block_size: u32, item_count: u64, st: (u32, u32), en: (u32, u32), end_of_data: u64, items_per_slot: u32)
    requires fmt_cir_header(b0, block_size, item_count, st, en, end_of_data, items_per_slot).is_prefix_of(rest),
    ensures rd_header(rest, b0.len() as int, block_size, item_count, st, en, end_of_data, items_per_slot),
{
    let e = Seq::<u8>::empty();
    let hdr = fmt_cir_header(b0, block_size, item_count, st, en, end_of_data, items_per_slot);
    let h = b0.len() as int;
    let it = fmt_cir_header(e, block_size, item_count, st, en, end_of_data, items_per_slot);
    assert(it.len() == 48);
    assert(hdr =~= b0 + it);
    assert(seg(rest, h, 48) =~= it) by {
        assert(rest.subrange(0, hdr.len() as int) == hdr);
        assert forall|j: int| 0 <= j < 48 implies seg(rest, h, 48)[j] == it[j] by {
            assert(rest.subrange(0, hdr.len() as int)[h + j] == rest[h + j]);
        }
    }
    assert(it.subrange(0, 4) =~= le32(0x2468ACE0u32));
    assert(it.subrange(4, 8) =~= le32(block_size));
    assert(it.subrange(8, 16) =~= le64(item_count));
    assert(it.subrange(16, 20) =~= le32(st.0));
    assert(it.subrange(20, 24) =~= le32(st.1));
    assert(it.subrange(24, 28) =~= le32(en.0));
    assert(it.subrange(28, 32) =~= le32(en.1));
    assert(it.subrange(32, 40) =~= le64(end_of_data));
    assert(it.subrange(40, 44) =~= le32(items_per_slot));
    assert(it.subrange(44, 48) =~= le32(0u32));
    lemma_rd32(rest, h, it, 0, 0x2468ACE0u32); lemma_rd32(rest, h, it, 4, block_size); lemma_rd64(rest, h, it, 8, item_count);
    lemma_rd32(rest, h, it, 16, st.0); lemma_rd32(rest, h, it, 20, st.1); lemma_rd32(rest, h, it, 24, en.0); lemma_rd32(rest, h, it, 28, en.1);
    lemma_rd64(rest, h, it, 32, end_of_data); lemma_rd32(rest, h, it, 40, items_per_slot); lemma_rd32(rest, h, it, 44, 0u32);
}
/// THE reader-side theorem for the image that write_rtreeindex is proved to produce
proof fn lemma_index_decodes(b0: Seq<u8>, t: RTreeChildren, levels: int, block_size: u32, item_count: u64, items_per_slot: u32)
    requires
        wf(t, levels, block_size as int, true), levels >= 0, block_size <= 65535,
        b0.len() + 48 + above(t, levels, 0) <= u64::MAX,
    ensures
        
        decodes(fmt_index(b0, t, levels, block_size, item_count, items_per_slot), b0.len() as int + 48, t, levels),
        
        rd_header(fmt_index(b0, t, levels, block_size, item_count, items_per_slot), b0.len() as int, block_size, item_count,
                  root_start(t), root_end(t), b0.len() as u64, items_per_slot),
{
    let img = fmt_index(b0, t, levels, block_size, item_count, items_per_slot);
    let p0 = b0.len() as int + 48;
    let hdr = fmt_cir_header(b0, block_size, item_count, root_start(t), root_end(t), b0.len() as u64, items_per_slot);
    lemma_wf_depth(t, levels, block_size as int, true);
    lemma_index_stored(b0, t, levels, block_size, item_count, items_per_slot);
    assert(hdr.len() == p0);
    lemma_down_len(hdr, t, levels, 0, p0);
    lemma_stored_decodes(img, t, levels, top_st(t, levels, p0), block_size as int);
    lemma_down_prefix(hdr, t, levels, 0, p0);
    lemma_header_decodes(b0, img, block_size, item_count, root_start(t), root_end(t), b0.len() as u64, items_per_slot);
}


// ---------------- verified stand-ins for the iterator-adaptor expressions of write_rtreeindex ----------------
// (exact-text //@sub; ASSUMED: `.iter().map(|s| (a, b)).max()` is the lexicographic maximum of the pairs
//  -- Ord for tuples -- and `.first()` is element 0)
fn first_start_sections(v: &Vec<Section>) -> (r: (u32, u32))
    ensures r == (if v@.len() == 0 { (0u32, 0u32) } else { (v@[0].chrom, v@[0].start) }),
{
    if v.len() == 0 { (0, 0) } else { (v[0].chrom, v[0].start) }
}
fn first_child(v: &Vec<RTreeNode>) -> (r: &RTreeNode)
    requires v@.len() > 0,
    ensures *r == v@[0],
{
    &v[0]
}
fn pos_le_exec(a: (u32, u32), b: (u32, u32)) -> (r: bool)
    ensures r == pos_le(a, b),
{
    a.0 < b.0 || (a.0 == b.0 && a.1 <= b.1)
}
fn max_end_sections(v: &Vec<Section>) -> (r: (u32, u32))
    ensures
        
        r == max_end_secs(v@, v@.len() as int),
{
    let mut m: (u32, u32) = (0, 0);
    let mut i: usize = 0;
    while i < v.len()
        invariant i <= v.len(), m == max_end_secs(v@, i as int),
        decreases v.len() - i,
    {
        let e = (v[i].chrom, v[i].end);
        if pos_le_exec(m, e) { m = e; }
        i = i + 1;
    }
    m
}
// the same two expressions with a default other than `(0, 0)` (`Option::unwrap_or(d)`: `d` iff the vector is empty)
fn first_start_sections_or(v: &Vec<Section>, d: (u32, u32)) -> (r: (u32, u32))
    ensures r == (if v@.len() == 0 { d } else { (v@[0].chrom, v@[0].start) }),
{
    if v.len() == 0 { d } else { (v[0].chrom, v[0].start) }
}
fn max_end_sections_or(v: &Vec<Section>, d: (u32, u32)) -> (r: (u32, u32))
    ensures r == (if v@.len() == 0 { d } else { max_end_secs(v@, v@.len() as int) }),
{
    if v.len() == 0 { d } else { max_end_sections(v) }
}
fn max_end_children(v: &Vec<RTreeNode>) -> (r: (u32, u32))
    requires v@.len() > 0,
    ensures
        
        r == max_end_nodes(v@, v@.len() as int),
{
    let mut m: (u32, u32) = (0, 0);
    let mut i: usize = 0;
    while i < v.len()
        invariant i <= v.len(), m == max_end_nodes(v@, i as int),
        decreases v.len() - i,
    {
        let e = (v[i].end_chrom_idx, v[i].end_base);
        if pos_le_exec(m, e) { m = e; }
        i = i + 1;
    }
    m
}

// ================= code under contract =================
fn calculate_offsets(index_offsets: &mut Vec<u64>, nodes: &RTreeChildren, level: usize)
    requires
        
        depth_ok(*nodes, level as int),
        old(index_offsets)@.len() >= level,
        forall|k: int| 0 <= k < level ==> (#[trigger] old(index_offsets)@[k]) + sz(*nodes, level as int, k + 1) <= u64::MAX,
    ensures
        
        final(index_offsets)@.len() == old(index_offsets)@.len(),
        
        forall|k: int| 0 <= k < level ==> (#[trigger] final(index_offsets)@[k]) == old(index_offsets)@[k] + sz(*nodes, level as int, k + 1),
        
        forall|k: int| level <= k < old(index_offsets)@.len() ==> (#[trigger] final(index_offsets)@[k]) == old(index_offsets)@[k],
    decreases
        
        nodes,
{
    match nodes {
        RTreeChildren::DataSections(_) => (),
        RTreeChildren::Nodes(children) => {

            let ghost s = children@;
            let ghost lv = level as int;
            proof {
                assert(old(index_offsets)@[lv - 1] + sz(*nodes, lv, lv - 1 + 1) <= u64::MAX);
                lemma_szk_above(s, lv - 1, lv, 0);
                lemma_szk_above(s, lv - 1, lv, s.len() as int);
                assert forall|k: int| 0 <= k < lv implies (#[trigger] old(index_offsets)@[k]) + hdr_part(k, lv, s.len() as int) + sz_kids(s, lv - 1, k + 1, s.len() as int) <= u64::MAX by {
                    assert(old(index_offsets)@[k] + sz(*nodes, lv, k + 1) <= u64::MAX);
                }
            }
            index_offsets.set(level - 1, index_offsets[level - 1] + NODEHEADER_SIZE);
            for i__1 in 0..children.len() 
                invariant
                    
                    *nodes == RTreeChildren::Nodes(*children), s == children@, lv == level as int, lv >= 1,
                    forall|i: int| 0 <= i < s.len() ==> depth_ok((#[trigger] s[i]).children, lv - 1),
                    index_offsets@.len() == old(index_offsets)@.len(), index_offsets@.len() >= level,
                    forall|k: int| 0 <= k < lv ==> (#[trigger] old(index_offsets)@[k]) + hdr_part(k, lv, s.len() as int) + sz_kids(s, lv - 1, k + 1, s.len() as int) <= u64::MAX,
                    
                    forall|k: int| 0 <= k < lv ==> (#[trigger] index_offsets@[k]) == old(index_offsets)@[k] + hdr_part(k, lv, i__1 as int) + sz_kids(s, lv - 1, k + 1, i__1 as int),
                    
                    forall|k: int| lv <= k < index_offsets@.len() ==> (#[trigger] index_offsets@[k]) == old(index_offsets)@[k],
{ let child = &children[i__1];

                let ghost io1 = index_offsets@;
                proof {
                    lemma_szk_above(s, lv - 1, lv, i__1 as int);
                    lemma_szk_above(s, lv - 1, lv, i__1 + 1);
                    lemma_szk_above(s, lv - 1, lv, s.len() as int);
                    assert(old(index_offsets)@[lv - 1] + hdr_part(lv - 1, lv, s.len() as int) + sz_kids(s, lv - 1, lv - 1 + 1, s.len() as int) <= u64::MAX);
                    assert(index_offsets@[lv - 1] == old(index_offsets)@[lv - 1] + hdr_part(lv - 1, lv, i__1 as int) + sz_kids(s, lv - 1, lv - 1 + 1, i__1 as int));
                }
                index_offsets.set(level - 1, index_offsets[level - 1] + NON_LEAFNODE_SIZE);

                let ghost io2 = index_offsets@;
                proof {
                    assert(*child == s[i__1 as int]);
                    assert(nodes->Nodes_0 == *children);
                    assert(decreases_to!(*nodes => nodes->Nodes_0));
                    assert(decreases_to!(*nodes => *children));
                    assert(decreases_to!(*children => children@[i__1 as int]));
                    assert(decreases_to!(children@[i__1 as int] => children@[i__1 as int].children));
                    assert(decreases_to!(nodes => child.children));
                    assert forall|k: int| 0 <= k < lv - 1 implies (#[trigger] io2[k]) + sz(child.children, lv - 1, k + 1) <= u64::MAX by {
                        assert(io2[k] == io1[k]);
                        assert(io1[k] == old(index_offsets)@[k] + hdr_part(k, lv, i__1 as int) + sz_kids(s, lv - 1, k + 1, i__1 as int));
                        assert(old(index_offsets)@[k] + hdr_part(k, lv, s.len() as int) + sz_kids(s, lv - 1, k + 1, s.len() as int) <= u64::MAX);
                        lemma_szk_mono(s, lv - 1, k + 1, i__1 + 1, s.len() as int);
                    }
                }
                calculate_offsets(index_offsets, &child.children, level - 1);

                proof {
                    
                    assert forall|k: int| 0 <= k < lv implies (#[trigger] index_offsets@[k]) == old(index_offsets)@[k] + hdr_part(k, lv, i__1 + 1) + sz_kids(s, lv - 1, k + 1, i__1 + 1) by {
                        assert(io1[k] == old(index_offsets)@[k] + hdr_part(k, lv, i__1 as int) + sz_kids(s, lv - 1, k + 1, i__1 as int));
                        if k < lv - 1 {
                            assert(io2[k] == io1[k]);
                            assert(index_offsets@[k] == io2[k] + sz(child.children, lv - 1, k + 1));
                        } else {
                            assert(index_offsets@[k] == io2[k]);
                        }
                    }
                    assert forall|k: int| lv <= k < index_offsets@.len() implies (#[trigger] index_offsets@[k]) == old(index_offsets)@[k] by {
                        assert(index_offsets@[k] == io2[k]);
                        assert(io2[k] == io1[k]);
                    }
                }
            }
        }
    }

    proof {
        match nodes {
            RTreeChildren::DataSections(_) => {}
            RTreeChildren::Nodes(children) => {
                lemma_szk_above(children@, level - 1, level as int, children@.len() as int);
                assert forall|k: int| 0 <= k < level implies (#[trigger] index_offsets@[k]) == old(index_offsets)@[k] + sz(*nodes, level as int, k + 1) by {
                    assert(index_offsets@[k] == old(index_offsets)@[k] + hdr_part(k, level as int, children@.len() as int) + sz_kids(children@, level - 1, k + 1, children@.len() as int));
                }
            }
        }
    }
}

fn write_tree(
    file: &mut ASink,
    nodes: &RTreeChildren,
    curr_level: usize,
    dest_level: usize,
    childnode_offset: u64,
    options: &BBIWriteOptions,
) -> (r: Result<u64, IoError>)
    requires
        
        wf(*nodes, curr_level as int, options.block_size as int, true),
        dest_level <= curr_level,
        options.block_size <= 65535,
        childnode_offset + rv(*nodes, curr_level as int, dest_level as int, options.block_size as int) <= u64::MAX,
    ensures
        
        r matches Ok(ret) ==> final(file)@ == fmt_level(old(file)@, *nodes, curr_level as int, dest_level as int, kp(dest_level as int, childnode_offset as int)),
        
        r matches Ok(ret) ==> final(file)@.len() == old(file)@.len() + sz(*nodes, curr_level as int, dest_level as int),
        
        r matches Ok(ret) ==> (dest_level >= 1 && wf(*nodes, curr_level as int, options.block_size as int, false) ==> ret == sz(*nodes, curr_level as int, dest_level - 1)),
        
        r matches Ok(ret) ==> (dest_level == 0 ==> ret == sz(*nodes, curr_level as int, 0)),
        
        r matches Ok(ret) ==> ret == rv(*nodes, curr_level as int, dest_level as int, options.block_size as int),
    decreases
        
        nodes,
{
    let ghost b = options.block_size as int;
    let ghost cur = curr_level as int;
    let ghost dest = dest_level as int;
    let ghost kp0 = kp(dest, childnode_offset as int);
    assert(NODEHEADER_SIZE == 4 && NON_LEAFNODE_SIZE == 24 && LEAFNODE_SIZE == 32); 

    let non_leafnode_full_block_size: u64 =
        NODEHEADER_SIZE + NON_LEAFNODE_SIZE * u64::from(options.block_size);
    let leafnode_full_block_size: u64 =
        NODEHEADER_SIZE + LEAFNODE_SIZE * u64::from(options.block_size);

    assert(curr_level >= dest_level); 
    assert(curr_level >= dest_level);
    if curr_level != dest_level {
        let mut next_offset_offset = 0;
        match nodes {
            RTreeChildren::DataSections(_) => {

                assert(false); 
                vpanic()
            }
            RTreeChildren::Nodes(children) => {

                let ghost s = children@;
                proof {
                    assert(kids_wf(s, cur - 1, b, true));
                    assert(rv(*nodes, cur, dest, b) == rv_kids(s, cur - 1, dest, b, s.len() as int));
                }
                for i__1 in 0..children.len() 
                    invariant
                        
                        *nodes == RTreeChildren::Nodes(*children), s == children@, b == options.block_size as int, cur == curr_level as int, dest == dest_level as int,
                        kp0 == kp(dest, childnode_offset as int), 0 <= dest < cur, options.block_size <= 65535,
                        kids_wf(s, cur - 1, b, true),
                        childnode_offset + rv_kids(s, cur - 1, dest, b, s.len() as int) <= u64::MAX,
                        
                        file@ == fmt_kids(old(file)@, s, cur - 1, dest, kp0, i__1 as int),
                        
                        next_offset_offset == rv_kids(s, cur - 1, dest, b, i__1 as int),
{ let child = &children[i__1];

                    let ghost f0 = file@;
                    proof {
                        assert(*child == s[i__1 as int]);
                        assert(nodes->Nodes_0 == *children);
                        assert(decreases_to!(*nodes => nodes->Nodes_0));
                        assert(decreases_to!(*children => children@[i__1 as int]));
                        assert(decreases_to!(nodes => child.children));
                        lemma_descend(s, cur - 1, dest, b, true, i__1 as int, childnode_offset as int);
                    }
                    let size = write_tree(
                        file,
                        &child.children,
                        curr_level - 1,
                        dest_level,
                        childnode_offset + next_offset_offset,
                        options,
                    )?;
                    next_offset_offset += size;

                    proof {
                        assert(file@ == fmt_level(f0, s[i__1 as int].children, cur - 1, dest, kp0 + sz_kids(s, cur - 1, dest - 1, i__1 as int))); 
                        assert(file@ == fmt_kids(old(file)@, s, cur - 1, dest, kp0, i__1 + 1));
                    }
                }
            }
        }

        proof {
            lemma_post(old(file)@, *nodes, cur, dest, b, kp0);
        }
        return Ok(next_offset_offset);
    }

    match &nodes {
        RTreeChildren::DataSections(sections) => {

            assert(sections.len() <= 65535); 
            let ghost h0 = put_hdr(old(file)@, true, sections@.len() as int);
            file.put_u8(1)?;
            file.put_u8(0)?;
            file.put_u16(sections.len() as u16)?;

            assert(file@ == h0); 
            for i__2 in 0..sections.len() 
                invariant
                    
                    file@ == put_leaf_items(h0, sections@, i__2 as int),
{ let section = &sections[i__2];

                let ghost b0 = file@;
                file.put_u32(section.chrom)?;
                file.put_u32(section.start)?;
                file.put_u32(section.chrom)?;
                file.put_u32(section.end)?;
                file.put_u64(section.offset)?;
                file.put_u64(section.size)?;

                proof {
                    assert(file@ == put_leaf_item(b0, *section)); 
                }
            }

            proof {
                lemma_post(old(file)@, *nodes, cur, dest, b, kp0);
            }
            Ok(4 + sections.len() as u64 * 32)
        }
        RTreeChildren::Nodes(children) => {

            assert(children.len() <= 65535); 
            let ghost s = children@;
            let ghost h0 = put_hdr(old(file)@, false, s.len() as int);
            proof {
                assert(kids_wf(s, cur - 1, b, true));
                lemma_mul_mono(0, s.len() as int, full(cur - 1, b));
            }
            file.put_u8(0)?;
            file.put_u8(0)?;
            file.put_u16(children.len() as u16)?;

            assert(file@ == h0); 
            let full_size = if (curr_level - 1) > 0 {
                non_leafnode_full_block_size
            } else {
                leafnode_full_block_size
            };
            for idx in 0..children.len() 
                invariant
                    
                    s == children@, b == options.block_size as int, cur == curr_level as int, cur >= 1, 0 <= b <= 65535, s.len() <= b,
                    kids_wf(s, cur - 1, b, true),
                    
                    full_size == full(cur - 1, b),
                    
                    childnode_offset + s.len() * full(cur - 1, b) <= u64::MAX,
                    
                    file@ == put_nl_items(h0, s, cur - 1, childnode_offset as int, idx as int),
{ let child = &children[idx];

                let ghost b0 = file@;
                proof {
                    lemma_pointer(s, cur - 1, b, true, idx as int);
                }
                let child_offset: u64 = childnode_offset + idx as u64 * full_size;
                file.put_u32(child.start_chrom_idx)?;
                file.put_u32(child.start_base)?;
                file.put_u32(child.end_chrom_idx)?;
                file.put_u32(child.end_base)?;
                file.put_u64(child_offset)?;

                proof {
                    assert(child_offset == childnode_offset + sz_kids(s, cur - 1, cur - 1, idx as int)); 
                    assert(file@ == put_nl_item(b0, *child, childnode_offset + sz_kids(s, cur - 1, cur - 1, idx as int))); 
                }
            }

            proof {
                lemma_post(old(file)@, *nodes, cur, dest, b, kp0);
            }
            Ok(children.len() as u64 * full_size)
        }
    }
}

fn write_rtreeindex(
    file: &mut ASink,
    nodes: RTreeChildren,
    levels: usize,
    section_count: u64,
    options: &BBIWriteOptions,
) -> (r: Result<(), IoError>)
    requires
        
        wf(nodes, levels as int, options.block_size as int, true),
        options.block_size <= 65535,
        levels < usize::MAX,
        old(file)@.len() + 48 + above(nodes, levels as int, 0) + 4 + 32 * options.block_size <= u64::MAX,
    ensures
        
        r is Ok ==> final(file)@ == fmt_index(old(file)@, nodes, levels as int, options.block_size, section_count, options.items_per_slot),
        
        r is Ok ==> final(file)@.len() == old(file)@.len() + 48 + above(nodes, levels as int, 0),
        
        r is Ok ==> old(file)@.is_prefix_of(final(file)@),
        
        r is Ok ==> rd_header(final(file)@, old(file)@.len() as int, options.block_size, section_count, root_start(nodes), root_end(nodes), old(file)@.len() as u64, options.items_per_slot),
        
        r is Ok ==> decodes(final(file)@, old(file)@.len() as int + 48, nodes, levels as int),
{
    let ghost b = options.block_size as int;
    let ghost lv = levels as int;
    let ghost p0 = old(file)@.len() as int + 48;

    let mut index_offsets: Vec<u64> = vec![0u64; levels as usize];


    proof {
        lemma_wf_depth(nodes, lv, b, true);
        assert forall|k: int| 0 <= k < lv implies (#[trigger] index_offsets@[k]) + sz(nodes, lv, k + 1) <= u64::MAX by {
            lemma_above_bounds(nodes, lv, k + 1);
        }
    }
    calculate_offsets(&mut index_offsets, &nodes, levels);

    let end_of_data = file.pos()?;

    assert(CIR_TREE_MAGIC == 0x2468ACE0u32); 
    file.put_u32(CIR_TREE_MAGIC)?;
    file.put_u32(options.block_size)?;
    file.put_u64(section_count)?;
    match &nodes {
        RTreeChildren::DataSections(sections) => {
            // An empty index (no sections) has empty bounds
            let (start_chrom_idx, start_base) = first_start_sections(sections);
            let (end_chrom_idx, end_base) = max_end_sections(sections);
            file.put_u32(start_chrom_idx)?;
            file.put_u32(start_base)?;
            file.put_u32(end_chrom_idx)?;
            file.put_u32(end_base)?;
        }
        RTreeChildren::Nodes(children) => {
            let (end_chrom_idx, end_base) = max_end_children(children);
            file.put_u32(first_child(children).start_chrom_idx)?;
            file.put_u32(first_child(children).start_base)?;
            file.put_u32(end_chrom_idx)?;
            file.put_u32(end_base)?;
        }
    }
    file.put_u64(end_of_data)?;
    file.put_u32(options.items_per_slot)?;
    file.put_u32(0)?;


    let ghost hdr = file@;
    proof {
        assert(hdr == fmt_cir_header(old(file)@, options.block_size, section_count, root_start(nodes), root_end(nodes), old(file)@.len() as u64, options.items_per_slot)); 
        assert(hdr.len() == p0); 
    }
    let mut next_offset = file.pos()?;
    let mut lv__: usize = levels + 1; while lv__ > 0 
        invariant
            
            b == options.block_size as int, lv == levels as int, b <= 65535, lv__ <= levels + 1, levels < usize::MAX,
            wf(nodes, lv, b, true),
            hdr.len() == p0, p0 + above(nodes, lv, 0) + 4 + 32 * b <= u64::MAX,
            index_offsets@.len() == levels,
            forall|k: int| 0 <= k < lv ==> (#[trigger] index_offsets@[k]) == sz(nodes, lv, k + 1),
            
            file@ == fmt_down(hdr, nodes, lv, lv__ as int, p0),
            
            next_offset == p0 + above(nodes, lv, if lv__ < 1 { 1 } else { lv__ as int }),
        decreases
            
            lv__,
{ lv__ = lv__ - 1; let level = lv__;

        proof {
            lemma_above_bounds(nodes, lv, level as int);
            lemma_above_bounds(nodes, lv, level + 1);
            lemma_rv(nodes, lv, level as int, b, true);
            if level > 0 { lemma_above_bounds(nodes, lv, level - 1); }
        }
        if level > 0 {
            next_offset += index_offsets[level - 1];
        }
        write_tree(file, &nodes, levels, level, next_offset, options)?;

        proof {
            assert(file@ == fmt_down(hdr, nodes, lv, level as int, p0)); 
        }
    }


    proof {
        lemma_down_len(hdr, nodes, lv, 0, p0);
        lemma_above_bounds(nodes, lv, 0);
        lemma_index_stored(old(file)@, nodes, lv, options.block_size, section_count, options.items_per_slot);
        lemma_index_decodes(old(file)@, nodes, lv, options.block_size, section_count, options.items_per_slot);
    }
    Ok(())
}

} // verus!
fn main() {}

