// bigbedread::get_block_entries (+ its closure `read_entry`, lifted by R10): one (uncompressed)
// bigBed data block -> the entries touching [start, end], in stored order.
// C04: per-block statement (exact inclusive filter, order, nothing else; corollaries: no overlapping
// entry missed, nothing wholly outside).  C10: either byte order (symbolic `endianness`); the record
// decoder `read_entry` has a reader-side contract over ARBITRARY bytes.  C02: `bb_roundtrip` joins the
// reader's statement with the writer's format vocabulary (fmt_bb_section, copied from unit bb_enc).
use vstd::prelude::*;
verus! {
// ---- shared byte-level prelude ---------------------------------------------
// Format vocabulary written from the published BBI layout (Kent et al. 2010),
// as arithmetic on byte values - not as calls to from_le_bytes/to_le_bytes.
/// k-th base-256 digit of x (opaque: the div/mod arithmetic is only unfolded inside the codec lemmas)
#[verifier::opaque]
pub open spec fn byte_of(x: int, k: int) -> u8 {
    if k == 0 { (x % 256) as u8 } else if k == 1 { (x / 256 % 256) as u8 } else if k == 2 { (x / 65536 % 256) as u8 }
    else if k == 3 { (x / 16777216 % 256) as u8 } else if k == 4 { (x / 4294967296 % 256) as u8 }
    else if k == 5 { (x / 1099511627776 % 256) as u8 } else if k == 6 { (x / 281474976710656 % 256) as u8 }
    else { (x / 72057594037927936 % 256) as u8 }
}
pub open spec fn le16(x: u16) -> Seq<u8> { seq![byte_of(x as int, 0), byte_of(x as int, 1)] }
pub open spec fn le32(x: u32) -> Seq<u8> { seq![byte_of(x as int, 0), byte_of(x as int, 1), byte_of(x as int, 2), byte_of(x as int, 3)] }
pub open spec fn le64(x: u64) -> Seq<u8> {
    seq![byte_of(x as int, 0), byte_of(x as int, 1), byte_of(x as int, 2), byte_of(x as int, 3),
         byte_of(x as int, 4), byte_of(x as int, 5), byte_of(x as int, 6), byte_of(x as int, 7)]
}
pub open spec fn be16(x: u16) -> Seq<u8> { seq![byte_of(x as int, 1), byte_of(x as int, 0)] }
pub open spec fn be32(x: u32) -> Seq<u8> { seq![byte_of(x as int, 3), byte_of(x as int, 2), byte_of(x as int, 1), byte_of(x as int, 0)] }
pub open spec fn be64(x: u64) -> Seq<u8> {
    seq![byte_of(x as int, 7), byte_of(x as int, 6), byte_of(x as int, 5), byte_of(x as int, 4),
         byte_of(x as int, 3), byte_of(x as int, 2), byte_of(x as int, 1), byte_of(x as int, 0)]
}
// decode: value of the little-/big-endian integer stored at s[i..]
pub open spec fn dle16(s: Seq<u8>, i: int) -> int { s[i] as int + 256 * (s[i + 1] as int) }
pub open spec fn dle32(s: Seq<u8>, i: int) -> int {
    s[i] as int + 256 * (s[i + 1] as int) + 65536 * (s[i + 2] as int) + 16777216 * (s[i + 3] as int)
}
pub open spec fn dle64(s: Seq<u8>, i: int) -> int { dle32(s, i) + 4294967296 * dle32(s, i + 4) }
pub open spec fn dbe16(s: Seq<u8>, i: int) -> int { 256 * (s[i] as int) + s[i + 1] as int }
pub open spec fn dbe32(s: Seq<u8>, i: int) -> int {
    16777216 * (s[i] as int) + 65536 * (s[i + 1] as int) + 256 * (s[i + 2] as int) + s[i + 3] as int
}
pub open spec fn dbe64(s: Seq<u8>, i: int) -> int { 4294967296 * dbe32(s, i) + dbe32(s, i + 4) }
/// integer at s[i..] in byte order `big`
pub open spec fn d16(big: bool, s: Seq<u8>, i: int) -> int { if big { dbe16(s, i) } else { dle16(s, i) } }
pub open spec fn d32(big: bool, s: Seq<u8>, i: int) -> int { if big { dbe32(s, i) } else { dle32(s, i) } }
pub open spec fn d64(big: bool, s: Seq<u8>, i: int) -> int { if big { dbe64(s, i) } else { dle64(s, i) } }
pub open spec fn e16(big: bool, x: u16) -> Seq<u8> { if big { be16(x) } else { le16(x) } }
pub open spec fn e32(big: bool, x: u32) -> Seq<u8> { if big { be32(x) } else { le32(x) } }
pub open spec fn e64(big: bool, x: u64) -> Seq<u8> { if big { be64(x) } else { le64(x) } }

// Floats on disk: IEEE bit patterns.  `to_bits`/`from_bits` are uninterpreted; the only
// assumed fact is that they are inverse (true of Rust's f32::to_bits/from_bits bit-for-bit).
pub uninterp spec fn f32_bits(x: f32) -> u32;
pub uninterp spec fn f32_of_bits(b: u32) -> f32;
pub uninterp spec fn f64_bits(x: f64) -> u64;
pub uninterp spec fn f64_of_bits(b: u64) -> f64;
pub broadcast axiom fn ax_f32_bits_inv(x: f32) ensures #[trigger] f32_of_bits(f32_bits(x)) == x;
pub broadcast axiom fn ax_f64_bits_inv(x: f64) ensures #[trigger] f64_of_bits(f64_bits(x)) == x;

#[verifier::external_body]
#[derive(Debug)]
pub struct IoError { _p: u8 }

#[verifier::external_body]
pub fn vpanic() -> !
    requires false
{ panic!() }

// ---- Sink: append-only in-memory writer (`Vec<u8>` used through byteorder::WriteBytesExt / io::Write).
// Assumed contracts: NativeEndian == LittleEndian (x86-64 / aarch64 targets); writes to a Vec never
// fail, the io::Result plumbing is kept so that `?` in the code typechecks.
pub struct Sink { pub bytes: Vec<u8> }
impl Sink {
    pub open spec fn view(&self) -> Seq<u8> { self.bytes@ }
    #[verifier::external_body]
    pub fn with_capacity(n: usize) -> (r: Sink) ensures r@.len() == 0 { Sink { bytes: Vec::with_capacity(n) } }
    pub fn len(&self) -> (r: usize) ensures r == self@.len() { self.bytes.len() }
    #[verifier::external_body]
    pub fn put_u8(&mut self, v: u8) -> (r: Result<(), IoError>)
        ensures r.is_ok(), final(self)@ == old(self)@.push(v) { unimplemented!() }
    #[verifier::external_body]
    pub fn put_u16(&mut self, v: u16) -> (r: Result<(), IoError>)
        ensures r.is_ok(), final(self)@ == old(self)@ + le16(v) { unimplemented!() }
    #[verifier::external_body]
    pub fn put_u32(&mut self, v: u32) -> (r: Result<(), IoError>)
        ensures r.is_ok(), final(self)@ == old(self)@ + le32(v) { unimplemented!() }
    #[verifier::external_body]
    pub fn put_u64(&mut self, v: u64) -> (r: Result<(), IoError>)
        ensures r.is_ok(), final(self)@ == old(self)@ + le64(v) { unimplemented!() }
    #[verifier::external_body]
    pub fn put_f32(&mut self, v: f32) -> (r: Result<(), IoError>)
        ensures r.is_ok(), final(self)@ == old(self)@ + le32(f32_bits(v)) { unimplemented!() }
    #[verifier::external_body]
    pub fn put_f64(&mut self, v: f64) -> (r: Result<(), IoError>)
        ensures r.is_ok(), final(self)@ == old(self)@ + le64(f64_bits(v)) { unimplemented!() }
    #[verifier::external_body]
    pub fn put_bytes(&mut self, b: &[u8]) -> (r: Result<(), IoError>)
        ensures r.is_ok(), final(self)@ == old(self)@ + b@ { unimplemented!() }
}

// ---- FSink: seekable destination (`BufWriter<W: Write + Seek>`).  Ghost image `data()` and
// position `pos()`.  A put at `pos` overwrites/extends the image; any operation may fail, in
// which case nothing is promised about the image (callers must propagate the error).
#[verifier::external_body]
pub struct FSink { _p: u8 }
pub open spec fn splice(d: Seq<u8>, at: int, b: Seq<u8>) -> Seq<u8>
    recommends 0 <= at <= d.len()
{
    if at + b.len() >= d.len() { d.subrange(0, at) + b } else { d.subrange(0, at) + b + d.subrange(at + b.len(), d.len() as int) }
}
impl FSink {
    pub uninterp spec fn data(&self) -> Seq<u8>;
    pub uninterp spec fn pos(&self) -> int;
    pub open spec fn wf(&self) -> bool { 0 <= self.pos() <= self.data().len() }
    #[verifier::external_body]
    pub fn tell(&mut self) -> (r: Result<u64, IoError>)
        requires old(self).wf(), old(self).pos() <= u64::MAX
        ensures final(self).data() == old(self).data(), final(self).pos() == old(self).pos(), r.is_ok() ==> r.unwrap() == old(self).pos()
    { unimplemented!() }
    #[verifier::external_body]
    pub fn seek_start(&mut self, p: u64) -> (r: Result<u64, IoError>)
        requires old(self).wf(), p <= old(self).data().len()
        ensures final(self).data() == old(self).data(), r.is_ok() ==> (final(self).pos() == p && r.unwrap() == p), final(self).wf()
    { unimplemented!() }
    #[verifier::external_body]
    pub fn seek_end0(&mut self) -> (r: Result<u64, IoError>)
        requires old(self).wf()
        ensures final(self).data() == old(self).data(), r.is_ok() ==> (final(self).pos() == old(self).data().len() && r.unwrap() == old(self).data().len()), final(self).wf()
    { unimplemented!() }
    #[verifier::external_body]
    pub fn put(&mut self, b: &[u8]) -> (r: Result<(), IoError>)
        requires old(self).wf()
        ensures r.is_ok() ==> (final(self).data() == splice(old(self).data(), old(self).pos(), b@) && final(self).pos() == old(self).pos() + b@.len()), final(self).wf()
    { unimplemented!() }
    #[verifier::external_body]
    pub fn put_u8(&mut self, v: u8) -> (r: Result<(), IoError>)
        requires old(self).wf()
        ensures r.is_ok() ==> (final(self).data() == splice(old(self).data(), old(self).pos(), seq![v]) && final(self).pos() == old(self).pos() + 1), final(self).wf()
    { unimplemented!() }
    #[verifier::external_body]
    pub fn put_u16(&mut self, v: u16) -> (r: Result<(), IoError>)
        requires old(self).wf()
        ensures r.is_ok() ==> (final(self).data() == splice(old(self).data(), old(self).pos(), le16(v)) && final(self).pos() == old(self).pos() + 2), final(self).wf()
    { unimplemented!() }
    #[verifier::external_body]
    pub fn put_u32(&mut self, v: u32) -> (r: Result<(), IoError>)
        requires old(self).wf()
        ensures r.is_ok() ==> (final(self).data() == splice(old(self).data(), old(self).pos(), le32(v)) && final(self).pos() == old(self).pos() + 4), final(self).wf()
    { unimplemented!() }
    #[verifier::external_body]
    pub fn put_u64(&mut self, v: u64) -> (r: Result<(), IoError>)
        requires old(self).wf()
        ensures r.is_ok() ==> (final(self).data() == splice(old(self).data(), old(self).pos(), le64(v)) && final(self).pos() == old(self).pos() + 8), final(self).wf()
    { unimplemented!() }
    #[verifier::external_body]
    pub fn put_f64(&mut self, v: f64) -> (r: Result<(), IoError>)
        requires old(self).wf()
        ensures r.is_ok() ==> (final(self).data() == splice(old(self).data(), old(self).pos(), le64(f64_bits(v))) && final(self).pos() == old(self).pos() + 8), final(self).wf()
    { unimplemented!() }
}

// ---- Cur: consuming reader over a byte buffer (`bytes::BytesMut` used through `bytes::Buf`).
// `rem()` = bytes not yet consumed.  The `requires` are the real panics of the `bytes` crate
// (reading past the end / split_to past the end).
#[verifier::external_body]
pub struct Cur { _p: u8 }
impl Cur {
    pub uninterp spec fn rem(&self) -> Seq<u8>;
    #[verifier::external_body]
    pub fn from_vec(v: &Vec<u8>) -> (r: Cur) ensures r.rem() == v@ { unimplemented!() }
    #[verifier::external_body]
    pub fn len(&self) -> (r: usize) ensures r == self.rem().len() { unimplemented!() }
    #[verifier::external_body]
    pub fn split_to(&mut self, n: usize) -> (r: Cur)
        requires n <= old(self).rem().len()
        ensures r.rem() == old(self).rem().subrange(0, n as int), final(self).rem() == old(self).rem().subrange(n as int, old(self).rem().len() as int)
    { unimplemented!() }
    #[verifier::external_body]
    pub fn advance(&mut self, n: usize)
        requires n <= old(self).rem().len()
        ensures final(self).rem() == old(self).rem().subrange(n as int, old(self).rem().len() as int)
    { unimplemented!() }
    #[verifier::external_body]
    pub fn get_u8(&mut self) -> (r: u8)
        requires old(self).rem().len() >= 1
        ensures r == old(self).rem()[0], final(self).rem() == old(self).rem().subrange(1, old(self).rem().len() as int)
    { unimplemented!() }
    #[verifier::external_body]
    pub fn get_u16(&mut self) -> (r: u16)
        requires old(self).rem().len() >= 2
        ensures r == dbe16(old(self).rem(), 0), final(self).rem() == old(self).rem().subrange(2, old(self).rem().len() as int)
    { unimplemented!() }
    #[verifier::external_body]
    pub fn get_u16_le(&mut self) -> (r: u16)
        requires old(self).rem().len() >= 2
        ensures r == dle16(old(self).rem(), 0), final(self).rem() == old(self).rem().subrange(2, old(self).rem().len() as int)
    { unimplemented!() }
    #[verifier::external_body]
    pub fn get_u32(&mut self) -> (r: u32)
        requires old(self).rem().len() >= 4
        ensures r == dbe32(old(self).rem(), 0), final(self).rem() == old(self).rem().subrange(4, old(self).rem().len() as int)
    { unimplemented!() }
    #[verifier::external_body]
    pub fn get_u32_le(&mut self) -> (r: u32)
        requires old(self).rem().len() >= 4
        ensures r == dle32(old(self).rem(), 0), final(self).rem() == old(self).rem().subrange(4, old(self).rem().len() as int)
    { unimplemented!() }
    #[verifier::external_body]
    pub fn get_u64(&mut self) -> (r: u64)
        requires old(self).rem().len() >= 8
        ensures r == dbe64(old(self).rem(), 0), final(self).rem() == old(self).rem().subrange(8, old(self).rem().len() as int)
    { unimplemented!() }
    #[verifier::external_body]
    pub fn get_u64_le(&mut self) -> (r: u64)
        requires old(self).rem().len() >= 8
        ensures r == dle64(old(self).rem(), 0), final(self).rem() == old(self).rem().subrange(8, old(self).rem().len() as int)
    { unimplemented!() }
    #[verifier::external_body]
    pub fn get_f32(&mut self) -> (r: f32)
        requires old(self).rem().len() >= 4
        ensures r == f32_of_bits(dbe32(old(self).rem(), 0) as u32), final(self).rem() == old(self).rem().subrange(4, old(self).rem().len() as int)
    { unimplemented!() }
    #[verifier::external_body]
    pub fn get_f32_le(&mut self) -> (r: f32)
        requires old(self).rem().len() >= 4
        ensures r == f32_of_bits(dle32(old(self).rem(), 0) as u32), final(self).rem() == old(self).rem().subrange(4, old(self).rem().len() as int)
    { unimplemented!() }
}
// `uN::from_{le,be}_bytes([..])` (rule R4) with arithmetic contracts
#[verifier::external_body]
pub fn u32_from_le(b: [u8; 4]) -> (r: u32) ensures r == dle32(b@, 0) { u32::from_le_bytes(b) }
#[verifier::external_body]
pub fn u32_from_be(b: [u8; 4]) -> (r: u32) ensures r == dbe32(b@, 0) { u32::from_be_bytes(b) }
#[verifier::external_body]
pub fn u64_from_le(b: [u8; 8]) -> (r: u64) ensures r == dle64(b@, 0) { u64::from_le_bytes(b) }
#[verifier::external_body]
pub fn u64_from_be(b: [u8; 8]) -> (r: u64) ensures r == dbe64(b@, 0) { u64::from_be_bytes(b) }
#[verifier::external_body]
pub fn f32_from_le(b: [u8; 4]) -> (r: f32) ensures r == f32_of_bits(dle32(b@, 0) as u32) { f32::from_le_bytes(b) }
#[verifier::external_body]
pub fn f32_from_be(b: [u8; 4]) -> (r: f32) ensures r == f32_of_bits(dbe32(b@, 0) as u32) { f32::from_be_bytes(b) }
// ---- codec inverse lemmas (include after bytes.rs when needed) ----
/// base-256 digits of a u16 / u32 recombine to the value (bit-vector proof: stable in any context)
#[verifier::spinoff_prover]
pub proof fn lemma_digits16(x: u16)
    ensures byte_of(x as int, 0) as int + 256 * (byte_of(x as int, 1) as int) == x,
{
    reveal(byte_of);
    let a: u16 = x % 256; let b: u16 = x / 256 % 256;
    assert(a + 256 * b == x && a < 256 && b < 256) by (bit_vector) requires a == x % 256, b == x / 256 % 256;
}
#[verifier::spinoff_prover]
pub proof fn lemma_digits32(x: u32)
    ensures byte_of(x as int, 0) as int + 256 * (byte_of(x as int, 1) as int) + 65536 * (byte_of(x as int, 2) as int) + 16777216 * (byte_of(x as int, 3) as int) == x,
{
    reveal(byte_of);
    let a: u32 = x % 256; let b: u32 = x / 256 % 256; let c: u32 = x / 65536 % 256; let d: u32 = x / 16777216 % 256;
    assert(a + 256 * b + 65536 * c + 16777216 * d == x && a < 256 && b < 256 && c < 256 && d < 256) by (bit_vector)
        requires a == x % 256, b == x / 256 % 256, c == x / 65536 % 256, d == x / 16777216 % 256;
}
#[verifier::spinoff_prover]
pub proof fn lemma_codec16(big: bool, x: u16) ensures e16(big, x).len() == 2, d16(big, e16(big, x), 0) == x { lemma_digits16(x); }
#[verifier::spinoff_prover]
pub proof fn lemma_codec32(big: bool, x: u32) ensures e32(big, x).len() == 4, d32(big, e32(big, x), 0) == x { lemma_digits32(x); }
#[verifier::spinoff_prover]
pub proof fn lemma_split64(x: u64)
    ensures ({
        let lo = (x % 4294967296) as u32; let hi = (x / 4294967296) as u32;
        &&& byte_of(x as int, 0) == byte_of(lo as int, 0) && byte_of(x as int, 1) == byte_of(lo as int, 1)
        &&& byte_of(x as int, 2) == byte_of(lo as int, 2) && byte_of(x as int, 3) == byte_of(lo as int, 3)
        &&& byte_of(x as int, 4) == byte_of(hi as int, 0) && byte_of(x as int, 5) == byte_of(hi as int, 1)
        &&& byte_of(x as int, 6) == byte_of(hi as int, 2) && byte_of(x as int, 7) == byte_of(hi as int, 3)
        &&& x as int == lo as int + 4294967296 * (hi as int)
    })
{
    reveal(byte_of);
    assert(x % 256 == (x % 4294967296) % 256) by (bit_vector);
    assert(x / 256 % 256 == (x % 4294967296) / 256 % 256) by (bit_vector);
    assert(x / 65536 % 256 == (x % 4294967296) / 65536 % 256) by (bit_vector);
    assert(x / 16777216 % 256 == (x % 4294967296) / 16777216 % 256) by (bit_vector);
    assert(x / 4294967296 % 256 == (x / 4294967296) % 256) by (bit_vector);
    assert(x / 1099511627776 % 256 == (x / 4294967296) / 256 % 256) by (bit_vector);
    assert(x / 281474976710656 % 256 == (x / 4294967296) / 65536 % 256) by (bit_vector);
    assert(x / 72057594037927936 % 256 == (x / 4294967296) / 16777216 % 256) by (bit_vector);
    assert(x == (x % 4294967296) + 4294967296 * (x / 4294967296)) by (bit_vector);
    assert(x / 4294967296 <= 4294967295) by (bit_vector);
    assert(x % 4294967296 <= 4294967295) by (bit_vector);
}
pub proof fn lemma_codec64(big: bool, x: u64) ensures e64(big, x).len() == 8, d64(big, e64(big, x), 0) == x
{
    let lo = (x % 4294967296) as u32; let hi = (x / 4294967296) as u32;
    lemma_split64(x);
    lemma_codec32(big, lo); lemma_codec32(big, hi);
}
/// decoding inside a larger buffer: if the 4 bytes at s[k..k+4] are e32(big, x) then d32 reads x
pub proof fn lemma_d32_embedded(big: bool, s: Seq<u8>, k: int, x: u32)
    requires 0 <= k, k + 4 <= s.len(), s.subrange(k, k + 4) == e32(big, x),
    ensures d32(big, s, k) == x
{
    lemma_codec32(big, x);
    let t = s.subrange(k, k + 4);
    assert(t[0] == s[k] && t[1] == s[k + 1] && t[2] == s[k + 2] && t[3] == s[k + 3]);
}
pub proof fn lemma_d16_embedded(big: bool, s: Seq<u8>, k: int, x: u16)
    requires 0 <= k, k + 2 <= s.len(), s.subrange(k, k + 2) == e16(big, x),
    ensures d16(big, s, k) == x
{
    lemma_codec16(big, x);
    let t = s.subrange(k, k + 2);
    assert(t[0] == s[k] && t[1] == s[k + 1]);
}
pub proof fn lemma_d64_embedded(big: bool, s: Seq<u8>, k: int, x: u64)
    requires 0 <= k, k + 8 <= s.len(), s.subrange(k, k + 8) == e64(big, x),
    ensures d64(big, s, k) == x
{
    lemma_codec64(big, x);
    let t = s.subrange(k, k + 8);
    assert(t[0] == s[k] && t[1] == s[k + 1] && t[2] == s[k + 2] && t[3] == s[k + 3]
        && t[4] == s[k + 4] && t[5] == s[k + 5] && t[6] == s[k + 6] && t[7] == s[k + 7]);
}

#[derive(Clone)]
pub struct BedEntry {
    pub start: u32,
    pub end: u32,
    pub rest: Vec<u8>,
}
#[derive(Copy, Clone)]
pub struct Block {
    pub offset: u64,
    pub size: u64,
}

// byteordered::Endianness cannot be extracted (other crate): own 2-variant enum, same variant names
#[derive(Clone, Copy)]
pub enum Endianness { Big, Little }
pub open spec fn is_big(e: Endianness) -> bool { e is Big }

// BBIReadError (thiserror enum holding io::Error / String) -> opaque shim; only "an error value is
// returned here" is kept, the message text is dropped
#[verifier::external_body]
#[derive(Debug)]
pub struct BBIReadError { _p: u8 }
impl BBIReadError {
    #[verifier::external_body]
    pub fn invalid_file() -> (r: BBIReadError) { unimplemented!() }
}

// BytesMut accessors that `_shared/bytes.rs` does not have (unit-local shims).
/// `bytes[i]` / one step of `bytes.iter()`: requires = the real index panic
#[verifier::external_body]
pub fn cur_byte(c: &Cur, i: usize) -> (r: u8)
    requires i < c.rem().len()
    ensures r == c.rem()[i as int]
{ unimplemented!() }
/// `bytes.to_vec()`: copy of the unconsumed bytes; consumes nothing (takes &self)
#[verifier::external_body]
pub fn cur_to_vec(c: &Cur) -> (r: Vec<u8>)
    ensures r@ == c.rem()
{ unimplemented!() }

// ---------------- reader-side vocabulary ----------------
/// index of the first NUL at or after i (s.len() if there is none)
#[verifier::opaque]
pub open spec fn first_nul_from(s: Seq<u8>, i: int) -> int
    decreases s.len() - i
{
    if i < 0 || i >= s.len() { s.len() as int } else if s[i] == 0 { i } else { first_nul_from(s, i + 1) }
}
pub open spec fn first_nul(s: Seq<u8>) -> int { first_nul_from(s, 0) }
/// characterisation: q is the first NUL (or the length, if no byte is NUL)
pub open spec fn is_first_nul(s: Seq<u8>, q: int) -> bool {
    &&& 0 <= q <= s.len()
    &&& forall|j: int| 0 <= j < q ==> s[j] != 0
    &&& q < s.len() ==> s[q] == 0
}
pub proof fn lemma_first_nul_from(s: Seq<u8>, i: int, q: int)
    requires is_first_nul(s, q), 0 <= i <= q,
    ensures first_nul_from(s, i) == q,
    decreases q - i,
{
    reveal_with_fuel(first_nul_from, 2);
    if i < q { lemma_first_nul_from(s, i + 1, q); }
}
pub proof fn lemma_first_nul_unique(s: Seq<u8>, q: int)
    requires is_first_nul(s, q),
    ensures first_nul(s) == q,
{
    lemma_first_nul_from(s, 0, q);
}

/// `bytes.iter().find_position(|b| **b == b'\0')` (itertools): VERIFIED replacement over the
/// unconsumed bytes.  Returns (position, byte) like find_position; the byte is not used by the caller.
pub fn find_nul(c: &Cur) -> (r: Option<(usize, u8)>)
    ensures
        
        match r {
            Some((p, b)) => p == first_nul(c.rem()) && p < c.rem().len() && b == 0,
            None => first_nul(c.rem()) == c.rem().len(),
        },
{
    let n = c.len();
    let mut i: usize = 0;
    while i < n
        invariant
            
            i <= n, n == c.rem().len(),
            forall|j: int| 0 <= j < i ==> c.rem()[j] != 0,
        decreases
            
            n - i,
    {
        let b = cur_byte(c, i);
        if b == 0 {
            proof { lemma_first_nul_unique(c.rem(), i as int); }
            return Some((i, b));
        }
        i += 1;
    }
    proof { lemma_first_nul_unique(c.rem(), n as int); }
    None
}

// ---------------- format spec (published bigBed record layout, byte order `big`) ----------------
/// one record appended to `b`: chromId:u32 chromStart:u32 chromEnd:u32 rest:bytes NUL
pub open spec fn put_bb_rec_e(big: bool, b: Seq<u8>, chrom: u32, it: BedEntry) -> Seq<u8> {
    (b + e32(big, chrom) + e32(big, it.start) + e32(big, it.end) + it.rest@).push(0u8)
}
pub open spec fn fmt_bb_section_e(big: bool, chrom: u32, items: Seq<BedEntry>) -> Seq<u8>
    decreases items.len()
{
    if items.len() == 0 { Seq::empty() } else { put_bb_rec_e(big, fmt_bb_section_e(big, chrom, items.drop_last()), chrom, items.last()) }
}
/// the same record standing alone (what a reader sees at the front of the remaining bytes)
pub open spec fn rec_bytes(big: bool, chrom: u32, it: BedEntry) -> Seq<u8> {
    put_bb_rec_e(big, Seq::empty(), chrom, it)
}
// ---- writer's vocabulary, copied verbatim from unit bb_enc (little-endian only) ----
pub open spec fn put_bb_rec(b: Seq<u8>, chrom: u32, it: BedEntry) -> Seq<u8> {
    (b + le32(chrom) + le32(it.start) + le32(it.end) + it.rest@).push(0u8)
}
pub open spec fn fmt_bb_section(chrom: u32, items: Seq<BedEntry>) -> Seq<u8>
    decreases items.len()
{
    if items.len() == 0 { Seq::empty() } else { put_bb_rec(fmt_bb_section(chrom, items.drop_last()), chrom, items.last()) }
}

/// hypotheses on the stored entries under which a block is decodable
pub open spec fn nul_free(s: Seq<u8>) -> bool { forall|j: int| 0 <= j < s.len() ==> s[j] != 0 }
pub open spec fn decodable(items: Seq<BedEntry>) -> bool {
    forall|i: int| 0 <= i < items.len() ==> nul_free((#[trigger] items[i]).rest@) && !(items[i].start == 0 && items[i].end == 0)
}
/// equality of entries up to the Vec identity of `rest`
pub open spec fn ent_eq(a: BedEntry, b: BedEntry) -> bool { a.start == b.start && a.end == b.end && a.rest@ == b.rest@ }
pub open spec fn same_entries(a: Seq<BedEntry>, b: Seq<BedEntry>) -> bool {
    a.len() == b.len() && forall|i: int| 0 <= i < a.len() ==> ent_eq(#[trigger] a[i], b[i])
}

// ---------------- C04 per-block statement ----------------
/// the reader's (inclusive) range test: entry touches [s, e]
pub open spec fn keep(x: BedEntry, s: u32, e: u32) -> bool { x.end >= s && x.start <= e }
/// proper overlap with the half-open query [s, e)
pub open spec fn overlaps(x: BedEntry, s: u32, e: u32) -> bool { x.start < e && x.end > s }
/// wholly outside [s, e]
pub open spec fn outside(x: BedEntry, s: u32, e: u32) -> bool { x.end < s || x.start > e }
/// exactly the kept entries, each once, in stored order
pub open spec fn filt(items: Seq<BedEntry>, s: u32, e: u32) -> Seq<BedEntry>
    decreases items.len()
{
    if items.len() == 0 { Seq::empty() }
    else if keep(items.last(), s, e) { filt(items.drop_last(), s, e).push(items.last()) }
    else { filt(items.drop_last(), s, e) }
}

// ---------------- lemmas ----------------
pub proof fn lemma_put_assoc(big: bool, a: Seq<u8>, x: Seq<u8>, chrom: u32, it: BedEntry)
    ensures put_bb_rec_e(big, a + x, chrom, it) == a + put_bb_rec_e(big, x, chrom, it)
{
    assert(put_bb_rec_e(big, a + x, chrom, it) =~= a + put_bb_rec_e(big, x, chrom, it));
}
pub proof fn lemma_e32_len(big: bool, x: u32) ensures e32(big, x).len() == 4 { }
pub proof fn lemma_rec_len(big: bool, b: Seq<u8>, chrom: u32, it: BedEntry)
    ensures put_bb_rec_e(big, b, chrom, it).len() == b.len() + 13 + it.rest@.len()
{ }
/// left-associated (writer order) format == head record ++ format of the tail (reader order)
pub proof fn lemma_fmt_cons(big: bool, chrom: u32, items: Seq<BedEntry>)
    requires items.len() >= 1,
    ensures fmt_bb_section_e(big, chrom, items) == rec_bytes(big, chrom, items[0]) + fmt_bb_section_e(big, chrom, items.skip(1)),
    decreases items.len(),
{
    let dl = items.drop_last();
    if items.len() == 1 {
        assert(items.skip(1).len() == 0);
        assert(dl.len() == 0);
        assert(items.last() == items[0]);
        assert(fmt_bb_section_e(big, chrom, dl) =~= Seq::<u8>::empty());
        assert(fmt_bb_section_e(big, chrom, items.skip(1)) =~= Seq::<u8>::empty());
        assert(fmt_bb_section_e(big, chrom, items) == rec_bytes(big, chrom, items[0]));
        assert(rec_bytes(big, chrom, items[0]) + Seq::<u8>::empty() =~= rec_bytes(big, chrom, items[0]));
    } else {
        lemma_fmt_cons(big, chrom, dl);
        assert(dl[0] == items[0]);
        assert(items.skip(1).drop_last() =~= dl.skip(1));
        assert(items.skip(1).last() == items.last());
        lemma_put_assoc(big, rec_bytes(big, chrom, items[0]), fmt_bb_section_e(big, chrom, dl.skip(1)), chrom, items.last());
    }
}
pub proof fn lemma_fmt_len_zero(big: bool, chrom: u32, items: Seq<BedEntry>)
    ensures items.len() >= 1 ==> fmt_bb_section_e(big, chrom, items).len() >= 13,
            items.len() == 0 ==> fmt_bb_section_e(big, chrom, items).len() == 0,
{
    if items.len() >= 1 {
        lemma_rec_len(big, fmt_bb_section_e(big, chrom, items.drop_last()), chrom, items.last());
    }
}
/// per-record parsing lemma: what a reader finds at the front of `rec_bytes(it) ++ tail`
pub proof fn lemma_parse_one(big: bool, chrom: u32, it: BedEntry, tail: Seq<u8>)
    requires nul_free(it.rest@),
    ensures ({
        let o = rec_bytes(big, chrom, it) + tail;
        let t = o.subrange(12, o.len() as int);
        &&& o.len() == 13 + it.rest@.len() + tail.len()
        &&& d32(big, o, 0) == chrom && d32(big, o, 4) == it.start && d32(big, o, 8) == it.end
        &&& first_nul(t) == it.rest@.len()
        &&& t.subrange(0, it.rest@.len() as int) == it.rest@
        &&& t.subrange(it.rest@.len() as int + 1, t.len() as int) == tail
    }),
{
    let o = rec_bytes(big, chrom, it) + tail;
    let t = o.subrange(12, o.len() as int);
    let n = it.rest@.len() as int;
    lemma_e32_len(big, chrom); lemma_e32_len(big, it.start); lemma_e32_len(big, it.end);
    assert(o.subrange(0, 4) =~= e32(big, chrom));
    assert(o.subrange(4, 8) =~= e32(big, it.start));
    assert(o.subrange(8, 12) =~= e32(big, it.end));
    lemma_d32_embedded(big, o, 0, chrom);
    lemma_d32_embedded(big, o, 4, it.start);
    lemma_d32_embedded(big, o, 8, it.end);
    assert forall|j: int| 0 <= j < n implies #[trigger] t[j] == it.rest@[j] by { assert(t[j] == o[12 + j]); }
    assert(t[n] == o[12 + n] && o[12 + n] == 0);
    assert(is_first_nul(t, n));
    lemma_first_nul_unique(t, n);
    assert(t.subrange(0, n) =~= it.rest@);
    assert(t.subrange(n + 1, t.len() as int) =~= tail);
}
pub proof fn lemma_filt_step(items: Seq<BedEntry>, k: int, s: u32, e: u32)
    requires 0 <= k < items.len(),
    ensures filt(items.take(k + 1), s, e) ==
        (if keep(items[k], s, e) { filt(items.take(k), s, e).push(items[k]) } else { filt(items.take(k), s, e) }),
{
    assert(items.take(k + 1).drop_last() =~= items.take(k));
    assert(items.take(k + 1).last() == items[k]);
}
pub proof fn lemma_same_push(a: Seq<BedEntry>, b: Seq<BedEntry>, x: BedEntry, y: BedEntry)
    requires same_entries(a, b), ent_eq(x, y),
    ensures same_entries(a.push(x), b.push(y)),
{
    assert forall|i: int| 0 <= i < a.push(x).len() implies ent_eq(#[trigger] a.push(x)[i], b.push(y)[i]) by {
        if i < a.len() { assert(a.push(x)[i] == a[i] && b.push(y)[i] == b[i]); }
    }
}
/// C04 corollaries of "result == filt(items)": nothing wholly outside, every kept (hence every
/// overlapping) stored entry present, order preserved (filt is a subsequence: strictly increasing index map)
pub proof fn lemma_filt_props(items: Seq<BedEntry>, s: u32, e: u32) -> (idx: Seq<int>)
    ensures
        
        idx.len() == filt(items, s, e).len(),
        forall|j: int| 0 <= j < idx.len() ==> 0 <= #[trigger] idx[j] < items.len() && filt(items, s, e)[j] == items[idx[j]] && keep(items[idx[j]], s, e),
        
        forall|j: int, l: int| 0 <= j < l < idx.len() ==> idx[j] < idx[l],
        
        forall|i: int| 0 <= i < items.len() && keep(#[trigger] items[i], s, e) ==> exists|j: int| 0 <= j < idx.len() && idx[j] == i,
    decreases items.len(),
{
    if items.len() == 0 {
        Seq::empty()
    } else {
        let dl = items.drop_last();
        let p = lemma_filt_props(dl, s, e);
        let n = items.len() - 1;
        if keep(items.last(), s, e) {
            let idx = p.push(n);
            assert forall|i: int| 0 <= i < items.len() && keep(#[trigger] items[i], s, e) implies exists|j: int| 0 <= j < idx.len() && idx[j] == i by {
                if i < n {
                    assert(dl[i] == items[i]);
                    let j = choose|j: int| 0 <= j < p.len() && p[j] == i;
                    assert(idx[j] == i);
                } else {
                    assert(idx[p.len() as int] == i);
                }
            }
            assert forall|j: int| 0 <= j < idx.len() implies 0 <= #[trigger] idx[j] < items.len() && filt(items, s, e)[j] == items[idx[j]] && keep(items[idx[j]], s, e) by {
                if j < p.len() { assert(idx[j] == p[j]); assert(dl[p[j]] == items[p[j]]); }
            }
            idx
        } else {
            assert forall|i: int| 0 <= i < items.len() && keep(#[trigger] items[i], s, e) implies exists|j: int| 0 <= j < p.len() && p[j] == i by {
                assert(dl[i] == items[i]);
            }
            assert forall|j: int| 0 <= j < p.len() implies 0 <= #[trigger] p[j] < items.len() && filt(items, s, e)[j] == items[p[j]] && keep(items[p[j]], s, e) by {
                assert(dl[p[j]] == items[p[j]]);
            }
            p
        }
    }
}

// ---------------- the record decoder (closure `read_entry`, lifted) ----------------
fn read_entry(bytes: &mut Cur, endianness: Endianness, expected_chrom: u32) -> (r: Result<Option<BedEntry>, BBIReadError>)
    requires
        
        old(bytes).rem().len() >= 12 && !(d32(is_big(endianness), old(bytes).rem(), 4) == 0 && d32(is_big(endianness), old(bytes).rem(), 8) == 0)
            ==> d32(is_big(endianness), old(bytes).rem(), 0) == expected_chrom,
    ensures
        
        old(bytes).rem().len() < 12 ==> (r matches Ok(None)) && final(bytes).rem() == old(bytes).rem(),
        
        old(bytes).rem().len() >= 12 && (d32(is_big(endianness), old(bytes).rem(), 4) == 0 && d32(is_big(endianness), old(bytes).rem(), 8) == 0) ==> r is Err,
        
        old(bytes).rem().len() >= 12 && !(d32(is_big(endianness), old(bytes).rem(), 4) == 0 && d32(is_big(endianness), old(bytes).rem(), 8) == 0) ==> ({
            let o = old(bytes).rem();
            let t = o.subrange(12, o.len() as int);
            let p = first_nul(t);
            &&& r matches Ok(Some(en))
            &&& en.start == d32(is_big(endianness), o, 4)
            &&& en.end == d32(is_big(endianness), o, 8)
            &&& en.rest@ == t.subrange(0, p)
            &&& p < t.len() ==> final(bytes).rem() == t.subrange(p + 1, t.len() as int)
        }),
        
        (r matches Ok(Some(_))) ==> final(bytes).rem().len() + 12 <= old(bytes).rem().len(),
{
        if bytes.len() < 12 {
            return Ok(None);
        }
        let (chrom_id, chrom_start, chrom_end) = match endianness {
            Endianness::Big => (bytes.get_u32(), bytes.get_u32(), bytes.get_u32()),
            Endianness::Little => {
                (bytes.get_u32_le(), bytes.get_u32_le(), bytes.get_u32_le())
            }
        };
        if chrom_start == 0 && chrom_end == 0 {
            return Err(BBIReadError::invalid_file());
        }
        // FIXME: should this just return empty?
        assert((chrom_id) == (expected_chrom));

        proof {
            assert(bytes.rem() =~= old(bytes).rem().subrange(12, old(bytes).rem().len() as int));
        }
        let nul = find_nul(bytes);
        let s = match nul {
            Some((pos, _)) => {
                let b = bytes.split_to(pos);
                bytes.get_u8();
                cur_to_vec(&b)
            }
            None => cur_to_vec(bytes),
        };
        let rest = s;
        Ok(Some(BedEntry {
            start: chrom_start,
            end: chrom_end,
            rest,
        }))
    }

fn get_block_entries(
    endianness: Endianness,
    data: Vec<u8>,
    block: Block,
    known_offset: &mut u64,
    expected_chrom: u32,
    start: u32,
    end: u32,
    Ghost(items): Ghost<Seq<BedEntry>>,
) -> (r: Result<Vec<BedEntry>, BBIReadError>)
    requires
        
        data@ == fmt_bb_section_e(is_big(endianness), expected_chrom, items),
        
        decodable(items),
        
        block.offset + block.size <= u64::MAX,
    ensures
        
        r is Ok,
        
        same_entries(r.unwrap()@, filt(items, start, end)),
        
        forall|i: int| 0 <= i < items.len() && overlaps(#[trigger] items[i], start, end) ==> exists|j: int| 0 <= j < r.unwrap()@.len() && ent_eq(#[trigger] r.unwrap()@[j], items[i]),
        
        forall|j: int| 0 <= j < r.unwrap()@.len() ==> !outside(#[trigger] r.unwrap()@[j], start, end),
        
        *final(known_offset) == block.offset + block.size,
{
    proof { lemma_fmt_len_zero(is_big(endianness), expected_chrom, items); }

    let mut bytes = Cur::from_vec(&data);
    let mut entries: Vec<BedEntry> = Vec::new();

    let ghost big = is_big(endianness);
    let ghost mut k: int = 0;
    proof {
        assert(items.skip(0) =~= items);
        assert(items.take(0) =~= Seq::<BedEntry>::empty());
    }

    loop 
        invariant
            
            big == is_big(endianness), decodable(items), 0 <= k <= items.len(),
            
            bytes.rem() == fmt_bb_section_e(big, expected_chrom, items.skip(k)),
            
            same_entries(entries@, filt(items.take(k), start, end)),
        ensures
            
            k == items.len(),
        decreases
            
            bytes.rem().len(),
{

        proof {
            if k < items.len() {
                lemma_fmt_cons(big, expected_chrom, items.skip(k));
                assert(items.skip(k)[0] == items[k]);
                assert(items.skip(k).skip(1) =~= items.skip(k + 1));
                lemma_parse_one(big, expected_chrom, items[k], fmt_bb_section_e(big, expected_chrom, items.skip(k + 1)));
            } else {
                assert(items.skip(k).len() == 0);
            }
        }
        let entry = match read_entry(&mut bytes, endianness, expected_chrom)? { None => break, Some(entry) => entry };

        let ghost e0 = entry;
        let ghost ents0 = entries@;
        if entry.end >= start && entry.start <= end {
            entries.push(entry);
        }

        proof {
            lemma_filt_step(items, k, start, end);
            if keep(items[k], start, end) {
                lemma_same_push(ents0, filt(items.take(k), start, end), e0, items[k]);
            }
            k = k + 1;
        }
    }


    proof {
        assert(items.take(items.len() as int) =~= items);
        let idx = lemma_filt_props(items, start, end);
        let f = filt(items, start, end);
        assert forall|i: int| 0 <= i < items.len() && overlaps(#[trigger] items[i], start, end) implies exists|j: int| 0 <= j < entries@.len() && ent_eq(#[trigger] entries@[j], items[i]) by {
            assert(keep(items[i], start, end));
            let j = choose|j: int| 0 <= j < idx.len() && idx[j] == i;
            assert(ent_eq(entries@[j], f[j]));
        }
        assert forall|j: int| 0 <= j < entries@.len() implies !outside(#[trigger] entries@[j], start, end) by {
            assert(ent_eq(entries@[j], f[j]));
            assert(keep(items[idx[j]], start, end));
        }
    }
    *known_offset = block.offset + block.size;
    Ok(entries)
}

/// C02 round trip, reader half: the bytes the WRITER's spec (unit bb_enc: `!compress ==> data@ ==
/// fmt_bb_section(chrom, items)`) describes, decoded little-endian over the whole chromosome
/// [0, chrom_len], give back exactly the items, in input order, however they overlap or nest.
pub proof fn lemma_writer_fmt_is_le(chrom: u32, items: Seq<BedEntry>)
    ensures fmt_bb_section(chrom, items) == fmt_bb_section_e(false, chrom, items)
    decreases items.len()
{
    if items.len() > 0 { lemma_writer_fmt_is_le(chrom, items.drop_last()); }
}
pub proof fn lemma_filt_all(items: Seq<BedEntry>, s: u32, e: u32)
    requires forall|i: int| 0 <= i < items.len() ==> keep(#[trigger] items[i], s, e),
    ensures filt(items, s, e) == items,
    decreases items.len(),
{
    if items.len() > 0 {
        let dl = items.drop_last();
        assert forall|i: int| 0 <= i < dl.len() implies keep(#[trigger] dl[i], s, e) by { assert(dl[i] == items[i]); }
        lemma_filt_all(dl, s, e);
        assert(dl.push(items.last()) =~= items);
    }
}
pub fn bb_roundtrip(data: Vec<u8>, block: Block, known_offset: &mut u64, chrom: u32, chrom_len: u32, Ghost(items): Ghost<Seq<BedEntry>>) -> (r: Result<Vec<BedEntry>, BBIReadError>)
    requires
        
        data@ == fmt_bb_section(chrom, items),
        decodable(items),
        forall|i: int| 0 <= i < items.len() ==> (#[trigger] items[i]).start <= chrom_len,
        block.offset + block.size <= u64::MAX,
    ensures
        
        r is Ok && same_entries(r.unwrap()@, items),
{
    proof {
        lemma_writer_fmt_is_le(chrom, items);
        lemma_filt_all(items, 0, chrom_len);
    }
    get_block_entries(Endianness::Little, data, block, known_offset, chrom, 0, chrom_len, Ghost(items))
}

} // verus!
fn main() {}

