#!/usr/bin/env python3
"""Re-copy what unit rt_tree shares with unit rt_spans (that directory has no includable file):
  spans.rs             <- rt_spans/unit.rs.tpl, the text between its two rulers (span vocabulary + closure stand-ins)
  unit.rs.tpl, piece 1 <- rt_spans' //@sub lines of the node_of_child extraction (foreign spellings judged alike)
usage: sync_from_rt_spans.py [--check]     (--check: exit 1 if the copies are stale, change nothing)"""
import os, re, sys
HERE = os.path.dirname(os.path.abspath(__file__))
src = open(os.path.join(HERE, '..', 'rt_spans', 'unit.rs.tpl')).read()
a = src.index('// ---------------- specification vocabulary (from the property text)')
b = src.index('// ================= code under contract =================')
HDR = '''// ================= span vocabulary and closure stand-ins: COPY of contracts/rt_spans/unit.rs.tpl =================
// (that directory has no includable file; the text between the two rulers of rt_spans -- `pos_le`, `contains`,
//  `node_lo/node_hi`, `secs_sorted`, `nodes_sorted`, `max_end_*`, `lemma_max_*`, the verified stand-ins for
//  `.iter().map(..).max()` / `.first()`, `child_ok`, `covers`, `tight` -- is reproduced verbatim by
//  sync_from_rt_spans.py so that `node_of_child` is judged with the SAME vocabulary here as in rt_spans.)
'''
spans = HDR + src[a:b]
ext = src[b:]
subs = [l for l in ext[:ext.index('//@ret')].split('\n') if l.startswith('//@sub')]
tpl_p = os.path.join(HERE, 'unit.rs.tpl')
tpl = open(tpl_p).read()
m = re.search(r'(//@presub /\\A\.\*\?\\n\[ \\t\]\*\\\.map\\\(\\\|c\\\| \(match &c.*?\n)((?://@sub[^\n]*\n)*)(//@ret node\n)', tpl, re.S)
assert m, 'piece 1 of unit.rs.tpl not found'
new_tpl = tpl[:m.start(2)] + ''.join(s + '\n' for s in subs) + tpl[m.end(2):]
sp_p = os.path.join(HERE, 'spans.rs')
stale = (open(sp_p).read() != spans) or (new_tpl != tpl)
if '--check' in sys.argv:
    print('stale' if stale else 'in sync')
    sys.exit(1 if stale else 0)
open(sp_p, 'w').write(spans)
open(tpl_p, 'w').write(new_tpl)
print('updated' if stale else 'already in sync')
