//@unit value_iter
//@serves C15
//@backend verus
// utils::merge::<ValueIter as Iterator>::next — the k-way merge of sorted value streams through a
// 50 000-base window of f64 sums.  The property (C15): the output is sorted, non-overlapping, and
// its value at every base is the sum of the inputs' values at that base; bases are absent where no
// input has data or the sum is zero.  `next` is cut into five pieces, each under its own contract
// (A: one section's accumulation into the window, A': the `for` over the sections with its body
// replaced by a call of A, B: run-length encoding, C: insert_into_queue, D: the skeleton of `next`
// with A' and B replaced by calls); interface predicates in spec.rs.  Every piece is proved.
use vstd::prelude::*;
use vstd::std_specs::ops::*;
use vstd::std_specs::convert::FromSpec;
verus! {
global size_of usize == 8;
//@include ../_shared/floats.rs

//@extract struct bigtools/src/bbi.rs Value
//@rule R8
//@end
//@extract const bigtools/src/utils/merge.rs DATA_SIZE
//@end

//@include spec.rs

// =====================================================================================
// A. one section's contribution to the window: the body of
//    `'sections: for (section, last) in &mut self.sections { 'section: loop { .. } }`   (R9 outline).
//    Cut from `fn next` by two presubs: everything up to and including the `for` header becomes the
//    signature (the window's element type is copied from the real `vec![0f64; DATA_SIZE]`), everything
//    from the `for`'s closing brace on is dropped.  Kept: the whole `'section: loop { .. }`.
// =====================================================================================
//@extract fn bigtools/src/utils/merge.rs next
//@rule R16
//@presub /\Afn next\(&mut self\) -> Option<Self::Item> \{.*?vec!\[0(f\d+); DATA_SIZE\];.*?'sections: for \(section, last\) in [^{]*\{[ \t]*\n/ => fn next_section(section: &mut VIter, last: &mut Option<Value>, data: &mut Vec<\1>, current_start: u32, max_data_len0: usize, max_sections0: usize, all_none0: bool, self_error: &mut bool, Ghost(k): Ghost<int>) -> (r: (usize, usize, bool, Option<MergeError>)) {\n
//@presub /\n[ \t]*\}\s*(?://[^\n]*\s*)*let mut next_sections: Vec<Value>.*\Z/ => \n}
//@presub /(\*i\s*[-+*]?=[^;\n]*?)[ \t]*\n(\s*\})/ => \1;\n\2 min=0
//@rule R5
//@rule R6
//@sub /continue 'sections/ => return (max_data_len, max_sections, all_none, None) min=0
//@sub /return Some\(Err\((\w+)\)\)/ => return (max_data_len, max_sections, all_none, Some(\1)) min=0
//@sub /self\.error\b/ => *self_error min=0
//@sub /for i in &mut data\[([^\]]+?)\.\.([^\]]+?)\] \{/ => slice_bounds(data, \1, \2); for i__ in \1..\2 { let i = cell_mut(data, i__); min=0
//@sub /\b(\w+(?:\.\w+)*) as f64\b/ => f64_of_f32(\1) min=0
//@sig
    requires
        [[L: sec/pre]]
        old(data)@.len() == DATA_SIZE,
        sec_ok(pend(*old(last), *old(section)), current_start as int),
        is_stop(pend(*old(last), *old(section)), k, current_start as int + DATA_SIZE as int),
        max_sections0 as int + pend(*old(last), *old(section)).len() < usize::MAX as int,
    ensures
        [[L: sec/window_size_kept]]
        final(data)@.len() == DATA_SIZE,
        [[L: sec/error_sets_flag_and_is_returned_at_once]]
        stop_is_err(pend(*old(last), *old(section)), k) ==> r.3 == Some(pend(*old(last), *old(section))[k]->Err_0) && *final(self_error),
        [[L: sec/no_error_no_flag]]
        !stop_is_err(pend(*old(last), *old(section)), k) ==> r.3 is None && *final(self_error) == *old(self_error),
        [[L: sec/boundary_reaching_value_stays_pending]]
        // nothing that has bases at or beyond the window end is dropped: the first value reaching the
        // window end is parked (with everything behind it still in the stream)
        !stop_is_err(pend(*old(last), *old(section)), k) ==> pend(*final(last), *final(section)) == pend(*old(last), *old(section)).subrange(k, pend(*old(last), *old(section)).len() as int),
        [[L: sec/parked_is_the_stop_value]]
        (!stop_is_err(pend(*old(last), *old(section)), k) && k < pend(*old(last), *old(section)).len()) ==> *final(last) == Some(pend(*old(last), *old(section))[k]->Ok_0),
        (!stop_is_err(pend(*old(last), *old(section)), k) && k == pend(*old(last), *old(section)).len()) ==> *final(last) is None && final(section).rest().len() == 0,
        [[L: sec/parked_and_rest_lie_beyond_window]]
        // the invariant that rules out the u32 underflow in `next_val.end - current_start` in the next window
        !stop_is_err(pend(*old(last), *old(section)), k) ==> sec_ok(pend(*final(last), *final(section)), current_start as int + DATA_SIZE as int),
        [[L: sec/each_value_added_once_to_exactly_its_cells]]
        !stop_is_err(pend(*old(last), *old(section)), k) ==> c64(final(data)@) == add_vals(c64(old(data)@), taken(pend(*old(last), *old(section)), k), current_start as int),
        [[L: sec/max_data_len_is_largest_in_window_end]]
        !stop_is_err(pend(*old(last), *old(section)), k) ==> r.0 as int == touch_ends(max_data_len0 as int, taken(pend(*old(last), *old(section)), k), current_start as int),
        max_data_len0 <= DATA_SIZE ==> r.0 <= DATA_SIZE,
        [[L: sec/touched_span_fits_u32]]
        current_start as int + max_data_len0 as int <= u32::MAX as int ==> current_start as int + r.0 as int <= u32::MAX as int,
        [[L: sec/all_none_iff_no_value_seen]]
        !stop_is_err(pend(*old(last), *old(section)), k) ==> r.2 == (all_none0 && taken(pend(*old(last), *old(section)), k).len() == 0),
        [[L: sec/max_sections_counts_values]]
        r.1 as int <= max_sections0 as int + n_taken(pend(*old(last), *old(section)), k),
//@open
        let mut max_data_len = max_data_len0;
        let mut max_sections = max_sections0;
        let mut all_none = all_none0;
        let ghost p = pend(*last, *section);
        let ghost d0 = c64(data@);
        let ghost m0 = max_data_len as int;
        let ghost s0 = max_sections as int;
        let ghost cs = current_start as int;
        let ghost wend = current_start as int + DATA_SIZE as int;
        let ghost mut j: int = 0;
        proof {
            float_ax::float_det();
            assert(p.subrange(0, p.len() as int) =~= p);
            assert(oks(p, 0) =~= Seq::<Value>::empty());
            lemma_fold_empty(d0, m0, cs);
            if !stop_is_err(p, k) { lemma_sec_ok_suffix(p, cs, k, wend); }
        }
//@loop 1
            invariant_except_break
                [[L: section/progress]]
                0 <= j <= k,
                pend(*last, *section) == p.subrange(j, p.len() as int),
                j > 0 ==> *last is None,
                [[L: section/state_is_fold_of_values_taken_so_far]]
                c64(data@) == add_vals(d0, oks(p, j), cs),
                max_data_len as int == touch_ends(m0, oks(p, j), cs),
                all_none == (all_none0 && j == 0),
                max_sections as int <= s0 + j,
            invariant
                [[L: section/frame]]
                p == pend(*old(last), *old(section)), d0 == c64(old(data)@), cs == current_start as int, wend == cs + DATA_SIZE as int,
                cs + max_data_len0 as int <= u32::MAX as int ==> cs + max_data_len as int <= u32::MAX as int,
                sec_ok(p, cs), is_stop(p, k, wend),
                !stop_is_err(p, k) ==> sec_ok(p.subrange(k, p.len() as int), wend),
                data@.len() == DATA_SIZE, max_data_len0 <= DATA_SIZE ==> max_data_len <= DATA_SIZE,
                s0 + p.len() < usize::MAX as int, m0 == max_data_len0 as int, s0 == max_sections0 as int,
                *self_error == *old(self_error),
                <f64 as AddSpec<f64>>::obeys_add_spec(),
            ensures
                [[L: section/exit_parked]]
                0 <= k, j == k, k < p.len(), p[k] is Ok,
                *last == Some(p[k]->Ok_0), section.rest() == p.subrange(k + 1, p.len() as int),
                c64(data@) == add_vals(d0, oks(p, k + 1), cs),
                max_data_len as int == touch_ends(m0, oks(p, k + 1), cs),
                all_none == false,
                max_sections as int <= s0 + k + 1,
            decreases
                [[L: section/termination]]
                p.len() - j,
//@at /let next_val = match last\.take\(\) \{/ before
                    let ghost q = pend(*last, *section);
                    proof {
                        assert(q.len() == p.len() - j);
                        if q.len() == 0 {
                            assert(j == k && n_taken(p, k) == k);
                        } else {
                            assert(q[0] == p[j]);
                            if p[j] is Err { assert(j == k); }
                            if *last is Some { assert(section.rest() =~= q.subrange(1, q.len() as int)); }
                        }
                    }
//@at /^\s*let data_start\b/ before
                    let ghost d_in = c64(data@);
                    let ghost m_in = max_data_len as int;
                    proof {
                        // the value just obtained is p[j]; the stream behind it is p[j+1..]
                        assert(j < p.len());
                        assert(p[j] == Ok::<Value, MergeError>(next_val)); [[L: section/values_are_taken_in_stream_order]]
                        assert(section.rest() =~= q.subrange(1, q.len() as int));
                        assert(q.subrange(1, q.len() as int) =~= p.subrange(j + 1, p.len() as int));
                        assert(*last is None);
                        lemma_sec_ok_item(p, cs, j);
                        assert(next_val.end >= current_start); [[L: section/no_underflow_value_ends_at_or_after_window_start]]
                        lemma_fold_step(d0, m0, p, j, cs);
                        if next_val.end >= wend {
                            assert(j == k); [[L: section/stops_at_first_value_reaching_window_end]]
                        } else {
                            assert(j < k); [[L: section/value_ending_inside_window_is_not_the_stop]]
                        }
                        if next_val.start >= wend {
                            // parked without being added: it has no base inside the window
                            lemma_no_cell(d_in, next_val, cs);
                        }
                    }
//@at /^\s*let data_end\b/ after
                    proof {
                        lemma_range_is_val(d_in, next_val, cs, data_start as int, data_end as int); [[L: section/cells_added_are_exactly_the_bases_of_the_value_in_window]]
                    }
//@loop 2
                        invariant
                            [[L: cells/frame]]
                            data@.len() == DATA_SIZE, data_start <= data_end <= DATA_SIZE,
                            value == next_val.value,
                            <f64 as AddSpec<f64>>::obeys_add_spec(),
                            [[L: cells/each_cell_of_the_value_gets_one_add]]
                            c64(data@) == add_range(d_in, data_start as int, i__ as int, f64_of(value)),
//@loopend 2
                            proof { assert(c64(data@) =~= add_range(d_in, data_start as int, i__ + 1, f64_of(value))); } [[L: cells/cell_holds_its_old_sum_plus_the_value]]
//@loopend 1
                    proof {
                        assert(next_val.end < wend); [[L: section/value_reaching_window_end_must_be_parked]]
                        j = j + 1;
                    }
//@close
            proof {
                assert(p[k] == Ok::<Value, MergeError>(p[k]->Ok_0));
                assert(pend(*last, *section) =~= p.subrange(k, p.len() as int));
            }
            (max_data_len, max_sections, all_none, None)
//@end

// =====================================================================================
// A'. the iteration of A over the sections: `'sections: for (section, last) in &mut self.sections { .. }`.
//    Cut from `fn next` by three presubs: everything before the `for` becomes the signature (the loop's
//    free variables as parameters), the `for` HEADER IS KEPT, its body (= piece A, proved above) is
//    replaced by one call of `next_section` with this iteration's `(section, last)`, threading the
//    accumulators and returning at the first error; everything behind the `for`'s closing brace is dropped.
//    The kept header is then turned into an index loop by unit-local subs (R7 has no `&mut V` / tuple
//    pattern form): `&mut self.sections` / `self.sections.iter_mut()` -> `for i__ in 0..n__ { let (section,
//    last) = &mut sections[i__];`; a trailing `.rev()`, `.skip(K)`, `.take(K)` changes the element index /
//    the index range accordingly (so that such an edit is judged by the invariants below); any other
//    header is refused.  The contract is the one D uses at its call; nothing in it is assumed any more.
// =====================================================================================
//@extract fn bigtools/src/utils/merge.rs next
//@presub /\Afn next\(&mut self\) -> Option<Self::Item> \{.*?vec!\[0(f\d+); DATA_SIZE\];.*?\n(?=[ \t]*'sections: for\b)/ => fn accumulate_sections(sections: &mut Vec<(VIter, Option<Value>)>, data: &mut Vec<\1>, current_start: u32, max_data_len0: usize, max_sections0: usize, all_none0: bool, self_error: &mut bool) -> (r: (usize, usize, bool, Option<MergeError>, Ghost<Seq<int>>)) {\n
//@presub /('sections: for [^{]*\{)[ \t]*\n.*?\n([ \t]*)\}\s*(?://[^\n]*\s*)*let mut next_sections: Vec<Value>.*\Z/ => \1\n\2    let sec__ = next_section(section, last, data, current_start, max_data_len, max_sections, all_none, self_error, Ghost(stop_of(pend(*last, *section), current_start as int + DATA_SIZE as int)));\n\2    max_data_len = sec__.0;\n\2    max_sections = sec__.1;\n\2    all_none = sec__.2;\n\2    if let Some(e) = sec__.3 {\n\2        return (max_data_len, max_sections, all_none, Some(e), Ghost(ks));\n\2    }\n\2}\n}
//@sub /'sections:\s*for \((\w+), (\w+)\) in (?:&mut self\.sections|self\.sections\.iter_mut\(\)) \{/ => let n__ = sections.len();\n for i__ in 0..n__ {\n let (\1, \2) = &mut sections[i__]; min=0
//@sub /'sections:\s*for \((\w+), (\w+)\) in self\.sections\.iter_mut\(\)\.rev\(\) \{/ => let n__ = sections.len();\n for i__ in 0..n__ {\n let (\1, \2) = &mut sections[n__ - 1 - i__]; min=0
//@sub /'sections:\s*for \((\w+), (\w+)\) in self\.sections\.iter_mut\(\)\.skip\(\s*(\w+)\s*\) \{/ => let n__ = sections.len();\n for i__ in (if (\3) as usize <= n__ { (\3) as usize } else { n__ })..n__ {\n let (\1, \2) = &mut sections[i__]; min=0
//@sub /'sections:\s*for \((\w+), (\w+)\) in self\.sections\.iter_mut\(\)\.take\(\s*(\w+)\s*\) \{/ => let n__ = sections.len();\n for i__ in 0..(if (\3) as usize <= n__ { (\3) as usize } else { n__ }) {\n let (\1, \2) = &mut sections[i__]; min=0
//@sub /'sections:\s*for [^{]*\{/ => unknown_iteration_over_sections__refused();\n let n__ = sections.len();\n for i__ in 0..n__ {\n let (section, last) = &mut sections[i__]; min=0
//@sig
    requires
        [[L: fold/pre]]
        old(data)@.len() == DATA_SIZE,
        all_sec_ok(pends(old(sections)@), current_start as int),
        max_sections0 as int + total_len(pends(old(sections)@)) < usize::MAX as int,
    ensures
        [[L: fold/window_size_kept]]
        final(data)@.len() == DATA_SIZE,
        [[L: fold/max_data_len_stays_within_window]]
        max_data_len0 <= DATA_SIZE ==> r.0 <= DATA_SIZE,
        [[L: fold/touched_span_fits_u32]]
        current_start as int + max_data_len0 as int <= u32::MAX as int ==> current_start as int + r.0 as int <= u32::MAX as int,
        [[L: fold/error_sets_flag]]
        r.3 is Some ==> *final(self_error),
        [[L: fold/no_error_no_flag]]
        r.3 is None ==> *final(self_error) == *old(self_error),
        [[L: fold/every_section_stops_at_its_first_value_reaching_window_end]]
        r.3 is None ==> stops_ok(pends(old(sections)@), r.4@, current_start as int + DATA_SIZE as int),
        [[L: fold/every_section_keeps_what_lies_behind_its_stop]]
        r.3 is None ==> pends(final(sections)@) == next_pends(pends(old(sections)@), r.4@),
        [[L: fold/pending_lies_beyond_window_in_every_section]]
        r.3 is None ==> all_sec_ok(pends(final(sections)@), current_start as int + DATA_SIZE as int),
        [[L: fold/window_is_fold_over_all_sections_in_order]]
        r.3 is None ==> c64(final(data)@) == win_data(pends(old(sections)@), r.4@, old(sections)@.len() as int, c64(old(data)@), current_start as int),
        [[L: fold/max_data_len_is_fold_over_all_sections]]
        r.3 is None ==> r.0 as int == win_mdl(pends(old(sections)@), r.4@, old(sections)@.len() as int, max_data_len0 as int, current_start as int),
        [[L: fold/all_none_iff_no_section_saw_a_value]]
        r.3 is None ==> r.2 == (all_none0 && none_taken(pends(old(sections)@), r.4@)),
        [[L: fold/max_sections_counts_at_most_all_pending_values]]
        r.3 is None ==> r.1 as int <= max_sections0 as int + total_len(pends(old(sections)@)),
//@open
        let mut max_data_len = max_data_len0;
        let mut max_sections = max_sections0;
        let mut all_none = all_none0;
        let ghost pre = pends(sections@);
        let ghost cs = current_start as int;
        let ghost wend = current_start as int + DATA_SIZE as int;
        let ghost ks = stops_of(pre, wend);
        let ghost d0 = c64(data@);
        let ghost m0 = max_data_len0 as int;
        let ghost s0 = max_sections0 as int;
        proof {
            lemma_win_zero(pre, ks, d0, m0, cs);
            assert(pre.subrange(0, 0) =~= Seq::<Seq<Result<Value, MergeError>>>::empty());
        }
//@loop 1
            invariant
                [[L: fold/frame]]
                pre == pends(old(sections)@), cs == current_start as int, wend == cs + DATA_SIZE as int, ks == stops_of(pre, wend),
                d0 == c64(old(data)@), m0 == max_data_len0 as int, s0 == max_sections0 as int,
                n__ == old(sections)@.len(), sections@.len() == n__, 0 <= i__ <= n__,
                all_sec_ok(pre, cs), s0 + total_len(pre) < usize::MAX as int,
                data@.len() == DATA_SIZE,
                *self_error == *old(self_error),
                max_data_len0 <= DATA_SIZE ==> max_data_len <= DATA_SIZE,
                cs + max_data_len0 as int <= u32::MAX as int ==> cs + max_data_len as int <= u32::MAX as int,
                [[L: fold/sections_before_i_stopped_without_error]]
                forall|j: int| 0 <= j < i__ ==> is_stop(#[trigger] pre[j], ks[j], wend) && !stop_is_err(pre[j], ks[j]),
                [[L: fold/sections_before_i_advanced_to_their_stop]]
                forall|j: int| 0 <= j < i__ ==> pend((#[trigger] sections@[j]).1, sections@[j].0) == pre[j].subrange(ks[j], pre[j].len() as int),
                forall|j: int| 0 <= j < i__ ==> sec_ok(pend((#[trigger] sections@[j]).1, sections@[j].0), wend),
                [[L: fold/sections_from_i_on_untouched]]
                forall|j: int| i__ <= j < n__ ==> (#[trigger] sections@[j]) == old(sections)@[j],
                [[L: fold/state_is_fold_over_the_first_i_sections_in_order]]
                c64(data@) == win_data(pre, ks, i__ as int, d0, cs),
                max_data_len as int == win_mdl(pre, ks, i__ as int, m0, cs),
                all_none == (all_none0 && none_taken_upto(pre, ks, i__ as int)),
                max_sections as int <= s0 + total_len(pre.subrange(0, i__ as int)),
            decreases
                [[L: fold/termination]]
                n__ - i__,
//@at /let \(\w+, \w+\) = &mut sections\[/ before
                let ghost before = sections@;
                let ghost i = i__ as int;
//@at /let sec__ = next_section\(/ before
                let ghost p = pend(*last, *section);
                let ghost k = stop_of(p, wend);
                let ghost ms_in = max_sections as int;
                proof {
                    // this iteration's pair is section i, still as it was at entry: what it has pending is pre[i]
                    assert(p == pends(before)[i]); [[L: fold/sections_are_visited_in_order_each_once]]
                    assert(p == pre[i]);
                    assert(sec_ok(pre[i], cs)); [[L: fold/section_meets_the_input_assumption_for_this_window]]
                    lemma_stop_of(p, wend);
                    assert(k == ks[i]); [[L: fold/stop_index_is_the_sections_own]]
                    lemma_total_len_take(pre, i);
                    lemma_total_len_mono(pre, i + 1);
                    assert(ms_in + p.len() < usize::MAX as int); [[L: fold/counter_bound_holds_for_the_next_section]]
                }
//@loopend 1
                proof {
                    // no error in section i: the state after i + 1 sections
                    assert(!stop_is_err(p, k)); [[L: fold/loop_goes_on_only_without_error]]
                    lemma_n_taken_le(p, k, wend);
                    lemma_win_step(pre, ks, i, d0, m0, cs);
                    assert(sections@[i] == (*section, *last)); [[L: fold/only_section_i_changes]]
                    assert(forall|j: int| 0 <= j < n__ && j != i ==> sections@[j] == before[j]);
                    assert(none_taken_upto(pre, ks, i + 1) == (none_taken_upto(pre, ks, i) && taken(pre[i], ks[i]).len() == 0)); [[L: fold/all_none_step]]
                }
//@close
        proof {
            assert(pre.subrange(0, n__ as int) =~= pre); [[L: fold/all_sections_visited]]
            assert(pends(sections@) =~= next_pends(pre, ks));
            assert(none_taken_upto(pre, ks, n__ as int) == none_taken(pre, ks));
        }
        (max_data_len, max_sections, all_none, None, Ghost(ks))
//@end

// =====================================================================================
// B. run-length encoding of data[..max_data_len] into next_sections.  Kept text of `next`: from
//    `let mut next_sections: Vec<Value> = Vec::with_capacity(..)` up to (not including)
//    `let insert_into_queue = ..`; everything before and after is cut away by the two presubs.
// =====================================================================================
//@extract fn bigtools/src/utils/merge.rs next
//@rule R16
//@presub /\Afn next\(&mut self\) -> Option<Self::Item> \{.*?vec!\[0(f\d+); DATA_SIZE\];.*?\n(?=[ \t]*let mut next_sections: Vec<Value>)/ => fn rle(data: &Vec<\1>, max_data_len: usize, current_start: u32, max_sections: usize) -> (out: (Vec<Value>, Ghost<Seq<(int, int)>>)) {\n
//@presub /\n[ \t]*let insert_into_queue = .*\Z/ => \n}
//@rule R5
//@rule R6
//@sub /for \(idx, i\) in data\[\.\.([^\]]+?)\]\.iter\(\)\.enumerate\(\) \{/ => slice_bounds(data, 0, \1); for idx in 0..\1 { let i = &data[idx]; min=0
//@sub /(c\.2|\*i)\s*==\s*(\*i|c\.2|0\.0)/ => cell_eq(\1, \2) min=0
//@sub /(c\.2|\*i)\s*!=\s*(\*i|c\.2|0\.0)/ => cell_ne(\1, \2) min=0
//@sub /(\*?\w+(?:\.\w+)*) as f32\b/ => cell_to_f32(\1) min=0
//@sig
    requires
        [[L: rle/pre]]
        data@.len() == DATA_SIZE, max_data_len <= DATA_SIZE,
        // the encoder's `idx + current_start + 1` / `c.1 += 1`: the encoded span must fit u32
        current_start as int + max_data_len as int <= u32::MAX as int,
        max_sections <= usize::MAX / 2,
    ensures
        [[L: rle/every_cell_in_exactly_one_run]]
        runs_tile(out.1@, max_data_len as int),
        [[L: rle/runs_are_maximal_stretches_of_equal_sums]]
        forall|q: int| 0 <= q < out.1@.len() ==> run_ok(c64(data@), (#[trigger] out.1@[q]).0, out.1@[q].1, max_data_len as int),
        [[L: rle/nonzero_runs_emitted_once_in_order_zero_runs_dropped]]
        out.0@ == emit(out.1@, c64(data@), current_start as int),
        [[L: rle/output_sorted_disjoint_nonempty_within_window]]
        sorted_in(out.0@, current_start as int, current_start as int + max_data_len as int),
//@open
        let ghost d = c64(data@);
        let ghost n = max_data_len as int;
        let ghost cs = current_start as int;
        let ghost mut runs: Seq<(int, int)> = Seq::empty();
        let ghost mut s: int = 0;
        proof { lemma_rle_init(d, cs, n); }
//@loop 1
            invariant
                [[L: rle/frame]]
                d == c64(data@), n == max_data_len as int, cs == current_start as int, d.len() == DATA_SIZE, n <= DATA_SIZE,
                0 <= cs, cs + n <= u32::MAX as int,
                [[L: rle/open_run_is_first_cell_start_and_cells_so_far]]
                idx == 0 ==> current is None && s == 0,
                idx > 0 ==> current is Some && 0 <= s < idx,
                idx > 0 ==> current->Some_0.0 as int == cs + s,
                idx > 0 ==> current->Some_0.1 as int == cs + idx,
                idx > 0 ==> e64(current->Some_0.2) == d[s],
                [[L: rle/closed_runs_tile_are_maximal_and_emitted]]
                rle_deep(runs, next_sections@, d, cs, n, s, idx as int),
//@at /^\s*let idx = idx as u32;/ before
                let ghost i0 = idx as int;
                let ghost runs0 = runs;
                let ghost s0 = s;
                let ghost out0 = next_sections@;
//@loopend 1
                proof {
                    if i0 == 0 {
                        lemma_rle_first(runs0, out0, d, cs, n);
                        assert(next_sections@ == out0); [[L: rle/first_cell_opens_a_run_and_emits_nothing]]
                    } else if feq(d[s0], d[i0]) {
                        assert(next_sections@ == out0); [[L: rle/equal_cell_extends_the_run_and_emits_nothing]]
                        lemma_rle_extend(runs0, out0, d, cs, n, s0, i0);
                    } else {
                        assert(next_sections@ == close_run(out0, (s0, i0), d, cs)); [[L: rle/closed_run_emitted_iff_nonzero_with_its_span_and_sum]]
                        lemma_rle_close(runs0, out0, d, cs, n, s0, i0);
                        runs = runs0.push((s0, i0));
                        s = i0;
                    }
                }
//@at /^\s*if let Some\(c\) = &mut current \{/ before
            let ghost out_before_flush = next_sections@;
//@close
        proof {
            if n > 0 {
                assert(next_sections@ == close_run(out_before_flush, (s, n), d, cs)); [[L: rle/last_run_emitted_iff_nonzero_with_its_span_and_sum]]
                lemma_rle_close_last(runs, out_before_flush, d, cs, n, s);
                runs = runs.push((s, n));
            } else {
                assert(next_sections@ == out_before_flush);
                lemma_rle_none(runs, out_before_flush, d, cs, n, s);
            }
        }
        (next_sections, Ghost(runs))
//@end

// =====================================================================================
// C. the closure `insert_into_queue` (R10 lift), under the precondition that holds at its only call
//    site (proved in D): the inserted value is non-empty and ends at or before the queue's first start.
// =====================================================================================
#[verifier::loop_isolation(false)]
//@extract closure bigtools/src/utils/merge.rs next insert_into_queue
//@rule R16
//@header fn insert_into_queue(queue: &mut Vec<Value>, next_val: Value)
//@rule R6
//@sub /for \(idx, queued\) in queue\.iter_mut\(\)\.enumerate\(\) \{/ => let mut idx: usize = 0; while idx < queue.len() {
//@sub /\bcontinue;/ => { idx = idx + 1; continue; } min=0
//@sub /\bqueued\.(start|end)\b/ => queue[idx].\1 min=0
//@sub /std::mem::replace\(\s*queued,/ => replace_at(queue, idx, min=0
//@sig
    requires
        [[L: pre]]
        queue_sorted(old(queue)@),
        next_val.start < next_val.end,
        old(queue)@.len() > 0 ==> next_val.end <= old(queue)@[0].start,
    ensures
        [[L: held_back_value_goes_in_front_nothing_merged]]
        final(queue)@ == seq![next_val] + old(queue)@,
//@open
        let ghost q0 = queue@;
//@loop 1
                invariant
                    [[L: insert/frame]]
                    queue@ == q0, insert_val == next_val, queue_sorted(q0),
                    next_val.start < next_val.end, q0.len() > 0 ==> next_val.end <= q0[0].start,
                decreases
                    [[L: insert/termination_one_round_at_this_call_site]]
                    1int,
//@at /let mut idx: usize = 0; while idx < queue\.len\(\) \{/ before
                    proof {
                        // queue is not empty and its last value ends after insert_val starts: the value cannot go at the back
                        if q0.len() > 0 { lemma_queue_front_back(q0); }
                        assert(q0.len() > 0);
                    }
//@loop 2
                        invariant
                            [[L: insert/only_the_first_queued_value_is_looked_at]]
                            idx == 0, queue@ == q0, q0.len() > 0, insert_val == next_val,
                            next_val.start < next_val.end, next_val.end <= q0[0].start, q0[0].start < q0[0].end,
                        decreases
                            [[L: insert/scan_termination]]
                            queue.len() - idx,
//@at /^\s*return;\s*$/ nth=1 before
                        proof {
                            if q0.len() > 0 { lemma_queue_front_back(q0); }
                            assert(q0.len() == 0); [[L: insert/back_push_only_on_an_empty_queue]]
                            assert(queue@ =~= seq![next_val] + q0);
                        }
//@at /^\s*return;\s*$/ nth=2 before
                            proof { assert(queue@ =~= seq![next_val] + q0); } [[L: insert/front_insert_keeps_everything_else_in_place]]
//@end

// =====================================================================================
// D. the skeleton of `next`: head (error flag, draining the buffered values), the window loop with
//    phase A replaced by `accumulate_sections` (piece A' above: the proved fold of `next_section`), phase B
//    by the proved `rle`, the closure definition removed (the lifted `insert_into_queue` above is
//    what the real call `insert_into_queue(&mut next_sections, last)` now resolves to), and the tail.
//    Ghost history `hist` (added field): windows computed so far, values handed out so far.
// =====================================================================================
//@extract struct bigtools/src/utils/merge.rs ValueIter
//@rule R8
//@sub /struct ValueIter<E, I>\s*where\s*I: Iterator<Item = Result<Value, E>> \+ Send,\s*\{/ => struct ValueIter {\n    hist: Ghost<Hist>,
//@sub /Vec<\(I, Option<Value>\)>/ => Vec<(VIter, Option<Value>)>
//@sub /Option<Box<dyn Iterator<Item = Value> \+ Send>>/ => Option<VQueue>
//@end

spec fn buf_of(q: Option<VQueue>) -> Seq<Value> { if q is Some { q->Some_0@ } else { Seq::empty() } }
/// values computed but not yet handed out, in the order they will be handed out
spec fn pending_out(it: ValueIter) -> Seq<Value> { buf_of(it.next_sections) + opt_v(it.last_val) }
spec fn live_inv(it: ValueIter) -> bool {
    &&& conserved(it.hist@, pending_out(it))
    &&& stream_sorted(it.hist@.wins, it.next_start as int)
    &&& windows_ok(it.hist@.wins)
    &&& chain_ok(it.hist@.wins, it.next_start as int, pends(it.sections@))
    &&& inputs_ok(pends(it.sections@), it.next_start as int)
}

impl ValueIter {
//@extract method bigtools/src/utils/merge.rs next "Iterator for ValueIter"
//@rule R16
//@presub /'sections: for [^{]*\{.*?\n(?=[ \t]*let mut next_sections: Vec<Value>)/ => let acc = accumulate_sections(&mut self.sections, &mut data, current_start, max_data_len, max_sections, all_none, &mut self.error);\n            max_data_len = acc.0; max_sections = acc.1; all_none = acc.2;\n            if let Some(e) = acc.3 { return Some(Err(e)); }\n
//@presub /let mut next_sections: Vec<Value> = Vec::with_capacity.*?\n(?=[ \t]*let insert_into_queue = )/ => let rle_out = rle(&data, max_data_len, current_start, max_sections);\n            let mut next_sections: Vec<Value> = rle_out.0;\n
//@presub /let insert_into_queue = \|.*?\n(?=[ \t]*let last_val = self\.last_val\.take\(\);)/ => ""
//@rule R5
//@rule R6
//@sub /Option<Self::Item>/ => Option<Result<Value, MergeError>>
//@sub /^\s*const DATA_SIZE: usize = \d+;\n/ => "" min=0
//@sub /Box::new\(next_sections\.into_iter\(\)\)/ => VQueue::from_vec(next_sections) min=0
//@sub /return ([^;]*?)\.map\(Result::Ok\);/ => return map_ok(\1); min=0
//@ret r
//@sig
    requires
        [[L: pre]]
        // all u32 coordinates: no bound on next_start or on the inputs' ends
        !old(self).error ==> live_inv(*old(self)),
    ensures
        [[L: after_an_error_always_none]]
        old(self).error ==> r is None && final(self).error && final(self).hist@ == old(self).hist@,
        [[L: error_is_returned_and_flag_set]]
        (r is Some && r->Some_0 is Err) ==> final(self).error,
        [[L: buffered_values_are_drained_in_order_before_a_new_window]]
        (!old(self).error && buf_of(old(self).next_sections).len() > 0) ==> {
            &&& r == Some(Ok::<Value, MergeError>(buf_of(old(self).next_sections)[0]))
            &&& buf_of(final(self).next_sections) == buf_of(old(self).next_sections).subrange(1, buf_of(old(self).next_sections).len() as int)
            &&& final(self).last_val == old(self).last_val && final(self).next_start == old(self).next_start
            &&& final(self).sections@ == old(self).sections@ && final(self).hist@.wins == old(self).hist@.wins
        },
        [[L: emitted_log_is_exactly_the_values_returned]]
        (r is Some && r->Some_0 is Ok) ==> final(self).hist@.emitted == old(self).hist@.emitted.push(r->Some_0->Ok_0),
        !(r is Some && r->Some_0 is Ok) ==> final(self).hist@.emitted == old(self).hist@.emitted,
        [[L: nothing_dropped_nothing_emitted_twice]]
        !final(self).error ==> conserved(final(self).hist@, pending_out(*final(self))),
        [[L: output_stream_sorted_disjoint_nonempty]]
        !final(self).error ==> stream_sorted(final(self).hist@.wins, final(self).next_start as int),
        [[L: every_window_is_the_rle_of_the_sums_of_its_inputs]]
        !final(self).error ==> windows_ok(final(self).hist@.wins),
        [[L: windows_advance_by_exactly_data_size_and_chain]]
        !final(self).error ==> chain_ok(final(self).hist@.wins, final(self).next_start as int, pends(final(self).sections@)),
        [[L: pending_inputs_lie_at_or_beyond_next_window]]
        !final(self).error ==> inputs_ok(pends(final(self).sections@), final(self).next_start as int),
        [[L: none_only_when_everything_is_exhausted_and_handed_out]]
        (r is None && !old(self).error) ==> {
            &&& !final(self).error
            &&& pending_out(*final(self)).len() == 0
            &&& all_empty(pends(final(self).sections@))
        },
        [[L: history_only_grows]]
        old(self).hist@.wins.is_prefix_of(final(self).hist@.wins),
//@open
        let ghost h0 = self.hist@;
        let ghost n0 = self.next_start as int;
//@at /^\s*let next = buf\.next\(\);/ before
            let ghost b0 = buf@;
//@at /^\s*let next = buf\.next\(\);/ after
            proof {
                if next is Some {
                    self.hist@.emitted = self.hist@.emitted.push(next->Some_0);
                    assert(self.hist@.emitted + (b0.subrange(1, b0.len() as int) + opt_v(self.last_val)) =~= h0.emitted + (b0 + opt_v(self.last_val))); [[L: drain/head_moves_from_buffer_to_emitted]]
                } else {
                    assert(b0.len() == 0);
                    assert(b0 + opt_v(self.last_val) =~= Seq::<Value>::empty() + opt_v(self.last_val));
                }
            }
//@at /^\s*loop \{/ before
        proof {
            assert(buf_of(self.next_sections).len() == 0); [[L: drain/new_window_only_when_the_buffer_is_empty]]
            assert(pending_out(*self) =~= opt_v(self.last_val));
            reveal(inputs_ok);
        }
//@loop 1
            invariant
                [[L: windows/frame]]
                !self.error, self.next_sections is None || buf_of(self.next_sections).len() == 0,
                h0 == old(self).hist@, n0 == old(self).next_start as int, !old(self).error, buf_of(old(self).next_sections).len() == 0,
                self.hist@.emitted == h0.emitted, h0.wins.is_prefix_of(self.hist@.wins),
                [[L: windows/nothing_dropped_nothing_emitted_twice]]
                conserved(self.hist@, opt_v(self.last_val)),
                [[L: windows/output_stream_sorted]]
                stream_sorted(self.hist@.wins, self.next_start as int),
                [[L: windows/records]]
                windows_ok(self.hist@.wins),
                chain_ok(self.hist@.wins, self.next_start as int, pends(self.sections@)),
                inputs_ok(pends(self.sections@), self.next_start as int),
            decreases
                [[L: windows/termination]]
                // next_start grows until it saturates at u32::MAX; the saturated window drains every section,
                // and with nothing pending the next window sees no value and returns
                u32::MAX as int - self.next_start as int,
                (if all_empty(pends(self.sections@)) { 0int } else { 1int }),
//@at /^\s*let mut all_none = true;/ after
            let ghost pre = pends(self.sections@);
            let ghost hw = self.hist@;
            let ghost lv0 = self.last_val;
            let ghost ns_in = current_start as int;
            proof {
                reveal(inputs_ok);
                assert(self.next_start as int == next_cs(current_start as int)); [[L: windows/next_window_starts_where_this_one_ends_saturating_at_u32_max]]
                assert(c64(data@) =~= zeros()); [[L: windows/every_window_starts_from_all_zero_sums]]
            }
            let ghost m_in = max_data_len as int;
//@at /^\s*let rle_out = rle\(/ before
            let ghost ks = acc.4@;
            let ghost post = pends(self.sections@);
            proof {
                lemma_step_inputs(pre, ks, current_start as int, post);
                lemma_total_len_suffix_bound(pre, max_sections as int);
                assert(current_start as int + max_data_len as int <= u32::MAX as int); [[L: windows/encoder_span_fits_u32]]
                assert(m_in == 0); [[L: windows/max_data_len_counts_this_window_only]]
                assert(max_data_len <= DATA_SIZE);
            }
//@at /^\s*let last_val = self\.last_val\.take\(\);/ before
            let ghost w = Win { cs: current_start as int, pre: pre, ks: ks, data: c64(data@), mdl: max_data_len as int, runs: rle_out.1@, out: next_sections@ };
            proof {
                assert(win_ok(w)); [[L: windows/window_record_is_fold_then_rle]]
                lemma_step_stream(hw, lv0, w);
                lemma_step_windows(hw.wins, w);
                lemma_step_chain(hw.wins, w, pre, post);
                self.hist@.wins = hw.wins.push(w);
                assert(h0.wins.is_prefix_of(self.hist@.wins));
            }
            let ghost runs_out = next_sections@;
            proof {
                if lv0 is Some {
                    assert(runs_out.len() > 0 ==> lv0->Some_0.end <= runs_out[0].start); [[L: call_site/held_back_value_ends_at_or_before_first_new_run]]
                }
            }
//@at /^\s*if !next_sections\.is_empty\(\) \{/ nth=1 before
            let ghost queue = next_sections@;
            proof {
                assert(queue =~= opt_v(lv0) + runs_out); [[L: tail/queue_is_held_back_value_then_new_runs]]
                assert(self.last_val is None);
            }
//@at /^\s*if !next_sections\.is_empty\(\) \{/ nth=2 before
            proof {
                assert(next_sections@ + opt_v(self.last_val) =~= queue); [[L: tail/last_value_of_the_queue_is_held_back_the_rest_keeps_its_order]]
            }
//@at /^\s*self\.next_sections = Some\(/ before
                proof {
                    let first = next_sections@[0];
                    self.hist@.emitted = self.hist@.emitted.push(first);
                    assert(self.hist@.emitted + (next_sections@.subrange(1, next_sections@.len() as int) + opt_v(self.last_val)) =~= h0.emitted + (next_sections@ + opt_v(self.last_val))); [[L: tail/first_of_the_rest_is_returned_the_others_buffered]]
                }
//@at /^\s*if all_none \{/ after
                proof {
                    assert(next_sections@.len() == 0); [[L: tail/final_value_only_after_the_queue_is_handed_out]]
                    lemma_none_taken_exhausted(pre, ks, current_start as int + DATA_SIZE as int);
                    if self.last_val is Some {
                        self.hist@.emitted = self.hist@.emitted.push(self.last_val->Some_0);
                        assert(self.hist@.emitted + Seq::<Value>::empty() =~= h0.emitted + opt_v(self.last_val));
                    }
                    assert(buf_of(self.next_sections) + opt_v(None::<Value>) =~= Seq::<Value>::empty());
                }
//@loopend 1
            proof {
                assert(next_sections@.len() == 0);
                assert(opt_v(self.last_val) =~= queue);
                // the loop goes on only if some section saw a value in this window
                if all_empty(pre) { lemma_empty_none_taken(pre, ks, current_start as int + DATA_SIZE as int); }
                assert(!all_empty(pre)); [[L: windows/loop_goes_on_only_if_a_section_saw_a_value]]
                if current_start as int + DATA_SIZE as int > u32::MAX as int {
                    lemma_saturated_drains(pre, ks, current_start as int + DATA_SIZE as int);
                    assert(all_empty(post)); [[L: windows/after_the_saturated_window_nothing_is_pending]]
                }
            }
//@end
}

// ---------------- the constructor: establishes the state invariant for the first call ----------------
//@extract fn bigtools/src/utils/merge.rs merge_sections_many
//@rule R16
//@rule R8
//@sub /pub fn merge_sections_many<I, E>\(sections: Vec<I>\) -> impl Iterator<Item = Result<Value, E>> \+ Send\s*where\s*I: Iterator<Item = Result<Value, E>> \+ Send,/ => fn merge_sections_many(sections: Vec<VIter>) -> (r: ValueIter)
//@sub /sections\.into_iter\(\)\.map\(\|s\| \(s, None\)\)\.collect\(\)/ => pair_with_none(sections) min=0
//@sub /ValueIter \{/ => let r__ = ValueIter { hist: Ghost(Hist { wins: Seq::empty(), emitted: Seq::empty() }),
//@sig
    requires
        [[L: pre]]
        // C15 input assumption: every stream sorted, disjoint, start <= end (any u32 coordinates)
        inputs_ok(streams(sections@), 0),
    ensures
        [[L: starts_at_base_zero_with_nothing_parked_buffered_or_held_back]]
        !r.error && r.next_start == 0 && r.next_sections is None && r.last_val is None,
        pends(r.sections@) == streams(sections@),
        r.hist@.wins.len() == 0 && r.hist@.emitted.len() == 0,
        [[L: establishes_state_invariant]]
        live_inv(r),
//@open
    let ghost ss = sections@;
//@close
    ;
    proof {
        lemma_initial_state(r__.sections@, ss);
        assert(r__.hist@.emitted + pending_out(r__) =~= Seq::<Value>::empty());
    }
    r__
//@end

} // verus!
fn main() {}
