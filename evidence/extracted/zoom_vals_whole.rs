// bbiwrite::write_zoom_vals WHOLE, as the complement of the existing carves: the pieces that units zoom_sizes (level
// list), chrom_ids (`do_read` of the zoom pass) and zoom_tail (construction loop, spawn loop, level task, `advance`,
// the tail) put under contract are replaced by logged shims CARRYING those units' contracts; every other statement is
// verified as written:
//   `let first_zoom_data_offset = file.tell()?;`  `match zoom_files.first_mut() { Some(first) => first.1.switch(file),
//   None => return Ok((file, vec![], 0)), }`  `let mut max_uncompressed_buf_size = 0;`  the call of the pass
//   `drop(zooms_map);`  and the THREADING: the level list feeds the construction loop, `zoom_receivers` the spawn loop,
//   handles + `zoom_files` + `first_zoom_data_offset` + the initial maximum the tail.
// What is proved: with no level the file comes back untouched with no entries and size 0; otherwise the PRECONDITIONS
// OF THE TAIL (unit zoom_tail `tail/pre_*`) are established from the pieces' postconditions: one task handle and one
// staging file per level, paired, in level order, at least one; level 0 switched to the real file at the position the
// file had BEFORE the switch (`first_zoom_data_offset`), every other level never switched; every level's sender dropped
// before the first join (the level tasks end only then: C13); the pass runs with THE id map of the first pass over
// channels that hold one message per chromosome id; and the function returns what the tail returns.
use vstd::prelude::*;
verus! {

// =====================================================================================
// shims (R11)
// =====================================================================================
#[verifier::external_body] pub struct IoErr { _p: u8 }
#[verifier::external_body] pub struct SrcErr { _p: u8 }
pub trait HasBytes: Sized { spec fn bytes(&self) -> Seq<u8>; }
/// BufWriter<W>; `tell()` returns the number of bytes accepted so far and changes nothing (ASSUMED, as in zoom_tail)
#[verifier::external_body] pub struct OutFile { _p: u8 }
impl HasBytes for OutFile { uninterp spec fn bytes(&self) -> Seq<u8>; }
impl OutFile {
    #[verifier::external_body]
    pub fn tell(&mut self) -> (r: Result<u64, IoErr>)
        ensures *final(self) == *old(self), r matches Ok(p) ==> p as int == old(self).bytes().len(),
    { unimplemented!() }
}
/// TempFileBufferWriter<BufWriter<W>> (producer half of a level's staging file), the per-chromosome message parts
#[verifier::external_body] pub struct LevelFile { _p: u8 }
impl LevelFile { pub uninterp spec fn cid(&self) -> int; }
#[verifier::external_body] pub struct ZMsg { _p: u8 }
/// TempFileBuffer<R>, consumer half (tfb; same model as chrom_pipe / zoom_tail)
#[verifier::external_body]
#[verifier::reject_recursive_types(R)]
pub struct StageBuf<R> { _p: core::marker::PhantomData<R> }
impl<R: HasBytes> StageBuf<R> {
    pub uninterp spec fn cid(&self) -> int;
    pub uninterp spec fn staged(&self) -> Seq<u8>;
    pub uninterp spec fn dest(&self) -> Option<R>;
    #[verifier::external_body]
    pub fn switch(&mut self, new_file: R)
        requires
            
            old(self).dest() is None,
        ensures
            final(self).dest() == Some(new_file), final(self).staged() == old(self).staged(), final(self).cid() == old(self).cid(),
    { unimplemented!() }
}
/// futures mpsc bounded channel ends (zoom_tail (d)): `capacity()` = guaranteed room without draining, `sent()`, `cid()`
#[verifier::external_body] pub struct Mailbox { _p: u8 }
impl Mailbox { pub uninterp spec fn cid(&self) -> int; }
#[verifier::external_body] pub struct ZSender { _p: u8 }
impl ZSender {
    pub uninterp spec fn sent(&self) -> Seq<ZMsg>;
    pub uninterp spec fn capacity(&self) -> int;
    pub uninterp spec fn cid(&self) -> int;
}
/// BTreeMap<u32, ZoomSender>
#[verifier::external_body] pub struct SMap { _p: u8 }
impl SMap { pub uninterp spec fn view(&self) -> Map<u32, ZSender>; }
/// HashMap<String, u32>: the chromosome ids of the first pass
#[verifier::external_body] pub struct StrMap { _p: u8 }
impl StrMap {
    pub uninterp spec fn count(&self) -> nat;
    /// plausible foreign call (a FRESH map): accepted, nothing promised about its relation to the first pass
    #[verifier::external_body]
    pub fn new() -> (r: StrMap) ensures r.count() == 0 { unimplemented!() }
}
/// BTreeMap<u64, u64>: zoom counts of the first pass
#[verifier::external_body] pub struct CountMap { _p: u8 }
#[verifier::external_body] pub struct Runtime { _p: u8 }
/// JoinHandle of a level task (zoom_tail (a)); `task_input` = the triple it was spawned with
#[verifier::external_body] pub struct LevelHandle { _p: u8 }
impl LevelHandle { pub uninterp spec fn cid(&self) -> int; }
pub uninterp spec fn task_input(h: LevelHandle) -> (u32, Mailbox, LevelFile);
/// `V: BBIDataSource`
#[verifier::external_body] pub struct Vals { _p: u8 }

#[derive(Copy, Clone)]
pub enum InputSortType {
    ALL,
    START,
    // TODO
    //NONE,
}
pub struct BBIWriteOptions {
    pub compress: bool,
    pub items_per_slot: u32,
    pub block_size: u32,
    pub initial_zoom_size: u32,
    pub max_zooms: u32,
    pub manual_zoom_sizes: Option<Vec<u32>>,
    pub input_sort_type: InputSortType,
    pub channel_size: usize,
    pub inmemory: bool,
}
#[derive(Copy, Clone)]
pub struct ZoomHeader {
    pub reduction_level: u32,
    pub data_offset: u64,
    pub index_offset: u64,
    pub index_tree_offset: Option<u64>,
}
pub enum BBIProcessError {
    InvalidInput(String),
    InvalidChromosome(String),
    IoError(IoErr),
    SourceError(SrcErr),
}
/// thiserror's `#[from] io::Error` behind `file.tell()?`: converted value not modelled
impl From<IoErr> for BBIProcessError { #[verifier::external_body] fn from(value: IoErr) -> BBIProcessError { unimplemented!() } }

/// `v.first_mut()` / `v.last_mut()` (slice, ASSUMED std): the exclusive borrow of that element, `None` iff empty
#[verifier::external_body]
pub fn first_mut<T>(v: &mut Vec<T>) -> (r: Option<&mut T>)
    ensures
        r.is_some() == (old(v)@.len() > 0),
        r.is_some() ==> *r.unwrap() == old(v)@[0] && final(v)@ == old(v)@.update(0, *final(r.unwrap())),
        r.is_none() ==> final(v)@ == old(v)@,
{ unimplemented!() }
/// `v.reverse()` (plausible foreign call; ASSUMED std)
#[verifier::external_body]
pub fn vec_reverse<T>(v: &mut Vec<T>) ensures final(v)@ == old(v)@.reverse() { unimplemented!() }
#[verifier::external_body]
pub fn last_mut<T>(v: &mut Vec<T>) -> (r: Option<&mut T>)
    ensures
        r.is_some() == (old(v)@.len() > 0),
        r.is_some() ==> *r.unwrap() == old(v)@[old(v)@.len() - 1] && final(v)@ == old(v)@.update(old(v)@.len() - 1, *final(r.unwrap())),
        r.is_none() ==> final(v)@ == old(v)@,
{ unimplemented!() }

// ---------------- the pieces other units own, as logged shims carrying those units' contracts ----------------
pub open spec fn strictly_increasing(s: Seq<u32>) -> bool { forall|i: int, j: int| 0 <= i < j < s.len() ==> s[i] < s[j] }
/// unit zoom_sizes (`manual_levels_sorted_and_unique`, `zero_sizes_never_reach_the_tiling_loop`, the `take(MAX_ZOOM_LEVELS)` line;
/// the automatic branch takes ascending keys of a BTreeMap: ASSUMED): strictly increasing, at most 10 levels
pub uninterp spec fn levels_spec(o: BBIWriteOptions, average_size: u32, zoom_counts: CountMap, data_size: u64) -> Seq<u32>;
#[verifier::external_body]
pub fn two_pass_levels(options: &BBIWriteOptions, average_size: u32, zoom_counts: CountMap, data_size: u64) -> (r: Vec<u32>)
    ensures r@ == levels_spec(*options, average_size, zoom_counts, data_size), strictly_increasing(r@), r@.len() <= 10,
{ unimplemented!() }
/// unit zoom_tail `build/*`
pub open spec fn level_built(rc: (u32, Mailbox, LevelFile), f: (u32, StageBuf<OutFile>), m: Map<u32, ZSender>, size: u32) -> bool {
    &&& rc.0 == size && f.0 == size && m.dom().contains(size)
    &&& f.1.cid() == rc.2.cid() && f.1.dest() is None
    &&& m[size].cid() == rc.1.cid()
}
#[verifier::external_body]
pub fn build_levels(zooms: &Vec<u32>, options: &BBIWriteOptions, chrom_ids: &StrMap) -> (r: (Vec<(u32, Mailbox, LevelFile)>, Vec<(u32, StageBuf<OutFile>)>, SMap))
    requires
        
        strictly_increasing(zooms@),
    ensures
        r.0@.len() == zooms@.len() && r.1@.len() == zooms@.len(),
        forall|k: int| 0 <= k < zooms@.len() ==> level_built(#[trigger] r.0@[k], r.1@[k], r.2@, zooms@[k]),
        forall|x: u32| r.2@.dom().contains(x) <==> zooms@.contains(x),
        forall|x: u32| r.2@.dom().contains(x) ==> (#[trigger] r.2@[x]).capacity() == chrom_ids.count() as int && r.2@[x].sent().len() == 0,
{ unimplemented!() }
/// unit zoom_tail `spawn/*`
#[verifier::external_body]
pub fn spawn_levels(zoom_receivers: Vec<(u32, Mailbox, LevelFile)>, runtime: &Runtime) -> (r: Vec<LevelHandle>)
    ensures
        r@.len() == zoom_receivers@.len(),
        forall|k: int| 0 <= k < r@.len() ==> task_input(#[trigger] r@[k]) == zoom_receivers@[k] && r@[k].cid() == zoom_receivers@[k].2.cid(),
{ unimplemented!() }
/// ONE whole pass `vals_iter.process_to_bbi(&runtime, &mut do_read, &mut advance)` with the closures of write_zoom_vals:
/// `do_read` captures chrom_ids, zooms (the LEVEL list), options, runtime (unit chrom_ids `zoom_pass/*`), `advance`
/// captures zooms_map (unit zoom_tail `advance/*`, `handoff/*`).  The captured variables become arguments.
/// `pass_sent(..)` = what the pass has sent to level x's channel, as a function of the source and the read-only inputs.
pub uninterp spec fn pass_ok(v: Vals, ids: StrMap, levels: Seq<u32>, o: BBIWriteOptions) -> bool;
pub uninterp spec fn pass_sent(v: Vals, ids: StrMap, levels: Seq<u32>, o: BBIWriteOptions, x: u32) -> Seq<ZMsg>;
impl Vals {
    #[verifier::external_body]
    pub fn process_to_bbi_zooms(&mut self, runtime: &Runtime, chrom_ids: &StrMap, levels: &Vec<u32>, options: &BBIWriteOptions, zooms_map: &mut SMap)
        -> (r: Result<(), BBIProcessError>)
        requires
            
            forall|x: u32| old(zooms_map)@.dom().contains(x) <==> levels@.contains(x),
            
            forall|x: u32| old(zooms_map)@.dom().contains(x) ==> (#[trigger] old(zooms_map)@[x]).sent().len() == 0
                && old(zooms_map)@[x].capacity() == chrom_ids.count() as int,
        ensures
            final(zooms_map)@.dom() == old(zooms_map)@.dom(),
            forall|x: u32| old(zooms_map)@.dom().contains(x) ==> (#[trigger] final(zooms_map)@[x]).cid() == old(zooms_map)@[x].cid(),
            r is Ok <==> pass_ok(*old(self), *chrom_ids, levels@, *options),
            r is Ok ==> forall|x: u32| old(zooms_map)@.dom().contains(x) ==>
                (#[trigger] final(zooms_map)@[x]).sent() == pass_sent(*old(self), *chrom_ids, levels@, *options, x),
    { unimplemented!() }
}
/// which senders have been DROPPED; `drop(zooms_map)` is routed here.  A level task's `rcv.next()` returns `None` only
/// when its sender is gone: joining the task before that never returns.
#[verifier::external_body] pub struct SenderLog { _p: u8 }
impl SenderLog {
    pub uninterp spec fn dropped(&self, cid: int) -> bool;
    pub uninterp spec fn final_sent(&self, cid: int) -> Seq<ZMsg>;
    #[verifier::external_body]
    pub fn new() -> (r: SenderLog) ensures forall|c: int| !r.dropped(c) { unimplemented!() }
    #[verifier::external_body]
    pub fn map_dropped(&mut self, m: SMap)
        ensures
            forall|x: u32| m@.dom().contains(x) ==> final(self).dropped((#[trigger] m@[x]).cid()) && final(self).final_sent(m@[x].cid()) == m@[x].sent(),
            forall|c: int| old(self).dropped(c) ==> final(self).dropped(c),
    { unimplemented!() }
}
/// the TAIL (unit zoom_tail (c)): its preconditions are zoom_tail's `tail/pre_*` labels plus the drop-before-join order;
/// `tail_out` = what zoom_tail's postconditions describe (layout, directory, maximum)
pub uninterp spec fn tail_out(hs: Seq<LevelHandle>, fs: Seq<(u32, StageBuf<OutFile>)>, off: u64, max0: usize, o: BBIWriteOptions, log: SenderLog)
    -> Result<(OutFile, Vec<ZoomHeader>, usize), BBIProcessError>;
#[verifier::external_body]
pub fn zoom_tail(zooms: Vec<LevelHandle>, zoom_files: Vec<(u32, StageBuf<OutFile>)>, first_zoom_data_offset: u64, max_uncompressed_buf_size: usize,
        runtime: &Runtime, options: BBIWriteOptions, log: &SenderLog) -> (r: Result<(OutFile, Vec<ZoomHeader>, usize), BBIProcessError>)
    requires
        
        zooms@.len() == zoom_files@.len(), zooms@.len() >= 1,
        forall|k: int| 0 <= k < zooms@.len() ==> (#[trigger] zoom_files@[k]).1.cid() == zooms@[k].cid(),
        
        zoom_files@[0].1.dest() matches Some(f0) && f0.bytes().len() == first_zoom_data_offset as int,
        forall|k: int| 1 <= k < zoom_files@.len() ==> (#[trigger] zoom_files@[k]).1.dest() is None,
        
        forall|k: int| 0 <= k < zooms@.len() ==> log.dropped(task_input(#[trigger] zooms@[k]).1.cid()),
    ensures r == tail_out(zooms@, zoom_files@, first_zoom_data_offset, max_uncompressed_buf_size, options, *log),
{ unimplemented!() }

// =====================================================================================
// write_zoom_vals
// =====================================================================================
pub fn write_zoom_vals(mut vals_iter: Vals, options: BBIWriteOptions, runtime: &Runtime, chrom_ids: &StrMap, average_size: u32, zoom_counts: CountMap, mut file: OutFile, data_size: u64) -> (r: Result<(OutFile, Vec<ZoomHeader>, usize), BBIProcessError>)
    ensures
        
        levels_spec(options, average_size, zoom_counts, data_size).len() == 0 ==> (r matches Ok(t) ==> t.0 == file && t.1@.len() == 0 && t.2 == 0),
        
        levels_spec(options, average_size, zoom_counts, data_size).len() > 0 && r is Ok ==>
            pass_ok(vals_iter, *chrom_ids, levels_spec(options, average_size, zoom_counts, data_size), options),
        
        levels_spec(options, average_size, zoom_counts, data_size).len() > 0 && r is Ok ==>
            exists|hs: Seq<LevelHandle>, fs: Seq<(u32, StageBuf<OutFile>)>, log: SenderLog|
                r == #[trigger] tail_out(hs, fs, file.bytes().len() as u64, 0, options, log)
                && threaded(hs, fs, levels_spec(options, average_size, zoom_counts, data_size), file),
{
    let mut sender_log__ = SenderLog::new();
    let ghost f_in = file;

let zooms: Vec<u32> = two_pass_levels(&options, average_size, zoom_counts, data_size);
let (zoom_receivers, mut zoom_files, mut zooms_map) = build_levels(&zooms, &options, chrom_ids);

    let ghost levels__ = zooms@;
    let ghost map0__ = zooms_map@;
    let ghost files0__ = zoom_files@;
    let ghost rcv0__ = zoom_receivers@;

    let first_zoom_data_offset = file.tell()?;
    // We can immediately start to write to the file the first zoom

    proof {
        assert forall|k: int| 0 <= k < levels__.len() implies (#[trigger] files0__[k]).0 == levels__[k] && files0__[k].1.dest() is None by {
            assert(level_built(rcv0__[k], files0__[k], map0__, levels__[k]));
        }
    }
    match first_mut(&mut zoom_files) {
        Some(first) => first.1.switch(file),
        None => return Ok((file, vec![], 0)),
    }

    let mut max_uncompressed_buf_size: usize = 0;

let levels_captured__ = &zooms;


let zooms = spawn_levels(zoom_receivers, runtime);

    vals_iter.process_to_bbi_zooms(&runtime, chrom_ids, levels_captured__, &options, &mut zooms_map)?;

    let ghost map1__ = zooms_map@;

    sender_log__.map_dropped(zooms_map);


    proof {
        assert forall|k: int| 0 <= k < levels__.len() implies (#[trigger] files0__[k]).0 == levels__[k] && files0__[k].1.dest() is None
            && files0__[k].1.cid() == rcv0__[k].2.cid() && map0__.dom().contains(levels__[k]) && map0__[levels__[k]].cid() == rcv0__[k].1.cid() by {
            assert(level_built(rcv0__[k], files0__[k], map0__, levels__[k]));
        }
        
        assert(zoom_files@.len() == levels__.len() && forall|k: int| 0 <= k < levels__.len() ==> (#[trigger] zoom_files@[k]).0 == levels__[k]) by {
            assert forall|k: int| 0 <= k < levels__.len() implies (#[trigger] zoom_files@[k]).0 == levels__[k] by { assert(files0__[k].0 == levels__[k]); }
        }
        
        assert(first_zoom_data_offset as int == f_in.bytes().len() && zoom_files@[0].1.dest() == Some(f_in));
        
        assert(max_uncompressed_buf_size == 0);
        
        assert forall|k: int| 0 <= k < zooms@.len() implies (#[trigger] zoom_files@[k]).1.cid() == zooms@[k].cid() by {
            assert(files0__[k].1.cid() == rcv0__[k].2.cid());
        }
        
        assert forall|k: int| 1 <= k < zoom_files@.len() implies (#[trigger] zoom_files@[k]).1.dest() is None by {
            assert(files0__[k].1.dest() is None);
        }
        
        assert forall|k: int| 0 <= k < zooms@.len() implies sender_log__.dropped(task_input(#[trigger] zooms@[k]).1.cid()) by {
            assert(map0__[levels__[k]].cid() == rcv0__[k].1.cid());
            assert(levels__.contains(levels__[k]));
            assert(map1__.dom().contains(levels__[k]) && map1__[levels__[k]].cid() == map0__[levels__[k]].cid());
        }
        assert(first_zoom_data_offset == f_in.bytes().len() as u64);
        assert(threaded(zooms@, zoom_files@, levels__, f_in));
    }
zoom_tail(zooms, zoom_files, first_zoom_data_offset, max_uncompressed_buf_size, runtime, options, &sender_log__)
}
/// what the tail is called with: one handle and one staging file per level, file k keyed by level k and paired with
/// handle k, level 0 switched to THE file, the others unswitched
pub open spec fn threaded(hs: Seq<LevelHandle>, fs: Seq<(u32, StageBuf<OutFile>)>, levels: Seq<u32>, file: OutFile) -> bool {
    &&& hs.len() == levels.len() && fs.len() == levels.len()
    &&& forall|k: int| 0 <= k < levels.len() ==> (#[trigger] fs[k]).0 == levels[k] && fs[k].1.cid() == hs[k].cid()
    &&& fs[0].1.dest() == Some(file)
    &&& forall|k: int| 1 <= k < levels.len() ==> (#[trigger] fs[k]).1.dest() is None
}

} // verus!
fn main() {}

