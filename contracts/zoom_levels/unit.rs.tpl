//@unit zoom_levels
//@serves C07 C08 C09
//@backend verus
// bbiwrite::write_zooms: the loop that decides which zoom levels are kept, appends each kept level's
// staged data followed by its R-tree index to the output file and returns the zoom directory
// (`ZoomHeader`s) that write_info later stores in the header.
// C07/C08: "levels are listed with strictly increasing resolution".  C09: "header fields, offsets and
// counts are mutually consistent": every directory entry points at the bytes of its own level, the
// regions are disjoint and ascending, nothing already in the file is overwritten; at every entry's index_offset
// lies the published R-tree index of THAT level's sections (the reader finds the zoom records through it: C07/C08;
// "each level's index": C09) -- write_rtreeindex carries the contract unit rt_layout proves for it.
use vstd::prelude::*;
verus! {
//@include ../_shared/bytes.rs

//@extract struct bigtools/src/bbi.rs ZoomHeader
//@rule R8
//@end
//@extract const bigtools/src/bbi/bbiwrite.rs MAX_ZOOM_LEVELS
//@rule R8
//@end
//@extract enum bigtools/src/bbi/bbiwrite.rs InputSortType
//@rule R8
//@end
//@extract struct bigtools/src/bbi/bbiwrite.rs BBIWriteOptions
//@rule R8
//@end
// the real ZoomInfo with its two non-Verus field types replaced by the shims below (R11)
//@extract struct bigtools/src/bbi/bbiwrite.rs ZoomInfo
//@rule R8
//@sub /TempFileBuffer<File>/ => ZBuf min=1
//@sub /Flatten<vec::IntoIter<crossbeam_channel::IntoIter<Section>>>/ => Sections min=1
//@end

// =====================================================================================
// shims: ASSUMED contracts (listed in NOTES.md)
// =====================================================================================
/// `TempFileBuffer<File>` after the producer has dropped its writer: a staging buffer holding the
/// ghost bytes `staged()`.  `Copy` only so that the index loop can read it through `&zooms[i]`
/// (the real loop moves each ZoomInfo out of the Vec; rustc checks the real code for double use).
#[verifier::external_body]
#[derive(Clone, Copy)]
pub struct ZBuf { _p: u8 }
impl ZBuf {
    pub uninterp spec fn staged(&self) -> Seq<u8>;
    /// TempFileBuffer::len: the number of staged bytes (unit tfb: `len_is_number_of_accepted_bytes`)
    #[verifier::external_body]
    pub fn len(&self) -> (r: Result<u64, IoError>)
        ensures r matches Ok(n) ==> n as int == self.staged().len(),
    { unimplemented!() }
    /// TempFileBuffer::expect_closed_write on a destination positioned at its end: Ok appends exactly
    /// the staged bytes, once, in order (unit tfb: `out_gets_exactly_the_written_bytes_once_in_order`).
    #[verifier::external_body]
    pub fn expect_closed_write(self, out: &mut FSink) -> (r: Result<(), IoError>)
        requires old(out).wf(),
        ensures
            final(out).wf(),
            r is Ok && old(out).pos() == old(out).data().len() ==>
                final(out).data() == old(out).data() + self.staged() && final(out).pos() == final(out).data().len(),
    { unimplemented!() }
}
/// the flattened per-chromosome section receivers of one level: an opaque finite stream of `count()` sections
#[verifier::external_body]
#[derive(Clone, Copy)]
pub struct Sections { _p: u8 }
impl Sections {
    pub uninterp spec fn count(&self) -> u64;
}
/// `RTreeChildren` (the in-memory R-tree): opaque here, built and laid out in units rt_nodes / rt_layout.
/// `id()` = ghost identity of the tree value (which sections, rebased from where, chunked with which options).
#[verifier::external_body]
pub struct RTreeShim { _p: u8 }
pub type TreeId = int;
impl RTreeShim {
    pub uninterp spec fn id(&self) -> TreeId;
}
/// the tree `get_rtreeindex` builds from the section stream `s` rebased to start at file offset `base` (ASSUMED: a function
/// of exactly these; units rt_tree / rt_spans / rt_build are about that function)
pub uninterp spec fn tree_of(s: Sections, base: u64, o: BBIWriteOptions) -> TreeId;
/// its number of levels above the leaves (the second component `get_rtreeindex` returns)
pub uninterp spec fn depth_of(t: TreeId) -> usize;
/// what unit rt_layout calls `fmt_index(b0, t, levels, block_size, item_count, items_per_slot)` minus its first `b0.len()`
/// bytes, for `levels == depth_of(t)` and `b0.len() == at`: the 48-byte cirTree header followed by the nodes of level
/// `levels`, .., 0 with ABSOLUTE child positions (that is why `at` is an argument).  Uninterpreted here: the bytes are
/// rt_layout's business, this unit only says WHICH index lies WHERE.
pub uninterp spec fn index_bytes(t: TreeId, o: BBIWriteOptions, count: u64, at: int) -> Seq<u8>;
/// "the published index of tree `t` (itemCount `count`) lies at offset `off` of the file image `d`"
pub open spec fn index_at(d: Seq<u8>, off: int, t: TreeId, o: BBIWriteOptions, count: u64) -> bool {
    &&& 0 <= off
    &&& index_bytes(t, o, count, off).len() >= 48
    &&& off + index_bytes(t, o, count, off).len() <= d.len()
    &&& d.subrange(off, off + index_bytes(t, o, count, off).len()) == index_bytes(t, o, count, off)
}

/// `zoom.sections.map(|mut section| { section.offset = current_offset; current_offset += section.size; section })`
/// followed by `get_rtreeindex(sections_iter, options)`, as ONE call.  The rebasing closure is verified in
/// unit sec_offsets (`rebase/*`), get_rtreeindex (itertools chunks) is outside Verus.  Assumed: the third
/// component is the number of sections the stream yielded, the first is THE tree of this stream rebased from
/// `zoom_data_offset` (`tree_of`), the second is that tree's depth; no file access.
#[verifier::external_body]
pub fn build_index(sections: Sections, zoom_data_offset: u64, options: &BBIWriteOptions) -> (r: (RTreeShim, usize, u64))
    ensures r.2 == sections.count(),
        r.0.id() == tree_of(sections, zoom_data_offset, *options),
        r.1 == depth_of(r.0.id()),
{ unimplemented!() }

/// `write_rtreeindex` with the contract unit rt_layout PROVES for the real function over an append-only sink
/// (labels of rt_layout/write_rtreeindex): on a destination positioned at its end, Ok
///  * overwrites nothing (`earlier_file_content_untouched`) -- also for a `levels` that is not the tree's depth;
///  * for `levels` = the tree's depth (rt_layout's precondition `wf(nodes, levels, ..)`): appends exactly the published
///    index of THIS tree laid out from the position the sink had (`index_is_header_then_levels_top_down_with_true_child_positions`:
///    `file' == fmt_index(file, nodes, levels, block_size, section_count, items_per_slot)`), which is at least the
///    48-byte header (`index_size_is_header_plus_all_nodes`: `len' == len + 48 + above(..)`, `header_is_48_bytes`).
/// Nothing is promised on Err.
#[verifier::external_body]
pub fn write_rtreeindex(file: &mut FSink, nodes: RTreeShim, levels: usize, section_count: u64, options: &BBIWriteOptions) -> (r: Result<(), IoError>)
    requires old(file).wf(),
    ensures
        final(file).wf(),
        r is Ok && old(file).pos() == old(file).data().len() ==>
            prefix(old(file).data(), final(file).data()) && final(file).pos() == final(file).data().len(),
        r is Ok && old(file).pos() == old(file).data().len() && levels == depth_of(nodes.id()) ==>
            final(file).data() == old(file).data() + index_bytes(nodes.id(), *options, section_count, old(file).data().len() as int)
            && index_bytes(nodes.id(), *options, section_count, old(file).data().len() as int).len() >= 48,
{ unimplemented!() }

impl FSink {
    /// `Seek::stream_position` (`tell`) without the size precondition of `FSink::tell`.
    /// Assumed: a successful tell reports the position, which therefore fits in u64.
    #[verifier::external_body]
    pub fn tell64(&mut self) -> (r: Result<u64, IoError>)
        requires old(self).wf(),
        ensures final(self).data() == old(self).data(), final(self).pos() == old(self).pos(), final(self).wf(),
            r matches Ok(p) ==> p as int == old(self).pos(),
    { unimplemented!() }
}

// =====================================================================================
// specification vocabulary
// =====================================================================================
/// `a` is an initial part of `b` (nothing of `a` was overwritten)
pub open spec fn prefix(a: Seq<u8>, b: Seq<u8>) -> bool {
    a.len() <= b.len() && forall|i: int| 0 <= i < a.len() ==> a[i] == b[i]
}
/// input levels come in strictly increasing resolution (BTreeMap<u32, _> iteration order: ASSUMED)
pub open spec fn levels_ascending(z: Seq<ZoomInfo>) -> bool {
    forall|a: int, b: int| 0 <= a < b < z.len() ==> (#[trigger] z[a]).resolution < (#[trigger] z[b]).resolution
}
/// the directory is strictly increasing in reduction level
pub open spec fn entries_ascending(e: Seq<ZoomHeader>) -> bool {
    forall|a: int, b: int| 0 <= a < b < e.len() ==> (#[trigger] e[a]).reduction_level < (#[trigger] e[b]).reduction_level
}
/// the input level a directory entry with reduction level `res` stands for (unique when levels_ascending)
pub open spec fn lvl_of(z: Seq<ZoomInfo>, res: u32) -> int {
    choose|k: int| 0 <= k < z.len() && (#[trigger] z[k]).resolution == res
}
/// entry `e` points at the staged bytes of level `k` inside the file image `d`
pub open spec fn entry_holds(d: Seq<u8>, e: ZoomHeader, lv: ZoomInfo) -> bool {
    &&& e.reduction_level == lv.resolution
    &&& e.index_offset == e.data_offset + lv.data.staged().len()
    &&& e.index_offset <= d.len()
    &&& d.subrange(e.data_offset as int, e.index_offset as int) == lv.data.staged()
    &&& e.index_tree_offset is None
}
/// at entry `e`'s index_offset the file image `d` holds the published R-tree index of level `lv`: of the tree built from
/// THAT level's sections rebased to the entry's data_offset, with that level's section count as itemCount
pub open spec fn index_holds(d: Seq<u8>, e: ZoomHeader, lv: ZoomInfo, o: BBIWriteOptions) -> bool {
    index_at(d, e.index_offset as int, tree_of(lv.sections, e.data_offset, o), o, lv.sections.count())
}
/// where that index ends
pub open spec fn index_end(e: ZoomHeader, lv: ZoomInfo, o: BBIWriteOptions) -> int {
    e.index_offset + index_bytes(tree_of(lv.sections, e.data_offset, o), o, lv.sections.count(), e.index_offset as int).len()
}
/// the ghost bookkeeping of the loop: `idx[j]` = input level of entry j
pub open spec fn book_ok(z: Seq<ZoomInfo>, e: Seq<ZoomHeader>, idx: Seq<int>, d: Seq<u8>, n0: int, upto: int, o: BBIWriteOptions) -> bool {
    &&& idx.len() == e.len()
    &&& forall|j: int| 0 <= j < e.len() ==> index_holds(d, #[trigger] e[j], z[idx[j]], o)
    &&& forall|j: int| 0 <= j < e.len() ==> 0 <= (#[trigger] idx[j]) < upto
    &&& forall|a: int, b: int| 0 <= a < b < e.len() ==> (#[trigger] idx[a]) < (#[trigger] idx[b])
    &&& forall|j: int| 0 <= j < e.len() ==> entry_holds(d, #[trigger] e[j], z[idx[j]])
    &&& forall|j: int| 0 <= j < e.len() ==> n0 <= (#[trigger] e[j]).data_offset
    &&& forall|a: int, b: int| 0 <= a < b < e.len() ==> (#[trigger] e[a]).index_offset <= (#[trigger] e[b]).data_offset
    &&& forall|a: int, b: int| 0 <= a < b < e.len() ==> index_end(#[trigger] e[a], z[idx[a]], o) <= (#[trigger] e[b]).data_offset
}
pub open spec fn umax(a: int, b: int) -> int { if a >= b { a } else { b } }
pub open spec fn umin(a: int, b: int) -> int { if a <= b { a } else { b } }

/// the selection rule as a function of the first k levels: (indices kept, stopped by a cap).
/// Automatic mode keeps a level iff its staged data is at most half the full data and it has strictly
/// fewer sections than the level kept before it; manual mode keeps every level; both stop after 10
/// kept levels (header room), automatic mode also after max_zooms.
pub open spec fn sel(z: Seq<ZoomInfo>, k: int, half: int, maxz: int, auto: bool) -> (Seq<int>, bool)
    decreases k
{
    if k <= 0 { (Seq::<int>::empty(), false) } else {
        let p = sel(z, k - 1, half, maxz, auto);
        if p.1 { p } else {
            let last: int = if p.0.len() == 0 { u64::MAX as int } else { z[p.0.last()].sections.count() as int };
            if auto && (z[k - 1].data.staged().len() > half || last <= z[k - 1].sections.count()) { (p.0, false) }
            else { (p.0.push(k - 1), (auto && p.0.len() + 1 >= maxz) || p.0.len() + 1 >= 10) }
        }
    }
}
/// once stopped, later levels are not looked at
pub proof fn lemma_sel_stopped(z: Seq<ZoomInfo>, k: int, n: int, half: int, maxz: int, auto: bool)
    requires 0 <= k <= n, sel(z, k, half, maxz, auto).1,
    ensures sel(z, n, half, maxz, auto) == sel(z, k, half, maxz, auto),
    decreases n - k,
{
    if k < n { lemma_sel_stopped(z, k, n - 1, half, maxz, auto); }
}

// ---- lemmas ----
pub proof fn lemma_prefix_trans(a: Seq<u8>, b: Seq<u8>, c: Seq<u8>)
    requires prefix(a, b), prefix(b, c),
    ensures prefix(a, c),
{}
pub proof fn lemma_prefix_append(a: Seq<u8>, x: Seq<u8>)
    ensures prefix(a, a + x),
{}
/// a region inside `a` reads the same in every extension of `a`
pub proof fn lemma_prefix_region(a: Seq<u8>, b: Seq<u8>, x: int, y: int)
    requires prefix(a, b), 0 <= x <= y <= a.len(),
    ensures b.subrange(x, y) == a.subrange(x, y),
{
    assert(b.subrange(x, y) =~= a.subrange(x, y));
}
/// the freshly appended region reads back what was appended
pub proof fn lemma_appended_region(a: Seq<u8>, x: Seq<u8>)
    ensures (a + x).subrange(a.len() as int, (a.len() + x.len()) as int) == x,
{
    assert((a + x).subrange(a.len() as int, (a.len() + x.len()) as int) =~= x);
}
/// an index that lies in the file stays where it is when the file only grows
pub proof fn lemma_index_at_stable(d: Seq<u8>, d2: Seq<u8>, off: int, t: TreeId, o: BBIWriteOptions, count: u64)
    requires index_at(d, off, t, o, count), prefix(d, d2),
    ensures index_at(d2, off, t, o, count),
{
    lemma_prefix_region(d, d2, off, off + index_bytes(t, o, count, off).len());
}
/// the freshly appended index lies at the old end of the file
pub proof fn lemma_index_appended(d: Seq<u8>, t: TreeId, o: BBIWriteOptions, count: u64)
    ensures index_bytes(t, o, count, d.len() as int).len() >= 48 ==>
        index_at(d + index_bytes(t, o, count, d.len() as int), d.len() as int, t, o, count),
{
    lemma_appended_region(d, index_bytes(t, o, count, d.len() as int));
}
/// every entry keeps pointing at its bytes when the file only grows
pub proof fn lemma_book_extends(z: Seq<ZoomInfo>, e: Seq<ZoomHeader>, idx: Seq<int>, d: Seq<u8>, d2: Seq<u8>, n0: int, upto: int, o: BBIWriteOptions)
    requires book_ok(z, e, idx, d, n0, upto, o), prefix(d, d2),
    ensures book_ok(z, e, idx, d2, n0, upto, o),
{
    assert forall|j: int| 0 <= j < e.len() implies index_holds(d2, #[trigger] e[j], z[idx[j]], o) by {
        assert(index_holds(d, e[j], z[idx[j]], o));
        lemma_index_at_stable(d, d2, e[j].index_offset as int, tree_of(z[idx[j]].sections, e[j].data_offset, o), o, z[idx[j]].sections.count());
    }
    assert forall|j: int| 0 <= j < e.len() implies entry_holds(d2, #[trigger] e[j], z[idx[j]]) by {
        assert(entry_holds(d, e[j], z[idx[j]]));
        lemma_prefix_region(d, d2, e[j].data_offset as int, e[j].index_offset as int);
    }
}
/// one more kept level: the bookkeeping extends
pub proof fn lemma_book_push(z: Seq<ZoomInfo>, e: Seq<ZoomHeader>, idx: Seq<int>, d1: Seq<u8>, d3: Seq<u8>, n0: int, k: int, x: ZoomHeader, o: BBIWriteOptions)
    requires
        levels_ascending(z), 0 <= k < z.len(),
        book_ok(z, e, idx, d1, n0, k, o), entries_ascending(e), prefix(d1, d3), n0 <= d1.len(),
        entry_holds(d3, x, z[k]), index_holds(d3, x, z[k], o), x.data_offset == d1.len(),
    ensures
        book_ok(z, e.push(x), idx.push(k), d3, n0, k + 1, o), entries_ascending(e.push(x)),
{
    lemma_book_extends(z, e, idx, d1, d3, n0, k, o);
    let e2 = e.push(x);
    let idx2 = idx.push(k);
    assert forall|j: int| 0 <= j < e2.len() implies index_holds(d3, #[trigger] e2[j], z[idx2[j]], o) by {
        if j < e.len() { assert(index_holds(d3, e[j], z[idx[j]], o)); }
    }
    assert forall|j: int| 0 <= j < e2.len() implies entry_holds(d3, #[trigger] e2[j], z[idx2[j]]) by {
        if j < e.len() { assert(entry_holds(d3, e[j], z[idx[j]])); }
    }
    assert forall|a: int, b: int| 0 <= a < b < e2.len() implies (#[trigger] e2[a]).reduction_level < (#[trigger] e2[b]).reduction_level by {
        if b == e.len() { assert(entry_holds(d1, e[a], z[idx[a]])); assert(0 <= idx[a] < k); assert(z[idx[a]].resolution < z[k].resolution); }
        else { assert(e[a].reduction_level < e[b].reduction_level); }
    }
    assert forall|a: int, b: int| 0 <= a < b < e2.len() implies (#[trigger] e2[a]).index_offset <= (#[trigger] e2[b]).data_offset by {
        if b == e.len() { assert(entry_holds(d1, e[a], z[idx[a]])); }
        else { assert(e[a].index_offset <= e[b].data_offset); }
    }
    assert forall|a: int, b: int| 0 <= a < b < e2.len() implies index_end(#[trigger] e2[a], z[idx2[a]], o) <= (#[trigger] e2[b]).data_offset by {
        if b == e.len() { assert(index_holds(d1, e[a], z[idx[a]], o)); }
        else { assert(index_end(e[a], z[idx[a]], o) <= e[b].data_offset); }
    }
    assert forall|a: int, b: int| 0 <= a < b < e2.len() implies (#[trigger] idx2[a]) < (#[trigger] idx2[b]) by {
        if b == e.len() { assert(0 <= idx[a] < k); } else { assert(idx[a] < idx[b]); }
    }
}
/// distinct resolutions: the level of a resolution is unique
pub proof fn lemma_lvl_of(z: Seq<ZoomInfo>, k: int)
    requires levels_ascending(z), 0 <= k < z.len(),
    ensures lvl_of(z, z[k].resolution) == k,
{
    let c = lvl_of(z, z[k].resolution);
    assert(0 <= c < z.len() && z[c].resolution == z[k].resolution);
    if c < k { assert(z[c].resolution < z[k].resolution); }
    if k < c { assert(z[k].resolution < z[c].resolution); }
}
//@extract fn bigtools/src/bbi/bbiwrite.rs write_zooms
//@rule R16
//@rule R5
//@rule R6 min=1
//@rule R8
//@presub /let mut current_offset = zoom_data_offset;\s*let sections_iter = zoom\.sections\.map\(\|mut section\| \{\s*\/\/ TODO: assumes contiguous, see note for primary data\s*section\.offset = current_offset;\s*current_offset \+= section\.size;\s*section\s*\}\);\s*let \(nodes, levels, total_sections\) = get_rtreeindex\(sections_iter, options\);/ => let (nodes, levels, total_sections) = build_index(zoom.sections, zoom_data_offset, options); min=1 count=1
//@sub /<W: Write \+ Seek \+ Send \+ 'static>\(\s*mut file: &mut BufWriter<W>,/ => (file: &mut FSink, min=1
//@sub /io::Result<Vec<ZoomHeader>>/ => Result<Vec<ZoomHeader>, IoError> min=1
//@sub /for zoom in zooms \{/ => let mut zi__: usize = 0; while zi__ < zooms.len() { let zoom = &zooms[zi__]; zi__ = zi__ + 1; min=1 count=1
//@sub /u64::max_value\(\)/ => u64::MAX min=0
//@sub /\.tell\(\)/ => .tell64() min=0
//@sub /expect_closed_write\(&mut file\)/ => expect_closed_write(file) min=0
//@ret r
//@sig
    requires
        [[L: pre_sink_in_append_mode]]
        old(file).wf(), old(file).pos() == old(file).data().len(),
        [[L: pre_levels_strictly_ascending_resolution]]
        levels_ascending(zooms@),
    ensures
        [[L: levels_listed_with_strictly_increasing_resolution]]
        r matches Ok(v) ==> entries_ascending(v@),
        [[L: every_entry_is_an_input_level_and_points_at_its_staged_bytes]]
        r matches Ok(v) ==> forall|j: int| 0 <= j < v@.len() ==> ({
            let k = lvl_of(zooms@, (#[trigger] v@[j]).reduction_level);
            0 <= k < zooms@.len() && entry_holds(final(file).data(), v@[j], zooms@[k]) }),
        [[L: every_entry_index_offset_holds_the_published_index_of_its_own_level]]
        r matches Ok(v) ==> forall|j: int| 0 <= j < v@.len() ==>
            index_holds(final(file).data(), #[trigger] v@[j], zooms@[lvl_of(zooms@, v@[j].reduction_level)], *options),
        [[L: entries_follow_input_order]]
        r matches Ok(v) ==> forall|a: int, b: int| 0 <= a < b < v@.len() ==>
            lvl_of(zooms@, (#[trigger] v@[a]).reduction_level) < lvl_of(zooms@, (#[trigger] v@[b]).reduction_level),
        [[L: regions_start_after_old_content]]
        r matches Ok(v) ==> forall|j: int| 0 <= j < v@.len() ==> old(file).data().len() <= (#[trigger] v@[j]).data_offset,
        [[L: regions_disjoint_and_ascending]]
        r matches Ok(v) ==> forall|a: int, b: int| 0 <= a < b < v@.len() ==> (#[trigger] v@[a]).index_offset <= (#[trigger] v@[b]).data_offset,
        [[L: each_index_ends_before_the_next_level_starts]]
        r matches Ok(v) ==> forall|a: int, b: int| 0 <= a < b < v@.len() ==>
            index_end(#[trigger] v@[a], zooms@[lvl_of(zooms@, v@[a].reduction_level)], *options) <= (#[trigger] v@[b]).data_offset,
        [[L: old_content_is_prefix_nothing_overwritten]]
        r is Ok ==> prefix(old(file).data(), final(file).data()),
        [[L: still_in_append_mode]]
        r is Ok ==> final(file).wf() && final(file).pos() == final(file).data().len(),
        [[L: nothing_kept_nothing_written]]
        r matches Ok(v) ==> (v@.len() == 0 ==> final(file).data() == old(file).data()),
        [[L: auto/count_capped_by_max_zooms]]
        r matches Ok(v) ==> (options.manual_zoom_sizes is None && options.max_zooms >= 1 ==> v@.len() <= options.max_zooms),
        [[L: auto/max_zooms_zero_keeps_at_most_one_level]]
        r matches Ok(v) ==> (options.manual_zoom_sizes is None && options.max_zooms == 0 ==> v@.len() <= 1),
        [[L: auto/kept_level_at_most_half_the_data]]
        r matches Ok(v) ==> (options.manual_zoom_sizes is None ==> forall|j: int| 0 <= j < v@.len() ==>
            zooms@[lvl_of(zooms@, (#[trigger] v@[j]).reduction_level)].data.staged().len() <= data_size / 2),
        [[L: auto/section_counts_strictly_decrease]]
        r matches Ok(v) ==> (options.manual_zoom_sizes is None ==> forall|a: int, b: int| 0 <= a < b < v@.len() ==>
            zooms@[lvl_of(zooms@, (#[trigger] v@[a]).reduction_level)].sections.count() > zooms@[lvl_of(zooms@, (#[trigger] v@[b]).reduction_level)].sections.count()),
        [[L: manual/first_ten_levels_kept_in_order]]
        r matches Ok(v) ==> (options.manual_zoom_sizes is Some ==> v@.len() == umin(zooms@.len() as int, 10)
            && forall|j: int| 0 <= j < v@.len() ==> (#[trigger] v@[j]).reduction_level == zooms@[j].resolution),
        [[L: kept_levels_are_exactly_the_selection_rule]]
        r matches Ok(v) ==> ({ let s = sel(zooms@, zooms@.len() as int, data_size as int / 2, options.max_zooms as int, options.manual_zoom_sizes is None).0;
            v@.len() == s.len() && forall|j: int| 0 <= j < v@.len() ==> (#[trigger] v@[j]).reduction_level == zooms@[s[j]].resolution }),
        [[L: directory_fits_the_240_reserved_header_bytes]]
        r matches Ok(v) ==> v@.len() <= 10 && 24 * v@.len() <= 240,
//@open
    let ghost d0 = file.data();
    let ghost n0 = d0.len() as int;
    let ghost z = zooms@;
    let ghost idx: Seq<int> = Seq::empty();
    let ghost half = data_size as int / 2;
    let ghost maxz = options.max_zooms as int;
//@loop 1
        invariant_except_break
            [[L: loop/caps_not_yet_reached]]
            check_zoom ==> zoom_count < umax(options.max_zooms as int, 1),
            zoom_entries@.len() < MAX_ZOOM_LEVELS,
            !sel(z, zi__ as int, half, maxz, check_zoom).1,
        invariant
            [[L: loop/frame]]
            z == zooms@, levels_ascending(z), d0 == old(file).data(), n0 == d0.len(), MAX_ZOOM_LEVELS == 10,
            0 <= zi__ <= z.len(), check_zoom == (options.manual_zoom_sizes is None),
            [[L: loop/append_mode_and_growth]]
            file.wf(), file.pos() == file.data().len(), prefix(d0, file.data()),
            zoom_entries@.len() == 0 ==> file.data() == d0,
            [[L: loop/book]]
            book_ok(z, zoom_entries@, idx, file.data(), n0, zi__ as int, *options),
            entries_ascending(zoom_entries@),
            zoom_count == zoom_entries@.len(),
            [[L: loop/auto_selection]]
            check_zoom ==> zoom_count <= umax(options.max_zooms as int, 1),
            zoom_entries@.len() <= MAX_ZOOM_LEVELS,
            check_zoom ==> forall|j: int| 0 <= j < idx.len() ==> z[#[trigger] idx[j]].data.staged().len() <= data_size / 2,
            check_zoom ==> forall|a: int, b: int| 0 <= a < b < idx.len() ==> z[#[trigger] idx[a]].sections.count() > z[#[trigger] idx[b]].sections.count(),
            check_zoom && idx.len() > 0 ==> last_zoom_section_count == z[idx.last()].sections.count(),
            idx.len() == 0 ==> last_zoom_section_count == u64::MAX,
            [[L: loop/selection_rule]]
            half == data_size as int / 2, maxz == options.max_zooms as int,
            idx == sel(z, zi__ as int, half, maxz, check_zoom).0,
            sel(z, zi__ as int, half, maxz, check_zoom).1 ==> sel(z, z.len() as int, half, maxz, check_zoom) == sel(z, zi__ as int, half, maxz, check_zoom),
            [[L: loop/manual_keeps_all]]
            !check_zoom ==> zoom_entries@.len() == zi__ && forall|j: int| 0 <= j < idx.len() ==> (#[trigger] idx[j]) == j,
        ensures
            [[L: loop/manual_exit]]
            !check_zoom ==> zoom_entries@.len() == umin(z.len() as int, 10),
            [[L: loop/selection_exit]]
            idx == sel(z, z.len() as int, half, maxz, check_zoom).0,
        decreases
            [[L: loop/termination]]
            z.len() - zi__,
//@at /let zoom_file = zoom\.data;/ before
        let ghost k = zi__ as int - 1;
        let ghost d1 = file.data();
//@at /let \(nodes, levels, total_sections\) = build_index/ before
        assert(zoom_data_offset == file.data().len() && file.data() == d1); [[L: loop/data_offset_is_current_end_of_file]]
//@at /assert\(\(zoom_index_offset - zoom_data_offset\) == \(zoom_size\)\)/ before
        let ghost d2 = file.data();
        proof {
            lemma_prefix_append(d1, zoom.data.staged());
            lemma_appended_region(d1, zoom.data.staged());
        }
        assert(zoom_index_offset - zoom_data_offset == zoom_size); [[L: assert_eq_index_minus_data_is_zoom_size]]
//@at /zoom_count = zoom_count \+/ before
        proof {
            let e_old = zoom_entries@.drop_last();
            let d3 = file.data();
            assert(zoom_entries@ == e_old.push(zoom_entries@.last()));
            lemma_prefix_trans(d1, d2, d3);
            lemma_prefix_trans(d0, d1, d3);
            lemma_prefix_region(d2, d3, zoom_data_offset as int, zoom_index_offset as int);
            assert(entry_holds(d3, zoom_entries@.last(), z[k])); [[L: loop/pushed_entry_describes_this_level]]
            lemma_index_appended(d2, tree_of(z[k].sections, zoom_entries@.last().data_offset, *options), *options, z[k].sections.count());
            assert(index_holds(d3, zoom_entries@.last(), z[k], *options)); [[L: loop/index_of_this_level_lies_at_the_pushed_index_offset]]
            lemma_book_push(z, e_old, idx, d1, d3, n0, k, zoom_entries@.last(), *options);
            idx = idx.push(k);
            assert(idx == sel(z, zi__ as int, half, maxz, check_zoom).0); [[L: loop/kept_by_the_rule]]
            if sel(z, zi__ as int, half, maxz, check_zoom).1 { lemma_sel_stopped(z, zi__ as int, z.len() as int, half, maxz, check_zoom); }
        }
//@at /Ok\(zoom_entries\)/ before
    proof {
        assert forall|j: int| 0 <= j < zoom_entries@.len() implies lvl_of(z, (#[trigger] zoom_entries@[j]).reduction_level) == idx[j] by {
            assert(entry_holds(file.data(), zoom_entries@[j], z[idx[j]]));
            lemma_lvl_of(z, idx[j]);
        }
        assert forall|j: int| 0 <= j < zoom_entries@.len() implies (#[trigger] zoom_entries@[j]).reduction_level == z[idx[j]].resolution by {
            assert(entry_holds(file.data(), zoom_entries@[j], z[idx[j]]));
        }
        assert forall|j: int| 0 <= j < zoom_entries@.len() implies index_holds(file.data(), #[trigger] zoom_entries@[j], z[lvl_of(z, zoom_entries@[j].reduction_level)], *options) by {
            assert(index_holds(file.data(), zoom_entries@[j], z[idx[j]], *options));
        }
    }
//@end

} // verus!
fn main() {}
