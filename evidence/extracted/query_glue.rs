// The query entry points that wire a chromosome NAME to an id, a tree and an iterator:
//   bbiread.rs:    BBIFileInfo::chrom_id, search_cir_tree, ZoomIntervalIter::new
//   bigwigread.rs: BigWigRead::{get_interval, get_interval_move, get_zoom_interval, get_zoom_interval_move}
//   bigbedread.rs: BigBedRead::{get_interval, get_interval_move, get_zoom_interval, get_zoom_interval_move}
// C10 ("chromosome table .. interval queries .. zoom queries all match the encoded content", whoever wrote
// the file): the id a query runs under is the `id` FIELD of the chromosome-table entry whose name is the
// requested one — NOT the entry's position in the table (files written by other tools store ids that need not
// follow the table order).  C03/C04/C07/C08: the iterator handed back carries exactly that id, the requested
// start/end unchanged, the blocks the index search returned for (the full-data tree resp. the tree of the
// REQUESTED reduction level, that id, start, end, the file's byte order), starts at known_offset 0 with no
// decoded values; an unknown chromosome is an Err; an error of the tree lookup or of the search is an Err; and a
// query only fails for one of those reasons.
// Device: every file access the glue performs (tree lookup, index search) is a shim that appends an event with
// its arguments and its result to a ghost log carried by the reader handle `read`.
use vstd::prelude::*;
verus! {

#[derive(Copy, Clone)]
pub struct Block {
    pub offset: u64,
    pub size: u64,
}
#[derive(Copy, Clone)]
pub struct Summary {
    pub total_items: u64,
    pub bases_covered: u64,
    pub min_val: f64,
    pub max_val: f64,
    pub sum: f64,
    pub sum_squares: f64,
}
#[derive(Copy, Clone)]
pub struct Value {
    pub start: u32,
    pub end: u32,
    pub value: f32,
}
#[derive(Copy, Clone)]
pub struct ZoomRecord {
    pub chrom: u32,
    pub start: u32,
    pub end: u32,
    pub summary: Summary,
}
// R11: `rest: String` -> `rest: Vec<u8>` (never inspected here)
pub struct BedEntry {
    pub start: u32,
    pub end: u32,
    pub rest: Vec<u8>,
}
#[derive(Copy, Clone)]
pub enum BBIFile {
    BigWig,
    BigBed,
}
#[derive(Copy, Clone)]
pub struct ZoomHeader {
    pub reduction_level: u32,
    pub data_offset: u64,
    pub index_offset: u64,
    pub index_tree_offset: Option<u64>,
}
#[derive(Copy, Clone)]
pub struct BBIHeader {
    pub endianness: Endianness,
    pub version: u16,
    pub field_count: u16,
    pub defined_field_count: u16,

    pub zoom_levels: u16,
    pub chromosome_tree_offset: u64,
    pub full_data_offset: u64,
    pub full_index_offset: u64,
    pub full_index_tree_offset: Option<u64>,
    pub auto_sql_offset: u64,
    pub total_summary_offset: u64,
    pub uncompress_buf_size: u32,
}
// R11: chromosome names are an opaque `Name` with real equality (String/&str byte reasoning is outside Verus)
pub struct ChromInfo {
    pub name: Name,
    pub length: u32,
    pub id: u32,
}
pub struct BBIFileInfo {
    pub filetype: BBIFile,
    pub header: BBIHeader,
    pub zoom_headers: Vec<ZoomHeader>,
    pub chrom_info: Vec<ChromInfo>,
}
pub struct ChromIdNotFound(pub Name);
pub enum CirTreeIndexType {
    FullData,
    Zoom(u32),
}
pub struct CirTreeIndex(pub CirTreeIndexType, pub u64);
// thiserror attributes dropped; io::Error -> opaque IoError; BedValueError -> opaque
pub enum CirTreeSearchError {
    InvalidChromosome(Name),
    IoError(IoError),
}
pub enum BBIReadError {
    InvalidChromosome(Name),
    UnknownMagic,
    InvalidFile(Name),
    BedValueError(BedValueError),
    IoError(IoError),
}
pub enum ZoomIntervalError {
    ReductionLevelNotFound,
    BBIReadError(BBIReadError),
}
    pub enum FullDataCirTreeError {
        UnknownMagic,
        IoError(IoError),
    }
    pub enum ZoomDataCirTreeError {
        UnknownMagic,
        ReductionLevelNotFound,
        IoError(IoError),
    }

// ---------------- shims (each one is a listed assumption) ----------------
/// std::io::Error (opaque)
#[verifier::external_body]
pub struct IoError { _p: u8 }
/// bed::bedparser::BedValueError (opaque; never constructed here)
#[verifier::external_body]
pub struct BedValueError { _p: u8 }
/// byteordered::Endianness (external crate; only copied and passed through)
#[derive(Clone, Copy)]
pub enum Endianness { Big, Little }
/// a chromosome name (`String` / `&str`): opaque, with real equality
#[verifier::external_body]
pub struct Name { _s: String }
/// `a == b` on names (String == &str): decides spec equality
#[verifier::external_body]
pub fn name_eq(a: &Name, b: &Name) -> (r: bool)
    ensures r == (*a == *b),
{ unimplemented!() }
impl Name {
    /// `str::to_owned` / `str::to_string`: the same name
    #[verifier::external_body]
    pub fn to_owned(&self) -> (r: Name) ensures r == *self, { unimplemented!() }
    #[verifier::external_body]
    pub fn to_string(&self) -> (r: Name) ensures r == *self, { unimplemented!() }
    /// `String::as_str` (0 hits on /repo): the same name, borrowed
    #[verifier::external_body]
    pub fn as_str(&self) -> (r: &Name) ensures *r == *self, { unimplemented!() }
}
/// `str::cmp` (byte-wise lexicographic order of two names) as a sign: < 0, 0, > 0.  Uninterpreted: nothing the
/// glue states depends on the order itself, only on whether a table is KNOWN to be sorted by it.
pub uninterp spec fn name_cmp(a: Name, b: Name) -> int;
/// "the chromosome table is sorted by name" — the precondition under which `slice::binary_search_by` with the
/// comparator `|x| x.name.as_str().cmp(target)` means anything
pub open spec fn sorted_by_name(v: Seq<ChromInfo>) -> bool {
    forall|i: int, j: int| 0 <= i < j < v.len() ==> name_cmp(#[trigger] v[i].name, #[trigger] v[j].name) <= 0
}
/// shim for `V.binary_search_by(|x| x.name.as_str().cmp(chrom_name))` (0 hits on /repo; lets an edit that
/// bisects the chromosome table reach the verifier) with `slice::binary_search_by`'s REAL contract: it never
/// panics and the index it returns is in range (Ok: < len, Err: <= len); IF the slice is sorted consistently with
/// the comparator, Ok(i) is AN element that compares Equal (not necessarily the first) and Err(j) means no
/// element compares Equal (j = the insertion point); if the slice is NOT sorted that way "the returned result is
/// unspecified and meaningless" (std docs) — any in-range Ok / Err.
#[verifier::external_body]
pub fn bsearch_chrom_by_name(v: &Vec<ChromInfo>, chrom_name: &Name) -> (r: Result<usize, usize>)
    ensures
        r matches Ok(i) ==> i < v@.len(),
        r matches Err(j) ==> j <= v@.len(),
        sorted_by_name(v@) ==> (r matches Ok(i) ==> v@[i as int].name == *chrom_name),
        sorted_by_name(v@) ==> (r matches Err(j) ==> {
            &&& forall|k: int| 0 <= k < v@.len() ==> (#[trigger] v@[k]).name != *chrom_name
            &&& forall|k: int| 0 <= k < j ==> name_cmp((#[trigger] v@[k]).name, *chrom_name) < 0
            &&& forall|k: int| j <= k < v@.len() ==> name_cmp((#[trigger] v@[k]).name, *chrom_name) > 0
        }),
{ unimplemented!() }

// stand-in that only matters for CHANGED code (0 hits on /repo): lets an edit that swallows an error reach the
// verifier.  Weakest contract: on Ok the value is the payload; on Err nothing is known.
pub assume_specification<T: Default, E>[Result::<T, E>::unwrap_or_default](x: Result<T, E>) -> (v: T)
    ensures x matches Ok(y) ==> v == y;

/// which index a tree lookup asked for
pub ghost enum Which { Full, Zoom(u32) }
/// one file access of the glue: a tree lookup with its result (the tree's offset, None = it failed), or an
/// index search with all its arguments and its result (None = it failed)
pub ghost enum Ev {
    Tree { which: Which, at: Option<u64> },
    Search { endianness: Endianness, tree_at: u64, chrom_ix: u32, start: u32, end: u32, blocks: Option<Seq<Block>> },
}
/// R11 shim for the reader `R: BBIFileRead`: only a ghost log of the accesses made through it
#[verifier::external_body]
pub struct VRead { _p: u8 }
impl VRead {
    pub uninterp spec fn log(&self) -> Seq<Ev>;
}
pub open spec fn blocks_of(r: Result<Vec<Block>, IoError>) -> Option<Seq<Block>> {
    match r { Ok(b) => Some(b@), Err(_) => None }
}

// the index search itself (units rt_search / rt_nodes / cache): signature cut from /repo, body skipped.
// ASSUMED: it may fail or return any blocks; it is one logged access with exactly its arguments and result.
#[verifier::external_body]
pub fn search_cir_tree_inner(
    endianness: Endianness,
    file: &mut VRead,
    at: u64,
    chrom_ix: u32,
    start: u32,
    end: u32,
) -> (r: Result<Vec<Block>, IoError>)
    ensures
        final(file).log() == old(file).log().push(Ev::Search { endianness, tree_at: at, chrom_ix, start, end, blocks: blocks_of(r) }),
{ unimplemented!() }

// ---------------- specification vocabulary ----------------
/// the FIRST entry of the chromosome table, from position i on, whose name is n
pub open spec fn lookup_from(v: Seq<ChromInfo>, n: Name, i: int) -> Option<ChromInfo>
    decreases v.len() - i
{
    if i < 0 || i >= v.len() { None } else if v[i].name == n { Some(v[i]) } else { lookup_from(v, n, i + 1) }
}
pub open spec fn lookup(v: Seq<ChromInfo>, n: Name) -> Option<ChromInfo> { lookup_from(v, n, 0) }

/// the two accesses of a successful query, in order, and nothing else: the lookup of tree `which` succeeded
/// and the search ran on THAT tree with exactly (byte order, id, start, end) and returned `blocks`
pub open spec fn query_log(l0: Seq<Ev>, l: Seq<Ev>, which: Which, endianness: Endianness, id: u32, start: u32, end: u32, blocks: Seq<Block>) -> bool {
    let n = l0.len() as int;
    &&& l.len() == n + 2
    &&& l[n] is Tree && l[n]->which == which && l[n]->at is Some
    &&& l == l0.push(l[n]).push(Ev::Search { endianness, tree_at: l[n]->at->Some_0, chrom_ix: id, start, end, blocks: Some(blocks) })
}
/// a query that failed although the chromosome exists: the tree lookup failed (and nothing was searched),
/// or the one search on that tree with exactly (byte order, id, start, end) failed
pub open spec fn failed_log(l0: Seq<Ev>, l: Seq<Ev>, which: Which, endianness: Endianness, id: u32, start: u32, end: u32) -> bool {
    let n = l0.len() as int;
    ||| l == l0.push(Ev::Tree { which, at: None })
    ||| {
        &&& l.len() == n + 2
        &&& l[n] is Tree && l[n]->which == which && l[n]->at is Some
        &&& l == l0.push(l[n]).push(Ev::Search { endianness, tree_at: l[n]->at->Some_0, chrom_ix: id, start, end, blocks: None })
    }
}

// ---------------- verified stand-ins for the `.iter().find(..)` closures ----------------
/// `V.iter().find(|&x| x.name == chrom_name)`: the first entry with that name (closures over iterators are
/// outside Verus; same result computed by a verified index loop)
pub fn find_chrom<'a>(v: &'a Vec<ChromInfo>, chrom_name: &Name) -> (r: Option<&'a ChromInfo>)
    ensures
        r matches Some(c) ==> lookup(v@, *chrom_name) == Some(*c),
        r is None ==> lookup(v@, *chrom_name) is None,
{
    let mut i: usize = 0;
    while i < v.len()
        invariant i <= v.len(), lookup(v@, *chrom_name) == lookup_from(v@, *chrom_name, i as int),
        decreases v.len() - i,
    {
        if name_eq(&v[i].name, chrom_name) {
            return Some(&v[i]);
        }
        i = i + 1;
    }
    None
}
/// `V.iter().find(|&x| x.name != chrom_name)`: the FIRST entry whose name DIFFERS (what `find` with that predicate
/// returns; 0 hits on /repo)
pub fn find_chrom_ne<'a>(v: &'a Vec<ChromInfo>, chrom_name: &Name) -> (r: Option<&'a ChromInfo>)
    ensures
        r matches Some(c) ==> exists|k: int| 0 <= k < v@.len() && v@[k] == *c && v@[k].name != *chrom_name
            && forall|j: int| 0 <= j < k ==> (#[trigger] v@[j]).name == *chrom_name,
        r is None ==> forall|j: int| 0 <= j < v@.len() ==> (#[trigger] v@[j]).name == *chrom_name,
{
    let mut i: usize = 0;
    while i < v.len()
        invariant i <= v.len(), forall|j: int| 0 <= j < i ==> (#[trigger] v@[j]).name == *chrom_name,
        decreases v.len() - i,
    {
        if !name_eq(&v[i].name, chrom_name) {
            return Some(&v[i]);
        }
        i = i + 1;
    }
    None
}
/// `V.iter().position(|x| x.name == chrom_name)` (0 hits on /repo; lets an edit that uses the table POSITION
/// reach the verifier): the index of the first entry with that name
pub fn position_chrom(v: &Vec<ChromInfo>, chrom_name: &Name) -> (r: Option<usize>)
    ensures
        r matches Some(k) ==> k < v@.len() && lookup(v@, *chrom_name) == Some(v@[k as int]),
        r is None ==> lookup(v@, *chrom_name) is None,
{
    let mut i: usize = 0;
    while i < v.len()
        invariant i <= v.len(), lookup(v@, *chrom_name) == lookup_from(v@, *chrom_name, i as int),
        decreases v.len() - i,
    {
        if name_eq(&v[i].name, chrom_name) {
            return Some(i);
        }
        i = i + 1;
    }
    None
}

// ---------------- the conversions behind `?` (From impls of the repository, extracted) ----------------
pub fn cinf_to_read(e: ChromIdNotFound) -> (r: BBIReadError)
    ensures r is InvalidChromosome,
{
        BBIReadError::InvalidChromosome(e.0)
    }
pub fn cts_to_read(value: CirTreeSearchError) -> BBIReadError
{
        match value {
            CirTreeSearchError::InvalidChromosome(chrom) => BBIReadError::InvalidChromosome(chrom),
            CirTreeSearchError::IoError(e) => BBIReadError::IoError(e),
        }
    }
pub fn fdct_to_read(value: FullDataCirTreeError) -> BBIReadError
{
        match value {
            FullDataCirTreeError::UnknownMagic => BBIReadError::UnknownMagic,
            FullDataCirTreeError::IoError(e) => BBIReadError::IoError(e),
        }
    }
pub fn cinf_to_zoom(e: ChromIdNotFound) -> ZoomIntervalError
{
        ZoomIntervalError::BBIReadError(BBIReadError::InvalidChromosome(e.0))
    }
pub fn cts_to_zoom(e: CirTreeSearchError) -> ZoomIntervalError
{
        ZoomIntervalError::BBIReadError(cts_to_read(e))
    }
pub fn zdct_to_zoom(value: ZoomDataCirTreeError) -> ZoomIntervalError
{
        match value {
            ZoomDataCirTreeError::UnknownMagic => {
                ZoomIntervalError::BBIReadError(BBIReadError::UnknownMagic)
            }
            ZoomDataCirTreeError::ReductionLevelNotFound => {
                ZoomIntervalError::ReductionLevelNotFound
            }
            ZoomDataCirTreeError::IoError(e) => {
                ZoomIntervalError::BBIReadError(BBIReadError::IoError(e))
            }
        }
    }
/// `#[from] io::Error` of CirTreeSearchError (generated by thiserror): behind `search_cir_tree_inner(..)?`
pub fn io_to_cts(e: IoError) -> (r: CirTreeSearchError)
    ensures r == CirTreeSearchError::IoError(e),
{ CirTreeSearchError::IoError(e) }

// ---------------- name -> id ----------------
impl BBIFileInfo {
pub fn chrom_id(&self, chrom_name: &Name) -> (r: Result<u32, ChromIdNotFound>)
    ensures
        
        lookup(self.chrom_info@, *chrom_name) matches Some(c) ==> (r matches Ok(id) && id == c.id),
        
        lookup(self.chrom_info@, *chrom_name) is None ==> (r matches Err(e) && e.0 == *chrom_name),
{
        let chrom_info = &self.chrom_info;
        let chrom = find_chrom(&chrom_info, chrom_name);
        match chrom {
            Some(c) => Ok(c.id),
            None => Err(ChromIdNotFound(chrom_name.to_owned())),
        }
    }
}

pub fn search_cir_tree(
    info: &BBIFileInfo,
    file: &mut VRead,
    at: CirTreeIndex,
    chrom_name: &Name,
    start: u32,
    end: u32,
) -> (r: Result<Vec<Block>, CirTreeSearchError>)
    ensures
        
        lookup(info.chrom_info@, *chrom_name) is None ==> (final(file).log() == old(file).log()
            && (r matches Err(CirTreeSearchError::InvalidChromosome(n)) && n == *chrom_name)),
        
        lookup(info.chrom_info@, *chrom_name) matches Some(c) ==> final(file).log() == old(file).log().push(
            Ev::Search { endianness: info.header.endianness, tree_at: at.1, chrom_ix: c.id, start, end,
                         blocks: match r { Ok(b) => Some(b@), Err(_) => None } }),
        
        lookup(info.chrom_info@, *chrom_name) is Some && r is Err ==> r->Err_0 is IoError,
{
    let chrom_ix = {
        let chrom = find_chrom(&info.chrom_info, chrom_name);
        match chrom {
            Some(c) => c.id,
            None => {
                return Err(CirTreeSearchError::InvalidChromosome(
                    chrom_name.to_string(),
                ));
            }
        }
    };

    let endianness = info.header.endianness;

    Ok((match search_cir_tree_inner(
        endianness, file, at.1, chrom_ix, start, end,
    ) { Ok(v__) => v__, Err(e__) => return Err(io_to_cts(e__)) }))
}

// ---------------- the iterator structs (PhantomData dropped, reader generics substituted away) ----------------
// `std::vec::IntoIter<T>` -> `Vec<T>` (the not-yet-consumed elements, front first); `X.into_iter()` -> `X`
pub struct BigWigIntervalIter<B> {
pub bigwig: B,
pub known_offset: u64,
pub blocks: Vec<Block>,
pub vals: Option<Vec<Value>>,
pub chrom: u32,
pub start: u32,
pub end: u32,
}
pub struct BigBedIntervalIter<B> {
pub bigbed: B,
pub known_offset: u64,
pub blocks: Vec<Block>,
pub vals: Option<Vec<BedEntry>>,
pub expected_chrom: u32,
pub start: u32,
pub end: u32,
}
pub struct ZoomIntervalIter<B> {
pub bbifile: B,
pub known_offset: u64,
pub blocks: Vec<Block>,
pub vals: Option<Vec<ZoomRecord>>,
pub chrom: u32,
pub start: u32,
pub end: u32,
}

impl<B> ZoomIntervalIter<B> {
pub fn new(
        bbifile: B,
        blocks: Vec<Block>,
        chrom: u32,
        start: u32,
        end: u32,
    ) -> (r: Self)
    ensures
        
        r.bbifile == bbifile, r.blocks == blocks, r.chrom == chrom, r.start == start, r.end == end,
        r.known_offset == 0, r.vals is None,
{
        ZoomIntervalIter {
            bbifile,
            known_offset: 0,
            blocks,
            vals: None,
            chrom,
            start,
            end,
        }
    }
}

// =====================================================================================
// BigWigRead<R>: R -> VRead
pub struct BigWigRead {
    pub info: BBIFileInfo,
    pub read: VRead,
}

impl BigWigRead {
    /// shim for `BBIReadInternal::full_data_cir_tree` (seeks, reads and checks the 48-byte index header, caches
    /// `header.full_index_tree_offset`).  ASSUMED: may fail; one logged access; the chromosome table and the
    /// byte order of `info` do not change.
    #[verifier::external_body]
    pub fn full_data_cir_tree(&mut self) -> (r: Result<CirTreeIndex, FullDataCirTreeError>)
        ensures
            final(self).info.chrom_info == old(self).info.chrom_info,
            final(self).info.header.endianness == old(self).info.header.endianness,
            final(self).read.log() == old(self).read.log().push(Ev::Tree { which: Which::Full, at: match r { Ok(t) => Some(t.1), Err(_) => None } }),
    { unimplemented!() }
    /// shim for `BBIReadInternal::zoom_cir_tree` (finds the zoom header of that reduction level, reads its
    /// index header, caches `index_tree_offset`).  ASSUMED as above.
    #[verifier::external_body]
    pub fn zoom_cir_tree(&mut self, reduction_level: u32) -> (r: Result<CirTreeIndex, ZoomDataCirTreeError>)
        ensures
            final(self).info.chrom_info == old(self).info.chrom_info,
            final(self).info.header.endianness == old(self).info.header.endianness,
            final(self).read.log() == old(self).read.log().push(Ev::Tree { which: Which::Zoom(reduction_level), at: match r { Ok(t) => Some(t.1), Err(_) => None } }),
    { unimplemented!() }

pub fn get_interval<'a>(
        &'a mut self,
        chrom_name: &Name,
        start: u32,
        end: u32,
    ) -> (r: Result<BigWigIntervalIter<&'a mut BigWigRead>, BBIReadError>)
    ensures
        
        lookup(old(self).info.chrom_info@, *chrom_name) is None ==> r is Err,
        
        r matches Ok(it) ==> (lookup(old(self).info.chrom_info@, *chrom_name) matches Some(c) && it.chrom == c.id),
        
        r matches Ok(it) ==> it.start == start && it.end == end && it.known_offset == 0 && it.vals is None,
        
        r matches Ok(it) ==> query_log(old(self).read.log(), it.bigwig.read.log(), Which::Full, old(self).info.header.endianness,
            it.chrom, start, end, it.blocks@),
        
        r is Err ==> (lookup(old(self).info.chrom_info@, *chrom_name) matches Some(c) ==>
            failed_log(old(self).read.log(), final(self).read.log(), Which::Full, old(self).info.header.endianness, c.id, start, end)),
        
        r matches Ok(it) ==> it.bigwig.info.chrom_info == old(self).info.chrom_info,
{
        let chrom = (match self.info.chrom_id(chrom_name) { Ok(v__) => v__, Err(e__) => return Err(cinf_to_read(e__)) });
        let cir_tree = (match self.full_data_cir_tree() { Ok(v__) => v__, Err(e__) => return Err(fdct_to_read(e__)) });
        let blocks = (match search_cir_tree(&self.info, &mut self.read, cir_tree, chrom_name, start, end) { Ok(v__) => v__, Err(e__) => return Err(cts_to_read(e__)) });
        Ok(BigWigIntervalIter {
            bigwig: self,
            known_offset: 0,
            blocks: blocks,
            vals: None,
            chrom,
            start,
            end,
        })
    }

pub fn get_interval_move(
        self,
        chrom_name: &Name,
        start: u32,
        end: u32,
    ) -> (r: Result<BigWigIntervalIter<BigWigRead>, BBIReadError>)
    ensures
        
        lookup(self.info.chrom_info@, *chrom_name) is None ==> r is Err,
        
        r matches Ok(it) ==> (lookup(self.info.chrom_info@, *chrom_name) matches Some(c) && it.chrom == c.id),
        
        r matches Ok(it) ==> it.start == start && it.end == end && it.known_offset == 0 && it.vals is None,
        
        r matches Ok(it) ==> query_log(self.read.log(), it.bigwig.read.log(), Which::Full, self.info.header.endianness,
            it.chrom, start, end, it.blocks@),
        
        r matches Ok(it) ==> it.bigwig.info.chrom_info == self.info.chrom_info,
{
        let mut self_ = self;

        let chrom = (match self_.info.chrom_id(chrom_name) { Ok(v__) => v__, Err(e__) => return Err(cinf_to_read(e__)) });
        let cir_tree = (match self_.full_data_cir_tree() { Ok(v__) => v__, Err(e__) => return Err(fdct_to_read(e__)) });
        let blocks = (match search_cir_tree(&self_.info, &mut self_.read, cir_tree, chrom_name, start, end) { Ok(v__) => v__, Err(e__) => return Err(cts_to_read(e__)) });
        Ok(BigWigIntervalIter {
            bigwig: self_,
            known_offset: 0,
            blocks: blocks,
            vals: None,
            chrom,
            start,
            end,
        })
    }

pub fn get_zoom_interval<'a>(
        &'a mut self,
        chrom_name: &Name,
        start: u32,
        end: u32,
        reduction_level: u32,
    ) -> (r: Result<ZoomIntervalIter<&'a mut BigWigRead>, ZoomIntervalError>)
    ensures
        
        lookup(old(self).info.chrom_info@, *chrom_name) is None ==> r is Err,
        
        r matches Ok(it) ==> (lookup(old(self).info.chrom_info@, *chrom_name) matches Some(c) && it.chrom == c.id),
        
        r matches Ok(it) ==> it.start == start && it.end == end && it.known_offset == 0 && it.vals is None,
        
        r matches Ok(it) ==> query_log(old(self).read.log(), it.bbifile.read.log(), Which::Zoom(reduction_level), old(self).info.header.endianness,
            it.chrom, start, end, it.blocks@),
        
        r is Err ==> (lookup(old(self).info.chrom_info@, *chrom_name) matches Some(c) ==>
            failed_log(old(self).read.log(), final(self).read.log(), Which::Zoom(reduction_level), old(self).info.header.endianness, c.id, start, end)),
        
        r matches Ok(it) ==> it.bbifile.info.chrom_info == old(self).info.chrom_info,
{
        let cir_tree = (match self.zoom_cir_tree(reduction_level) { Ok(v__) => v__, Err(e__) => return Err(zdct_to_zoom(e__)) });

        let chrom = (match self.info.chrom_id(chrom_name) { Ok(v__) => v__, Err(e__) => return Err(cinf_to_zoom(e__)) });

        let blocks = (match search_cir_tree(&self.info, &mut self.read, cir_tree, chrom_name, start, end) { Ok(v__) => v__, Err(e__) => return Err(cts_to_zoom(e__)) });

        Ok(ZoomIntervalIter::new(
            self,
            blocks,
            chrom,
            start,
            end,
        ))
    }

pub fn get_zoom_interval_move<'a>(
        self,
        chrom_name: &Name,
        start: u32,
        end: u32,
        reduction_level: u32,
    ) -> (r: Result<ZoomIntervalIter<BigWigRead>, ZoomIntervalError>)
    ensures
        
        lookup(self.info.chrom_info@, *chrom_name) is None ==> r is Err,
        
        r matches Ok(it) ==> (lookup(self.info.chrom_info@, *chrom_name) matches Some(c) && it.chrom == c.id),
        
        r matches Ok(it) ==> it.start == start && it.end == end && it.known_offset == 0 && it.vals is None,
        
        r matches Ok(it) ==> query_log(self.read.log(), it.bbifile.read.log(), Which::Zoom(reduction_level), self.info.header.endianness,
            it.chrom, start, end, it.blocks@),
        
        r matches Ok(it) ==> it.bbifile.info.chrom_info == self.info.chrom_info,
{
        let mut self_ = self;

        let cir_tree = (match self_.zoom_cir_tree(reduction_level) { Ok(v__) => v__, Err(e__) => return Err(zdct_to_zoom(e__)) });

        let chrom = (match self_.info.chrom_id(chrom_name) { Ok(v__) => v__, Err(e__) => return Err(cinf_to_zoom(e__)) });

        let blocks = (match search_cir_tree(&self_.info, &mut self_.read, cir_tree, chrom_name, start, end) { Ok(v__) => v__, Err(e__) => return Err(cts_to_zoom(e__)) });

        Ok(ZoomIntervalIter::new(
            self_,
            blocks,
            chrom,
            start,
            end,
        ))
    }
}

// =====================================================================================
// BigBedRead<R>: R -> VRead
pub struct BigBedRead {
    pub info: BBIFileInfo,
    pub read: VRead,
}

impl BigBedRead {
    /// shims as for BigWigRead (the same default methods of trait BBIReadInternal)
    #[verifier::external_body]
    pub fn full_data_cir_tree(&mut self) -> (r: Result<CirTreeIndex, FullDataCirTreeError>)
        ensures
            final(self).info.chrom_info == old(self).info.chrom_info,
            final(self).info.header.endianness == old(self).info.header.endianness,
            final(self).read.log() == old(self).read.log().push(Ev::Tree { which: Which::Full, at: match r { Ok(t) => Some(t.1), Err(_) => None } }),
    { unimplemented!() }
    #[verifier::external_body]
    pub fn zoom_cir_tree(&mut self, reduction_level: u32) -> (r: Result<CirTreeIndex, ZoomDataCirTreeError>)
        ensures
            final(self).info.chrom_info == old(self).info.chrom_info,
            final(self).info.header.endianness == old(self).info.header.endianness,
            final(self).read.log() == old(self).read.log().push(Ev::Tree { which: Which::Zoom(reduction_level), at: match r { Ok(t) => Some(t.1), Err(_) => None } }),
    { unimplemented!() }

// the inherent `info()` accessor used by get_interval / get_interval_move
pub fn info(&self) -> (r: &BBIFileInfo)
    ensures
        
        *r == self.info,
{
        &self.info
    }

pub fn get_interval<'a>(
        &'a mut self,
        chrom_name: &Name,
        start: u32,
        end: u32,
    ) -> (r: Result<BigBedIntervalIter<&'a mut BigBedRead>, BBIReadError>)
    ensures
        
        lookup(old(self).info.chrom_info@, *chrom_name) is None ==> r is Err,
        
        r matches Ok(it) ==> (lookup(old(self).info.chrom_info@, *chrom_name) matches Some(c) && it.expected_chrom == c.id),
        
        r matches Ok(it) ==> it.start == start && it.end == end && it.known_offset == 0 && it.vals is None,
        
        r matches Ok(it) ==> query_log(old(self).read.log(), it.bigbed.read.log(), Which::Full, old(self).info.header.endianness,
            it.expected_chrom, start, end, it.blocks@),
        
        r is Err ==> (lookup(old(self).info.chrom_info@, *chrom_name) matches Some(c) ==>
            failed_log(old(self).read.log(), final(self).read.log(), Which::Full, old(self).info.header.endianness, c.id, start, end)),
        
        r matches Ok(it) ==> it.bigbed.info.chrom_info == old(self).info.chrom_info,
{
        let cir_tree = (match self.full_data_cir_tree() { Ok(v__) => v__, Err(e__) => return Err(fdct_to_read(e__)) });
        let blocks = (match search_cir_tree(&self.info, &mut self.read, cir_tree, chrom_name, start, end) { Ok(v__) => v__, Err(e__) => return Err(cts_to_read(e__)) });
        // TODO: this is only for asserting that the chrom is what we expect

        assert(lookup(self.info.chrom_info@, *chrom_name) is Some); 
        let chrom_ix = find_chrom(&self
            .info()
            .chrom_info, chrom_name)
            .unwrap()
            .id;
        Ok(BigBedIntervalIter {
            bigbed: self,
            known_offset: 0,
            blocks: blocks,
            vals: None,
            expected_chrom: chrom_ix,
            start,
            end,
        })
    }

pub fn get_interval_move(
        self,
        chrom_name: &Name,
        start: u32,
        end: u32,
    ) -> (r: Result<BigBedIntervalIter<BigBedRead>, BBIReadError>)
    ensures
        
        lookup(self.info.chrom_info@, *chrom_name) is None ==> r is Err,
        
        r matches Ok(it) ==> (lookup(self.info.chrom_info@, *chrom_name) matches Some(c) && it.expected_chrom == c.id),
        
        r matches Ok(it) ==> it.start == start && it.end == end && it.known_offset == 0 && it.vals is None,
        
        r matches Ok(it) ==> query_log(self.read.log(), it.bigbed.read.log(), Which::Full, self.info.header.endianness,
            it.expected_chrom, start, end, it.blocks@),
        
        r matches Ok(it) ==> it.bigbed.info.chrom_info == self.info.chrom_info,
{
        let mut self_ = self;

        let cir_tree = (match self_.full_data_cir_tree() { Ok(v__) => v__, Err(e__) => return Err(fdct_to_read(e__)) });
        let blocks = (match search_cir_tree(&self_.info, &mut self_.read, cir_tree, chrom_name, start, end) { Ok(v__) => v__, Err(e__) => return Err(cts_to_read(e__)) });
        // TODO: this is only for asserting that the chrom is what we expect

        assert(lookup(self_.info.chrom_info@, *chrom_name) is Some); 
        let chrom_ix = find_chrom(&self_
            .info()
            .chrom_info, chrom_name)
            .unwrap()
            .id;
        Ok(BigBedIntervalIter {
            bigbed: self_,
            known_offset: 0,
            blocks: blocks,
            vals: None,
            expected_chrom: chrom_ix,
            start,
            end,
        })
    }

pub fn get_zoom_interval<'a>(
        &'a mut self,
        chrom_name: &Name,
        start: u32,
        end: u32,
        reduction_level: u32,
    ) -> (r: Result<ZoomIntervalIter<&'a mut BigBedRead>, ZoomIntervalError>)
    ensures
        
        lookup(old(self).info.chrom_info@, *chrom_name) is None ==> r is Err,
        
        r matches Ok(it) ==> (lookup(old(self).info.chrom_info@, *chrom_name) matches Some(c) && it.chrom == c.id),
        
        r matches Ok(it) ==> it.start == start && it.end == end && it.known_offset == 0 && it.vals is None,
        
        r matches Ok(it) ==> query_log(old(self).read.log(), it.bbifile.read.log(), Which::Zoom(reduction_level), old(self).info.header.endianness,
            it.chrom, start, end, it.blocks@),
        
        r is Err ==> (lookup(old(self).info.chrom_info@, *chrom_name) matches Some(c) ==>
            failed_log(old(self).read.log(), final(self).read.log(), Which::Zoom(reduction_level), old(self).info.header.endianness, c.id, start, end)),
        
        r matches Ok(it) ==> it.bbifile.info.chrom_info == old(self).info.chrom_info,
{
        let cir_tree = (match self
            .zoom_cir_tree(reduction_level) { Ok(v__) => v__, Err(_) => return Err(ZoomIntervalError::ReductionLevelNotFound) });

        let chrom = (match self.info.chrom_id(chrom_name) { Ok(v__) => v__, Err(e__) => return Err(cinf_to_zoom(e__)) });

        let blocks = (match search_cir_tree(&self.info, &mut self.read, cir_tree, chrom_name, start, end) { Ok(v__) => v__, Err(e__) => return Err(cts_to_zoom(e__)) });
        Ok(ZoomIntervalIter::new(
            self,
            blocks,
            chrom,
            start,
            end,
        ))
    }

pub fn get_zoom_interval_move<'a>(
        self,
        chrom_name: &Name,
        start: u32,
        end: u32,
        reduction_level: u32,
    ) -> (r: Result<ZoomIntervalIter<BigBedRead>, ZoomIntervalError>)
    ensures
        
        lookup(self.info.chrom_info@, *chrom_name) is None ==> r is Err,
        
        r matches Ok(it) ==> (lookup(self.info.chrom_info@, *chrom_name) matches Some(c) && it.chrom == c.id),
        
        r matches Ok(it) ==> it.start == start && it.end == end && it.known_offset == 0 && it.vals is None,
        
        r matches Ok(it) ==> query_log(self.read.log(), it.bbifile.read.log(), Which::Zoom(reduction_level), self.info.header.endianness,
            it.chrom, start, end, it.blocks@),
        
        r matches Ok(it) ==> it.bbifile.info.chrom_info == self.info.chrom_info,
{
        let mut self_ = self;

        let cir_tree = (match self_
            .zoom_cir_tree(reduction_level) { Ok(v__) => v__, Err(_) => return Err(ZoomIntervalError::ReductionLevelNotFound) });

        let chrom = (match self_.info.chrom_id(chrom_name) { Ok(v__) => v__, Err(e__) => return Err(cinf_to_zoom(e__)) });

        let blocks = (match search_cir_tree(&self_.info, &mut self_.read, cir_tree, chrom_name, start, end) { Ok(v__) => v__, Err(e__) => return Err(cts_to_zoom(e__)) });
        Ok(ZoomIntervalIter::new(
            self_,
            blocks,
            chrom,
            start,
            end,
        ))
    }
}

} // verus!
fn main() {}

