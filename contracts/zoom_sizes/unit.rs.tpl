//@unit zoom_sizes
//@serves C07 C08 C09 C13
//@backend verus
// bbiwrite::write_zoom_vals: the manual zoom size list of the two-pass writer (carve-out of the
// `Some(zooms) => { .. }` arm).  C07/C08: "levels are listed with strictly increasing resolution … for
// all automatic and manual zoom size lists"; C13: a zero size never reaches the tiling loop (it would not
// terminate); C09: at most MAX_ZOOM_LEVELS levels fit the header (the `take(MAX_ZOOM_LEVELS)` line).
// NOT covered: the automatic branch (iterator chain over the BTreeMap of counts), everything else in
// write_zoom_vals.
use vstd::prelude::*;
verus! {

pub open spec fn strictly_increasing(s: Seq<u32>) -> bool { forall|i: int, j: int| 0 <= i < j < s.len() ==> s[i] < s[j] }
pub open spec fn non_decreasing(s: Seq<u32>) -> bool { forall|i: int, j: int| 0 <= i <= j < s.len() ==> s[i] <= s[j] }
#[verifier::opaque]
pub open spec fn same_set(a: Seq<u32>, b: Seq<u32>) -> bool {
    (forall|i: int| 0 <= i < a.len() ==> b.contains(#[trigger] a[i])) && (forall|i: int| 0 <= i < b.len() ==> a.contains(#[trigger] b[i]))
}
/// the non-zero members of `s`, as a set
#[verifier::opaque]
pub open spec fn nonzero_members(s: Seq<u32>, r: Seq<u32>) -> bool {
    (forall|i: int| 0 <= i < r.len() ==> (#[trigger] r[i]) != 0 && s.contains(r[i]))
    && (forall|i: int| 0 <= i < s.len() ==> ((#[trigger] s[i]) != 0 ==> r.contains(s[i])))
}

// `zooms.iter().copied().filter(|z| *z != 0).collect()` (iterator chain, outside Verus): verified stand-in,
// substituted for exactly that text
pub fn nonzero_copy(v: &Vec<u32>) -> (r: Vec<u32>)
    ensures nonzero_members(v@, r@), forall|k: int| 0 <= k < r@.len() ==> (#[trigger] r@[k]) != 0,
{
    let mut out: Vec<u32> = Vec::new();
    let mut i: usize = 0;
    while i < v.len()
        invariant i <= v.len(),
            forall|k: int| 0 <= k < out@.len() ==> (#[trigger] out@[k]) != 0 && v@.contains(out@[k]),
            forall|k: int| 0 <= k < i ==> ((#[trigger] v@[k]) != 0 ==> out@.contains(v@[k])),
        decreases v.len() - i,
    {
        if v[i] != 0 {
            let ghost o0 = out@;
            out.push(v[i]);
            proof {
                assert(out@[out@.len() - 1] == v@[i as int]);
                assert forall|k: int| 0 <= k < i implies ((#[trigger] v@[k]) != 0 ==> out@.contains(v@[k])) by {
                    if v@[k] != 0 { let j = choose|j: int| 0 <= j < o0.len() && o0[j] == v@[k]; assert(out@[j] == v@[k]); }
                }
                assert forall|k: int| 0 <= k < out@.len() implies (#[trigger] out@[k]) != 0 && v@.contains(out@[k]) by {
                    if k < o0.len() { assert(out@[k] == o0[k]); } else { assert(v@[i as int] == out@[k]); }
                }
            }
        }
        i = i + 1;
    }
    proof { reveal(nonzero_members); }
    out
}
// slice::sort_unstable / Vec::dedup on u32: assumed std contracts (no vstd spec)
#[verifier::external_body]
pub fn sort_unstable_u32(v: &mut Vec<u32>)
    ensures non_decreasing(final(v)@), same_set(old(v)@, final(v)@), final(v)@.len() == old(v)@.len(),
{ v.sort_unstable() }
/// dedup removes CONSECUTIVE repeats only
pub open spec fn no_adjacent_repeat(s: Seq<u32>) -> bool { forall|i: int| 0 <= i < s.len() - 1 ==> (#[trigger] s[i]) != s[i + 1] }
#[verifier::external_body]
pub fn dedup_u32(v: &mut Vec<u32>)
    ensures no_adjacent_repeat(final(v)@), same_set(old(v)@, final(v)@), final(v)@.len() <= old(v)@.len(),
        // order of the survivors is the order they had (a subsequence): non-decreasing input stays non-decreasing,
        // and then (no adjacent repeat) it is strictly increasing -- lemma_strict proves that step from the two clauses
        non_decreasing(old(v)@) ==> non_decreasing(final(v)@),
        non_decreasing(old(v)@) ==> strictly_increasing(final(v)@),
{ v.dedup() }

/// membership is carried through steps that keep the member set (sorting, de-duplicating)
pub proof fn lemma_members_through(s: Seq<u32>, a: Seq<u32>, b: Seq<u32>)
    requires nonzero_members(s, a), same_set(a, b),
    ensures nonzero_members(s, b), forall|i: int| 0 <= i < b.len() ==> (#[trigger] b[i]) != 0,
{
    reveal(nonzero_members); reveal(same_set);
    assert forall|i: int| 0 <= i < b.len() implies (#[trigger] b[i]) != 0 && s.contains(b[i]) by {
        assert(a.contains(b[i]));
        let j = choose|j: int| 0 <= j < a.len() && a[j] == b[i];
        assert(a[j] != 0 && s.contains(a[j]));
    }
    assert forall|i: int| 0 <= i < s.len() implies ((#[trigger] s[i]) != 0 ==> b.contains(s[i])) by {
        if s[i] != 0 {
            assert(a.contains(s[i]));
            let j = choose|j: int| 0 <= j < a.len() && a[j] == s[i];
            assert(b.contains(a[j]));
        }
    }
}
pub proof fn lemma_members_nonzero(s: Seq<u32>, r: Seq<u32>)
    requires nonzero_members(s, r),
    ensures forall|i: int| 0 <= i < r.len() ==> (#[trigger] r[i]) != 0,
{ reveal(nonzero_members); }
pub proof fn lemma_same_set_refl(a: Seq<u32>) ensures same_set(a, a) { reveal(same_set); }
pub proof fn lemma_strict(s: Seq<u32>)
    requires non_decreasing(s), no_adjacent_repeat(s),
    ensures strictly_increasing(s),
{
    assert forall|i: int, j: int| 0 <= i < j < s.len() implies s[i] < s[j] by {
        assert(s[i] <= s[j - 1]);
        assert(s[j - 1] != s[j] && s[j - 1] <= s[j]);
    }
}

//@extract fn bigtools/src/bbi/bbiwrite.rs write_zoom_vals
//@rule R16
//@presub /\A.*?Some\(zooms\) => (\{.*?\n        \}|[^\n]*?),?\n\s*None => zoom_counts.*\Z/ => fn manual_zoom_list(zooms: &Vec<u32>) -> Vec<u32> {\n    \1\n} min=1 count=1
//@sub /zooms\.iter\(\)\.copied\(\)\.filter\(\|z\| \*z != 0\)\.collect\(\)/ => nonzero_copy(zooms) min=0
//@sub /zooms\.iter\(\)\.copied\(\)\.collect\(\)/ => zooms.clone() min=0
//@sub /zooms\.clone\(\)\.into_iter\(\)\.collect\(\)/ => zooms.clone() min=0
//@sub /(\w+)\.sort_unstable\(\);/ => sort_unstable_u32(&mut \1); min=0
//@sub /(\w+)\.sort\(\);/ => sort_unstable_u32(&mut \1); min=0
//@sub /(\w+)\.dedup\(\);/ => dedup_u32(&mut \1); min=0
//@ret r
//@sig
    ensures
        [[L: manual_levels_sorted_and_unique]]
        strictly_increasing(r@),
        [[L: zero_sizes_never_reach_the_tiling_loop]]
        forall|i: int| 0 <= i < r@.len() ==> (#[trigger] r@[i]) != 0,
        [[L: exactly_the_requested_nonzero_sizes]]
        nonzero_members(zooms@, r@),
//@open
    let ghost given = zooms@;
//@at /sort_unstable_u32\(&mut zooms\);/ before optional
            let ghost before_sort = zooms@;
//@at /sort_unstable_u32\(&mut zooms\);/ after optional
            proof { lemma_members_through(given, before_sort, zooms@); }
//@at /dedup_u32\(&mut zooms\);/ before optional
            let ghost before_dedup = zooms@;
//@at /dedup_u32\(&mut zooms\);/ after optional
            proof { if nonzero_members(given, before_dedup) { lemma_members_through(given, before_dedup, zooms@); } }
//@end

// ---- the threshold the automatic branch starts from: `let min_first_zoom_size = ..;` (first statement) ----
pub fn max_u32(a: u32, b: u32) -> (r: u32) ensures r == (if a >= b { a } else { b }) { if a >= b { a } else { b } }
/// u32::saturating_mul (assumed std contract)
#[verifier::external_body]
pub fn sat_mul_u32(a: u32, b: u32) -> (r: u32)
    ensures r as int == (if a as int * b as int <= u32::MAX as int { a as int * b as int } else { u32::MAX as int }),
{ a.saturating_mul(b) }
//@extract fn bigtools/src/bbi/bbiwrite.rs write_zoom_vals
//@rule R16
//@presub /\A.*?\n[ \t]*(let min_first_zoom_size = [^;]*;).*\Z/ => fn min_first_zoom(average_size: u32) -> u32 {\n    \1\n    min_first_zoom_size\n} min=1 count=1
//@sub /(\w+)\.max\((\d+)\)/ => max_u32(\1, \2) min=0
//@sub /(max_u32\([^()]*\)|\w+)\.saturating_mul\((\d+)\)/ => sat_mul_u32(\1, \2) min=0
//@ret r
//@sig
    ensures
        // four times the average item size (at least 10 bases), capped at the largest u32: never a panic, never a
        // wrapped-around (tiny) threshold for files whose items average 2^30 bases or more
        [[L: min_first_zoom_size_no_overflow]]
        r as int == (if 4 * (if average_size >= 10 { average_size as int } else { 10 }) <= u32::MAX as int { 4 * (if average_size >= 10 { average_size as int } else { 10 }) } else { u32::MAX as int }),
//@end

} // verus!
fn main() {}
