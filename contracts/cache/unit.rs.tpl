//@unit cache
//@serves C03 C04 C10
//@backend verus
// bbiread::CachedBBIFileRead: get_block_data, blocks_for_cir_tree_node (impl BBIFileRead) and reopen
// (impl Reopen).  Property clause (C03, C04, C10): "The answer is the same through the caching reader,
// through a reopened reader, and after any sequence of earlier queries."
// Data-structure invariant (DESIGN 6, C03 "B cache"): every memoised index node equals the node stored
// at that offset of the (immutable) file, every memoised block equals what read_block_data returns for
// that block; it is preserved by every method (also on Err), by the 5000-entry clear and by reopen.
// Hence each answer equals the uncached reader's answer whatever was asked before.
use vstd::prelude::*;
use std::collections::HashMap;
use vstd::std_specs::hash::obeys_key_model;
verus! {

// Block: cut with ALL its derives (Hash/Eq are needed for the HashMap key), only pub(crate) -> pub.
//@extract struct bigtools/src/bbi/bbiread.rs Block
//@sub /pub\(crate\)/ => pub min=0
//@end
//@extract struct bigtools/src/bbi/bbiread.rs CirTreeNodeLeaf
//@rule R8
//@end
//@extract struct bigtools/src/bbi/bbiread.rs CirTreeNodeNonLeaf
//@rule R8
//@end

//@include ../rt_nodes/spec.rs

// the per-node filter, with its contracts, exactly as verified in unit rt_nodes (same include file)
//@include ../rt_nodes/nodes_code.inc

// ---------------- shims (assumed; listed in NOTES.md) ----------------
/// shim for std::io::Error (opaque)
pub struct IoError { _p: u8 }
/// shim for byteordered::Endianness (external crate; only compared and passed through)
#[derive(Clone, Copy)]
pub enum Endianness { Big, Little }
/// shim for itertools::Either (external crate): the same two variants
pub enum Either<L, R> { Left(L), Right(R) }
impl<L: Clone, R: Clone> Clone for Either<L, R> {
    fn clone(&self) -> (r: Self)
        ensures
            *self is Left ==> r is Left && cloned::<L>(self->Left_0, r->Left_0),
            *self is Right ==> r is Right && cloned::<R>(self->Right_0, r->Right_0),
    {
        match self {
            Either::Left(a) => Either::Left(a.clone()),
            Either::Right(a) => Either::Right(a.clone()),
        }
    }
}

// BBIFileInfo is only handed through to read_block_data; its types are cut from /repo so that the
// precondition "info is this file's header" can name the real field.
//@extract enum bigtools/src/bbi.rs BBIFile
//@rule R8
//@end
//@extract struct bigtools/src/bbi.rs ZoomHeader
//@rule R8
//@end
//@extract struct bigtools/src/bbi/bbiread.rs BBIHeader
//@rule R8
//@end
//@extract struct bigtools/src/bbi/bbiread.rs ChromInfo
//@rule R8
//@end
//@extract struct bigtools/src/bbi/bbiread.rs BBIFileInfo
//@rule R8
//@end

/// ghost content of one R-tree node (same vocabulary as unit rt_search)
pub enum Node {
    Leaf(Seq<CirTreeNodeLeaf>),
    NonLeaf(Seq<CirTreeNodeNonLeaf>),
}
/// what `nodes_overlapping` returns for a node (unit rt_nodes proves exactly this of the real function):
/// .0 = child offsets, .1 = blocks
spec fn node_kids(n: Node, q: u32, qs: u32, qe: u32) -> Seq<u64> {
    match n {
        Node::Leaf(items) => Seq::empty(),
        Node::NonLeaf(items) => filter_children(items, q, qs, qe, items.len() as int),
    }
}
spec fn node_blocks(n: Node, q: u32, qs: u32, qe: u32) -> Seq<Block> {
    match n {
        Node::Leaf(items) => filter_blocks(items, q, qs, qe, items.len() as int),
        Node::NonLeaf(items) => Seq::empty(),
    }
}
/// the ghost node an (iterator -> Vec) CirTreeNodeIterator stands for
spec fn node_of(it: CirTreeNodeIterator<Vec<CirTreeNodeLeaf>, Vec<CirTreeNodeNonLeaf>>) -> Node {
    match it {
        CirTreeNodeIterator::Leaf(v) => Node::Leaf(v@),
        CirTreeNodeIterator::NonLeaf(v) => Node::NonLeaf(v@),
    }
}

/// The immutable file as the reader sees it:
///  tree        node offset -> node, decoded in the file's own byte order (the ghost R-tree of rt_search)
///  endianness  the file's byte order (header magic)
///  ubs         the file's header.uncompress_buf_size (0 = blocks stored raw)
///  blocks      what `read_block_data` yields for a block (seek, read size bytes, inflate iff ubs > 0)
pub ghost struct FileImg {
    pub tree: Map<u64, Node>,
    pub endianness: Endianness,
    pub ubs: u32,
    pub blocks: spec_fn(Block) -> Seq<u8>,
}
/// one physical read of the inner reader: (is a node read, offset, size [0 for nodes], succeeded)
pub ghost struct ReadOp { pub node: bool, pub offset: u64, pub size: u64, pub ok: bool }

/// R11 shim for the inner reader `S: SeekableRead (+ Reopen)`: ghost file image (never changes) plus a
/// ghost log of the physical reads performed through this handle.
#[verifier::external_body]
pub struct VFileIdx { _p: u8 }
impl VFileIdx {
    pub uninterp spec fn img(&self) -> FileImg;
    pub uninterp spec fn log(&self) -> Seq<ReadOp>;
    pub open spec fn tree(&self) -> Map<u64, Node> { self.img().tree }
    pub open spec fn block_bytes(&self, b: Block) -> Seq<u8> { (self.img().blocks)(b) }

    /// ASSUMED contract of `S::reopen` (trait Reopen: "reopening should be independent with respect to
    /// seeks and reads from the original object"): may fail; the new handle denotes the SAME immutable
    /// file.  (For ReopenableFile this is "the path still names the same, unmodified file".)
    #[verifier::external_body]
    pub fn reopen(&self) -> (r: Result<VFileIdx, IoError>)
        ensures r matches Ok(f) ==> f.img() == self.img(),
    { unimplemented!() }
}

// ASSUMED contract of `read_node` (signature cut from /repo, body skipped; the decoding itself is the
// business of units rt_readnode / rt_items): may fail at any time (I/O); if it succeeds, is asked in the
// file's own byte order and node_offset is a node of the ghost tree, it yields that node's items in
// stored order.  Nothing is promised for offsets outside the ghost tree or for the other byte order.
// The file content does not change; one log entry per call.
//@extract fn bigtools/src/bbi/bbiread.rs read_node
//@rule R16
//@skipbody
//@sub /pub\(crate\) fn read_node<R: SeekableRead>/ => fn read_node
//@sub /file: &mut R/ => file: &mut VFileIdx
//@sub /io::Result<CirTreeNodeIterator>/ => Result<CirTreeNodeIterator<Vec<CirTreeNodeLeaf>, Vec<CirTreeNodeNonLeaf>>, IoError>
//@ret r
//@sig
    ensures
        final(file).img() == old(file).img(),
        final(file).log() == old(file).log().push(ReadOp { node: true, offset: node_offset, size: 0, ok: r is Ok }),
        r is Ok && endianness == old(file).img().endianness && old(file).tree().contains_key(node_offset)
            ==> node_of(r->Ok_0) == old(file).tree()[node_offset],
//@end

// Contract of `read_block_data` — PROVED in unit blk_read (labels read_block_data/*) under the named precondition that the
// advertised inflate buffer covers the block; here the signature is cut from /repo and the body skipped: seek + read_exact +
// libdeflater): may fail (I/O); if it succeeds and `info` carries the file's own uncompress_buf_size it
// yields THE bytes of that block -- a function of the immutable file and the block only (deterministic
// inflate).  The file content does not change; one log entry per call.
//@extract fn bigtools/src/bbi/bbiread.rs read_block_data
//@rule R16
//@skipbody
//@sub /fn read_block_data<R: SeekableRead>/ => fn read_block_data
//@sub /read: &mut R/ => read: &mut VFileIdx
//@sub /io::Result<Vec<u8>>/ => Result<Vec<u8>, IoError>
//@ret r
//@sig
    ensures
        final(read).img() == old(read).img(),
        final(read).log() == old(read).log().push(ReadOp { node: false, offset: block.offset, size: block.size, ok: r is Ok }),
        r is Ok && info.header.uncompress_buf_size == old(read).img().ubs ==> r->Ok_0@ == old(read).block_bytes(*block),
//@end

/// ASSUMPTION (DESIGN 6 C03): `Block`'s derived Hash/PartialEq/Eq obey vstd's hash-table key model
/// (equal keys hash equally, `==` is structural equality) -- true of any #[derive]d impl over two u64.
/// u64 keys and std's RandomState are covered by vstd's own axioms.
#[verifier::external_body]
proof fn block_obeys_key_model()
    ensures obeys_key_model::<Block>(),
{}

// ---- stand-ins that only matter for CHANGED code (0 hits on /repo): they let an edit that filters or
// ---- slices the node items reach the verifier instead of dying as an unsupported construct.  Each is
// ---- the weakest contract: "some Vec / some index"; nothing is known about the result.
pub trait UnknownOps<T> {
    /// `.filter(|x| ..)` / `.skip_while(|x| ..)` / `.take_while(|x| ..)` with an uninterpreted closure
    fn unknown_filter(self) -> Vec<T>;
    /// `.retain(|x| ..)` with an uninterpreted closure
    fn unknown_retain(&mut self);
    /// `.partition_point(|x| ..)` / `.binary_search_by(..)`: some index <= len
    fn unknown_index(&self) -> (r: usize);
}
impl<T> UnknownOps<T> for Vec<T> {
    #[verifier::external_body]
    fn unknown_filter(self) -> Vec<T> { unimplemented!() }
    #[verifier::external_body]
    fn unknown_retain(&mut self) { unimplemented!() }
    #[verifier::external_body]
    fn unknown_index(&self) -> (r: usize) { unimplemented!() }
}
pub assume_specification<T: Clone>[<[T]>::to_vec](s: &[T]) -> (r: Vec<T>)
    ensures r@.len() == s@.len(), forall|i: int| 0 <= i < s@.len() ==> cloned::<T>(#[trigger] s@[i], r@[i]);

pub assume_specification<T: Default, E>[Result::<T, E>::unwrap_or_default](x: Result<T, E>) -> (v: T)
    ensures x matches Ok(y) ==> v == y;

// ---------------- the invariant (written from the property / DESIGN, not from the code) ----------------
/// the ghost node a cache entry stands for: Left = leaf items, Right = non-leaf items, in order
spec fn entry_node(e: Either<Vec<CirTreeNodeLeaf>, Vec<CirTreeNodeNonLeaf>>) -> Node {
    match e {
        Either::Left(v) => Node::Leaf(v@),
        Either::Right(v) => Node::NonLeaf(v@),
    }
}
/// every memoised node is THE node stored at its key: same kind, the whole item sequence, same order
spec fn nodes_ok(m: Map<u64, Either<Vec<CirTreeNodeLeaf>, Vec<CirTreeNodeNonLeaf>>>, img: FileImg) -> bool {
    forall|k: u64| #[trigger] m.contains_key(k) && img.tree.contains_key(k) ==> entry_node(m[k]) == img.tree[k]
}
/// every memoised block is THE data of its key
spec fn blocks_ok(m: Map<Block, Vec<u8>>, img: FileImg) -> bool {
    forall|b: Block| #[trigger] m.contains_key(b) ==> m[b]@ == (img.blocks)(b)
}

//@extract struct bigtools/src/bbi/bbiread.rs CachedBBIFileRead
//@rule R8
//@sub /CachedBBIFileRead<S>/ => CachedBBIFileRead
//@sub /read: S,/ => read: VFileIdx,
//@end

spec fn cache_ok(c: CachedBBIFileRead) -> bool {
    nodes_ok(c.cir_tree_node_map@, c.read.img()) && blocks_ok(c.block_data@, c.read.img())
}

// Trait dispatch is dropped: the methods of `impl<S: SeekableRead> BBIFileRead for CachedBBIFileRead<S>` and
// `impl<R: Reopen + SeekableRead> Reopen for CachedBBIFileRead<R>` become inherent methods with S = VFileIdx.
impl CachedBBIFileRead {

//@extract method bigtools/src/bbi/bbiread.rs get_block_data "BBIFileRead for CachedBBIFileRead"
//@rule R16
//@sub /io::Result<Vec<u8>>/ => Result<Vec<u8>, IoError>
//@ret r
//@sig
        requires
            [[L: pre_cache_coherent]]
            cache_ok(*old(self)),
            [[L: pre_info_is_this_files_header]]
            info.header.uncompress_buf_size == old(self).read.img().ubs,
        ensures
            [[L: cache_stays_coherent_also_on_error_and_across_the_5000_clear]]
            cache_ok(*final(self)),
            [[L: file_unchanged]]
            final(self).read.img() == old(self).read.img(),
            [[L: result_is_the_blocks_data_hit_or_miss]]
            r matches Ok(d) ==> d@ == old(self).read.block_bytes(*block),
            [[L: hit_cannot_fail_reads_nothing_changes_nothing]]
            old(self).block_data@.contains_key(*block) ==> r is Ok && final(self).read.log() == old(self).read.log()
                && final(self).block_data@ == old(self).block_data@,
            [[L: miss_reads_the_block_once_and_passes_the_error_on]]
            !old(self).block_data@.contains_key(*block) ==> final(self).read.log() == old(self).read.log().push(
                ReadOp { node: false, offset: block.offset, size: block.size, ok: r is Ok }),
            [[L: node_cache_untouched]]
            final(self).cir_tree_node_map@ == old(self).cir_tree_node_map@,
//@open
        proof { block_obeys_key_model(); }
//@end

// The entry API (`Entry::Occupied/Vacant`, no vstd spec) is rewritten to get/insert on the same map and key:
//   `match self.cir_tree_node_map.entry(K) {` -> `let key__ = K; match self.cir_tree_node_map.get(&key__) {`
//   `Entry::Occupied(node) =>` -> `Some(node) =>`      `node.get()` -> `node`
//   `Entry::Vacant(e) =>`     -> `None =>`             `e.insert(X)` -> `self.cir_tree_node_map.insert(key__, X)`
// iterator -> Vec (as in rt_nodes): `.into_iter()` and `.collect()` dropped.  Every other token is /repo's.
// The substitutions after `.collect()` have 0 hits on /repo: they map iterator adaptors with closures
// (unsupported by Verus) to the `unknown_*` stand-ins so that an edit using them is judged by the contract.
//@extract method bigtools/src/bbi/bbiread.rs blocks_for_cir_tree_node "BBIFileRead for CachedBBIFileRead"
//@rule R16
//@sub /io::Result<\((.*)\)>/ => Result<(\1), IoError>
//@sub /SmallVec<\[([^;\]]+); 4\]>/ => Vec<\1> min=2
//@sub /smallvec!\[\]/ => Vec::new() min=0
//@sub /match self\.cir_tree_node_map\.entry\(([^()]*)\) \{/ => let key__ = \1; match self.cir_tree_node_map.get(&key__) { min=1
//@sub /Entry::Occupied\((\w+)\) =>/ => Some(\1) => min=1
//@sub /Entry::Vacant\(e\) =>/ => None => min=1
//@sub /\bnode\.get\(\)/ => node min=0
//@sub /\be\.insert\(/ => self.cir_tree_node_map.insert(key__, min=0
//@sub /\.into_iter\(\)/ => "" min=0
//@sub /\.collect\(\)/ => "" min=0
//@sub /\.collect::<Vec<_>>\(\)/ => "" min=0
//@sub /\.iter\(\)(?=\s*\.\s*(?:filter|cloned|copied|skip|take))/ => .clone() min=0
//@sub /\.(?:cloned|copied)\(\)/ => "" min=0
//@sub /\.(?:filter|skip_while|take_while)\(\s*(?:move\s+)?\|[^|]*\|(?:[^()]|\([^()]*\))*\)/ => .unknown_filter() min=0
//@sub /\.(?:skip|take)\([^()]*\)/ => .unknown_filter() min=0
//@sub /\.retain\(\s*(?:move\s+)?\|[^|]*\|(?:[^()]|\([^()]*\))*\)/ => .unknown_retain() min=0
//@sub /\.(?:partition_point|binary_search_by)\(\s*(?:move\s+)?\|[^|]*\|(?:[^()]|\([^()]*\))*\)/ => .unknown_index() min=0
//@ret r
//@sig
        requires
            [[L: pre_cache_coherent]]
            cache_ok(*old(self)),
            [[L: pre_byte_order_is_this_files]]
            endianness == old(self).read.img().endianness,
        ensures
            [[L: cache_stays_coherent_also_on_error]]
            cache_ok(*final(self)),
            [[L: file_unchanged]]
            final(self).read.img() == old(self).read.img(),
            [[L: result_is_nodes_overlapping_of_the_stored_node]]
            r is Ok && old(self).read.tree().contains_key(node_offset) ==> {
                &&& r->Ok_0.0@ == node_kids(old(self).read.tree()[node_offset], chrom_ix, start, end)
                &&& r->Ok_0.1@ == node_blocks(old(self).read.tree()[node_offset], chrom_ix, start, end)
            },
            [[L: hit_cannot_fail_reads_nothing_changes_nothing]]
            old(self).cir_tree_node_map@.contains_key(node_offset) ==> r is Ok && final(self).read.log() == old(self).read.log()
                && final(self).cir_tree_node_map@ == old(self).cir_tree_node_map@,
            [[L: miss_reads_the_node_once_and_passes_the_error_on]]
            !old(self).cir_tree_node_map@.contains_key(node_offset) ==> final(self).read.log() == old(self).read.log().push(
                ReadOp { node: true, offset: node_offset, size: 0, ok: r is Ok }),
            [[L: block_cache_untouched]]
            final(self).block_data@ == old(self).block_data@,
//@end

//@extract method bigtools/src/bbi/bbiread.rs reopen "Reopen for CachedBBIFileRead"
//@rule R16
//@sub /io::Result<Self>/ => Result<Self, IoError>
//@ret r
//@sig
        requires
            [[L: pre_cache_coherent]]
            cache_ok(*self),
        ensures
            [[L: reopened_reader_is_coherent_for_the_same_file]]
            r matches Ok(c) ==> cache_ok(c) && c.read.img() == self.read.img(),
            [[L: reopened_reader_has_the_same_cached_nodes]]
            r matches Ok(c) ==> c.cir_tree_node_map@.dom() == self.cir_tree_node_map@.dom()
                && forall|k: u64| #[trigger] self.cir_tree_node_map@.contains_key(k) ==> entry_node(c.cir_tree_node_map@[k]) == entry_node(self.cir_tree_node_map@[k]),
            [[L: reopened_reader_has_the_same_cached_blocks]]
            r matches Ok(c) ==> c.block_data@.dom() == self.block_data@.dom()
                && forall|b: Block| #[trigger] self.block_data@.contains_key(b) ==> c.block_data@[b]@ == self.block_data@[b]@,
//@open
        proof { block_obeys_key_model(); }
//@end

// `new` (impl<S: SeekableRead> CachedBBIFileRead<S>): a fresh caching reader is coherent (both caches empty).
//@extract method bigtools/src/bbi/bbiread.rs new "^impl<S: SeekableRead> CachedBBIFileRead<S>"
//@rule R16
//@sub /pub fn new/ => fn new
//@sub /read: S\)/ => read: VFileIdx)
//@ret r
//@sig
        ensures
            [[L: fresh_reader_is_coherent_and_wraps_the_given_file]]
            cache_ok(r) && r.read == read && r.cir_tree_node_map@.len() == 0 && r.block_data@.len() == 0,
//@open
        proof { block_obeys_key_model(); }
//@end

} // impl CachedBBIFileRead

// ---------------- the UNCACHED reader, for comparison ----------------
// `impl<S: SeekableRead> BBIFileRead for S` with S = VFileIdx (R11, by placing the methods in `impl VFileIdx`):
// the same extraction as in unit rt_search, the contract stated in the same terms.
impl VFileIdx {
//@extract method bigtools/src/bbi/bbiread.rs blocks_for_cir_tree_node "BBIFileRead for S\b"
//@rule R16
//@sub /io::Result<\((.*)\)>/ => Result<(\1), IoError>
//@sub /SmallVec<\[([^;\]]+); 4\]>/ => Vec<\1> min=2
//@sub /smallvec!\[\]/ => Vec::new() min=0
//@ret r
//@sig
        ensures
            [[L: uncached/file_unchanged]]
            final(self).img() == old(self).img(),
            [[L: uncached/one_read_logged_and_error_passed_on]]
            final(self).log() == old(self).log().push(ReadOp { node: true, offset: node_offset, size: 0, ok: r is Ok }),
            [[L: uncached/result_is_nodes_overlapping_of_the_stored_node]]
            r is Ok && endianness == old(self).img().endianness && old(self).tree().contains_key(node_offset) ==> {
                &&& r->Ok_0.0@ == node_kids(old(self).tree()[node_offset], chrom_ix, start, end)
                &&& r->Ok_0.1@ == node_blocks(old(self).tree()[node_offset], chrom_ix, start, end)
            },
//@end

//@extract method bigtools/src/bbi/bbiread.rs get_block_data "BBIFileRead for S\b"
//@rule R16
//@sub /io::Result<Vec<u8>>/ => Result<Vec<u8>, IoError>
//@ret r
//@sig
        ensures
            [[L: uncached/file_unchanged]]
            final(self).img() == old(self).img(),
            [[L: uncached/result_is_the_blocks_data]]
            r is Ok && info.header.uncompress_buf_size == old(self).img().ubs ==> r->Ok_0@ == old(self).block_bytes(*block),
//@end
} // impl VFileIdx

// ---------------- "after any sequence of earlier queries", "through a reopened reader" ----------------
// The drivers below call the extracted methods above (nothing is re-implemented) with a symbolic history.
/// one earlier operation on the caching reader
pub enum Op {
    /// an index-node query (any offset, any range)
    Nodes { node_offset: u64, chrom_ix: u32, start: u32, end: u32 },
    /// a block fetch (any block)
    Data { block: Block },
    /// continue on `reopen()` of the reader (if reopening fails, continue on the old one)
    Reopen,
}

/// run an arbitrary history on a caching reader; results are discarded, errors ignored
fn replay(c: &mut CachedBBIFileRead, info: &BBIFileInfo, endianness: Endianness, ops: &Vec<Op>)
    requires
        cache_ok(*old(c)),
        endianness == old(c).read.img().endianness,
        info.header.uncompress_buf_size == old(c).read.img().ubs,
    ensures
        [[L: driver/any_history_keeps_the_reader_coherent_for_the_same_file]]
        cache_ok(*final(c)) && final(c).read.img() == old(c).read.img(),
{
    let mut i: usize = 0;
    while i < ops.len()
        invariant
            [[L: driver/loop_invariant_cache_ok]]
            cache_ok(*c) && c.read.img() == old(c).read.img(),
            endianness == c.read.img().endianness,
            info.header.uncompress_buf_size == c.read.img().ubs,
        decreases
            [[L: driver/termination]]
            ops.len() - i,
    {
        match &ops[i] {
            Op::Nodes { node_offset, chrom_ix, start, end } => {
                let _ = c.blocks_for_cir_tree_node(endianness, *node_offset, *chrom_ix, *start, *end);
            }
            Op::Data { block } => {
                let _ = c.get_block_data(info, block);
            }
            Op::Reopen => {
                match c.reopen() {
                    Ok(c2) => { *c = c2; }
                    Err(_) => {}
                }
            }
        }
        i = i + 1;
    }
}

/// A fresh caching reader over `read`, ANY history, then the index-node query q: the answer equals the
/// answer of the uncached reader `plain` (another handle on the same immutable file) to the same query.
fn driver_node_query_after_any_history(read: VFileIdx, plain: &mut VFileIdx, info: &BBIFileInfo, endianness: Endianness,
    ops: &Vec<Op>, node_offset: u64, chrom_ix: u32, start: u32, end: u32)
    -> (r: (Result<(Vec<u64>, Vec<Block>), IoError>, Result<(Vec<u64>, Vec<Block>), IoError>))
    requires
        old(plain).img() == read.img(),
        endianness == read.img().endianness,
        info.header.uncompress_buf_size == read.img().ubs,
    ensures
        [[L: driver/node_answer_after_any_history_equals_the_uncached_answer]]
        r.0 is Ok && r.1 is Ok && read.tree().contains_key(node_offset) ==>
            r.0->Ok_0.0@ == r.1->Ok_0.0@ && r.0->Ok_0.1@ == r.1->Ok_0.1@,
{
    let mut c = CachedBBIFileRead::new(read);
    replay(&mut c, info, endianness, ops);
    let a = c.blocks_for_cir_tree_node(endianness, node_offset, chrom_ix, start, end);
    let b = plain.blocks_for_cir_tree_node(endianness, node_offset, chrom_ix, start, end);
    (a, b)
}

/// ... then the block fetch: the data equals what the uncached reader returns for the same block.
fn driver_block_fetch_after_any_history(read: VFileIdx, plain: &mut VFileIdx, info: &BBIFileInfo, endianness: Endianness,
    ops: &Vec<Op>, block: &Block)
    -> (r: (Result<Vec<u8>, IoError>, Result<Vec<u8>, IoError>))
    requires
        old(plain).img() == read.img(),
        endianness == read.img().endianness,
        info.header.uncompress_buf_size == read.img().ubs,
    ensures
        [[L: driver/block_data_after_any_history_equals_the_uncached_data]]
        r.0 is Ok && r.1 is Ok ==> r.0->Ok_0@ == r.1->Ok_0@,
{
    let mut c = CachedBBIFileRead::new(read);
    replay(&mut c, info, endianness, ops);
    let a = c.get_block_data(info, block);
    let b = plain.get_block_data(info, block);
    (a, b)
}

} // verus!
fn main() {}
