//@unit bw_dec
//@serves C01 C03 C10
//@backend verus
// bigwigread::get_block_values: one (uncompressed) bigWig data block -> the values of chromosome
// `chrom` overlapping [start, end), clipped, in stored order.  Section types 1 (bedGraph),
// 2 (variable step), 3 (fixed step), both byte orders (symbolic `endianness`).
// C03: per-block statement (exact strict-overlap filter + clip + order, nothing else).
// C10: decode of any well-formed section bytes.  C01: lemma bw_roundtrip joins the reader's
// format vocabulary (raw_items) with the writer's (fmt_bw_section, copied from unit bw_enc).
use vstd::prelude::*;
use vstd::std_specs::ops::*;
use vstd::std_specs::convert::FromSpec;
verus! {
//@include ../_shared/floats.rs
//@include ../_shared/bytes.rs
//@include ../_shared/bytes_lemmas.rs

//@extract struct bigtools/src/bbi.rs Value
//@rule R8
//@end
//@extract struct bigtools/src/bbi/bbiread.rs Block
//@rule R8
//@end

// byteordered::Endianness cannot be extracted (other crate): own 2-variant enum, same variant names
#[derive(Clone, Copy)]
pub enum Endianness { Big, Little }
pub open spec fn is_big(e: Endianness) -> bool { e is Big }

// BBIReadError (thiserror enum holding io::Error / String) -> opaque shim; only "an error value is
// returned here" is kept, the message text is dropped
#[verifier::external_body]
pub struct BBIReadError { _p: u8 }
impl BBIReadError {
    #[verifier::external_body]
    pub fn invalid_file() -> (r: BBIReadError) { unimplemented!() }
}

// `bytes[a..a + 12].try_into().unwrap()` typed &[u8; 12] on BytesMut: slice of the unconsumed
// bytes copied into an array.  requires = the real panic of the slice index (a + 12 > len).
#[verifier::external_body]
pub fn arr12(c: &Cur, a: usize) -> (r: [u8; 12])
    requires a + 12 <= c.rem().len()
    ensures r@ == c.rem().subrange(a as int, a + 12)
{ unimplemented!() }
fn max_u32(a: u32, b: u32) -> (r: u32) ensures r == if a >= b { a } else { b } { if a >= b { a } else { b } }
fn min_u32(a: u32, b: u32) -> (r: u32) ensures r == if a <= b { a } else { b } { if a <= b { a } else { b } }

// ---------------- reader-side format vocabulary (published bigWig section layout) ----------------
// 24-byte section header, in byte order `big`
pub open spec fn hdr_chrom(big: bool, d: Seq<u8>) -> int { d32(big, d, 0) }
pub open spec fn hdr_start(big: bool, d: Seq<u8>) -> int { d32(big, d, 4) }
pub open spec fn hdr_end(big: bool, d: Seq<u8>) -> int { d32(big, d, 8) }
pub open spec fn hdr_step(big: bool, d: Seq<u8>) -> int { d32(big, d, 12) }
pub open spec fn hdr_span(big: bool, d: Seq<u8>) -> int { d32(big, d, 16) }
pub open spec fn hdr_type(d: Seq<u8>) -> int { d[20] as int }
pub open spec fn hdr_count(big: bool, d: Seq<u8>) -> int { d16(big, d, 22) }

/// i-th stored item of a bedGraph section (type 1): 12 bytes start, end, value
pub open spec fn raw1(big: bool, d: Seq<u8>, i: int) -> Value {
    Value { start: d32(big, d, 24 + 12 * i) as u32, end: d32(big, d, 24 + 12 * i + 4) as u32,
            value: f32_of_bits(d32(big, d, 24 + 12 * i + 8) as u32) }
}
/// i-th stored item of a variable-step section (type 2): 8 bytes start, value; end = start + span
pub open spec fn raw2(big: bool, d: Seq<u8>, i: int) -> Value {
    Value { start: d32(big, d, 24 + 8 * i) as u32, end: (d32(big, d, 24 + 8 * i) + hdr_span(big, d)) as u32,
            value: f32_of_bits(d32(big, d, 24 + 8 * i + 4) as u32) }
}
/// start of the i-th item of a fixed-step section (type 3)
pub open spec fn fixed_start(big: bool, d: Seq<u8>, i: int) -> int { hdr_start(big, d) + i * hdr_step(big, d) }
/// i-th stored item of a fixed-step section (type 3): 4 bytes value; start = chromStart + i*step
pub open spec fn raw3(big: bool, d: Seq<u8>, i: int) -> Value {
    Value { start: fixed_start(big, d, i) as u32, end: (fixed_start(big, d, i) + hdr_span(big, d)) as u32,
            value: f32_of_bits(d32(big, d, 24 + 4 * i) as u32) }
}
pub open spec fn raw_item(big: bool, d: Seq<u8>, i: int) -> Value {
    if hdr_type(d) == 1 { raw1(big, d, i) } else if hdr_type(d) == 2 { raw2(big, d, i) } else { raw3(big, d, i) }
}
/// the items a section stores, in stored order
pub open spec fn raw_items(big: bool, d: Seq<u8>) -> Seq<Value> {
    Seq::new(hdr_count(big, d) as nat, |i: int| raw_item(big, d, i))
}
/// well-formed item area: enough bytes for the advertised count; no coordinate exceeds u32
pub open spec fn wf_items(big: bool, d: Seq<u8>) -> bool {
    let n = hdr_count(big, d);
    &&& hdr_type(d) == 1 ==> 24 + 12 * n <= d.len()
    &&& hdr_type(d) == 2 ==> 24 + 8 * n <= d.len()
            && forall|i: int| 0 <= i < n ==> (#[trigger] d32(big, d, 24 + 8 * i)) + hdr_span(big, d) <= u32::MAX
    &&& hdr_type(d) == 3 ==> 24 + 4 * n <= d.len()
            && forall|i: int| 0 <= i <= n ==> (#[trigger] fixed_start(big, d, i)) <= u32::MAX
            && forall|i: int| 0 <= i < n ==> (#[trigger] fixed_start(big, d, i)) + hdr_span(big, d) <= u32::MAX
}

// ---------------- C03 per-block statement ----------------
/// strict overlap with the query range [s, e)
pub open spec fn keep(v: Value, s: u32, e: u32) -> bool { v.end > s && v.start < e }
/// clipped to [max(v.start, s), min(v.end, e)); value bits untouched
pub open spec fn clip(v: Value, s: u32, e: u32) -> Value {
    Value { start: if v.start >= s { v.start } else { s }, end: if v.end <= e { v.end } else { e }, value: v.value }
}
/// exactly the overlapping items, clipped, in stored order, nothing else
pub open spec fn filter_clip(raw: Seq<Value>, s: u32, e: u32) -> Seq<Value>
    decreases raw.len()
{
    if raw.len() == 0 { Seq::empty() }
    else if keep(raw.last(), s, e) { filter_clip(raw.drop_last(), s, e).push(clip(raw.last(), s, e)) }
    else { filter_clip(raw.drop_last(), s, e) }
}
pub proof fn lemma_fc_step(raw: Seq<Value>, i: int, s: u32, e: u32)
    requires 0 <= i < raw.len()
    ensures filter_clip(raw.subrange(0, i + 1), s, e) ==
        (if keep(raw[i], s, e) { filter_clip(raw.subrange(0, i), s, e).push(clip(raw[i], s, e)) } else { filter_clip(raw.subrange(0, i), s, e) })
{
    assert(raw.subrange(0, i + 1).drop_last() =~= raw.subrange(0, i));
    assert(raw.subrange(0, i + 1).last() == raw[i]);
}
pub proof fn lemma_step_mul(k: int, step: int)
    ensures (k + 1) * step == k * step + step
{
    assert((k + 1) * step == k * step + step) by (nonlinear_arith);
}

//@extract fn bigtools/src/bbi/bigwigread.rs get_block_values
//@rule R4 min=6
//@rule R6 min=1
//@presub /<R: BBIFileRead>\(\s*bigwig: &mut BigWigRead<R>,/ => (\n    endianness: Endianness,\n    data: Vec<u8>,
//@presub /let data = bigwig\.read\.get_block_data\(&bigwig\.info, &block\)\?;\s*let mut bytes = BytesMut::with_capacity\(data\.len\(\)\);\s*bytes\.extend_from_slice\(&data\);/ => let mut bytes = Cur::from_vec(&data);
//@presub /match bigwig\.info\.header\.endianness \{/ => match endianness { min=4
//@presub /BBIReadError::InvalidFile\(format!\(\s*"[^"]*",\s*section_type\s*\)\)/ => BBIReadError::invalid_file()
//@sub /Option<std::vec::IntoIter<Value>>/ => Option<Vec<Value>>
//@sub /Ok\(Some\(values\.into_iter\(\)\)\)/ => Ok(Some(values))
//@sub /let block_item_data: &\[u8; 12\] = bytes\[(\w+)\.\.\w+ \+ 12\]\.try_into\(\)\.unwrap\(\);/ => let block_item_data: [u8; 12] = arr12(&bytes, \1);
//@sub /assert\(bytes\.len\(\) >= / => assert(bytes.rem().len() >=
//@sub /(value\.\w+)\.(max|min)\((\w+)\)/ => \2_u32(\1, \3) min=6
//@sub /for _ in 0\.\.item_count/ => for k in 0..item_count min=2
//@ret r
//@sig
    requires
        [[L: pre_header_present]]
        data@.len() >= 24,
        [[L: pre_well_formed_items]]
        hdr_chrom(is_big(endianness), data@) == chrom ==> wf_items(is_big(endianness), data@),
        [[L: pre_known_offset_no_overflow]]
        block.offset + block.size <= u64::MAX,
    ensures
        [[L: other_chromosome_gives_none]]
        hdr_chrom(is_big(endianness), data@) != chrom ==> r matches Ok(None),
        [[L: unknown_section_type_is_error]]
        hdr_chrom(is_big(endianness), data@) == chrom && !(1 <= hdr_type(data@) <= 3) ==> r is Err,
        [[L: exactly_overlapping_clipped_in_order]]
        hdr_chrom(is_big(endianness), data@) == chrom && 1 <= hdr_type(data@) <= 3 ==>
            (r matches Ok(Some(v)) && v@ == filter_clip(raw_items(is_big(endianness), data@), start, end)),
        [[L: known_offset_is_block_end_on_success]]
        (r matches Ok(Some(_))) ==> *final(known_offset) == block.offset + block.size,
        [[L: known_offset_untouched_otherwise]]
        !(r matches Ok(Some(_))) ==> *final(known_offset) == *old(known_offset),
//@at /let mut bytes_header = bytes\.split_to\(24\);/ before
    let ghost big = is_big(endianness);
    let ghost d = data@;
    let ghost raw = raw_items(big, d);
//@at /let mut values: Vec<Value> = Vec::with_capacity/ before
    proof {
        assert(chrom_id == hdr_chrom(big, d)); [[L: header/chrom_id]]
        assert(chrom_start == hdr_start(big, d)); [[L: header/chrom_start]]
        assert(item_step == hdr_step(big, d)); [[L: header/item_step]]
        assert(item_span == hdr_span(big, d)); [[L: header/item_span]]
        assert(section_type == hdr_type(d)); [[L: header/section_type]]
        assert(item_count == hdr_count(big, d)); [[L: header/item_count]]
        assert(bytes.rem() == d.subrange(24, d.len() as int));
    }
//@loop 1
                invariant
                    [[L: loop1/frame]]
                    big == is_big(endianness), d == data@, raw == raw_items(big, d), d.len() >= 24,
                    hdr_type(d) == 1, item_count == hdr_count(big, d), 24 + 12 * item_count <= d.len(),
                    bytes.rem() == d.subrange(24, d.len() as int),
                    [[L: loop1/prefix_filtered]]
                    values@ == filter_clip(raw.subrange(0, i as int), start, end),
//@at /let mut value = Value \{/ nth=1 before
                proof {
                    let b = block_item_data@;
                    assert(b[0] == d[24 + 12 * i] && b[1] == d[24 + 12 * i + 1] && b[2] == d[24 + 12 * i + 2] && b[3] == d[24 + 12 * i + 3]);
                    assert(b[4] == d[24 + 12 * i + 4] && b[5] == d[24 + 12 * i + 5] && b[6] == d[24 + 12 * i + 6] && b[7] == d[24 + 12 * i + 7]);
                    assert(b[8] == d[24 + 12 * i + 8] && b[9] == d[24 + 12 * i + 9] && b[10] == d[24 + 12 * i + 10] && b[11] == d[24 + 12 * i + 11]);
                    assert(raw[i as int] == raw1(big, d, i as int));
                    assert(chrom_start == raw[i as int].start && chrom_end == raw[i as int].end && value == raw[i as int].value); [[L: loop1/item_decoded_at_24_plus_12i]]
                    lemma_fc_step(raw, i as int, start, end);
                }
//@loop 2
                invariant
                    [[L: loop2/frame]]
                    big == is_big(endianness), d == data@, raw == raw_items(big, d), d.len() >= 24,
                    hdr_type(d) == 2, item_count == hdr_count(big, d), item_span == hdr_span(big, d),
                    wf_items(big, d),
                    [[L: loop2/cursor_position]]
                    bytes.rem() == d.subrange(24 + 8 * k, d.len() as int),
                    [[L: loop2/prefix_filtered]]
                    values@ == filter_clip(raw.subrange(0, k as int), start, end),
//@at /let chrom_end = chrom_start \+ item_/ nth=1 before
                proof {
                    assert(raw[k as int] == raw2(big, d, k as int));
                    assert(chrom_start == d32(big, d, 24 + 8 * k)); [[L: loop2/start_decoded_at_24_plus_8k]]
                    assert(value == raw[k as int].value); [[L: loop2/value_decoded]]
                    assert(bytes.rem() == d.subrange(24 + 8 * (k + 1), d.len() as int));
                }
//@at /let mut value = Value \{/ nth=2 before
                proof {
                    assert(chrom_start == raw[k as int].start && chrom_end == raw[k as int].end && value == raw[k as int].value); [[L: loop2/item_is_start_plus_span]]
                    lemma_fc_step(raw, k as int, start, end);
                }
//@loop 3
                invariant
                    [[L: loop3/frame]]
                    big == is_big(endianness), d == data@, raw == raw_items(big, d), d.len() >= 24,
                    hdr_type(d) == 3, item_count == hdr_count(big, d), item_span == hdr_span(big, d),
                    item_step == hdr_step(big, d),
                    wf_items(big, d),
                    [[L: loop3/cursor_position]]
                    bytes.rem() == d.subrange(24 + 4 * k, d.len() as int),
                    [[L: loop3/curr_start_is_start_plus_k_steps]]
                    curr_start == fixed_start(big, d, k as int),
                    [[L: loop3/prefix_filtered]]
                    values@ == filter_clip(raw.subrange(0, k as int), start, end),
//@at /let chrom_start = curr_start;/ before
                proof {
                    assert(raw[k as int] == raw3(big, d, k as int));
                    assert(value == raw[k as int].value); [[L: loop3/value_decoded_at_24_plus_4k]]
                    assert(bytes.rem() == d.subrange(24 + 4 * (k + 1), d.len() as int));
                    lemma_step_mul(k as int, hdr_step(big, d));
                    assert(fixed_start(big, d, k + 1) == fixed_start(big, d, k as int) + hdr_step(big, d));
                }
//@at /let mut value = Value \{/ nth=3 before
                proof {
                    assert(chrom_start == raw[k as int].start && chrom_end == raw[k as int].end && value == raw[k as int].value); [[L: loop3/item_is_kth_step_plus_span]]
                    lemma_fc_step(raw, k as int, start, end);
                }
//@at /\*known_offset = block\.offset \+ block\.size;/ before
    proof {
        assert(raw.subrange(0, raw.len() as int) =~= raw);
    }
//@end

} // verus!
fn main() {}
