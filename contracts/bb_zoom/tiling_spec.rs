// ---------------- tiling vocabulary + lemmas: same text as contracts/bw_zoom (C07), history := flushed depth segments ----
// (only change: the open record is `live_of(z)`, closing overwrites total_items: `closed_rec`)
/// number of bases of [vs,ve) inside [a,b)
spec fn ov(vs: int, ve: int, a: int, b: int) -> int {
    let lo = imax(vs, a); let hi = imin(ve, b); if hi > lo { hi - lo } else { 0 }
}
/// number of data bases of the value sequence h inside [a,b)
spec fn cov(h: Seq<Value>, a: int, b: int) -> int
    decreases h.len()
{
    if h.len() == 0 { 0 } else { cov(h.drop_last(), a, b) + ov(h.last().start as int, h.last().end as int, a, b) }
}
/// total number of data bases
spec fn tot(h: Seq<Value>) -> int
    decreases h.len()
{
    if h.len() == 0 { 0 } else { tot(h.drop_last()) + (h.last().end - h.last().start) }
}
spec fn sum_bc(r: Seq<ZoomRecord>) -> int
    decreases r.len()
{
    if r.len() == 0 { 0 } else { sum_bc(r.drop_last()) + r.last().summary.bases_covered as int }
}
/// accepted input so far on this chromosome: start <= end, sorted, non-overlapping
spec fn hist_ok(h: Seq<Value>) -> bool {
    &&& forall|i: int| 0 <= i < h.len() ==> (#[trigger] h[i]).start <= h[i].end
    &&& forall|i: int, j: int| 0 <= i < j < h.len() ==> (#[trigger] h[i]).end <= (#[trigger] h[j]).start
}
/// every positive-length value of h ends at or before m
spec fn ends_by(h: Seq<Value>, m: int) -> bool {
    forall|i: int| 0 <= i < h.len() ==> ((#[trigger] h[i]).start < h[i].end ==> h[i].end <= m)
}
/// closed records (already emitted ++ pending in `records`)
spec fn closed_of(z: ZoomItem) -> Seq<ZoomRecord> { z.channel.log() + z.records@ }
/// the open record (bigBed keeps it as a pair (record, item count))
spec fn live_of(z: ZoomItem) -> Option<ZoomRecord> { match z.live_info { Some(t) => Some(t.0), None => None } }
/// what is pushed when the open record is closed: its total_items is overwritten by the pair's count
spec fn closed_rec(l: ZoomRecord, n: u64) -> ZoomRecord {
    ZoomRecord { chrom: l.chrom, start: l.start, end: l.end, summary: Summary { total_items: n, bases_covered: l.summary.bases_covered, min_val: l.summary.min_val, max_val: l.summary.max_val, sum: l.summary.sum, sum_squares: l.summary.sum_squares } }
}

/// one finished record against the data: the C07 per-record clauses.
/// `cs, cf`: the part [cs, cf) of the value currently being added (cs == cf when none).
spec fn rec_ok(r: ZoomRecord, h: Seq<Value>, cs: int, cf: int, size: int, chrom: u32) -> bool {
    &&& r.start < r.end
    &&& r.end - r.start <= size
    &&& r.chrom == chrom
    &&& r.end <= cf
    &&& r.summary.bases_covered as int == cov(h, r.start as int, r.end as int) + ov(cs, cf, r.start as int, r.end as int)
}
spec fn closed_ok(c: Seq<ZoomRecord>, h: Seq<Value>, cs: int, cf: int, size: int, chrom: u32) -> bool {
    &&& forall|i: int| 0 <= i < c.len() ==> rec_ok(#[trigger] c[i], h, cs, cf, size, chrom)
    &&& forall|i: int| 0 <= i < c.len() - 1 ==> (#[trigger] c[i]).end <= c[i + 1].start
}
/// arithmetic facts about the open record (kept transparent: the code's overflow checks need them)
spec fn live_bounds(live: Option<ZoomRecord>, size: u32, cf: int, items_bound: int) -> bool {
    live.is_some() ==> {
        let l = live.unwrap();
        &&& l.start < l.end
        &&& l.end < l.start + size
        &&& l.end <= cf
        &&& l.start as int + size as int <= u32::MAX as int
        &&& l.summary.bases_covered <= l.end - l.start
        &&& l.summary.total_items <= items_bound
    }
}
/// the data-dependent part of the invariant (opaque to the loop body; handled by the lemmas below)
#[verifier::opaque]
spec fn deep(c: Seq<ZoomRecord>, live: Option<ZoomRecord>, h: Seq<Value>, cs: int, cf: int, size: int, chrom: u32) -> bool {
    &&& closed_ok(c, h, cs, cf, size, chrom)
    &&& live.is_some() ==> {
        let l = live.unwrap();
        &&& l.chrom == chrom
        &&& (l.end == cf || cf == cs)
        &&& ends_by(h, l.end as int)
        &&& (c.len() > 0 ==> c.last().end <= l.start)
        &&& l.summary.bases_covered as int == cov(h, l.start as int, l.end as int) + ov(cs, cf, l.start as int, l.end as int)
    }
    &&& sum_bc(c) + (if live.is_some() { live.unwrap().summary.bases_covered as int } else { 0 }) == tot(h) + (cf - cs)
}
/// C07 state invariant of one zoom level after the values `h` (+ the part [cs,cf) of the current one)
spec fn zoom_ok(z: ZoomItem, h: Seq<Value>, cs: int, cf: int, chrom: u32, ips: int, items_bound: int) -> bool {
    &&& z.size > 0
    &&& live_bounds(live_of(z), z.size, cf, items_bound)
    &&& deep(closed_of(z), live_of(z), h, cs, cf, z.size as int, chrom)
    &&& forall|i: int| 0 <= i < z.channel.batches().len() ==> 1 <= #[trigger] z.channel.batches()[i] <= ips
}

// ---------------- lemmas ----------------
proof fn lemma_ends_by_drop(h: Seq<Value>, m: int)
    requires ends_by(h, m), h.len() > 0,
    ensures ends_by(h.drop_last(), m),
{
    assert forall|i: int| 0 <= i < h.drop_last().len() implies ((#[trigger] h.drop_last()[i]).start < h.drop_last()[i].end ==> h.drop_last()[i].end <= m) by {
        assert(h.drop_last()[i] == h[i]);
    }
}
proof fn lemma_cov_extend(h: Seq<Value>, a: int, b: int, b2: int, m: int)
    requires ends_by(h, m), m <= b, m <= b2,
    ensures cov(h, a, b) == cov(h, a, b2),
    decreases h.len(),
{
    if h.len() > 0 {
        lemma_ends_by_drop(h, m);
        lemma_cov_extend(h.drop_last(), a, b, b2, m);
        let _ = h[h.len() - 1];
    }
}
proof fn lemma_cov_zero_after(h: Seq<Value>, a: int, b: int, m: int)
    requires ends_by(h, m), m <= a,
    ensures cov(h, a, b) == 0,
    decreases h.len(),
{
    if h.len() > 0 {
        lemma_ends_by_drop(h, m);
        lemma_cov_zero_after(h.drop_last(), a, b, m);
        let _ = h[h.len() - 1];
    }
}
proof fn lemma_sum_bc_push(c: Seq<ZoomRecord>, r: ZoomRecord)
    ensures sum_bc(c.push(r)) == sum_bc(c) + r.summary.bases_covered as int,
{
    assert(c.push(r).drop_last() =~= c);
}
proof fn lemma_hist_ends_by(h: Seq<Value>, v: Value)
    requires hist_ok(h.push(v)),
    ensures ends_by(h, v.start as int), hist_ok(h), v.start <= v.end,
{
    let hp = h.push(v);
    assert(hp[h.len() as int] == v);
    assert forall|i: int| 0 <= i < h.len() implies ((#[trigger] h[i]).start < h[i].end ==> h[i].end <= v.start) by {
        assert(hp[i] == h[i]);
    }
    assert forall|i: int| 0 <= i < h.len() implies (#[trigger] h[i]).start <= h[i].end by { assert(hp[i] == h[i]); }
    assert forall|i: int, j: int| 0 <= i < j < h.len() implies (#[trigger] h[i]).end <= (#[trigger] h[j]).start by {
        assert(hp[i] == h[i]); assert(hp[j] == h[j]);
    }
}
proof fn lemma_ends_by_push(h: Seq<Value>, v: Value, m: int)
    requires ends_by(h, m), v.start < v.end ==> v.end <= m,
    ensures ends_by(h.push(v), m),
{
    assert forall|i: int| 0 <= i < h.push(v).len() implies ((#[trigger] h.push(v)[i]).start < h.push(v)[i].end ==> h.push(v)[i].end <= m) by {
        if i < h.len() { assert(h.push(v)[i] == h[i]); }
    }
}
/// start of a value: nothing of it has been added yet
proof fn lemma_start_value(c: Seq<ZoomRecord>, live: Option<ZoomRecord>, h: Seq<Value>, pe: int, cs: int, size: int, chrom: u32)
    requires deep(c, live, h, pe, pe, size, chrom), pe <= cs,
    ensures deep(c, live, h, cs, cs, size, chrom),
{
    reveal(deep);
    assert forall|i: int| 0 <= i < c.len() implies rec_ok(#[trigger] c[i], h, cs, cs, size, chrom) by {
        assert(rec_ok(c[i], h, pe, pe, size, chrom));
    }
}
/// end of a value v: the finished part [v.start, v.end) is folded into the history
proof fn lemma_finish_value(c: Seq<ZoomRecord>, live: Option<ZoomRecord>, h: Seq<Value>, v: Value, size: int, chrom: u32)
    requires deep(c, live, h, v.start as int, v.end as int, size, chrom), v.start <= v.end, ends_by(h, v.start as int),
        live.is_some() ==> live.unwrap().end <= v.end,
    ensures deep(c, live, h.push(v), v.end as int, v.end as int, size, chrom),
{
    reveal(deep);
    assert(h.push(v).drop_last() =~= h);
    assert(h.push(v).last() == v);
    assert forall|i: int| 0 <= i < c.len() implies rec_ok(#[trigger] c[i], h.push(v), v.end as int, v.end as int, size, chrom) by {
        assert(rec_ok(c[i], h, v.start as int, v.end as int, size, chrom));
    }
    if live.is_some() {
        lemma_ends_by_push(h, v, live.unwrap().end as int);
    }
}
/// an emitted batch moves records from `records` to the stream: the closed sequence is unchanged
/// closing the open record
proof fn lemma_close_live(c: Seq<ZoomRecord>, l: ZoomRecord, h: Seq<Value>, cs: int, cf: int, size: u32, chrom: u32, ib: int)
    requires deep(c, Some(l), h, cs, cf, size as int, chrom), live_bounds(Some(l), size, cf, ib),
    ensures deep(c.push(l), None, h, cs, cf, size as int, chrom),
{
    reveal(deep);
    lemma_sum_bc_push(c, l);
    let c2 = c.push(l);
    assert forall|i: int| 0 <= i < c2.len() implies rec_ok(#[trigger] c2[i], h, cs, cf, size as int, chrom) by {
        if i < c.len() { assert(c2[i] == c[i]); }
    }
    assert forall|i: int| 0 <= i < c2.len() - 1 implies (#[trigger] c2[i]).end <= c2[i + 1].start by {
        if i < c.len() - 1 { assert(c2[i] == c[i]); assert(c2[i + 1] == c[i + 1]); }
    }
}
/// what one tiling step does to the open record, transcribed as a relation:
/// `base` = the open record or a fresh one at a0; a1 = min(base.start+size, ce);
/// if a1 > a0 the record is extended to a1 and gains a1-a0 bases; otherwise (its window ends at or
/// before the segment start) it is left alone -- it must not absorb anything of a segment outside its span.
spec fn step_rel(live0: Option<ZoomRecord>, l1: ZoomRecord, a0: int, a1: int, ce: int, size: int, chrom: u32) -> bool {
    let fresh = live0.is_none();
    let bs = if fresh { a0 } else { live0.unwrap().start as int };
    let be = if fresh { a0 } else { live0.unwrap().end as int };
    let bbc = if fresh { 0 } else { live0.unwrap().summary.bases_covered as int };
    let bch = if fresh { chrom } else { live0.unwrap().chrom };
    &&& a1 == imin(bs + size, ce)
    &&& l1.start == bs
    &&& l1.chrom == bch
    &&& (a1 > a0 ==> l1.end == a1 && l1.summary.bases_covered as int == bbc + (a1 - a0))
    &&& (a1 <= a0 ==> l1.end == be && l1.summary.bases_covered as int == bbc)
}
proof fn lemma_step(c: Seq<ZoomRecord>, live0: Option<ZoomRecord>, l1: ZoomRecord, h: Seq<Value>, cs: int, a0: int, a1: int, ce: int, size: u32, chrom: u32, ib: int)
    requires
        deep(c, live0, h, cs, a0, size as int, chrom), live_bounds(live0, size, a0, ib),
        size > 0, cs <= a0 < ce, ends_by(h, cs),
        step_rel(live0, l1, a0, a1, ce, size as int, chrom),
    ensures
        ({
            let nf = imax(a1, cs);
            let bs = l1.start as int;
            &&& a0 <= nf <= ce
            &&& (a1 == bs + size ==> deep(c.push(l1), None, h, cs, nf, size as int, chrom))
            &&& (a1 != bs + size ==> deep(c, Some(l1), h, cs, nf, size as int, chrom) && nf == ce && l1.start < l1.end && l1.end < l1.start + size && l1.end <= nf)
            &&& (live0.is_none() ==> nf > a0)
            &&& l1.summary.bases_covered <= l1.end - l1.start
        }),
{
    reveal(deep);
    let nf = imax(a1, cs);
    let bs = l1.start as int;
    if live0.is_none() {
        lemma_cov_zero_after(h, a0, a0, cs);
        lemma_cov_zero_after(h, a0, a1, cs);
    } else {
        let l0 = live0.unwrap();
        if a1 >= a0 {
            lemma_cov_extend(h, l0.start as int, l0.end as int, a1, l0.end as int);
        }
    }
    assert forall|i: int| 0 <= i < c.len() implies rec_ok(#[trigger] c[i], h, cs, nf, size as int, chrom) by {
        assert(rec_ok(c[i], h, cs, a0, size as int, chrom));
    }
    if a1 == bs + size {
        lemma_sum_bc_push(c, l1);
        let c2 = c.push(l1);
        assert forall|i: int| 0 <= i < c2.len() implies rec_ok(#[trigger] c2[i], h, cs, nf, size as int, chrom) by {
            if i < c.len() { assert(c2[i] == c[i]); }
        }
        assert forall|i: int| 0 <= i < c2.len() - 1 implies (#[trigger] c2[i]).end <= c2[i + 1].start by {
            if i < c.len() - 1 { assert(c2[i] == c[i]); assert(c2[i + 1] == c[i + 1]); }
            else { assert(c2[i] == c[i]); assert(rec_ok(c[i], h, cs, a0, size as int, chrom)); }
        }
    } else {
        assert(ends_by(h, l1.end as int));
    }
}

/// closing pushes the record with its total_items overwritten: nothing the tiling contract looks at changes
proof fn lemma_closed_rec(c: Seq<ZoomRecord>, l: ZoomRecord, n: u64, h: Seq<Value>, cs: int, cf: int, size: int, chrom: u32)
    requires deep(c.push(l), None, h, cs, cf, size, chrom),
    ensures deep(c.push(closed_rec(l, n)), None, h, cs, cf, size, chrom),
{
    reveal(deep);
    let c1 = c.push(l);
    let c2 = c.push(closed_rec(l, n));
    lemma_sum_bc_push(c, l);
    lemma_sum_bc_push(c, closed_rec(l, n));
    assert forall|i: int| 0 <= i < c2.len() implies rec_ok(#[trigger] c2[i], h, cs, cf, size, chrom) by {
        assert(rec_ok(c1[i], h, cs, cf, size, chrom));
        if i < c.len() { assert(c2[i] == c[i]); assert(c1[i] == c[i]); }
    }
    assert forall|i: int| 0 <= i < c2.len() - 1 implies (#[trigger] c2[i]).end <= c2[i + 1].start by {
        assert(c1[i].end <= c1[i + 1].start);
        assert(c2[i] == c[i]); assert(c1[i] == c[i]);
        if i + 1 < c.len() { assert(c2[i + 1] == c[i + 1]); assert(c1[i + 1] == c[i + 1]); }
    }
}
/// every value of h ends at or before m (zero-length ones included)
spec fn before(h: Seq<Value>, m: int) -> bool {
    forall|i: int| 0 <= i < h.len() ==> (#[trigger] h[i]).end <= m
}
proof fn lemma_hist_push(h: Seq<Value>, v: Value)
    requires hist_ok(h), before(h, v.start as int), v.start <= v.end,
    ensures hist_ok(h.push(v)), before(h.push(v), v.end as int), ends_by(h, v.start as int),
{
    let hp = h.push(v);
    assert forall|i: int| 0 <= i < hp.len() implies (#[trigger] hp[i]).start <= hp[i].end by {
        if i < h.len() { assert(hp[i] == h[i]); }
    }
    assert forall|i: int, j: int| 0 <= i < j < hp.len() implies (#[trigger] hp[i]).end <= (#[trigger] hp[j]).start by {
        assert(hp[i] == h[i]);
        if j < h.len() { assert(hp[j] == h[j]); }
    }
    assert forall|i: int| 0 <= i < hp.len() implies (#[trigger] hp[i]).end <= v.end by {
        if i < h.len() { assert(hp[i] == h[i]); }
    }
}
proof fn lemma_before_mono(h: Seq<Value>, m: int, m2: int)
    requires before(h, m), m <= m2,
    ensures before(h, m2), ends_by(h, m2), ends_by(h, m),
{
}
