// Kani harnesses for unit asql_tok: the autoSql tokenizer `mod parser` in bigtools/src/bed/autosql.rs
// (take_whitespace, peek_word_internal, peek_one, peek_quoted_string, take and the eat_* wrappers).
// Injected as `#[cfg(kani)] mod verif_kani_asql_tok` INSIDE `pub mod parse { mod parser { .. } }`
// (kani.toml: module_path) because `parser` is private to `parse`; the real methods are called.
//
// BOUNDED (kind = "bounded"): input strings of length <= L over ALPHABET (spec.rs), every length,
// every content, and EVERY wf cursor state (0 <= pos <= end <= len), one method call per harness.
// That is the one-step inductive form of A1: from any wf state each method re-establishes wf and its
// clause, so by induction every call sequence from `Parser::of` (pos = end = 0) does.
// Unwinding assertions on: the tokenizer's loops exit within the bound for these inputs.

include!("spec.rs");

/// quick tier: L = 4; thorough tier: L = 6 (kani.toml states the bound per harness)
fn one_call<const L: usize>(m: Method) {
    let mut bytes = [b'a'; L];
    let mut i = 0;
    while i < L {
        let k: u8 = kani::any();
        kani::assume((k as usize) < ALPHABET.len());
        bytes[i] = ALPHABET[k as usize];
        i += 1;
    }
    let len: usize = kani::any();
    let pos: usize = kani::any();
    let end: usize = kani::any();
    kani::assume(len <= L);
    kani::assume(wf(pos, end, len));
    kani::cover!(true, "reach_one_call");
    // ASCII only, so every index is a char boundary and the bytes are valid UTF-8
    let data: &str = unsafe { std::str::from_utf8_unchecked(&bytes[..len]) };
    let mut p = super::Parser { data, start_cursor: pos, end_cursor: end };
    let v = call_and_check(m, &mut p);
    assert!(!v[0], "A1/wf': pos' <= end' <= len");
    assert!(!v[1], "A1/pos' >= pos");
    assert!(!v[2], "A1/cursor-token relation");
    assert!(!v[3], "A1/emptiness clause");
    assert!(!v[4], "A1/end-of-input or whitespace clause");
    assert!(!v[5], "A1/eat: token is the tail of the consumed input");
    assert!(!v[6], "A1/one: exactly one character");
    assert!(!v[7], "A1/word token shape");
}

// `Parser::of`: pos = end = 0, wf for every string
#[kani::proof]
#[kani::unwind(9)]
fn asql_tok_of() {
    const L: usize = 6;
    let mut bytes = [b'a'; L];
    let mut i = 0;
    while i < L {
        let k: u8 = kani::any();
        kani::assume((k as usize) < ALPHABET.len());
        bytes[i] = ALPHABET[k as usize];
        i += 1;
    }
    let len: usize = kani::any();
    kani::assume(len <= L);
    kani::cover!(true, "reach_of");
    let data: &str = unsafe { std::str::from_utf8_unchecked(&bytes[..len]) };
    let p = super::Parser::of(data);
    assert!(p.start_cursor == 0 && p.end_cursor == 0 && p.data.len() == len, "A1/of: pos == end == 0, len == |data|");
}

macro_rules! asql_tok_harness {
    ($name:ident, $l:expr, $u:expr, $m:expr) => {
        #[kani::proof]
        #[kani::unwind($u)]
        fn $name() {
            one_call::<$l>($m)
        }
    };
}
// quick tier: strings of length <= 4 (unwind 6 = L + 2: the longest tokenizer loop makes L + 1 iterations)
asql_tok_harness!(asql_tok_take, 4, 6, Method::Take);
asql_tok_harness!(asql_tok_peek_word, 4, 6, Method::PeekWord);
asql_tok_harness!(asql_tok_eat_word, 4, 6, Method::EatWord);
asql_tok_harness!(asql_tok_peek_one, 4, 6, Method::PeekOne);
asql_tok_harness!(asql_tok_eat_one, 4, 6, Method::EatOne);
asql_tok_harness!(asql_tok_peek_quoted, 4, 6, Method::PeekQuoted);
asql_tok_harness!(asql_tok_eat_quoted, 4, 6, Method::EatQuoted);
// thorough tier: strings of length <= 6
asql_tok_harness!(asql_tok_take_l6, 6, 8, Method::Take);
asql_tok_harness!(asql_tok_peek_word_l6, 6, 8, Method::PeekWord);
asql_tok_harness!(asql_tok_eat_word_l6, 6, 8, Method::EatWord);
asql_tok_harness!(asql_tok_peek_one_l6, 6, 8, Method::PeekOne);
asql_tok_harness!(asql_tok_eat_one_l6, 6, 8, Method::EatOne);
asql_tok_harness!(asql_tok_peek_quoted_l6, 6, 8, Method::PeekQuoted);
asql_tok_harness!(asql_tok_eat_quoted_l6, 6, 8, Method::EatQuoted);
