// utils::file::split_file_into_chunks_by_size.  The property (C18, last clause): size-based
// chunking cuts only at line starts and covers the file exactly once.
use vstd::prelude::*;
verus! {

// ---------------- specification vocabulary (written from the property) ----------------
/// the file is a byte sequence `c`; a line ends with b'\n' (10) or at EOF.
/// position of the first byte after the line that contains byte p (0 <= p < |c|): this is
/// what `BufRead::read_line` consumes up to when started at p.
/// (opaque: the loop proof uses it only through lemma_nls; unfolding the recursion there made the query unstable)
#[verifier::opaque]
pub open spec fn nls(c: Seq<u8>, p: int) -> int
    decreases c.len() - p
{
    if p < 0 || p >= c.len() { c.len() as int }
    else if c[p] == 10u8 { p + 1 }
    else { nls(c, p + 1) }
}
/// p is the offset of the first byte of a line
pub open spec fn is_line_start(c: Seq<u8>, p: int) -> bool {
    p == 0 || (0 < p <= c.len() && c[p - 1] == 10u8)
}
/// a legal place to cut: a line start or EOF (EOF is not a line start when the last line has no '\n')
pub open spec fn is_cut(c: Seq<u8>, p: int) -> bool {
    is_line_start(c, p) || p == c.len()
}
proof fn lemma_nls(c: Seq<u8>, p: int)
    requires 0 <= p < c.len(),
    ensures
        p < nls(c, p) <= c.len(),
        is_cut(c, nls(c, p)),
        // it is the *next* cut: no line start strictly between p and nls(c, p)
        forall|q: int| p < q < nls(c, p) ==> !is_line_start(c, q),
    decreases c.len() - p,
{
    reveal_with_fuel(nls, 2);
    if c[p] == 10u8 {
        assert(nls(c, p) == p + 1);
    } else if p + 1 < c.len() {
        lemma_nls(c, p + 1);
        assert(nls(c, p) == nls(c, p + 1));
    } else {
        assert(nls(c, p + 1) == c.len());
        assert(nls(c, p) == c.len());
    }
}

// ---------------- shims (assumed; listed in NOTES.md) ----------------
pub struct IoError { _p: u8 }

/// R11 shim for `std::fs::File` wrapped in `io::BufReader`: a fixed byte sequence and a cursor.
#[verifier::external_body]
pub struct VLines { _p: u8 }
impl VLines {
    /// file content (assumed not to change during the call)
    pub uninterp spec fn content(&self) -> Seq<u8>;
    /// logical read position (BufReader buffering is transparent); may exceed the size after a seek
    pub uninterp spec fn pos(&self) -> int;

    /// `f.metadata()?.len()`
    #[verifier::external_body]
    fn metadata_len(&self) -> (r: Result<u64, IoError>)
        ensures r is Ok ==> r->Ok_0 as int == self.content().len(),
    { unimplemented!() }

    /// `seek(SeekFrom::Start(x))`: any x is allowed (also beyond EOF); may fail
    #[verifier::external_body]
    fn seek_start(&mut self, x: u64) -> (r: Result<u64, IoError>)
        ensures
            final(self).content() == old(self).content(),
            r is Ok ==> final(self).pos() == x as int && r->Ok_0 == x,
    { unimplemented!() }

    /// `read_line(&mut String::new())`: consumes through the next b'\n' or to EOF; at or after
    /// EOF it reads 0 bytes and the position stays.  Returns the number of bytes read.  May fail
    /// (I/O error, invalid UTF-8) -- nothing is promised then.
    #[verifier::external_body]
    fn read_line_discard(&mut self) -> (r: Result<usize, IoError>)
        ensures
            final(self).content() == old(self).content(),
            r is Ok ==> final(self).pos() == (if 0 <= old(self).pos() < old(self).content().len() { nls(old(self).content(), old(self).pos()) } else { old(self).pos() }),
            r is Ok ==> r->Ok_0 as int == final(self).pos() - old(self).pos(),
    { unimplemented!() }

    /// `BufRead::fill_buf` (not used by the code today; present so that an edit using it is judged): returns SOME
    /// non-empty prefix of what remains from the current position (how much is the buffer's business -- 8 KiB in
    /// std's BufReader), empty exactly at/after EOF; nothing is consumed.
    #[verifier::external_body]
    fn fill_buf(&mut self) -> (r: Result<VBuf, IoError>)
        ensures
            final(self).content() == old(self).content(), final(self).pos() == old(self).pos(),
            r matches Ok(b) ==> {
                &&& b@.len() <= isize::MAX
                &&& (0 <= old(self).pos() < old(self).content().len() ==> 0 < b@.len() <= old(self).content().len() - old(self).pos()
                        && b@ == old(self).content().subrange(old(self).pos(), old(self).pos() + b@.len()))
                &&& (old(self).pos() >= old(self).content().len() ==> b@.len() == 0)
            },
    { unimplemented!() }
    /// `BufRead::consume(n)`
    #[verifier::external_body]
    fn consume(&mut self, n: usize)
        ensures final(self).content() == old(self).content(), final(self).pos() == old(self).pos() + n,
    { unimplemented!() }

    /// `seek(SeekFrom::Current(0))`: reports the logical position
    #[verifier::external_body]
    fn tell(&mut self) -> (r: Result<u64, IoError>)
        ensures
            final(self).content() == old(self).content(),
            final(self).pos() == old(self).pos(),
            r is Ok ==> r->Ok_0 as int == old(self).pos(),
    { unimplemented!() }
}

/// the slice `fill_buf` hands out (owned here; borrowing the reader is irrelevant to the contract)
#[verifier::external_body]
pub struct VBuf { _p: u8 }
impl VBuf {
    pub uninterp spec fn view(&self) -> Seq<u8>;
    #[verifier::external_body]
    fn len(&self) -> (r: usize) ensures r == self@.len() { unimplemented!() }
    #[verifier::external_body]
    fn is_empty(&self) -> (r: bool) ensures r == (self@.len() == 0) { unimplemented!() }
    /// `buf.iter().position(|&b| b == X)` (REAL contract of `Iterator::position` with that predicate): index of the
    /// first byte equal to X in the WINDOW, `None` when the window has none -- nothing about what lies behind it
    #[verifier::external_body]
    fn position_eq(&self, x: u8) -> (r: Option<usize>)
        ensures
            r matches Some(i) ==> i < self@.len() && self@[i as int] == x && forall|k: int| 0 <= k < i ==> self@[k] != x,
            r is None ==> forall|k: int| 0 <= k < self@.len() ==> self@[k] != x,
    { unimplemented!() }
}

/// the loop's accumulated result so far: chunks [0,b1) [b1,b2) .. ending at `upto`, all cuts legal
spec fn prefix_ok(v: Seq<(u64, u64)>, c: Seq<u8>, upto: int) -> bool {
    &&& (v.len() == 0 ==> upto == 0)
    &&& (v.len() > 0 ==> v[0].0 == 0 && v.last().1 as int == upto)
    &&& forall|i: int| 0 <= i < v.len() - 1 ==> (#[trigger] v[i]).1 == v[i + 1].0
    &&& forall|i: int| 0 <= i < v.len() ==> is_cut(c, (#[trigger] v[i]).1 as int)
    &&& forall|i: int| 0 <= i < v.len() ==> c.len() > 0 ==> (#[trigger] v[i]).0 < v[i].1
}


// ---- shape of the balancing heuristic (from the function's doc comment, not from C18) ----
pub open spec fn imax(a: int, b: int) -> int { if a >= b { a } else { b } }
pub open spec fn imin(a: int, b: int) -> int { if a <= b { a } else { b } }
/// where the reader is after seeking to t (<= |c|) and reading one line
pub open spec fn cut_after(c: Seq<u8>, t: int) -> int { if 0 <= t < c.len() { nls(c, t) } else { t } }
/// byte offset aimed at for the end of chunk i: size/chunks for the first, afterwards two
/// chunk sizes past the start of the previous chunk, but never before the previous end nor past EOF
pub open spec fn target_of(v: Seq<(u64, u64)>, i: int, cs: int, size: int) -> int {
    if i <= 0 { cs } else { imin(imax(v[i - 1].1 as int, v[i - 1].0 + cs + cs), size) }
}
/// every chunk ends at the end of the line containing its target byte (or at EOF)
pub open spec fn targets_ok(v: Seq<(u64, u64)>, c: Seq<u8>, cs: int) -> bool {
    forall|i: int| 0 <= i < v.len() ==> (#[trigger] v[i]).1 as int == cut_after(c, target_of(v, i, cs, c.len() as int))
}

pub fn split_file_into_chunks_by_size(f: VLines, chunks: u64) -> (r: Result<Vec<(u64, u64)>, IoError>)
    requires
        
        chunks >= 1,
        2 * f.content().len() <= u64::MAX,
    ensures
        
        r is Ok ==> r->Ok_0@.len() >= 1,
        
        r is Ok ==> r->Ok_0@[0].0 == 0,
        
        r is Ok ==> forall|i: int| 0 <= i < r->Ok_0@.len() - 1 ==> (#[trigger] r->Ok_0@[i]).1 == r->Ok_0@[i + 1].0,
        
        r is Ok ==> r->Ok_0@.last().1 as int == f.content().len(),
        
        r is Ok ==> forall|i: int| 0 <= i < r->Ok_0@.len() ==> is_cut(f.content(), (#[trigger] r->Ok_0@[i]).1 as int),
        
        r is Ok && f.content().len() > 0 ==> forall|i: int| 0 <= i < r->Ok_0@.len() ==> (#[trigger] r->Ok_0@[i]).0 < r->Ok_0@[i].1,
        
        r is Ok && f.content().len() == 0 ==> r->Ok_0@ =~= seq![(0u64, 0u64)],
        
        r is Ok ==> targets_ok(r->Ok_0@, f.content(), (f.content().len() / chunks as nat) as int),
{
    let ghost c = f.content();

    let file_size = f.metadata_len()?;
    let mut file_reader = f;
    let chunk_size = file_size / chunks;
    let mut chunk_vec = Vec::with_capacity(chunks as usize);
    let mut chunk_start = 0;
    let mut chunk_end = chunk_size;
    loop 
        invariant_except_break
            
            chunk_start <= chunk_end <= file_size,
            chunk_vec@.len() > 0 ==> chunk_start < file_size,
            chunks == 1 ==> chunk_vec@.len() == 0,
        invariant
            
            file_reader.content() == c, file_size as int == c.len(),
            chunk_size == file_size / chunks,
            2 * c.len() <= u64::MAX, chunks >= 1,
            
            prefix_ok(chunk_vec@, c, chunk_start as int),
            
            targets_ok(chunk_vec@, c, chunk_size as int),
            chunk_end as int == target_of(chunk_vec@, chunk_vec@.len() as int, chunk_size as int, c.len() as int),
        ensures
            
            targets_ok(chunk_vec@, c, chunk_size as int),
            chunk_vec@.len() > 0, chunk_start == file_size,
            prefix_ok(chunk_vec@, c, chunk_start as int),
            c.len() == 0 ==> chunk_vec@.len() == 1,
        decreases
            
            file_size - chunk_start + (if chunk_vec@.len() == 0 { 1int } else { 0int }),
{

        let ghost target = chunk_end as int;
        proof {
            if target < c.len() { lemma_nls(c, target); }
        }
        file_reader.seek_start(chunk_end)?;
        file_reader.read_line_discard()?;
        let line_end = file_reader.tell()?;
        chunk_end = line_end;

        let ghost v0 = chunk_vec@;
        proof {
            assert(is_cut(c, chunk_end as int)); 
            assert(chunk_end as int == (if target < c.len() { nls(c, target) } else { target })); 
        }
        chunk_vec.push((chunk_start, chunk_end));

        proof {
            // `chunk_start + chunk_size + chunk_size` cannot overflow: with chunks >= 2 it is < 2*size,
            // with chunks == 1 this is the first (and only) iteration and chunk_start == 0
            if chunks >= 2 {
                assert(2 * (file_size / chunks) <= file_size) by (nonlinear_arith) requires chunks >= 2; 
            } else {
                assert(file_size / chunks == file_size) by (nonlinear_arith) requires chunks == 1;
            }
            let v1 = chunk_vec@;
            assert(v1 == v0.push((chunk_start, chunk_end))); 
            assert forall|i: int| 0 <= i < v1.len() - 1 implies (#[trigger] v1[i]).1 == v1[i + 1].0 by {
                if i < v0.len() - 1 { assert(v1[i] == v0[i]); assert(v1[i + 1] == v0[i + 1]); }
                else { assert(v1[i] == v0[i]); }
            }
            assert forall|i: int| 0 <= i < v1.len() implies is_cut(c, (#[trigger] v1[i]).1 as int) && (c.len() > 0 ==> v1[i].0 < v1[i].1) by {
                if i < v0.len() { assert(v1[i] == v0[i]); }
            }
            assert(prefix_ok(v1, c, chunk_end as int));
            assert forall|i: int| 0 <= i < v1.len() implies (#[trigger] v1[i]).1 as int == cut_after(c, target_of(v1, i, chunk_size as int, c.len() as int)) by {
                if i < v0.len() { assert(v1[i] == v0[i]); if i > 0 { assert(v1[i - 1] == v0[i - 1]); } }
                else if i > 0 { assert(v1[i - 1] == v0[i - 1]); }
            }
        }
        let tmp__1 = (
            chunk_end,
            chunk_end.max(chunk_start + chunk_size + chunk_size),
        );
        chunk_start = tmp__1.0;
        chunk_end = tmp__1.1;
        chunk_end = chunk_end.min(file_size);

        if chunk_start >= file_size {
            break;
        }
    }

    Ok(chunk_vec)
}

} // verus!
fn main() {}

